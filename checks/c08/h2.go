//go:build verif

package main

import (
	"context"
	"crypto/sha256"
	"crypto/tls"
	"encoding/hex"
	"fmt"
	"hash"
	"io"
	"math/rand"
	"net"
	"net/http"
	"net/url"
	"strings"
	"sync"
	"time"

	xhttp2 "golang.org/x/net/http2"
	"golang.org/x/net/http2/hpack"

	"verif/internal/h2peer"
	"verif/internal/rig"
)

// ---------------------------------------------------------------- tap

// tap sits between an HTTP/2 client and its TLS connection and decodes the
// plaintext the client writes with the independent Framer + HPACK decoder, so
// that "what the client sent" is read off the wire bytes and not off the
// client's inputs.
type tap struct {
	net.Conn
	pw *io.PipeWriter

	mu      sync.Mutex
	streams map[uint32]*tapStream
	byTag   map[string]*tapStream
	err     error
	waiters map[string]chan struct{}
}

type tapStream struct {
	sent *Sent
	h    hash.Hash
	tag  string
	done bool
}

func newTap(c net.Conn) *tap {
	pr, pw := io.Pipe()
	t := &tap{Conn: c, pw: pw, streams: map[uint32]*tapStream{}, byTag: map[string]*tapStream{}, waiters: map[string]chan struct{}{}}
	go t.parse(pr)
	return t
}

func (t *tap) Write(b []byte) (int, error) {
	n, err := t.Conn.Write(b)
	if n > 0 {
		t.pw.Write(b[:n])
	}
	return n, err
}

func (t *tap) Close() error {
	t.pw.Close()
	return t.Conn.Close()
}

func (t *tap) finish(ts *tapStream) {
	if ts.done {
		return
	}
	ts.done = true
	ts.sent.BodySHA = hex.EncodeToString(ts.h.Sum(nil))
	ts.sent.Complete = true
	if c, ok := t.waiters[ts.tag]; ok {
		close(c)
		delete(t.waiters, ts.tag)
	}
}

func (t *tap) parse(pr *io.PipeReader) {
	fail := func(err error) {
		t.mu.Lock()
		if t.err == nil {
			t.err = err
		}
		for tag, c := range t.waiters {
			close(c)
			delete(t.waiters, tag)
		}
		t.mu.Unlock()
		io.Copy(io.Discard, pr)
	}
	pre := make([]byte, len(h2peer.ClientPreface))
	if _, err := io.ReadFull(pr, pre); err != nil || string(pre) != h2peer.ClientPreface {
		fail(fmt.Errorf("no client preface: %v", err))
		return
	}
	fr := xhttp2.NewFramer(io.Discard, pr)
	fr.SetMaxReadFrameSize(1<<24 - 1)
	dec := hpack.NewDecoder(4096, nil)
	dec.SetAllowedMaxDynamicTableSize(1 << 20)
	fr.ReadMetaHeaders = dec
	fr.MaxHeaderListSize = 64 << 20
	for {
		f, err := fr.ReadFrame()
		if err != nil {
			fail(err)
			return
		}
		t.mu.Lock()
		switch f := f.(type) {
		case *xhttp2.MetaHeadersFrame:
			ts := t.streams[f.StreamID]
			if ts == nil {
				ts = &tapStream{sent: &Sent{H2: true, MinFrame: -1}, h: sha256.New()}
				for _, hf := range f.Fields {
					switch hf.Name {
					case ":method":
						ts.sent.Method = hf.Value
					case ":path":
						ts.sent.Target = hf.Value
					case ":authority":
						ts.sent.Authority = hf.Value
					case ":scheme":
					default:
						ts.sent.Fields = append(ts.sent.Fields, [2]string{hf.Name, hf.Value})
						if strings.EqualFold(hf.Name, rig.TagHeader) {
							ts.tag = hf.Value
						}
					}
				}
				ts.sent.HeaderFrames = 1
				t.streams[f.StreamID] = ts
				t.byTag[ts.tag] = ts
			}
			if f.StreamEnded() {
				t.finish(ts)
			}
		case *xhttp2.DataFrame:
			if ts := t.streams[f.StreamID]; ts != nil && !ts.done {
				d := f.Data()
				ts.h.Write(d)
				ts.sent.BodyLen += int64(len(d))
				ts.sent.DataFrames++
				if f.Flags.Has(xhttp2.FlagDataPadded) {
					ts.sent.PaddedFrames++
				}
				if len(d) == 0 {
					ts.sent.EmptyFrames++
				}
				if ts.sent.MinFrame < 0 || len(d) < ts.sent.MinFrame {
					ts.sent.MinFrame = len(d)
				}
				if len(d) > ts.sent.MaxFrame {
					ts.sent.MaxFrame = len(d)
				}
				if f.StreamEnded() {
					t.finish(ts)
				}
			}
		case *xhttp2.RSTStreamFrame:
			if ts := t.streams[f.StreamID]; ts != nil && !ts.done {
				// the client gave up: what was sent stays incomplete
				ts.done = true
				ts.sent.BodySHA = hex.EncodeToString(ts.h.Sum(nil))
				if c, ok := t.waiters[ts.tag]; ok {
					close(c)
					delete(t.waiters, ts.tag)
				}
			}
		}
		t.mu.Unlock()
	}
}

// sentFor waits until the request with the tag has been written completely.
func (t *tap) sentFor(tag string, timeout time.Duration) *Sent {
	t.mu.Lock()
	ts := t.byTag[tag]
	if (ts != nil && ts.done) || t.err != nil {
		t.mu.Unlock()
		if ts == nil {
			return nil
		}
		return ts.sent
	}
	c, ok := t.waiters[tag]
	if !ok {
		c = make(chan struct{})
		t.waiters[tag] = c
	}
	t.mu.Unlock()
	select {
	case <-c:
	case <-time.After(timeout):
	}
	t.mu.Lock()
	defer t.mu.Unlock()
	if ts := t.byTag[tag]; ts != nil && ts.done {
		return ts.sent
	}
	return nil
}

// ---------------------------------------------------------------- x/net ClientConn

type pieceReader struct {
	body    []byte
	pieces  []int
	i, off  int
	eofWith bool // return io.EOF together with the last bytes
}

func (p *pieceReader) Read(b []byte) (int, error) {
	for p.i < len(p.pieces) && p.pieces[p.i] == 0 {
		p.i++
	}
	if p.i >= len(p.pieces) {
		return 0, io.EOF
	}
	n := p.pieces[p.i]
	if n > len(b) {
		n = len(b)
	}
	copy(b, p.body[p.off:p.off+n])
	p.off += n
	p.pieces[p.i] -= n
	if p.pieces[p.i] == 0 {
		p.i++
	}
	if p.eofWith && p.off == len(p.body) {
		return n, io.EOF
	}
	return n, nil
}

func (p *pieceReader) Close() error { return nil }

func dialH2(px *rig.Proxy) (*tls.Conn, error) {
	c, _, err := rig.StdDial(px.Addr, &tls.Config{InsecureSkipVerify: true, NextProtos: []string{"h2"}, ServerName: "c08.front.example"}, nil, nil)
	if err != nil {
		return nil, err
	}
	if c.ConnectionState().NegotiatedProtocol != "h2" {
		c.Close()
		return nil, fmt.Errorf("ALPN negotiated %q", c.ConnectionState().NegotiatedProtocol)
	}
	return c, nil
}

func (w *world) failAll(cp *connPlan, from int, msg string) {
	for _, b := range cp.batches[from:] {
		for _, x := range b {
			x.mu.Lock()
			if x.got == nil {
				x.got = &Got{Err: msg}
			}
			x.mu.Unlock()
		}
	}
}

func (w *world) runH2CC(cp *connPlan, px *rig.Proxy) {
	c, err := dialH2(px)
	if err != nil {
		w.failAll(cp, 0, "dial: "+err.Error())
		return
	}
	tp := newTap(c)
	defer tp.Close()
	tr := &xhttp2.Transport{DisableCompression: true}
	cc, err := tr.NewClientConn(tp)
	if err != nil {
		w.failAll(cp, 0, "h2 client conn: "+err.Error())
		return
	}
	for _, b := range cp.batches {
		var wg sync.WaitGroup
		stop := gateWatch(b[0].b)
		for _, x := range b {
			wg.Add(1)
			go func(x *exchange) {
				defer wg.Done()
				w.h2ccExchange(cc, tp, x)
				w.done(x)
			}(x)
		}
		wg.Wait()
		stop()
	}
}

// gateWatch opens the batch gate after a generous delay even when not every
// request of the batch reached the backend (the missing ones are reported on
// their own), so that one lost request does not hold the others back.
func gateWatch(b *batch) func() {
	if b == nil {
		return func() {}
	}
	t := time.AfterFunc(60*time.Second, b.open)
	return func() { t.Stop(); b.open() }
}

func (w *world) h2ccExchange(cc *xhttp2.ClientConn, tp *tap, x *exchange) {
	s := x.s
	hdr := http.Header{}
	hasUA := false
	for _, h := range s.Headers {
		hdr[h[0]] = append(hdr[h[0]], h[1])
		if h[0] == "user-agent" {
			hasUA = true
		}
	}
	if !hasUA {
		hdr["User-Agent"] = []string{""} // suppress the client's default
	}
	hdr[strings.ToLower(rig.TagHeader)] = []string{s.Tag}
	ctx, cancel := context.WithTimeout(context.Background(), exchangeWatchdog)
	defer cancel()
	req := &http.Request{Method: s.Method, Host: s.Authority, Header: hdr, Proto: "HTTP/2.0", ProtoMajor: 2,
		URL: &url.URL{Scheme: "https", Host: s.Authority, Opaque: "//" + s.Authority + s.Target}}
	req = req.WithContext(ctx)
	if s.HasBody {
		body := bodyBytes(s.BodySeed, s.BodyLen)
		req.Body = &pieceReader{body: body, pieces: append([]int{}, s.Pieces...), eofWith: s.BodySeed&1 == 0}
		req.ContentLength = -1
		if s.DeclareCL {
			req.ContentLength = int64(s.BodyLen)
			if s.BodyLen == 0 {
				req.Body = http.NoBody
			}
		}
	}
	set := func(g *Got) {
		sent := tp.sentFor(s.Tag, 5*time.Second)
		x.mu.Lock()
		x.got, x.sent = g, sent
		x.mu.Unlock()
	}
	werr := func(stage string, err error) string {
		e := stage + ": " + err.Error()
		if ctx.Err() == context.DeadlineExceeded {
			e = "watchdog (" + exchangeWatchdog.String() + ") " + e
		}
		return e
	}
	resp, err := cc.RoundTrip(req)
	if err != nil {
		set(&Got{Err: werr("round trip", err)})
		return
	}
	hh := sha256.New()
	n, err := io.Copy(hh, resp.Body)
	resp.Body.Close()
	if err != nil {
		set(&Got{Err: werr(fmt.Sprintf("read response body after %d bytes", n), err)})
		return
	}
	set(&Got{Status: resp.StatusCode, Header: lowerHeader(resp.Header), BodyLen: n, BodySHA: hex.EncodeToString(hh.Sum(nil)), Trailer: lowerHeader(resp.Trailer)})
}

// ---------------------------------------------------------------- raw frames (h2peer)

type evQueue struct {
	mu   sync.Mutex
	cond *sync.Cond
	q    []h2peer.Event
}

func (q *evQueue) push(e h2peer.Event) {
	q.mu.Lock()
	q.q = append(q.q, e)
	q.cond.Signal()
	q.mu.Unlock()
}

func (q *evQueue) pop() h2peer.Event {
	q.mu.Lock()
	defer q.mu.Unlock()
	for len(q.q) == 0 {
		q.cond.Wait()
	}
	e := q.q[0]
	q.q = q.q[1:]
	return e
}

type rawStream struct {
	x        *exchange
	status   int
	header   map[string][]string
	trailer  map[string][]string
	gotHead  bool
	h        hash.Hash
	n        int64
	unacked  int64
	endPend  bool // HEADERS carried END_STREAM but the block is completed by a CONTINUATION
	done     chan struct{}
	finished bool
	err      string
}

type rawConn struct {
	w  *world
	p  *h2peer.Peer
	cp *connPlan

	mu        sync.Mutex
	cond      *sync.Cond
	connSend  int64
	strSend   map[uint32]int64
	srvWin    int64
	settings  bool
	dead      string
	goaway    string
	streams   map[uint32]*rawStream
	connUnack int64
	connWin   int64
}

func (rc *rawConn) finish(st *rawStream, err string) {
	if st.finished {
		return
	}
	st.finished = true
	st.err = err
	close(st.done)
}

// collect is the single consumer of the peer's receive log: flow-control
// bookkeeping for both directions and response assembly.
func (rc *rawConn) collect(q *evQueue) {
	for {
		e := q.pop()
		rc.mu.Lock()
		switch {
		case e.EOF:
			rc.dead = "connection ended: " + e.ReadErr + rc.goaway
			for _, st := range rc.streams {
				rc.finish(st, rc.dead)
			}
			rc.cond.Broadcast()
			rc.mu.Unlock()
			return
		case e.Is(xhttp2.FrameSettings) && !e.Ack():
			for _, s := range e.Settings {
				if s.ID == xhttp2.SettingInitialWindowSize {
					d := int64(s.Val) - rc.srvWin
					rc.srvWin = int64(s.Val)
					for id := range rc.strSend {
						rc.strSend[id] += d
					}
				}
			}
			rc.settings = true
			rc.cond.Broadcast()
			rc.mu.Unlock()
			rc.p.Do(func(fr *xhttp2.Framer) error { return fr.WriteSettingsAck() })
			continue
		case e.Is(xhttp2.FrameWindowUpdate):
			if e.StreamID == 0 {
				rc.connSend += int64(e.Increment)
			} else if _, ok := rc.strSend[e.StreamID]; ok {
				rc.strSend[e.StreamID] += int64(e.Increment)
			}
			rc.w.run.Add("h2raw_window_updates_received", 1)
			rc.cond.Broadcast()
		case e.Is(xhttp2.FramePing) && e.Flags&xhttp2.FlagPingAck == 0:
			d := e.PingData
			rc.mu.Unlock()
			rc.p.Do(func(fr *xhttp2.Framer) error { return fr.WritePing(true, d) })
			continue
		case e.Is(xhttp2.FrameGoAway):
			rc.dead = fmt.Sprintf("GOAWAY %v %q", e.ErrCode, e.Debug)
			rc.goaway = " [" + rc.dead + "]"
			for id, st := range rc.streams {
				if id > e.LastStreamID {
					rc.finish(st, rc.dead)
				}
			}
			rc.cond.Broadcast()
		case e.Is(xhttp2.FrameRSTStream):
			if st := rc.streams[e.StreamID]; st != nil {
				rc.finish(st, "RST_STREAM "+e.ErrCode.String())
			}
		case (e.Is(xhttp2.FrameHeaders) || e.Is(xhttp2.FrameContinuation)) && e.Headers != nil:
			st := rc.streams[e.StreamID]
			if st == nil {
				break
			}
			if e.HeadersErr != "" {
				rc.finish(st, "response header block does not decode: "+e.HeadersErr)
				break
			}
			m := map[string][]string{}
			status := 0
			for _, hf := range e.Headers {
				if hf.Name == ":status" {
					fmt.Sscanf(hf.Value, "%d", &status)
					continue
				}
				m[hf.Name] = append(m[hf.Name], hf.Value)
			}
			if !st.gotHead {
				if status >= 200 || status == 0 {
					st.gotHead, st.status, st.header = true, status, m
				}
			} else {
				st.trailer = m
			}
		case e.Is(xhttp2.FrameData):
			st := rc.streams[e.StreamID]
			var wu [][2]uint32
			rc.w.run.Add("h2raw_response_data_frames", 1)
			if e.Length > 0 {
				rc.connUnack += int64(e.Length)
				if !rc.cp.lazyWU || rc.connUnack*2 >= rc.connWin {
					wu = append(wu, [2]uint32{0, uint32(rc.connUnack)})
					rc.connUnack = 0
				}
			}
			if st != nil {
				st.h.Write(e.Data)
				st.n += int64(len(e.Data))
				st.unacked += int64(e.Length)
				if !e.EndStream() && st.unacked > 0 && (!rc.cp.lazyWU || st.unacked*2 >= int64(rc.cp.window)) {
					wu = append(wu, [2]uint32{e.StreamID, uint32(st.unacked)})
					st.unacked = 0
				}
			}
			if len(wu) > 0 {
				rc.mu.Unlock()
				rc.p.Do(func(fr *xhttp2.Framer) error {
					for _, u := range wu {
						if err := fr.WriteWindowUpdate(u[0], u[1]); err != nil {
							return err
						}
					}
					return nil
				})
				rc.w.run.Add("h2raw_window_updates_sent", int64(len(wu)))
				rc.mu.Lock()
			}
		}
		// END_STREAM on HEADERS or DATA completes the response
		if !e.EOF && (e.Is(xhttp2.FrameData) || e.Is(xhttp2.FrameHeaders)) && e.EndStream() {
			if st := rc.streams[e.StreamID]; st != nil {
				if e.Is(xhttp2.FrameHeaders) && !e.EndHeaders() {
					st.endPend = true // takes effect with the last CONTINUATION; the log gives the fields there
				} else {
					rc.finish(st, "")
				}
			}
		} else if e.Is(xhttp2.FrameContinuation) && e.EndHeaders() {
			if st := rc.streams[e.StreamID]; st != nil && st.endPend {
				rc.finish(st, "")
			}
		}
		rc.mu.Unlock()
	}
}

// waitWindow blocks until n flow-controlled bytes may be sent on the stream.
func (rc *rawConn) waitWindow(id uint32, n int64) error {
	deadline := time.Now().Add(exchangeWatchdog)
	t := time.AfterFunc(exchangeWatchdog, func() { rc.mu.Lock(); rc.cond.Broadcast(); rc.mu.Unlock() })
	defer t.Stop()
	rc.mu.Lock()
	defer rc.mu.Unlock()
	waited := false
	for rc.connSend < n || rc.strSend[id] < n {
		if rc.dead != "" {
			return fmt.Errorf("%s", rc.dead)
		}
		if !time.Now().Before(deadline) {
			return fmt.Errorf("watchdog (%s): no flow-control window for %d bytes on stream %d (conn %d, stream %d)", exchangeWatchdog, n, id, rc.connSend, rc.strSend[id])
		}
		if !waited {
			waited = true
			rc.w.run.Add("h2raw_sender_waited_for_window", 1)
		}
		rc.cond.Wait()
	}
	rc.connSend -= n
	rc.strSend[id] -= n
	return nil
}

type rawOp struct {
	st   *rawStream
	id   uint32
	kind int // 0 headers, 1 data
	data []byte
	pad  int
	end  bool
}

func (w *world) runH2Raw(cp *connPlan, px *rig.Proxy) {
	c, err := dialH2(px)
	if err != nil {
		w.failAll(cp, 0, "dial: "+err.Error())
		return
	}
	tp := newTap(c)
	defer tp.Close()
	p := h2peer.New(tp, nil)
	rc := &rawConn{w: w, p: p, cp: cp, connSend: 65535, srvWin: 65535, strSend: map[uint32]int64{}, streams: map[uint32]*rawStream{}, connWin: 65535}
	rc.cond = sync.NewCond(&rc.mu)
	q := &evQueue{}
	q.cond = sync.NewCond(&q.mu)
	go p.WaitFor(0, 24*time.Hour, func(e h2peer.Event) bool { q.push(e); return e.EOF })
	if cp.window == 0 {
		cp.window = 65535
	}
	if err := p.Preface(xhttp2.Setting{ID: xhttp2.SettingInitialWindowSize, Val: uint32(cp.window)}, xhttp2.Setting{ID: xhttp2.SettingEnablePush, Val: 0}); err != nil {
		w.failAll(cp, 0, "preface: "+err.Error())
		return
	}
	// the collector acknowledges the server's SETTINGS, which may arrive before
	// we have written anything: it must not write ahead of the client preface
	go rc.collect(q)
	// wait for the server's SETTINGS (its initial stream window applies to what we send)
	rc.mu.Lock()
	t := time.AfterFunc(30*time.Second, func() { rc.mu.Lock(); rc.cond.Broadcast(); rc.mu.Unlock() })
	start := time.Now()
	for !rc.settings && rc.dead == "" && time.Since(start) < 30*time.Second {
		rc.cond.Wait()
	}
	ok := rc.settings
	rc.mu.Unlock()
	t.Stop()
	if !ok {
		w.failAll(cp, 0, "watchdog: no SETTINGS from the server")
		return
	}
	r := rand.New(rand.NewSource(int64(cp.id)*7717 + w.run.Seed))
	next := uint32(1)
	for bi, b := range cp.batches {
		stop := gateWatch(b[0].b)
		// build per-stream op lists
		var lists [][]rawOp
		var sts []*rawStream
		for _, x := range b {
			st := &rawStream{x: x, h: sha256.New(), done: make(chan struct{})}
			id := next
			next += 2
			rc.mu.Lock()
			rc.streams[id] = st
			rc.strSend[id] = rc.srvWin
			rc.mu.Unlock()
			sts = append(sts, st)
			lists = append(lists, buildOps(x.s, st, id))
		}
		// interleave: streams are opened in id order, everything else is PRNG-chosen
		opened := 0
		var active []int
		var werr error
		for werr == nil && (opened < len(lists) || len(active) > 0) {
			var li int
			if opened < len(lists) && (len(active) == 0 || r.Intn(3) == 0) {
				li = opened
				opened++
				active = append(active, li)
			} else {
				li = active[r.Intn(len(active))]
			}
			op := lists[li][0]
			lists[li] = lists[li][1:]
			if len(lists[li]) == 0 {
				for i, a := range active {
					if a == li {
						active = append(active[:i], active[i+1:]...)
						break
					}
				}
			}
			werr = rc.write(op)
		}
		if werr != nil {
			// the server may have said why it hung up: give the reader a moment to log a GOAWAY / EOF
			rc.mu.Lock()
			t := time.AfterFunc(3*time.Second, func() { rc.mu.Lock(); rc.cond.Broadcast(); rc.mu.Unlock() })
			t0 := time.Now()
			for rc.dead == "" && time.Since(t0) < 3*time.Second {
				rc.cond.Wait()
			}
			t.Stop()
			for _, st := range sts {
				rc.finish(st, "write: "+werr.Error()+"; "+rc.dead+rc.goaway)
			}
			rc.mu.Unlock()
		}
		// collect
		for _, st := range sts {
			x := st.x
			var g *Got
			select {
			case <-st.done:
				rc.mu.Lock()
				if st.err != "" {
					g = &Got{Err: st.err}
				} else {
					g = &Got{Status: st.status, Header: st.header, BodyLen: st.n, BodySHA: hex.EncodeToString(st.h.Sum(nil)), Trailer: st.trailer}
				}
				rc.mu.Unlock()
			case <-time.After(exchangeWatchdog):
				g = &Got{Err: "watchdog (" + exchangeWatchdog.String() + ") waiting for END_STREAM"}
			}
			sent := tp.sentFor(x.s.Tag, 5*time.Second)
			x.mu.Lock()
			x.got, x.sent = g, sent
			x.mu.Unlock()
			w.done(x)
		}
		stop()
		rc.mu.Lock()
		dead := rc.dead
		rc.mu.Unlock()
		if dead != "" || werr != nil {
			w.failAll(cp, bi+1, "connection unusable after: "+dead)
			return
		}
	}
}

func buildOps(s *Spec, st *rawStream, id uint32) []rawOp {
	var ops []rawOp
	bodyEndsOnHeaders := !s.HasBody || (len(s.Pieces) == 0 && !s.EndOnEmpty)
	ops = append(ops, rawOp{st: st, id: id, kind: 0, end: bodyEndsOnHeaders})
	if bodyEndsOnHeaders {
		return ops
	}
	body := bodyBytes(s.BodySeed, s.BodyLen)
	off := 0
	for i, n := range s.Pieces {
		pad := -1
		if i < len(s.Pads) {
			pad = s.Pads[i]
		}
		last := i == len(s.Pieces)-1
		ops = append(ops, rawOp{st: st, id: id, kind: 1, data: body[off : off+n], pad: pad, end: last && !s.EndOnEmpty})
		off += n
	}
	if s.EndOnEmpty || len(s.Pieces) == 0 {
		ops = append(ops, rawOp{st: st, id: id, kind: 1, data: nil, pad: -1, end: true})
	}
	return ops
}

var padBytes [256]byte

func (rc *rawConn) write(op rawOp) error {
	s := op.st.x.s
	if op.kind == 0 {
		fields := []hpack.HeaderField{{Name: ":method", Value: s.Method}, {Name: ":scheme", Value: "https"}, {Name: ":authority", Value: s.Authority}, {Name: ":path", Value: s.Target}}
		if s.ID%3 == 1 { // pseudo-header order is free
			fields[0], fields[3] = fields[3], fields[0]
		}
		tagAt := 0
		if len(s.Headers) > 0 {
			tagAt = int(s.BodySeed>>8) % (len(s.Headers) + 1)
			if tagAt < 0 {
				tagAt = -tagAt
			}
		}
		for i, h := range s.Headers {
			if i == tagAt {
				fields = append(fields, hpack.HeaderField{Name: strings.ToLower(rig.TagHeader), Value: s.Tag})
			}
			fields = append(fields, hpack.HeaderField{Name: h[0], Value: h[1], Sensitive: h[0] == "authorization" && len(h[1])%2 == 0})
		}
		if tagAt >= len(s.Headers) {
			fields = append(fields, hpack.HeaderField{Name: strings.ToLower(rig.TagHeader), Value: s.Tag})
		}
		if s.HasBody && s.DeclareCL {
			fields = append(fields, hpack.HeaderField{Name: "content-length", Value: fmt.Sprint(s.BodyLen)})
		}
		block := rc.p.Encode(fields)
		// split into HEADERS + CONTINUATION fragments; the whole block is written under one lock
		var frags [][]byte
		rest := block
		for _, c := range s.HeaderCuts {
			if c >= len(rest) {
				break
			}
			frags = append(frags, rest[:c])
			rest = rest[c:]
		}
		// no fragment beyond 16 KiB (default SETTINGS_MAX_FRAME_SIZE)
		for len(rest) > 16384 {
			frags = append(frags, rest[:16384])
			rest = rest[16384:]
		}
		frags = append(frags, rest)
		return rc.p.Do(func(fr *xhttp2.Framer) error {
			hp := xhttp2.HeadersFrameParam{StreamID: op.id, BlockFragment: frags[0], EndStream: op.end, EndHeaders: len(frags) == 1}
			if s.HeadersPad >= 0 && len(frags[0])+s.HeadersPad+1 <= 16384 {
				hp.PadLength = uint8(s.HeadersPad)
			}
			if s.WithPriority {
				hp.Priority = xhttp2.PriorityParam{StreamDep: 0, Weight: uint8(s.ID), Exclusive: false}
			}
			if err := fr.WriteHeaders(hp); err != nil {
				return err
			}
			for i := 1; i < len(frags); i++ {
				if err := fr.WriteContinuation(op.id, i == len(frags)-1, frags[i]); err != nil {
					return err
				}
			}
			return nil
		})
	}
	fc := int64(len(op.data))
	if op.pad >= 0 {
		fc += int64(op.pad) + 1
	}
	if fc > 0 {
		if err := rc.waitWindow(op.id, fc); err != nil {
			return err
		}
	}
	return rc.p.Do(func(fr *xhttp2.Framer) error {
		if op.pad >= 0 {
			return fr.WriteDataPadded(op.id, op.end, op.data, padBytes[:op.pad])
		}
		return fr.WriteData(op.id, op.end, op.data)
	})
}
