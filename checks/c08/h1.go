//go:build verif

package main

import (
	"bufio"
	"crypto/sha256"
	"crypto/tls"
	"encoding/hex"
	"fmt"
	"io"
	"math/rand"
	"net"
	"net/http"
	"strings"
	"time"

	"verif/internal/rig"
)

func lowerHeader(h http.Header) map[string][]string {
	m := map[string][]string{}
	for k, vs := range h {
		lk := strings.ToLower(k)
		m[lk] = append(m[lk], vs...)
	}
	return m
}

// runH1 sends the exchanges of the connection one after the other on a
// keep-alive connection, as raw text.
func (w *world) runH1(cp *connPlan, px *rig.Proxy) {
	var conn net.Conn
	var br *bufio.Reader
	defer func() {
		if conn != nil {
			conn.Close()
		}
	}()
	for _, x := range cp.batches[0] {
		if conn == nil {
			c, _, err := rig.StdDial(px.Addr, &tls.Config{InsecureSkipVerify: true, NextProtos: []string{"http/1.1"}, ServerName: "c08.front.example"}, nil, nil)
			if err != nil {
				x.got = &Got{Err: "dial: " + err.Error()}
				continue
			}
			conn, br = c, bufio.NewReaderSize(c, 64<<10)
			w.run.Add("h1_connections_dialled", 1)
		}
		ok := w.h1Exchange(conn, br, x)
		w.done(x)
		if !ok || x.s.CloseConn {
			conn.Close()
			conn = nil
		}
	}
}

func (w *world) h1Exchange(conn net.Conn, br *bufio.Reader, x *exchange) bool {
	s := x.s
	r := rand.New(rand.NewSource(s.BodySeed ^ 0x5151))
	sent := &Sent{Method: s.Method, Target: s.Target, Authority: s.Authority}
	var sb strings.Builder
	fmt.Fprintf(&sb, "%s %s HTTP/1.1\r\n", s.Method, s.Target)
	// header lines: Host and tag at PRNG positions among the others
	lines := make([][2]string, 0, len(s.Headers)+4)
	lines = append(lines, s.Headers...)
	ins := func(l [2]string) {
		i := r.Intn(len(lines) + 1)
		lines = append(lines, [2]string{})
		copy(lines[i+1:], lines[i:])
		lines[i] = l
	}
	ins([2]string{rig.TagHeader, s.Tag})
	body := []byte(nil)
	chunked := false
	if s.HasBody {
		body = bodyBytes(s.BodySeed, s.BodyLen)
		if s.DeclareCL {
			ins([2]string{"Content-Length", fmt.Sprint(s.BodyLen)})
		} else {
			chunked = true
			ins([2]string{pick(r, []string{"Transfer-Encoding", "transfer-encoding"}), "chunked"})
		}
	}
	if s.CloseConn {
		ins([2]string{"Connection", "close"})
	}
	hostAt := r.Intn(len(lines) + 1)
	for i, l := range lines {
		if i == hostAt {
			fmt.Fprintf(&sb, "Host: %s\r\n", s.Authority)
		}
		sep := ": "
		if l[1] == "" || r.Intn(10) == 0 {
			sep = ":"
		}
		sb.WriteString(l[0] + sep + l[1] + "\r\n")
		sent.Fields = append(sent.Fields, l)
	}
	if hostAt == len(lines) {
		fmt.Fprintf(&sb, "Host: %s\r\n", s.Authority)
	}
	sb.WriteString("\r\n")
	h := sha256.Sum256(body)
	sent.BodyLen, sent.BodySHA = int64(len(body)), hex.EncodeToString(h[:])
	x.mu.Lock()
	x.sent = sent
	x.mu.Unlock()

	conn.SetDeadline(time.Now().Add(exchangeWatchdog))
	defer conn.SetDeadline(time.Time{})
	fail := func(stage string, err error) bool {
		e := stage + ": " + err.Error()
		if ne, ok := err.(net.Error); ok && ne.Timeout() {
			e = "watchdog (" + exchangeWatchdog.String() + ") " + e
		}
		x.mu.Lock()
		x.got = &Got{Err: e}
		x.mu.Unlock()
		return false
	}
	// the head, sometimes in several segments
	head := []byte(sb.String())
	for len(head) > 0 {
		n := len(head)
		if r.Intn(3) == 0 {
			n = 1 + r.Intn(len(head))
		}
		if _, err := conn.Write(head[:n]); err != nil {
			return fail("write head", err)
		}
		head = head[n:]
	}
	off := 0
	for _, p := range s.Pieces {
		piece := body[off : off+p]
		off += p
		if chunked {
			if p == 0 {
				continue
			}
			ext := ""
			if s.ChunkExt && r.Intn(2) == 0 {
				ext = ";c08=1"
			}
			f := "%x%s\r\n"
			if r.Intn(2) == 0 {
				f = "%X%s\r\n"
			}
			frame := append([]byte(fmt.Sprintf(f, p, ext)), piece...)
			frame = append(frame, '\r', '\n')
			if _, err := conn.Write(frame); err != nil {
				return fail("write chunk", err)
			}
		} else if p > 0 {
			if _, err := conn.Write(piece); err != nil {
				return fail("write body", err)
			}
		}
	}
	if chunked {
		if _, err := conn.Write([]byte("0\r\n\r\n")); err != nil {
			return fail("write last chunk", err)
		}
	}
	sent.Complete = true

	resp, err := http.ReadResponse(br, &http.Request{Method: s.Method})
	if err != nil {
		return fail("read response head", err)
	}
	hh := sha256.New()
	n, err := io.Copy(hh, resp.Body)
	resp.Body.Close()
	if err != nil {
		return fail(fmt.Sprintf("read response body after %d bytes", n), err)
	}
	g := &Got{Status: resp.StatusCode, Header: lowerHeader(resp.Header), BodyLen: n, BodySHA: hex.EncodeToString(hh.Sum(nil)), Trailer: lowerHeader(resp.Trailer)}
	x.mu.Lock()
	x.got = g
	x.mu.Unlock()
	return !resp.Close
}
