//go:build verif

package main

import (
	"bufio"
	"bytes"
	"context"
	"crypto/sha256"
	"crypto/tls"
	"encoding/hex"
	"fmt"
	"golang.org/x/net/http2"
	"golang.org/x/net/http2/hpack"
	"io"
	"math/rand"
	"net"
	"net/http"
	"strings"
	"sync"
	"time"
	"verif/internal/h2peer"

	"verif/internal/rig"
	"verif/internal/verdict"
)

// Two additional monitors with their own backend (added after seeded changes
// C08-A and C08-B slipped through the generated exchanges):
//
//  1. duplex uploads: a backend that starts answering BEFORE it has read the
//     request body (legal, e.g. an echo service) while the client is still
//     uploading, chunked and with Content-Length on HTTP/1.1 and on HTTP/2:
//     the backend must still receive every body byte;
//  2. long-lived HTTP/2 connection: hundreds of small uploads on ONE connection
//     (several MiB in total): every one must complete — un-returned
//     connection-level flow-control credit shows up here as a stalled upload.
func extraPhases(run *verdict.Run) {
	type got struct {
		n   int64
		sha string
	}
	var mu sync.Mutex
	recv := map[string]got{}
	mux := http.NewServeMux()
	mux.HandleFunc("/duplex", func(w http.ResponseWriter, r *http.Request) {
		// answer first, read later
		http.NewResponseController(w).EnableFullDuplex()
		w.Header().Set("X-Early", "1")
		w.WriteHeader(200)
		io.WriteString(w, "early-part;")
		if f, ok := w.(http.Flusher); ok {
			f.Flush()
		}
		h := sha256.New()
		n, _ := io.Copy(h, r.Body)
		mu.Lock()
		recv[r.Header.Get(rig.TagHeader)] = got{n, hex.EncodeToString(h.Sum(nil))}
		mu.Unlock()
		fmt.Fprintf(w, "received=%d sha=%s", n, hex.EncodeToString(h.Sum(nil)))
	})
	mux.HandleFunc("/small", func(w http.ResponseWriter, r *http.Request) {
		h := sha256.New()
		n, _ := io.Copy(h, r.Body)
		fmt.Fprintf(w, "received=%d sha=%s", n, hex.EncodeToString(h.Sum(nil)))
	})
	// responses whose header block (or trailer block) is larger than one HTTP/2 frame
	mux.HandleFunc("/bighdr", func(w http.ResponseWriter, r *http.Request) {
		q := r.URL.Query()
		n := 0
		fmt.Sscan(q.Get("n"), &n)
		val := strings.Repeat("v", 900)
		if q.Get("where") == "trailer" {
			for i := 0; i < n; i++ {
				w.Header().Add("Trailer", fmt.Sprintf("X-Big-%d", i))
			}
			w.WriteHeader(200)
			io.WriteString(w, "body")
			for i := 0; i < n; i++ {
				w.Header().Set(fmt.Sprintf("X-Big-%d", i), fmt.Sprintf("%d-%s", i, val))
			}
			return
		}
		for i := 0; i < n; i++ {
			w.Header().Set(fmt.Sprintf("X-Big-%d", i), fmt.Sprintf("%d-%s", i, val))
		}
		st := 200
		fmt.Sscan(q.Get("status"), &st)
		w.WriteHeader(st)
		if st == 200 && r.Method != "HEAD" {
			io.WriteString(w, "body")
		}
	})
	// a deterministic download of n bytes (byte i is 'a'+i%26)
	mux.HandleFunc("/dl", func(w http.ResponseWriter, r *http.Request) {
		n := 0
		fmt.Sscan(r.URL.Query().Get("n"), &n)
		b := make([]byte, n)
		for i := range b {
			b[i] = byte('a' + i%26)
		}
		w.Header().Set("Content-Type", "application/octet-stream")
		w.Write(b)
	})
	// a backend response that is cut after the header and part of the body went out
	mux.HandleFunc("/cut", func(w http.ResponseWriter, r *http.Request) {
		q := r.URL.Query()
		full, after := 0, 0
		fmt.Sscan(q.Get("full"), &full)
		fmt.Sscan(q.Get("after"), &after)
		if q.Get("cl") == "1" {
			w.Header().Set("Content-Length", fmt.Sprint(full))
		}
		w.WriteHeader(200)
		w.Write(bytes.Repeat([]byte("c"), after))
		if f, ok := w.(http.Flusher); ok {
			f.Flush()
		}
		time.Sleep(20 * time.Millisecond)
		panic(http.ErrAbortHandler) // net/http drops the connection without ending the body
	})
	ln, err := net.Listen("tcp", "127.0.0.1:0")
	if err != nil {
		run.Inconclusive("extra backend: %v", err)
		return
	}
	srv := &http.Server{Handler: mux}
	go srv.Serve(ln)
	defer srv.Close()
	px, err := rig.StartProxy("http://"+ln.Addr().String(), rig.ProxyOpts{})
	if err != nil {
		run.Inconclusive("extra proxy: %v", err)
		return
	}
	defer px.Stop()

	body := func(seed int64, n int) []byte {
		b := make([]byte, n)
		rand.New(rand.NewSource(seed)).Read(b)
		return b
	}
	sum := func(b []byte) string { s := sha256.Sum256(b); return hex.EncodeToString(s[:]) }

	// ---- 1. duplex uploads
	nd := run.Pick(12, 120)
	var wg sync.WaitGroup
	for i := 0; i < nd; i++ {
		wg.Add(1)
		go func(i int) {
			defer wg.Done()
			r := run.Rand(int64(88000 + i))
			size := []int{300 << 10, 1 << 20, 2 << 20, 600 << 10}[i%4] + r.Intn(1000)
			b := body(int64(i), size)
			mode := []string{"h1-chunked", "h1-content-length", "h2"}[i%3]
			tag := fmt.Sprintf("C08x-%d-duplex-%d", run.Seed, i)
			var respBody []byte
			var err error
			switch mode {
			case "h2":
				c, _, e := rig.StdDial(px.Addr, &tls.Config{InsecureSkipVerify: true, NextProtos: []string{"h2"}}, nil, nil)
				if e != nil {
					return
				}
				defer c.Close()
				cc, e := rig.NewH2(c)
				if e != nil {
					return
				}
				ctx, cancel := context.WithTimeout(context.Background(), 60*time.Second)
				defer cancel()
				pr, pw := io.Pipe()
				go func() {
					for off := 0; off < len(b); {
						n := min(1+r.Intn(40000), len(b)-off)
						pw.Write(b[off : off+n])
						off += n
					}
					pw.Close()
				}()
				req, _ := http.NewRequestWithContext(ctx, "POST", "https://"+px.Addr+"/duplex", pr)
				req.Header.Set(rig.TagHeader, tag)
				resp, e := cc.RoundTrip(req)
				if e != nil {
					err = e
					break
				}
				respBody, err = io.ReadAll(resp.Body)
				resp.Body.Close()
			default:
				c, _, e := rig.StdDial(px.Addr, &tls.Config{InsecureSkipVerify: true, NextProtos: []string{"http/1.1"}}, nil, nil)
				if e != nil {
					return
				}
				defer c.Close()
				c.SetDeadline(time.Now().Add(60 * time.Second))
				var head strings.Builder
				fmt.Fprintf(&head, "POST /duplex HTTP/1.1\r\nHost: front.example\r\n%s: %s\r\n", rig.TagHeader, tag)
				if mode == "h1-chunked" {
					head.WriteString("Transfer-Encoding: chunked\r\n\r\n")
				} else {
					fmt.Fprintf(&head, "Content-Length: %d\r\n\r\n", len(b))
				}
				// read the response concurrently: it starts before the upload ends
				type rr struct {
					b   []byte
					err error
				}
				rc := make(chan rr, 1)
				go func() {
					resp, e := http.ReadResponse(bufio.NewReader(c), &http.Request{Method: "POST"})
					if e != nil {
						rc <- rr{nil, e}
						return
					}
					bb, e := io.ReadAll(resp.Body)
					rc <- rr{bb, e}
				}()
				io.WriteString(c, head.String())
				for off := 0; off < len(b); {
					n := min(1+r.Intn(40000), len(b)-off)
					if mode == "h1-chunked" {
						fmt.Fprintf(c, "%x\r\n", n)
						c.Write(b[off : off+n])
						io.WriteString(c, "\r\n")
					} else {
						c.Write(b[off : off+n])
					}
					off += n
					if off < 200000 {
						time.Sleep(time.Millisecond) // make sure the response starts while the upload is in progress
					}
				}
				if mode == "h1-chunked" {
					io.WriteString(c, "0\r\n\r\n")
				}
				res := <-rc
				respBody, err = res.b, res.err
			}
			run.Eval(1)
			run.Distinct(tag)
			run.Add("duplex_uploads_"+mode, 1)
			mu.Lock()
			g, ok := recv[tag]
			mu.Unlock()
			w := map[string]any{"mode": mode, "upload_bytes": len(b), "response": string(respBody[:min(len(respBody), 200)]), "client_error": fmt.Sprint(err)}
			want := fmt.Sprintf("early-part;received=%d sha=%s", len(b), sum(b))
			switch {
			case ok && (g.n != int64(len(b)) || g.sha != sum(b)):
				run.Violation("duplex-upload-body-altered", w, "%s upload of %d bytes to a backend that answers before reading: the backend received %d bytes (sha %s…), the client sent sha %s…", mode, len(b), g.n, g.sha[:12], sum(b)[:12])
			case err != nil || !bytes.Equal(respBody, []byte(want)):
				run.Violation("duplex-response-altered", w, "%s upload of %d bytes to a backend that answers before reading: client got %q (err %v), want %q", mode, len(b), string(respBody[:min(len(respBody), 120)]), err, want[:60])
			}
		}(i)
	}
	wg.Wait()

	// ---- 1b. header / trailer blocks larger than one frame, on responses with and without a body
	type bh struct {
		method, where string
		status, n     int
	}
	var cases []bh
	for _, n := range []int{5, 20, 40, 70} { // 40 x ~920 bytes and more do not fit into one 16 KiB frame
		cases = append(cases, bh{"GET", "header", 200, n}, bh{"GET", "header", 204, n}, bh{"GET", "header", 304, n}, bh{"HEAD", "header", 200, n}, bh{"GET", "header", 301, n})
	}
	// trailers: net/http's client transport (which the proxy uses towards the backend) refuses a
	// trailer section that does not fit into its 4 KiB read buffer ("suspiciously long trailer"), so
	// larger trailer sections never reach the proxy's handler: outside the judged domain (DESIGN.md §3)
	cases = append(cases, bh{"GET", "trailer", 200, 1}, bh{"GET", "trailer", 200, 3})
	for _, proto := range []string{"h2", "http/1.1"} {
		for ci, c := range cases {
			wg.Add(1)
			go func(proto string, ci int, c bh) {
				defer wg.Done()
				tc, _, e := rig.StdDial(px.Addr, &tls.Config{InsecureSkipVerify: true, NextProtos: []string{proto}}, nil, nil)
				if e != nil {
					return
				}
				defer tc.Close()
				path := fmt.Sprintf("/bighdr?n=%d&status=%d&where=%s", c.n, c.status, c.where)
				var hdr, trl http.Header
				var status int
				var err error
				ctx, cancel := context.WithTimeout(context.Background(), 15*time.Second)
				defer cancel()
				if proto == "h2" {
					cc, e := rig.NewH2(tc)
					if e != nil {
						return
					}
					req, _ := http.NewRequestWithContext(ctx, c.method, "https://"+px.Addr+path, nil)
					resp, e := cc.RoundTrip(req)
					if e != nil {
						err = e
					} else {
						_, err = io.ReadAll(resp.Body)
						resp.Body.Close()
						hdr, trl, status = resp.Header, resp.Trailer, resp.StatusCode
					}
				} else {
					tc.SetDeadline(time.Now().Add(15 * time.Second))
					fmt.Fprintf(tc, "%s %s HTTP/1.1\r\nHost: front.example\r\n\r\n", c.method, path)
					// net/http refuses trailers that do not fit into the reader's buffer: give it room
					resp, e := http.ReadResponse(bufio.NewReaderSize(tc, 1<<20), &http.Request{Method: c.method})
					if e != nil {
						err = e
					} else {
						_, err = io.ReadAll(resp.Body)
						resp.Body.Close()
						hdr, trl, status = resp.Header, resp.Trailer, resp.StatusCode
					}
				}
				run.Eval(1)
				run.Add("large_header_block_responses_"+proto, 1)
				run.Distinct(fmt.Sprintf("bighdr-%s-%d", proto, ci))
				w := map[string]any{"protocol": proto, "case": fmt.Sprintf("%+v", c), "error": fmt.Sprint(err)}
				if err != nil || status != c.status {
					run.Violation("large-header-block-response-broken", w, "%s %s (backend answers %d with %d x 900-byte %ss): client got status %d, err %v", proto, c.method, c.status, c.n, c.where, status, err)
					return
				}
				src := hdr
				if c.where == "trailer" {
					src = trl
				}
				for i := 0; i < c.n; i++ {
					if v := src.Get(fmt.Sprintf("X-Big-%d", i)); !strings.HasPrefix(v, fmt.Sprintf("%d-v", i)) || len(v) < 900 {
						run.Violation("large-header-block-value-lost", w, "%s %s: %s X-Big-%d did not arrive intact (%d bytes)", proto, c.method, c.where, i, len(v))
						return
					}
				}
			}(proto, ci, c)
		}
	}
	wg.Wait()

	// ---- 1c. backend responses cut mid-body: the client must not be told that the body is complete
	for i := 0; i < run.Pick(12, 60); i++ {
		wg.Add(1)
		go func(i int) {
			defer wg.Done()
			proto := []string{"h2", "http/1.1"}[i%2]
			cl := (i / 2) % 2
			full := 50000 + 1000*i
			after := []int{1, 100, 5000, 40000}[(i/4)%4]
			path := fmt.Sprintf("/cut?full=%d&after=%d&cl=%d", full, after, cl)
			tc, _, e := rig.StdDial(px.Addr, &tls.Config{InsecureSkipVerify: true, NextProtos: []string{proto}}, nil, nil)
			if e != nil {
				return
			}
			defer tc.Close()
			var status int
			var got []byte
			var err error
			if proto == "h2" {
				cc, e := rig.NewH2(tc)
				if e != nil {
					return
				}
				ctx, cancel := context.WithTimeout(context.Background(), 15*time.Second)
				defer cancel()
				req, _ := http.NewRequestWithContext(ctx, "GET", "https://"+px.Addr+path, nil)
				resp, e := cc.RoundTrip(req)
				if e != nil {
					err = e
				} else {
					status = resp.StatusCode
					got, err = io.ReadAll(resp.Body)
					resp.Body.Close()
				}
			} else {
				tc.SetDeadline(time.Now().Add(15 * time.Second))
				fmt.Fprintf(tc, "GET %s HTTP/1.1\r\nHost: front.example\r\n\r\n", path)
				resp, e := http.ReadResponse(bufio.NewReader(tc), &http.Request{Method: "GET"})
				if e != nil {
					err = e
				} else {
					status = resp.StatusCode
					got, err = io.ReadAll(resp.Body)
					resp.Body.Close()
				}
			}
			run.Eval(1)
			run.Add("cut_backend_responses_"+proto, 1)
			run.Distinct(fmt.Sprintf("cut-%s-%d-%d-%d", proto, cl, full, after))
			w := map[string]any{"protocol": proto, "backend_content_length": cl == 1, "intended_bytes": full, "sent_before_cut": after, "client_status": status, "client_bytes": len(got), "client_error": fmt.Sprint(err)}
			if len(got) > after || strings.Trim(string(got), "c") != "" {
				run.Violation("cut-backend-response-altered", w, "%s: the backend sent %d bytes and dropped the connection; the client received %d bytes", proto, after, len(got))
				return
			}
			if status == 200 && err == nil {
				run.Violation("cut-backend-response-presented-as-complete", w, "%s: the backend sent %d of %d bytes (Content-Length announced: %v) and dropped the connection; the client was given a complete 200 response of %d bytes without any error", proto, after, full, cl == 1, len(got))
			}
		}(i)
	}
	wg.Wait()

	// ---- 1d. raw HTTP/2 clients: a graceful GOAWAY while the last exchange is in flight, and a stream
	// window that the client resizes twice in the middle of a response
	rawClient := func() (*h2peer.Peer, net.Conn, error) {
		tc, _, e := rig.StdDial(px.Addr, &tls.Config{InsecureSkipVerify: true, NextProtos: []string{"h2"}}, nil, nil)
		if e != nil {
			return nil, nil, e
		}
		return h2peer.New(tc, nil), tc, nil
	}
	dlOK := func(b []byte, n int) bool {
		if len(b) != n {
			return false
		}
		for i := range b {
			if b[i] != byte('a'+i%26) {
				return false
			}
		}
		return true
	}
	flowBytes := func(p *h2peer.Peer, sid uint32) int64 { // flow-controlled bytes of DATA received on the stream
		var t int64
		for _, e := range p.Events() {
			if e.Is(http2.FrameData) && e.StreamID == sid {
				t += int64(e.Length)
			}
		}
		return t
	}
	const bound = 20 * time.Second
	for i := 0; i < run.Pick(8, 40); i++ {
		wg.Add(1)
		go func(i int) {
			defer wg.Done()
			p, tc, err := rawClient()
			if err != nil {
				return
			}
			defer tc.Close()
			run.Eval(1)
			switch i % 4 {
			case 3: // a request the server must refuse (upper-case field name), then well-formed ones on the same connection
				run.Add("raw_requests_after_a_refused_header_block", 1)
				run.Distinct(fmt.Sprintf("after-refused-%d", i))
				p.Preface()
				bad := append(h2peer.GetFields("front.example", "/dl?n=10"), hpack.HeaderField{Name: "X-Upper-Case", Value: "1"})
				p.Request(1, true, bad...)
				p.Fence(bound)
				for k, sid := 0, uint32(3); k < 3; k, sid = k+1, sid+2 {
					n := 1000 + 777*k + i
					p.Request(sid, true, h2peer.GetFields("front.example", fmt.Sprintf("/dl?n=%d", n), hpack.HeaderField{Name: "x-after", Value: fmt.Sprint(k)})...)
					r, ok := p.WaitResponse(sid, bound)
					if !ok || r.Reset || r.Status != "200" || !dlOK(r.Body, n) {
						run.Violation("well-formed-request-refused-after-a-malformed-one", map[string]any{"request": k, "stream": sid, "complete": ok, "reset": r.Reset, "reset_code": fmt.Sprint(r.ResetCode), "status": r.Status, "bytes": len(r.Body)},
							"a header block with an upper-case field name was refused on stream 1; well-formed request #%d on the same connection (stream %d, %d-byte download): complete=%v reset=%v (%v) status=%q bytes=%d", k, sid, n, ok, r.Reset, r.ResetCode, r.Status, len(r.Body))
						return
					}
				}
			case 0: // upload: GOAWAY(NO_ERROR) between two DATA frames of the connection's last request
				run.Add("raw_goaway_mid_upload", 1)
				run.Distinct(fmt.Sprintf("goaway-upload-%d", i))
				b := body(int64(7000+i), 40000+i)
				p.Preface()
				p.Request(1, false, hpack.HeaderField{Name: ":method", Value: "POST"}, hpack.HeaderField{Name: ":scheme", Value: "https"}, hpack.HeaderField{Name: ":authority", Value: "front.example"}, hpack.HeaderField{Name: ":path", Value: "/small"})
				p.Do(func(fr *http2.Framer) error { return fr.WriteData(1, false, b[:16000]) })
				p.Do(func(fr *http2.Framer) error { return fr.WriteGoAway(0, http2.ErrCodeNo, nil) })
				p.Do(func(fr *http2.Framer) error { return fr.WriteData(1, false, b[16000:30000]) })
				p.Do(func(fr *http2.Framer) error { return fr.WriteData(1, true, b[30000:]) })
				r, ok := p.WaitResponse(1, bound)
				want := fmt.Sprintf("received=%d sha=%s", len(b), sum(b))
				if !ok || r.Reset || string(r.Body) != want {
					run.Violation("exchange-in-flight-at-graceful-goaway-broken", map[string]any{"kind": "upload", "complete": ok, "reset": r.Reset, "status": r.Status, "body": string(r.Body[:min(len(r.Body), 100)])},
						"the client sent GOAWAY(NO_ERROR) between the DATA frames of its last request (%d bytes): response complete=%v reset=%v body=%q, want %q", len(b), ok, r.Reset, string(r.Body[:min(len(r.Body), 80)]), want[:40])
				}
			case 1: // download larger than the stream window: GOAWAY right after the request, WINDOW_UPDATEs follow
				run.Add("raw_goaway_mid_download", 1)
				run.Distinct(fmt.Sprintf("goaway-download-%d", i))
				n := 300000 + 1000*i
				p.Preface() // client stream window 65535
				p.Request(1, true, h2peer.GetFields("front.example", fmt.Sprintf("/dl?n=%d", n))...)
				p.Do(func(fr *http2.Framer) error { return fr.WriteGoAway(0, http2.ErrCodeNo, nil) })
				var credited int64
				deadline := time.Now().Add(bound)
				for {
					r := p.Response(1)
					if r.Ended || r.Reset || time.Now().After(deadline) || p.Ended() {
						break
					}
					if got := flowBytes(p, 1); got > credited {
						inc := uint32(got - credited)
						credited = got
						p.Do(func(fr *http2.Framer) error { fr.WriteWindowUpdate(0, inc); return fr.WriteWindowUpdate(1, inc) })
					} else {
						time.Sleep(2 * time.Millisecond)
					}
				}
				r := p.Response(1)
				if !r.Ended || r.Reset || !dlOK(r.Body, n) {
					run.Violation("exchange-in-flight-at-graceful-goaway-broken", map[string]any{"kind": "download", "ended": r.Ended, "reset": r.Reset, "received": len(r.Body), "want": n},
						"the client sent GOAWAY(NO_ERROR) right after its last request and kept granting window: the %d-byte response ended=%v reset=%v with %d bytes received", n, r.Ended, r.Reset, len(r.Body))
				}
			case 2: // the client's SETTINGS_INITIAL_WINDOW_SIZE changes twice while the response is limited by it
				run.Add("raw_stream_window_resized_mid_response", 1)
				run.Distinct(fmt.Sprintf("resize-%d", i))
				w0, w1, w2 := int64(1000+100*i), int64(200000+i), int64(250000+3*i)
				n := int(w2) + 120000
				p.Preface(http2.Setting{ID: http2.SettingInitialWindowSize, Val: uint32(w0)})
				p.Do(func(fr *http2.Framer) error { return fr.WriteWindowUpdate(0, 8<<20) }) // the connection window is never the limit
				p.Request(1, true, h2peer.GetFields("front.example", fmt.Sprintf("/dl?n=%d", n))...)
				// wait until exactly `allow` flow-controlled bytes have arrived; more is a violation, fewer a stall
				step := func(allow int64, what string) bool {
					deadline := time.Now().Add(bound)
					for {
						got := flowBytes(p, 1)
						if got > allow {
							run.Violation("response-data-beyond-stream-window", map[string]any{"step": what, "allowed": allow, "received": got}, "%s: %d flow-controlled bytes received on the stream, the client had allowed %d in total", what, got, allow)
							return false
						}
						if got == allow {
							// nothing more may follow: fence with a PING round trip
							p.Fence(bound)
							if g2 := flowBytes(p, 1); g2 > allow {
								run.Violation("response-data-beyond-stream-window", map[string]any{"step": what, "allowed": allow, "received": g2}, "%s: %d flow-controlled bytes received on the stream, the client had allowed %d in total", what, g2, allow)
								return false
							}
							return true
						}
						if r := p.Response(1); r.Reset || p.Ended() || time.Now().After(deadline) {
							run.Violation("response-stalled-with-open-stream-window", map[string]any{"step": what, "allowed": allow, "received": got, "reset": r.Reset}, "%s: only %d of the %d bytes the client had allowed arrived within %v (reset=%v, connection ended=%v)", what, got, allow, bound, r.Reset, p.Ended())
							return false
						}
						time.Sleep(2 * time.Millisecond)
					}
				}
				if !step(w0, fmt.Sprintf("initial window %d", w0)) {
					return
				}
				p.Do(func(fr *http2.Framer) error {
					return fr.WriteSettings(http2.Setting{ID: http2.SettingInitialWindowSize, Val: uint32(w1)})
				})
				if !step(w1, fmt.Sprintf("window raised %d -> %d mid-response", w0, w1)) {
					return
				}
				p.Do(func(fr *http2.Framer) error {
					return fr.WriteSettings(http2.Setting{ID: http2.SettingInitialWindowSize, Val: uint32(w2)})
				})
				if !step(w2, fmt.Sprintf("window raised again %d -> %d mid-response", w1, w2)) {
					return
				}
				p.Do(func(fr *http2.Framer) error { return fr.WriteWindowUpdate(1, uint32(n)) })
				r, ok := p.WaitResponse(1, bound)
				if !ok || r.Reset || !dlOK(r.Body, n) {
					run.Violation("response-stalled-with-open-stream-window", map[string]any{"step": "final window update", "received": len(r.Body), "want": n}, "after the final WINDOW_UPDATE the %d-byte response did not complete (%d bytes, reset=%v)", n, len(r.Body), r.Reset)
				}
			}
		}(i)
	}
	wg.Wait()

	// ---- 2. many small uploads on one HTTP/2 connection
	nconn := run.Pick(2, 12)
	for ci := 0; ci < nconn; ci++ {
		wg.Add(1)
		go func(ci int) {
			defer wg.Done()
			c, _, e := rig.StdDial(px.Addr, &tls.Config{InsecureSkipVerify: true, NextProtos: []string{"h2"}}, nil, nil)
			if e != nil {
				return
			}
			defer c.Close()
			cc, e := rig.NewH2(c)
			if e != nil {
				return
			}
			var total int64
			n := run.Pick(350, 1500)
			for q := 0; q < n; q++ {
				b := body(int64(ci*100000+q), 4000+(q*37)%9000)
				ctx, cancel := context.WithTimeout(context.Background(), 20*time.Second)
				req, _ := http.NewRequestWithContext(ctx, "POST", "https://"+px.Addr+"/small", bytes.NewReader(b))
				resp, err := cc.RoundTrip(req)
				var rb []byte
				if err == nil {
					rb, err = io.ReadAll(resp.Body)
					resp.Body.Close()
				}
				cancel()
				run.Eval(1)
				total += int64(len(b))
				want := fmt.Sprintf("received=%d sha=%s", len(b), sum(b))
				if err != nil || string(rb) != want {
					run.Violation("many-small-uploads-on-one-h2-connection", map[string]any{"connection": ci, "request": q, "uploaded_so_far": total, "error": fmt.Sprint(err)},
						"request #%d on one HTTP/2 connection (after %d bytes uploaded on it) did not complete correctly: err=%v response=%q", q, total, err, string(rb[:min(len(rb), 80)]))
					return
				}
			}
			run.Add("h2_long_connection_uploads", int64(n))
			run.Add("h2_long_connection_bytes", total)
			run.Distinct(fmt.Sprintf("long-%d", ci))
		}(ci)
	}
	wg.Wait()
}
