//go:build verif

package main

import (
	"bufio"
	"context"
	"crypto/tls"
	"fmt"
	"io"
	"net"
	"net/http"
	"net/http/httptrace"
	"net/textproto"
	"strconv"
	"strings"
	"sync"
	"sync/atomic"
	"time"

	"verif/internal/rig"
	"verif/internal/verdict"
)

// interimPhase (added after seeded change C08-L): backends that send interim responses - 103 Early Hints, and the
// 100 Continue an "Expect: 100-continue" upload draws - before a final status that is NOT 200. "The backend's
// status, end-to-end headers, body bytes ... reach the client intact": the final response is judged as everywhere
// else; whether the interim responses themselves are passed on is counted, not judged.
func interimPhase(run *verdict.Run) {
	var mu sync.Mutex
	got := map[string]string{} // tag -> request body seen by the backend
	mux := http.NewServeMux()
	mux.HandleFunc("/interim", func(w http.ResponseWriter, r *http.Request) {
		q := r.URL.Query()
		final, _ := strconv.Atoi(q.Get("final"))
		hints, _ := strconv.Atoi(q.Get("hints"))
		tag := r.Header.Get(rig.TagHeader)
		for i := 0; i < hints; i++ {
			w.Header().Set("Link", fmt.Sprintf("</style%d.css>; rel=preload; as=style", i))
			w.WriteHeader(http.StatusEarlyHints)
		}
		w.Header().Del("Link")
		b, _ := io.ReadAll(r.Body) // (draws 100 Continue for a request that expects it)
		mu.Lock()
		got[tag] = string(b)
		mu.Unlock()
		w.Header().Set("X-Final", tag)
		w.Header().Set("Content-Type", "text/x-verif")
		w.WriteHeader(final)
		if final != 204 && final != 304 {
			io.WriteString(w, "final-body:"+tag)
		}
	})
	srv := &http.Server{Handler: mux}
	ln, err := net.Listen("tcp", "127.0.0.1:0")
	if err != nil {
		run.Inconclusive("interim backend: %v", err)
		return
	}
	go srv.Serve(ln)
	defer srv.Close()
	px, err := rig.StartProxy("http://"+ln.Addr().String(), rig.ProxyOpts{})
	if err != nil {
		run.Inconclusive("interim proxy: %v", err)
		return
	}
	defer px.Stop()

	finals := []int{201, 404, 418, 500, 200, 202, 204, 503}
	judge := func(kind, tag string, final, status int, hdr http.Header, body string, hints int, reqBody string, err error) {
		run.Eval(1)
		run.Add("exchanges_with_interim_responses_"+kind, 1)
		w := map[string]any{"client": kind, "tag": tag, "backend_final_status": final, "interim_responses_seen_by_client": hints}
		if err != nil {
			run.Violation("exchange-with-interim-responses-failed", w, "%s exchange %s (backend: interim responses, then %d): %v", kind, tag, final, err)
			return
		}
		wantBody := "final-body:" + tag
		if final == 204 {
			wantBody = ""
		}
		switch {
		case status != final:
			run.Violation("status-altered-after-interim-response", w, "%s exchange %s: the backend sent interim responses and then status %d, the client got %d", kind, tag, final, status)
		case hdr.Get("X-Final") != tag || hdr.Get("Content-Type") != "text/x-verif":
			run.Violation("response-header-altered-after-interim-response", w, "%s exchange %s: final response headers at the client: %v", kind, tag, hdr)
		case body != wantBody:
			run.Violation("response-body-altered-after-interim-response", w, "%s exchange %s: body %q, backend sent %q", kind, tag, body, wantBody)
		case len(hdr.Values("Link")) != 0:
			run.Violation("response-header-altered-after-interim-response", w, "%s exchange %s: a header of the interim response (Link) is part of the final response: %v", kind, tag, hdr.Values("Link"))
		}
		mu.Lock()
		g, ok := got[tag]
		mu.Unlock()
		if !ok || g != reqBody {
			run.Violation("request-body-altered", w, "%s exchange %s: backend read body %q, client sent %q", kind, tag, g, reqBody)
		}
		if hints > 0 {
			run.Add("interim_responses_passed_on_to_the_client", int64(hints))
		}
	}

	n := run.Pick(48, 600)
	var wg sync.WaitGroup
	sem := make(chan struct{}, 8)
	for i := 0; i < n; i++ {
		wg.Add(1)
		sem <- struct{}{}
		go func(i int) {
			defer wg.Done()
			defer func() { <-sem }()
			final := finals[i%len(finals)]
			hints := i % 3
			tag := fmt.Sprintf("C08-%d-interim-%d", run.Seed, i)
			path := fmt.Sprintf("/interim?final=%d&hints=%d", final, hints)
			switch i % 3 {
			case 0, 1: // HTTP/1.1, raw: every response on the wire is read, 1xx included
				expect := i%3 == 1
				if !expect && hints == 0 {
					hints = 1
					path = fmt.Sprintf("/interim?final=%d&hints=1", final)
				}
				c, err := tls.Dial("tcp", px.Addr, &tls.Config{InsecureSkipVerify: true, ServerName: "front.example", NextProtos: []string{"http/1.1"}})
				if err != nil {
					run.Add("dial_failed", 1)
					return
				}
				defer c.Close()
				c.SetDeadline(time.Now().Add(30 * time.Second))
				br := bufio.NewReader(c)
				reqBody := ""
				method := "GET"
				var sb strings.Builder
				if expect {
					method, reqBody = "POST", strings.Repeat("upload-"+tag+";", 40)
					fmt.Fprintf(&sb, "POST %s HTTP/1.1\r\nHost: front.example\r\n%s: %s\r\nContent-Length: %d\r\nExpect: 100-continue\r\n\r\n", path, rig.TagHeader, tag, len(reqBody))
				} else {
					fmt.Fprintf(&sb, "GET %s HTTP/1.1\r\nHost: front.example\r\n%s: %s\r\n\r\n", path, rig.TagHeader, tag)
				}
				io.WriteString(c, sb.String())
				seen, sentBody := 0, !expect
				for {
					if !sentBody {
						// wait (bounded) for 100 Continue, then send the body whatever came
						c.SetReadDeadline(time.Now().Add(1500 * time.Millisecond))
						if _, err := br.Peek(1); err != nil {
							c.SetReadDeadline(time.Now().Add(30 * time.Second))
							io.WriteString(c, reqBody)
							sentBody = true
							continue
						}
						c.SetReadDeadline(time.Now().Add(30 * time.Second))
					}
					resp, err := http.ReadResponse(br, &http.Request{Method: method})
					if err != nil {
						judge("h1", tag, final, 0, nil, "", seen, reqBody, fmt.Errorf("reading the response: %v", err))
						return
					}
					if resp.StatusCode >= 100 && resp.StatusCode < 200 {
						seen++
						if resp.StatusCode == 100 && !sentBody {
							io.WriteString(c, reqBody)
							sentBody = true
							run.Add("uploads_released_by_100_continue", 1)
						}
						continue
					}
					if !sentBody {
						io.WriteString(c, reqBody)
						sentBody = true
					}
					b, err := io.ReadAll(resp.Body)
					if err != nil {
						judge("h1", tag, final, resp.StatusCode, resp.Header, string(b), seen, reqBody, fmt.Errorf("reading the body: %v", err))
						return
					}
					judge("h1", tag, final, resp.StatusCode, resp.Header, string(b), seen, reqBody, nil)
					return
				}
			case 2: // HTTP/2 through the independent client (it skips 1xx by itself and reports them to the trace)
				if hints == 0 {
					hints = 2
					path = fmt.Sprintf("/interim?final=%d&hints=2", final)
				}
				c, err := tls.Dial("tcp", px.Addr, &tls.Config{InsecureSkipVerify: true, ServerName: "front.example", NextProtos: []string{"h2"}})
				if err != nil {
					run.Add("dial_failed", 1)
					return
				}
				defer c.Close()
				cc, err := rig.NewH2(c)
				if err != nil {
					run.Add("dial_failed", 1)
					return
				}
				var seen int32
				ctx, cancel := context.WithTimeout(context.Background(), 30*time.Second)
				defer cancel()
				ctx = httptrace.WithClientTrace(ctx, &httptrace.ClientTrace{Got1xxResponse: func(code int, _ textproto.MIMEHeader) error {
					atomic.AddInt32(&seen, 1)
					return nil
				}})
				req, _ := http.NewRequestWithContext(ctx, "GET", "https://front.example"+path, nil)
				req.Header.Set(rig.TagHeader, tag)
				resp, err := cc.RoundTrip(req)
				if err != nil {
					judge("h2", tag, final, 0, nil, "", int(seen), "", err)
					return
				}
				b, err := io.ReadAll(resp.Body)
				resp.Body.Close()
				judge("h2", tag, final, resp.StatusCode, resp.Header, string(b), int(atomic.LoadInt32(&seen)), "", err)
			}
		}(i)
	}
	wg.Wait()
	run.Require("exchanges_with_interim_responses_h1", 20)
	run.Require("exchanges_with_interim_responses_h2", 10)
}
