//go:build verif

// C08 — requests and responses pass through the proxy unchanged.
//
// Two proxies built through the real CLI-flag wiring (-preserve-host off / on)
// in front of one recording backend. Generated exchanges are driven by three
// independent clients (raw HTTP/1.1 text, the x/net v0.19.0 http2 ClientConn,
// and raw frames with h2peer); what an HTTP/2 client really sent is decoded
// from the plaintext bytes it wrote. The oracle compares backend record with
// client-sent (set equality after the allowed transformations) and client
// received with backend produced (inclusion).
package main

import (
	"bytes"
	"compress/gzip"
	"crypto/sha256"
	"encoding/hex"
	"fmt"
	"net/http"
	"os"
	"strings"
	"sync"
	"sync/atomic"
	"time"

	"verif/internal/rig"
	"verif/internal/verdict"
)

// VERIF_C08_WATCHDOG shortens it for the self-test of the watchdog path (selftest/mutants.py)
var exchangeWatchdog = func() time.Duration {
	if d, err := time.ParseDuration(os.Getenv("VERIF_C08_WATCHDOG")); err == nil && d > 0 {
		return d
	}
	return 150 * time.Second
}()

type batch struct {
	n       int32
	arrived int32
	gate    chan struct{}
	once    sync.Once
}

func newBatch(n int) *batch { return &batch{n: int32(n), gate: make(chan struct{})} }
func (b *batch) open()      { b.once.Do(func() { close(b.gate) }) }

type connStat struct {
	cur, max int32
}

type exchange struct {
	s    *Spec
	conn *connStat
	b    *batch

	mu           sync.Mutex
	sent         *Sent
	got          *Got
	produced     *Produced
	plans        int // number of times the backend handled this tag
	arrived      int32
	clientWindow int
	isolated     bool // repeated alone after a watchdog expiry
}

// logRing keeps the proxy's own log lines (error handler, body-copy errors) so
// that an aborted exchange can be reported with the proxy's stated reason.
type logRing struct {
	mu    sync.Mutex
	at    []time.Time
	lines []string
}

func (l *logRing) Write(b []byte) (int, error) {
	l.mu.Lock()
	for _, ln := range strings.Split(strings.TrimRight(string(b), "\n"), "\n") {
		if len(ln) > 400 {
			ln = ln[:400] + "…"
		}
		l.at = append(l.at, time.Now())
		l.lines = append(l.lines, ln)
	}
	if len(l.lines) > 4000 {
		l.lines = append([]string{}, l.lines[len(l.lines)-2000:]...)
		l.at = append([]time.Time{}, l.at[len(l.at)-2000:]...)
	}
	l.mu.Unlock()
	return len(b), nil
}

// tail returns up to n of the lines logged during the last 3 seconds.
func (l *logRing) tail(n int) []string {
	l.mu.Lock()
	defer l.mu.Unlock()
	var out []string
	for i := len(l.lines) - 1; i >= 0 && len(out) < n; i-- {
		if time.Since(l.at[i]) > 3*time.Second {
			break
		}
		out = append([]string{l.at[i].Format("15:04:05.000 ") + l.lines[i]}, out...)
	}
	return out
}

type world struct {
	logs    logRing
	run     *verdict.Run
	be      *rig.Backend
	px      [2]*rig.Proxy // [0] default, [1] -preserve-host
	reg     sync.Map      // tag -> *exchange
	maxInFl int32

	retryMu sync.Mutex
	retried bool
}

// watchdogFired: an exchange did not complete within the watchdog. A wall-clock expiry alone is not a
// verdict; the first such exchange of a run is repeated alone on a fresh connection, and only if it does
// not complete there either is it reported (bounded-progress restatement of "passes through").
func (w *world) watchdogFired(x *exchange, wit any, what string) {
	if x.isolated {
		w.run.Violation("exchange-never-completes", wit, "%s; it did not complete when repeated alone on a fresh connection either (watchdog %v each time)", what, exchangeWatchdog)
		return
	}
	w.retryMu.Lock()
	first := !w.retried
	w.retried = true
	w.retryMu.Unlock()
	if !first {
		w.run.Inconclusive("%s", what)
		return
	}
	s2 := *x.s
	s2.Tag += "-isolated"
	cp := &connPlan{proto: s2.Proto, preserve: s2.Preserve, stat: &connStat{}, window: 65535, lazyWU: false}
	if x.clientWindow > 0 {
		cp.window = x.clientWindow
	}
	x2 := &exchange{s: &s2, conn: cp.stat, clientWindow: cp.window, isolated: true}
	if s2.Proto != "h1" {
		x2.b = newBatch(1)
	}
	w.reg.Store(s2.Tag, x2)
	cp.batches = [][]*exchange{{x2}}
	w.run.Logf("watchdog: %s - repeating the exchange alone", what)
	w.runConn(cp)
	w.run.Inconclusive("%s (the exchange was repeated alone and judged separately)", what)
}

func (w *world) proxy(preserve bool) *rig.Proxy {
	if preserve {
		return w.px[1]
	}
	return w.px[0]
}

func sha(b []byte) string {
	h := sha256.Sum256(b)
	return hex.EncodeToString(h[:])
}

// planFor runs inside the backend handler after the request has been read and recorded.
func (w *world) planFor(r *http.Request, tag string) *rig.Plan {
	v, ok := w.reg.Load(tag)
	if !ok {
		w.run.Add("backend_requests_with_unknown_tag", 1)
		return nil
	}
	x := v.(*exchange)
	ps := &x.s.Plan
	body := bodyBytes(ps.BodySeed, sum(ps.Chunks))
	pr := &Produced{Status: ps.Status}
	hdr := http.Header{}
	for _, h := range ps.Headers {
		hdr.Add(h[0], h[1])
		if ps.Status == 304 && strings.EqualFold(h[0], "Content-Type") {
			// the recording backend is a net/http server, which itself withholds
			// Content-Type from a 304 (server.go suppressedHeaders): never on the wire
			continue
		}
		pr.Header = append(pr.Header, h)
	}
	plan := &rig.Plan{Status: ps.Status, Header: hdr, Pause: time.Duration(ps.PauseMs) * time.Millisecond}
	allowed := bodyAllowed(r.Method, ps.Status)
	plan.NoBody = !allowed
	chunks := ps.Chunks
	if allowed && ps.HonourGzip && has(tokens(r.Header.Values("Accept-Encoding")), "gzip") {
		var zb bytes.Buffer
		zw, _ := gzip.NewWriterLevel(&zb, gzip.BestSpeed)
		zw.Write(body)
		zw.Close()
		// same number of pieces, proportional sizes
		z := zb.Bytes()
		var zc []int
		rem := len(z)
		for i, c := range ps.Chunks {
			n := 0
			if len(body) > 0 {
				n = int(int64(c) * int64(len(z)) / int64(len(body)))
			}
			if i == len(ps.Chunks)-1 || n > rem {
				n = rem
			}
			zc = append(zc, n)
			rem -= n
		}
		if rem > 0 {
			zc = append(zc, rem)
		}
		body, chunks = z, zc
		hdr.Add("Content-Encoding", "gzip")
		pr.Header = append(pr.Header, [2]string{"Content-Encoding", "gzip"})
		pr.Gzipped = true
	}
	if allowed {
		off := 0
		for _, c := range chunks {
			plan.Chunks = append(plan.Chunks, body[off:off+c])
			off += c
		}
		pr.BodyLen = int64(len(body))
		pr.BodySHA = sha(body)
		if ps.DeclareCL {
			cl := fmt.Sprint(len(body))
			hdr.Set("Content-Length", cl)
			pr.Header = append(pr.Header, [2]string{"Content-Length", cl})
		}
		if len(ps.Trailers) > 0 {
			plan.Trailer = http.Header{}
			for _, t := range ps.Trailers {
				plan.Trailer.Add(t[0], t[1])
				pr.Trailers = append(pr.Trailers, t)
			}
		}
	} else {
		pr.BodySHA = sha(nil)
	}
	x.mu.Lock()
	x.produced = pr
	x.plans++
	first := x.plans == 1
	x.mu.Unlock()
	if first {
		atomic.StoreInt32(&x.arrived, 1)
		if x.conn != nil {
			c := atomic.AddInt32(&x.conn.cur, 1)
			for {
				m := atomic.LoadInt32(&x.conn.max)
				if c <= m || atomic.CompareAndSwapInt32(&x.conn.max, m, c) {
					break
				}
			}
		}
		if x.b != nil {
			if atomic.AddInt32(&x.b.arrived, 1) >= x.b.n {
				x.b.open()
			}
		}
	}
	if x.b != nil {
		plan.Gate = x.b.gate
	}
	return plan
}

// done is called by a driver when the client side of the exchange has ended.
func (w *world) done(x *exchange) {
	if atomic.LoadInt32(&x.arrived) == 1 && x.conn != nil {
		atomic.AddInt32(&x.conn.cur, -1)
	}
}

type witness struct {
	Spec     *Spec       `json:"spec"`
	Sent     *Sent       `json:"client_sent,omitempty"`
	SentHdr  [][2]string `json:"client_sent_header_fields,omitempty"`
	Backend  any         `json:"backend_record,omitempty"`
	Produced *Produced   `json:"backend_produced,omitempty"`
	Got      *Got        `json:"client_received,omitempty"`
	ProxyLog []string    `json:"proxy_log_tail,omitempty"`
}

func clipFields(fs [][2]string) [][2]string {
	out := make([][2]string, 0, len(fs))
	for _, f := range fs {
		if len(f[1]) > 200 {
			f[1] = fmt.Sprintf("%s…(%d bytes)", f[1][:100], len(f[1]))
		}
		out = append(out, f)
	}
	return out
}

// judge evaluates one finished exchange.
func (w *world) judge(x *exchange) {
	run := w.run
	s := x.s
	run.Eval(1)
	x.mu.Lock()
	sent, got, produced, plans := x.sent, x.got, x.produced, x.plans
	x.mu.Unlock()
	recs := w.be.Records(s.Tag)
	wit := witness{Spec: s, Sent: sent, Produced: produced, Got: got}
	if sent != nil {
		wit.SentHdr = clipFields(sent.Fields)
	}
	if len(recs) > 0 {
		r := recs[0]
		h := map[string][]string{}
		for k, vs := range r.Header {
			for _, v := range vs {
				if len(v) > 200 {
					v = fmt.Sprintf("%s…(%d bytes)", v[:100], len(v))
				}
				h[k] = append(h[k], v)
			}
		}
		wit.Backend = map[string]any{"method": r.Method, "request_uri": clip(r.RequestURI), "host": r.Host, "header": h, "body_len": r.BodyLen, "body_sha256": r.BodySHA, "transfer_encoding": r.TE, "content_length": r.ContentLength}
	}
	if sent == nil || !sent.Complete {
		// the harness could not establish what was sent (client-side failure before/while writing)
		if got != nil && got.Err != "" && strings.Contains(got.Err, "watchdog") {
			w.watchdogFired(x, wit, fmt.Sprintf("exchange %s (%s): watchdog fired: %s", s.Tag, s.Proto, got.Err))
			return
		}
		if got != nil && got.Err != "" {
			wit.ProxyLog = w.logs.tail(40)
			run.Violation("exchange-aborted", wit, "exchange %s over %s %s %s: client could not complete the request: %s", s.Tag, s.Proto, s.Method, clip(s.Target), got.Err)
			return
		}
		run.Inconclusive("exchange %s (%s): what the client sent could not be established", s.Tag, s.Proto)
		return
	}
	if sent.Target != s.Target || sent.Method != s.Method {
		run.Inconclusive("harness: client %s wrote target %q method %s, spec says %q %s", s.Proto, clip(sent.Target), sent.Method, clip(s.Target), s.Method)
		return
	}
	desc := fmt.Sprintf("%s %s %s %s (preserve-host=%v)", s.Tag, s.Proto, s.Method, clip(s.Target), s.Preserve)
	if len(recs) == 0 {
		if got != nil && strings.Contains(got.Err, "watchdog") {
			w.watchdogFired(x, wit, fmt.Sprintf("exchange %s: watchdog fired and no backend record: %s", desc, got.Err))
			return
		}
		st := "no response"
		if got != nil {
			st = fmt.Sprintf("client got status %d err %q", got.Status, got.Err)
		}
		run.Violation("request-not-delivered", wit, "%s: the backend never received the request (%s)", desc, st)
		return
	}
	if len(recs) > 1 || plans > 1 {
		run.Violation("request-delivered-more-than-once", wit, "%s: the backend received the request %d times", desc, len(recs))
	}
	run.Add("requests_compared_at_backend", 1)
	byClass := map[string][]string{}
	var order []string
	for _, f := range judgeRequest(s, sent, recs[0], w.be.Addr) {
		if _, ok := byClass[f.class]; !ok {
			order = append(order, f.class)
		}
		byClass[f.class] = append(byClass[f.class], f.msg)
	}
	if got == nil || got.Err != "" {
		e := "no result"
		if got != nil {
			e = got.Err
		}
		if strings.Contains(e, "watchdog") {
			w.watchdogFired(x, wit, fmt.Sprintf("exchange %s: watchdog fired while reading the response: %s", desc, e))
		} else {
			class := "response-aborted"
			if s.Proto == "h1" && s.HasBody && s.DeclareCL && s.BodyLen > 0 {
				class = "h1-content-length-body"
			}
			msg := "the client did not receive a complete response: " + e
			for _, ln := range w.logs.tail(60) {
				if strings.Contains(ln, "read error during body copy") {
					msg += " [proxy log: " + ln + "]"
				}
			}
			order = append(order, class)
			byClass[class] = []string{msg}
		}
	} else if produced != nil {
		run.Add("responses_compared_at_client", 1)
		if len(produced.Trailers) > 0 {
			run.Add("response_trailer_sets_checked", 1)
		}
		if !bodyAllowed(s.Method, produced.Status) {
			run.Add("responses_without_body_checked(HEAD/204/304)", 1)
		}
		for _, f := range judgeResponse(s, sent, recs[0], produced, got) {
			if _, ok := byClass[f.class]; !ok {
				order = append(order, f.class)
			}
			byClass[f.class] = append(byClass[f.class], f.msg)
		}
	}
	if len(order) > 0 {
		wit.ProxyLog = w.logs.tail(12)
	}
	for _, c := range order {
		ms := byClass[c]
		if len(ms) > 4 {
			ms = append(ms[:4], fmt.Sprintf("… %d more", len(ms)-4))
		}
		run.Violation(c, wit, "%s: %s", desc, strings.Join(ms, "; "))
	}
	if len(order) == 0 {
		run.Add("exchanges_intact", 1)
	}
	// evidence
	run.Distinct(s.shapeKey())
	run.Add("exchanges_"+s.Proto, 1)
	run.Add("method_"+s.Method, 1)
	run.Add("request_body_"+sizeClass(s.BodyLen, s.HasBody), 1)
	run.Add("request_bytes_up", sent.BodyLen)
	run.Add("request_header_fields_sent", int64(len(sent.Fields)))
	if s.Preserve {
		run.Add("exchanges_preserve_host", 1)
	}
	if sent.H2 {
		run.Add("h2_request_data_frames", int64(sent.DataFrames))
		run.Add("h2_request_data_frames_padded", int64(sent.PaddedFrames))
		run.Add("h2_request_data_frames_empty", int64(sent.EmptyFrames))
		run.Add("h2_request_header_block_frames", int64(sent.HeaderFrames))
	}
	if got != nil && got.Err == "" {
		run.Add("response_bytes_down", got.BodyLen)
		run.Add(fmt.Sprintf("response_status_%d", got.Status), 1)
		n := 0
		for _, vs := range got.Header {
			n += len(vs)
		}
		run.Add("response_header_fields_received", int64(n))
		if produced != nil {
			run.Add("response_body_"+sizeClass(int(produced.BodyLen), bodyAllowed(s.Method, produced.Status)), 1)
			if produced.Gzipped {
				run.Add("responses_gzip_coded_by_backend", 1)
			}
		}
	}
	if q, ok := targetQuery(s.Target); ok && queryUnparsable(q) {
		run.Add("inputs_query_unparsable_parameter", 1)
	}
	if noAcceptEncoding(multimap(sent.Fields)) {
		run.Add("inputs_no_accept_encoding_from_client", 1)
	}
	if run.WantSample() && s.ID%37 == 5 {
		run.Sample(map[string]any{"proto": s.Proto, "method": s.Method, "target": clip(s.Target), "request_headers": len(sent.Fields), "request_body": sent.BodyLen,
			"pieces": len(s.Pieces), "status": s.Plan.Status, "response_body": sum(s.Plan.Chunks), "trailers": len(s.Plan.Trailers), "preserve_host": s.Preserve})
	}
}

// connPlan is one client connection with its exchanges.
type connPlan struct {
	id       int
	proto    string
	preserve bool
	batches  [][]*exchange // h1: one "batch" run sequentially
	window   int           // h2raw: client SETTINGS_INITIAL_WINDOW_SIZE
	lazyWU   bool
	stress   bool // runs in the second phase, all such connections at once
	stat     *connStat
}

func (w *world) layout() []*connPlan {
	run := w.run
	r := run.Rand(1)
	total := run.Pick(3000, 40000)
	bigReq := run.Pick(6, 200)
	bigResp := run.Pick(4, 120)
	bigRaw := run.Pick(2, 60)
	var conns []*connPlan
	id := 0
	runID := fmt.Sprintf("C08-%d", run.Seed)
	mk := func(cp *connPlan, big, bigR int) *exchange {
		sr := run.Rand(int64(1000 + id))
		respCap := 1 << 20
		if cp.proto == "h2raw" {
			// the response is delivered in frames no larger than the client's window
			respCap = min(256<<10, 512*cp.window)
		}
		s := genSpec(sr, runID, id, cp.proto, big, bigR, respCap)
		s.Preserve = cp.preserve
		id++
		x := &exchange{s: s, conn: cp.stat, clientWindow: cp.window}
		w.reg.Store(s.Tag, x)
		return x
	}
	for n := 0; id < total; n++ {
		cp := &connPlan{id: n, preserve: n%2 == 1, stat: &connStat{}}
		switch k := n % 8; {
		case k == 1:
			cp.proto = "h2cc"
		case k == 4:
			cp.proto = "h2raw"
		default:
			cp.proto = "h1"
		}
		if n%16 >= 8 { // decorrelate protocol and host preservation
			cp.preserve = !cp.preserve
		}
		switch cp.proto {
		case "h1":
			k := 4 + r.Intn(13)
			var xs []*exchange
			for i := 0; i < k; i++ {
				big, bigR := 0, 0
				if bigReq > 0 && i == 1 {
					big = (1 << 20) + r.Intn(7<<20)
					if bigReq%3 == 0 {
						big = 8 << 20
					}
					bigReq--
				} else if bigResp > 0 && i == 2 {
					bigR = (1 << 20) + r.Intn(7<<20)
					bigResp--
				}
				xs = append(xs, mk(cp, big, bigR))
			}
			if r.Intn(3) == 0 {
				xs[len(xs)-1].s.CloseConn = true
			}
			cp.batches = [][]*exchange{xs}
		case "h2cc", "h2raw":
			nb := 1 + r.Intn(2)
			if cp.proto == "h2raw" {
				cp.window = pick(r, []int{17, 300, 4096, 16384, 65535, 1 << 20})
				cp.lazyWU = r.Intn(2) == 0
			}
			for bi := 0; bi < nb; bi++ {
				k := 5 + r.Intn(46)
				if n < 8 && bi == 0 {
					k = 50
				}
				var xs []*exchange
				for i := 0; i < k; i++ {
					big, bigR := 0, 0
					if cp.proto == "h2raw" && bigRaw > 0 && i == 5 {
						// beyond the server's 1 MiB stream window: the sender has to wait for WINDOW_UPDATE
						big = (1 << 20) + r.Intn(3<<19)
						bigRaw--
					}
					if cp.proto == "h2cc" {
						if bigReq > 0 && i == 3 {
							big = (1 << 20) + r.Intn(7<<20)
							bigReq--
						} else if bigResp > 0 && i == 7 {
							bigR = (1 << 20) + r.Intn(7<<20)
							bigResp--
						}
					}
					xs = append(xs, mk(cp, big, bigR))
				}
				b := newBatch(len(xs))
				for _, x := range xs {
					x.b = b
				}
				cp.batches = append(cp.batches, xs)
			}
		}
		conns = append(conns, cp)
	}
	// HTTP/1.1 uploads with Content-Length answered at once with a long body (see genRaceSpec)
	nr := run.Pick(16, 64)
	for i := 0; i < nr; i++ {
		cp := &connPlan{id: len(conns), proto: "h1", preserve: i%2 == 1, stat: &connStat{}, stress: true}
		var xs []*exchange
		for k := 0; k < 100; k++ {
			s := genRaceSpec(run.Rand(int64(1000+id)), runID, id)
			s.Preserve = cp.preserve
			id++
			x := &exchange{s: s, conn: cp.stat}
			w.reg.Store(s.Tag, x)
			xs = append(xs, x)
		}
		cp.batches = [][]*exchange{xs}
		conns = append(conns, cp)
	}
	return conns
}

func (w *world) runConn(cp *connPlan) {
	px := w.proxy(cp.preserve)
	switch cp.proto {
	case "h1":
		w.runH1(cp, px)
	case "h2cc":
		w.runH2CC(cp, px)
	case "h2raw":
		w.runH2Raw(cp, px)
	}
	for _, b := range cp.batches {
		for _, x := range b {
			w.judge(x)
			w.reg.Delete(x.s.Tag)
		}
	}
	m := atomic.LoadInt32(&cp.stat.max)
	for {
		cur := atomic.LoadInt32(&w.maxInFl)
		if m <= cur || atomic.CompareAndSwapInt32(&w.maxInFl, cur, m) {
			break
		}
	}
	w.run.Add("connections_"+cp.proto, 1)
}

func main() {
	rule := "generated exchanges (method x path shape x query shape x 0..40 end-to-end headers incl. repeated/empty/16 KiB values x hop-by-hop and Connection-nominated headers x request body 0..8 MiB cut into PRNG pieces, with/without Content-Length x backend plan: 12 status codes, 0..30 headers, streamed body, trailers, gzip honoured) over raw HTTP/1.1 keep-alive, x/net v0.19.0 ClientConn and raw h2 frames (padding, CONTINUATION, small windows), preserve-host off/on, up to 50 in flight per h2 connection. Distinct = distinct shape keys (protocol, preserve, method, path/query kind, header count, body class, piece count, status, response shape)"
	run := verdict.Start("C08", "exploration", rule)
	w := &world{run: run}
	w.be = rig.NewBackend(nil)
	defer w.be.Close()
	w.be.PlanFor = w.planFor
	var err error
	if w.px[0], err = rig.StartProxy(w.be.URL, rig.ProxyOpts{}); err != nil {
		run.Inconclusive("cannot start proxy: %v", err)
		run.Finish()
	}
	if w.px[1], err = rig.StartProxy(w.be.URL, rig.ProxyOpts{Args: []string{"-preserve-host"}}); err != nil {
		run.Inconclusive("cannot start proxy with -preserve-host: %v", err)
		run.Finish()
	}

	rig.Quiet(&w.logs)

	if run.ReplayFile != "" {
		var wit witness
		if err := verdict.LoadReplay(run.ReplayFile, &wit); err != nil || wit.Spec == nil {
			run.Inconclusive("replay unreadable: %v", err)
			run.Finish()
		}
		s := wit.Spec
		cp := &connPlan{proto: s.Proto, preserve: s.Preserve, stat: &connStat{}, window: 65535}
		x := &exchange{s: s, conn: cp.stat, clientWindow: cp.window}
		if s.Proto != "h1" {
			x.b = newBatch(1)
		}
		w.reg.Store(s.Tag, x)
		cp.batches = [][]*exchange{{x}}
		w.runConn(cp)
		run.Logf("replayed %s", s.Tag)
		run.Finish()
	}

	conns := w.layout()
	for phase := 0; phase < 2; phase++ {
		par := 6
		if phase == 1 {
			par = 16
		}
		sem := make(chan struct{}, par)
		var wg sync.WaitGroup
		for _, cp := range conns {
			if cp.stress != (phase == 1) {
				continue
			}
			wg.Add(1)
			sem <- struct{}{}
			go func(cp *connPlan) {
				defer wg.Done()
				defer func() { <-sem }()
				w.runConn(cp)
			}(cp)
		}
		wg.Wait()
	}
	run.Set("max_exchanges_in_flight_on_one_connection", atomic.LoadInt32(&w.maxInFl))
	run.Add("max_in_flight_per_connection", int64(atomic.LoadInt32(&w.maxInFl)))
	run.Add("backend_records_total", int64(w.be.Count()))

	w.px[0].Stop()
	w.px[1].Stop()

	extraPhases(run)
	interimPhase(run)
	bufferMonitors(run)
	run.Require("h2_long_connection_uploads", 300)
	run.Require("duplex_uploads_h1-chunked", 3)
	run.Require("requests_compared_at_backend", int64(run.Pick(2500, 35000)))
	run.Require("responses_compared_at_client", int64(run.Pick(2500, 35000)))
	run.Require("exchanges_h1", 50)
	run.Require("exchanges_h2cc", 50)
	run.Require("exchanges_h2raw", 50)
	run.Require("max_in_flight_per_connection", 40)
	run.Require("response_trailer_sets_checked", 20)
	run.Require("request_body_1MiB-8MiB", 4)
	run.Assume("well-formed requests only: RFC 3986 path characters, header values without leading/trailing whitespace, a single non-empty User-Agent; no Upgrade, Expect, request trailers, 1xx; client-supplied Forwarded/X-Forwarded-*/fingerprint headers are C05/C09's subject and are not generated")
	run.Assume("values of the forwarding and fingerprint headers are not judged here (C01-C03, C05, C09); only that nothing else is added")
	run.Finish()
}
