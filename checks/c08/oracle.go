//go:build verif

package main

import (
	"fmt"
	"sort"
	"strings"

	"verif/internal/rig"
)

// Sent is what the client put on the wire (for h1: the text written; for h2:
// decoded from the plaintext bytes written, by the independent Framer/HPACK).
type Sent struct {
	H2        bool        `json:"h2"`
	Method    string      `json:"method"`
	Target    string      `json:"target"`
	Authority string      `json:"authority"`
	Fields    [][2]string `json:"-"` // regular header fields in wire order (h1: without Host)
	BodyLen   int64       `json:"body_len"`
	BodySHA   string      `json:"body_sha256"`
	// wire statistics (h2)
	DataFrames, PaddedFrames, EmptyFrames, HeaderFrames int
	MinFrame, MaxFrame                                  int
	Complete                                            bool `json:"complete"`
}

// Got is what the client received.
type Got struct {
	Status  int                 `json:"status"`
	Header  map[string][]string `json:"header"` // lower-case names
	BodyLen int64               `json:"body_len"`
	BodySHA string              `json:"body_sha256"`
	Trailer map[string][]string `json:"trailer,omitempty"`
	Err     string              `json:"error,omitempty"`
}

// Produced is what the backend handler actually emitted for the request.
type Produced struct {
	Status   int         `json:"status"`
	Header   [][2]string `json:"header"`
	BodyLen  int64       `json:"body_len"`
	BodySHA  string      `json:"body_sha256"`
	Trailers [][2]string `json:"trailers,omitempty"`
	Gzipped  bool        `json:"gzipped_because_request_carried_accept_encoding_gzip"`
}

var hopNames = map[string]bool{"connection": true, "keep-alive": true, "proxy-connection": true, "proxy-authenticate": true,
	"proxy-authorization": true, "te": true, "trailer": true, "transfer-encoding": true, "upgrade": true}

func isHopName(n string) bool { return hopNames[n] }

// headers the statement allows the proxy to set
var proxySets = map[string]bool{"x-forwarded-for": true, "x-forwarded-host": true, "x-forwarded-proto": true,
	"x-ja3-fingerprint": true, "x-ja4-fingerprint": true, "x-http2-fingerprint": true}

func tokens(vs []string) []string {
	var out []string
	for _, v := range vs {
		for _, t := range strings.Split(v, ",") {
			t = strings.ToLower(strings.Trim(t, " \t"))
			if t != "" {
				out = append(out, t)
			}
		}
	}
	return out
}

func has(xs []string, s string) bool {
	for _, x := range xs {
		if x == s {
			return true
		}
	}
	return false
}

func multimap(fields [][2]string) map[string][]string {
	m := map[string][]string{}
	for _, f := range fields {
		k := strings.ToLower(f[0])
		m[k] = append(m[k], f[1])
	}
	return m
}

func short(vs []string) string {
	var out []string
	for _, v := range vs {
		if len(v) > 80 {
			v = fmt.Sprintf("%s…(%d bytes)", v[:60], len(v))
		}
		out = append(out, fmt.Sprintf("%q", v))
	}
	return "[" + strings.Join(out, " ") + "]"
}

func eq(a, b []string) bool {
	if len(a) != len(b) {
		return false
	}
	for i := range a {
		if a[i] != b[i] {
			return false
		}
	}
	return true
}

type finding struct {
	class string
	msg   string
}

func targetQuery(t string) (string, bool) {
	i := strings.IndexByte(t, '?')
	if i < 0 {
		return "", false
	}
	return t[i+1:], true
}

// judgeRequest compares the backend record with what the client sent.
func judgeRequest(s *Spec, sent *Sent, rec *rig.Record, backendHost string) []finding {
	var fs []finding
	add := func(class, format string, a ...any) { fs = append(fs, finding{class, fmt.Sprintf(format, a...)}) }

	if rec.Method != sent.Method {
		add("method-altered", "method at the backend %q, client sent %q", rec.Method, sent.Method)
	}
	if rec.RequestURI != sent.Target {
		class := "request-target-altered"
		sp, _ := targetQueryPath(sent.Target)
		rp, _ := targetQueryPath(rec.RequestURI)
		if q, ok := targetQuery(sent.Target); ok && queryUnparsable(q) && sp == rp {
			class = "query-unparsable-parameter"
		}
		add(class, "request-URI at the backend %q, client sent %q", clip(rec.RequestURI), clip(sent.Target))
	}
	wantHost := backendHost
	if s.Preserve {
		wantHost = sent.Authority
	}
	if rec.Host != wantHost {
		class := "host-not-backend-host"
		if s.Preserve {
			class = "host-not-preserved"
		}
		add(class, "Host at the backend %q, want %q (preserve-host=%v, client sent %q)", rec.Host, wantHost, s.Preserve, sent.Authority)
	}
	if rec.BodyLen != sent.BodyLen || rec.BodySHA != sent.BodySHA {
		add("request-body-altered", "request body at the backend: %d bytes sha256 %s; client sent %d bytes sha256 %s", rec.BodyLen, rec.BodySHA[:16], sent.BodyLen, sent.BodySHA[:16])
	}

	all := multimap(sent.Fields)
	nominated := tokens(all["connection"])
	want := map[string][]string{}
	for k, vs := range all {
		if hopNames[k] || has(nominated, k) || k == "host" || k == "content-length" || strings.HasPrefix(k, ":") {
			continue
		}
		want[k] = vs
	}
	got := map[string][]string{}
	for k, vs := range rec.Header {
		lk := strings.ToLower(k)
		got[lk] = append(got[lk], vs...)
	}
	for k, vs := range got {
		switch {
		case k == "content-length" || k == "transfer-encoding" || k == "trailer":
			delete(got, k) // framing of the proxy->backend hop
		case proxySets[k]:
			delete(got, k)
		case k == "te":
			// the proxy may announce its own trailer support on its hop iff the client did
			if !(has(tokens(all["te"]), "trailers") && eq(vs, []string{"trailers"})) {
				add("hop-by-hop-header-forwarded", "hop-by-hop header Te %s reached the backend (client sent Te %s)", short(vs), short(all["te"]))
			}
			delete(got, k)
		case hopNames[k]:
			add("hop-by-hop-header-forwarded", "hop-by-hop header %s %s reached the backend", k, short(vs))
			delete(got, k)
		case has(nominated, k):
			add("hop-by-hop-header-forwarded", "header %s %s nominated by Connection reached the backend", k, short(vs))
			delete(got, k)
		}
	}
	// The recording backend is a net/http server: its request reader synthesises
	// "Cache-Control: no-cache" from "Pragma: no-cache" (RFC 7234 5.4) in the record
	// itself; that header was never on the proxy->backend wire.
	if p := want["pragma"]; len(p) > 0 && p[0] == "no-cache" {
		if _, ok := want["cache-control"]; !ok && eq(got["cache-control"], []string{"no-cache"}) {
			delete(got, "cache-control")
		}
	}
	if sent.H2 {
		// RFC 9113 8.2.3: cookie crumbs may be joined with "; " when passed into a non-HTTP/2 context
		if vs, ok := want["cookie"]; ok {
			want["cookie"] = []string{strings.Join(vs, "; ")}
		}
		if vs, ok := got["cookie"]; ok {
			got["cookie"] = []string{strings.Join(vs, "; ")}
		}
	}
	var names []string
	for k := range want {
		names = append(names, k)
	}
	for k := range got {
		if _, ok := want[k]; !ok {
			names = append(names, k)
		}
	}
	sort.Strings(names)
	for _, k := range names {
		w, wok := want[k]
		g, gok := got[k]
		switch {
		case wok && !gok:
			add("request-header-removed", "end-to-end header %s %s sent by the client is missing at the backend", k, short(w))
		case !wok && gok:
			class := "request-header-added"
			if k == "accept-encoding" && noAcceptEncoding(all) {
				class = "no-accept-encoding-from-client"
			}
			add(class, "backend received header %s %s which the client did not send", k, short(g))
		case !eq(w, g):
			class := "request-header-altered"
			if k == "accept-encoding" && noAcceptEncoding(all) {
				class = "no-accept-encoding-from-client"
			}
			add(class, "header %s: backend received %s, client sent %s", k, short(g), short(w))
		}
	}
	return fs
}

// noAcceptEncoding is the input-class predicate of defect D14: the client sent
// no Accept-Encoding header, or only empty ones.
func noAcceptEncoding(all map[string][]string) bool {
	for _, v := range all["accept-encoding"] {
		if v != "" {
			return false
		}
	}
	return true
}

func targetQueryPath(t string) (string, string) {
	if i := strings.IndexByte(t, '?'); i >= 0 {
		return t[:i], t[i:]
	}
	return t, ""
}

func clip(s string) string {
	if len(s) > 300 {
		return fmt.Sprintf("%s…(%d bytes)", s[:300], len(s))
	}
	return s
}

// judgeResponse checks that everything the backend produced reached the client.
func judgeResponse(s *Spec, sent *Sent, rec *rig.Record, p *Produced, g *Got) []finding {
	var fs []finding
	// when the backend compressed because of an Accept-Encoding the client never
	// sent, every difference in coding is the D14 class
	d14 := p.Gzipped && noAcceptEncoding(multimap(sent.Fields))
	add := func(class, format string, a ...any) { fs = append(fs, finding{class, fmt.Sprintf(format, a...)}) }
	if g.Status != p.Status {
		add("response-status-altered", "client received status %d, backend sent %d", g.Status, p.Status)
		if g.Status == 502 || g.Status == 504 {
			return fs // proxy error page; nothing else to compare
		}
	}
	want := multimap(p.Header)
	var names []string
	for k := range want {
		names = append(names, k)
	}
	sort.Strings(names)
	for _, k := range names {
		gv, ok := g.Header[k]
		class := ""
		switch {
		case !ok:
			class = "response-header-removed"
		case !eq(gv, want[k]):
			class = "response-header-altered"
		default:
			continue
		}
		if d14 && (k == "content-encoding" || k == "content-length") {
			class = "no-accept-encoding-from-client"
		}
		add(class, "response header %s: client received %s, backend sent %s", k, short(gv), short(want[k]))
	}
	if g.BodyLen != p.BodyLen || g.BodySHA != p.BodySHA {
		class := "response-body-altered"
		if d14 {
			class = "no-accept-encoding-from-client"
		}
		add(class, "response body at the client: %d bytes sha256 %s; backend sent %d bytes sha256 %s", g.BodyLen, g.BodySHA[:16], p.BodyLen, p.BodySHA[:16])
	}
	wt := multimap(p.Trailers)
	names = names[:0]
	for k := range wt {
		names = append(names, k)
	}
	sort.Strings(names)
	for _, k := range names {
		gv, ok := g.Trailer[k]
		if !ok {
			add("response-trailer-lost", "trailer %s %s announced and sent by the backend did not reach the client (trailers received: %v)", k, short(wt[k]), keys(g.Trailer))
		} else if !eq(gv, wt[k]) {
			add("response-trailer-altered", "trailer %s: client received %s, backend sent %s", k, short(gv), short(wt[k]))
		}
	}
	return fs
}

func keys(m map[string][]string) []string {
	var ks []string
	for k, v := range m {
		if len(v) > 0 {
			ks = append(ks, k)
		}
	}
	sort.Strings(ks)
	return ks
}
