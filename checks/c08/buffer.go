//go:build verif

package main

import (
	"bytes"
	"errors"
	"fmt"
	"io"
	"math/rand"
	"sync"

	fork "github.com/wi1dcard/fingerproxy/pkg/http2"

	"verif/internal/verdict"
)

// Model-based monitor of the request-body buffer of the forked HTTP/2 server (pkg/http2/databuffer.go, pipe.go):
// "body bytes ... for any chunking or framing". Added after seeded change C08-K, whose trigger (a reader standing at
// one particular offset of the first chunk when the next DATA frame arrives) the full stack reaches only by luck:
// the outbound transport reads in 32 KiB pieces. Here the buffer is driven directly through the verif export
// with write and read sizes on and around its chunk classes (1, 2, 4, 8, 16 KiB) and compared with a byte queue.

var bufSizes = []int{0, 1, 2, 7, 100, 1023, 1024, 1025, 2047, 2048, 2049, 4095, 4096, 4097, 8191, 8192, 8193, 16383, 16384, 16385, 20000, 32768, 40000}

func pickSize(r *rand.Rand) int {
	if r.Intn(4) == 0 {
		return r.Intn(17000)
	}
	return bufSizes[r.Intn(len(bufSizes))]
}

// content: position-dependent bytes, so that repeated, lost or reordered pieces cannot cancel out
func fillAt(p []byte, pos int64) {
	for i := range p {
		x := uint64(pos+int64(i)) * 0x9e3779b97f4a7c15
		p[i] = byte(x >> 56)
	}
}

type bufOp struct {
	Op string `json:"op"` // write | read
	N  int    `json:"n"`
}

func dataBufferSequence(run *verdict.Run, seed int64, nops int) {
	r := rand.New(rand.NewSource(seed))
	var expected int64
	switch r.Intn(4) {
	case 1:
		expected = int64(pickSize(r) + pickSize(r))
	case 2:
		expected = int64(1 + r.Intn(100)) // declared small, more arrives (the server refuses that earlier; the buffer must cope)
	case 3:
		expected = 1 << 20
	}
	b := fork.VerifNewDataBuffer(expected)
	var model bytes.Buffer
	var wpos, rpos int64
	var ops []bufOp
	fail := func(class, format string, args ...any) {
		run.Violation("request-body-buffer/"+class, map[string]any{"seed": seed, "declared_length": expected, "ops": ops, "chunks": b.VerifChunks()}, "dataBuffer(expected=%d) seed %d after %d ops: %s", expected, seed, len(ops), fmt.Sprintf(format, args...))
	}
	for i := 0; i < nops; i++ {
		if r.Intn(2) == 0 || model.Len() == 0 {
			n := pickSize(r)
			p := make([]byte, n)
			fillAt(p, wpos)
			ops = append(ops, bufOp{"write", n})
			m, err := b.Write(p)
			if err != nil || m != n {
				fail("write", "Write(%d bytes) = %d, %v", n, m, err)
				return
			}
			model.Write(p)
			wpos += int64(n)
			run.Add("request_body_buffer_bytes_written", int64(n))
		} else {
			n := pickSize(r)
			if r.Intn(3) == 0 && model.Len() > 0 {
				// stand exactly on a chunk-class boundary of what is buffered
				n = []int{1024, 2048, 4096, 8192, 16384}[r.Intn(5)]
			}
			p := make([]byte, n)
			ops = append(ops, bufOp{"read", n})
			m, err := b.Read(p)
			want := make([]byte, n)
			wm, _ := model.Read(want)
			if n > 0 && (err != nil || m == 0) {
				fail("read", "Read(%d) = %d, %v with %d bytes buffered", n, m, err, wm+model.Len())
				return
			}
			if m > wm {
				fail("read", "Read(%d) returned %d bytes, only %d were buffered", n, m, wm)
				return
			}
			if m < wm {
				// a short read is legal (one chunk at a time): give the rest back to the model
				rest := append(append([]byte{}, want[m:wm]...), model.Bytes()...)
				model.Reset()
				model.Write(rest)
			}
			if !bytes.Equal(p[:m], want[:m]) {
				d := 0
				for d < m && p[d] == want[d] {
					d++
				}
				fail("content", "Read returned other bytes than were written at stream offset %d (first difference at offset %d)", rpos, rpos+int64(d))
				return
			}
			rpos += int64(m)
		}
		if b.Len() != model.Len() {
			fail("length", "Len() = %d, %d bytes are buffered", b.Len(), model.Len())
			return
		}
	}
	run.Eval(1)
	run.Add("request_body_buffer_sequences", 1)
	run.Add("request_body_buffer_ops", int64(len(ops)))
}

// pipeStream: a writer goroutine (the frame-reading side) and a reader goroutine (the handler) on the real pipe,
// with the sizes above; the reader must see exactly the written stream and then the closing error.
func pipeStream(run *verdict.Run, seed int64) {
	r := rand.New(rand.NewSource(seed))
	total := int64(20000 + r.Intn(400000))
	var expected int64
	if r.Intn(2) == 0 {
		expected = total
	}
	p := fork.VerifNewPipe(expected)
	wr := rand.New(rand.NewSource(seed + 1))
	rr := rand.New(rand.NewSource(seed + 2))
	endErr := io.EOF
	if r.Intn(3) == 0 {
		endErr = errors.New("verif: stream reset")
	}
	var wg sync.WaitGroup
	wg.Add(1)
	go func() {
		defer wg.Done()
		var pos int64
		for pos < total {
			n := int64(pickSize(wr))
			if n > total-pos {
				n = total - pos
			}
			b := make([]byte, n)
			fillAt(b, pos)
			if m, err := p.Write(b); err != nil || int64(m) != n {
				run.Violation("request-body-buffer/pipe-write", map[string]any{"seed": seed}, "pipe seed %d: Write(%d) = %d, %v", seed, n, m, err)
				break
			}
			pos += n
		}
		p.CloseWithError(endErr)
	}()
	var pos int64
	for {
		b := make([]byte, 1+pickSize(rr))
		n, err := p.Read(b)
		want := make([]byte, n)
		fillAt(want, pos)
		if !bytes.Equal(b[:n], want) {
			run.Violation("request-body-buffer/pipe-content", map[string]any{"seed": seed, "declared_length": expected, "total": total}, "pipe seed %d: the reader got other bytes than the writer wrote at stream offset %d", seed, pos)
			break
		}
		pos += int64(n)
		if err != nil {
			if err != endErr || pos != total {
				run.Violation("request-body-buffer/pipe-end", map[string]any{"seed": seed, "declared_length": expected, "total": total}, "pipe seed %d: reader ended with %v after %d of %d bytes (writer closed with %v)", seed, err, pos, total, endErr)
			}
			break
		}
	}
	wg.Wait()
	run.Eval(1)
	run.Add("request_body_pipe_streams", 1)
	run.Add("request_body_pipe_bytes", pos)
}

func bufferMonitors(run *verdict.Run) {
	rng := run.Rand(808)
	nseq := run.Pick(2500, 100000)
	seeds := make([]int64, nseq)
	for i := range seeds {
		seeds[i] = rng.Int63()
	}
	var wg sync.WaitGroup
	for w := 0; w < 8; w++ {
		wg.Add(1)
		go func(w int) {
			defer wg.Done()
			for i := w; i < nseq; i += 8 {
				if run.Violations() > 3 {
					return
				}
				dataBufferSequence(run, seeds[i], 20+int(seeds[i]%120))
			}
		}(w)
	}
	wg.Wait()
	np := run.Pick(200, 5000)
	for w := 0; w < 8; w++ {
		wg.Add(1)
		go func(w int) {
			defer wg.Done()
			for i := w; i < np; i += 8 {
				pipeStream(run, seeds[i%nseq]^int64(i))
			}
		}(w)
	}
	wg.Wait()
	run.Require("request_body_buffer_sequences", 1000)
	run.Require("request_body_pipe_streams", 100)
}
