//go:build verif

package main

import (
	"fmt"
	"math/rand"
	"strings"
)

// Spec is one generated exchange. It is a pure function of (seed, tier, index)
// and is what a replay file carries.
type Spec struct {
	ID       int    `json:"id"`
	Tag      string `json:"tag"`
	Proto    string `json:"proto"` // h1 | h2cc (x/net ClientConn) | h2raw (h2peer frames)
	Preserve bool   `json:"preserve_host"`

	Method    string      `json:"method"`
	Target    string      `json:"target"` // origin-form request-target / :path, exactly as sent
	Authority string      `json:"authority"`
	Headers   [][2]string `json:"headers"` // in the order written; for h2 the names are lower case

	BodySeed  int64 `json:"body_seed"`
	BodyLen   int   `json:"body_len"`
	Pieces    []int `json:"pieces,omitempty"` // sizes of the writes / chunks / DATA frames
	HasBody   bool  `json:"has_body"`         // false: no body framing at all (END_STREAM on HEADERS, no CL/TE)
	DeclareCL bool  `json:"declare_content_length"`

	// h2raw framing
	Pads         []int `json:"pads,omitempty"`        // per piece: -1 not padded, else pad length 0..255
	HeaderCuts   []int `json:"header_cuts,omitempty"` // sizes of HEADERS/CONTINUATION fragments (rest in last)
	EndOnEmpty   bool  `json:"end_stream_on_empty_data"`
	HeadersPad   int   `json:"headers_pad"` // -1 none
	WithPriority bool  `json:"headers_priority"`
	// h1 framing
	ChunkExt  bool `json:"chunk_ext,omitempty"`
	CloseConn bool `json:"connection_close,omitempty"`

	Plan PlanSpec `json:"plan"`

	// shape words for the distinct-case key and the evidence
	PathKind, QueryKind string
	BigBody             bool `json:"-"`
}

type PlanSpec struct {
	Status     int         `json:"status"`
	Headers    [][2]string `json:"headers"`
	BodySeed   int64       `json:"body_seed"`
	Chunks     []int       `json:"chunks,omitempty"`
	PauseMs    int         `json:"pause_ms"`
	Trailers   [][2]string `json:"trailers,omitempty"`
	DeclareCL  bool        `json:"declare_content_length"`
	HonourGzip bool        `json:"honour_accept_encoding_gzip"`
}

var methods = []string{"GET", "GET", "GET", "POST", "POST", "POST", "PUT", "PATCH", "DELETE", "OPTIONS", "HEAD", "PROPFIND"}

var statuses = []int{200, 200, 200, 200, 200, 201, 204, 206, 301, 304, 400, 404, 418, 500, 503, 299}

const unreserved = "abcdefghijklmnopqrstuvwxyzABCDEFGHIJKLMNOPQRSTUVWXYZ0123456789-._~"
const subDelimsPath = "!$&'()*+,;=:@"

func pick[T any](r *rand.Rand, xs []T) T { return xs[r.Intn(len(xs))] }

func randFrom(r *rand.Rand, alphabet string, n int) string {
	b := make([]byte, n)
	for i := range b {
		b[i] = alphabet[r.Intn(len(alphabet))]
	}
	return string(b)
}

func genSegment(r *rand.Rand) (string, string) {
	switch r.Intn(12) {
	case 0:
		return "a%2Fb", "pct2F"
	case 1:
		return "a%2fb%2F", "pct2f-lower"
	case 2:
		return "", "empty-segment" // produces "//"
	case 3:
		return ".", "dot"
	case 4:
		return "..", "dotdot"
	case 5:
		return pick(r, []string{"caf%C3%A9", "%E2%82%AC", "%e6%97%a5%E6%9C%AC", "%F0%9F%98%80"}), "utf8-escape"
	case 6:
		return randFrom(r, subDelimsPath+unreserved, 1+r.Intn(12)), "sub-delims"
	case 7:
		return pick(r, []string{"%20", "a%20b", "%25", "%3F", "%23x", "%41%42", "x%2E%2E", "%7e"}), "pct-misc"
	case 8:
		return randFrom(r, unreserved, 200+r.Intn(1800)), "long"
	default:
		return randFrom(r, unreserved, 1+r.Intn(10)), "plain"
	}
}

func genPath(r *rand.Rand) (string, string) {
	if r.Intn(10) == 0 {
		return "/", "root"
	}
	n := 1 + r.Intn(5)
	var sb strings.Builder
	kinds := map[string]bool{}
	for i := 0; i < n; i++ {
		s, k := genSegment(r)
		sb.WriteString("/" + s)
		kinds[k] = true
	}
	if r.Intn(5) == 0 {
		sb.WriteString("/")
		kinds["trailing-slash"] = true
	}
	var ks []string
	for _, k := range []string{"plain", "pct2F", "pct2f-lower", "empty-segment", "dot", "dotdot", "utf8-escape", "sub-delims", "pct-misc", "long", "trailing-slash"} {
		if kinds[k] {
			ks = append(ks, k)
		}
	}
	return sb.String(), strings.Join(ks, "+")
}

const queryChars = unreserved + "!$'()*,:@/?"

func genQuery(r *rand.Rand, allowUnparsable bool) (q string, has bool, kind string) {
	k := r.Intn(14)
	if k >= 12 && !allowUnparsable {
		k = r.Intn(12)
	}
	switch k {
	case 0, 1, 2:
		return "", false, "none"
	case 3:
		return "", true, "trailing-question-mark"
	case 4:
		return fmt.Sprintf("a=%s&b=%s", randFrom(r, unreserved, 1+r.Intn(8)), randFrom(r, unreserved, r.Intn(8))), true, "ordinary"
	case 5:
		n := 2 + r.Intn(4)
		var ps []string
		for i := 0; i < n; i++ {
			ps = append(ps, "k="+randFrom(r, unreserved, 1+r.Intn(4)))
		}
		if r.Intn(2) == 0 {
			ps = append(ps, "j=0", "k=last")
		}
		return strings.Join(ps, "&"), true, "repeated-keys"
	case 6:
		return pick(r, []string{"a=&b=&c", "a=", "=v", "a&b&c", "&&a=1&", "a=b=c", "&", "="}), true, "empty-values"
	case 7:
		return pick(r, []string{"q=a+b%20c", "x=%E2%9C%93&y=%2F%3F%26%3D", "u=%e6%97%a5", "p=%25zz", "q=%2B%2b"}), true, "escapes"
	case 8:
		return "z=26&y=25&b=2&a=1&m=13", true, "unsorted-keys"
	case 9:
		return randFrom(r, queryChars, 1+r.Intn(40)), true, "query-chars"
	case 10:
		return "r=/a/b?c=d&e=http://x.example/?f", true, "slash-and-question-mark"
	case 11:
		return "long=" + randFrom(r, unreserved, 1000+r.Intn(3000)), true, "long"
	case 12:
		return pick(r, []string{"b=1;c=2", "z=1;a=2&m=3", ";", "a=1&b=2;", "x=1&y=2;z=3&w=4"}), true, "semicolon"
	default:
		return pick(r, []string{"a=%zz", "z=1&a=%zz&b=2", "a=%", "k=v&a=%4", "z=9&y=%G1&a=1", "%&b=1"}), true, "bad-escape"
	}
}

// queryUnparsable is the input-class predicate of defect D12: the raw query
// contains a ';' or a '%' that does not start a valid percent-escape.
func queryUnparsable(q string) bool {
	for i := 0; i < len(q); i++ {
		switch q[i] {
		case ';':
			return true
		case '%':
			if i+2 > len(q)-1 || !isHex(q[i+1]) || !isHex(q[i+2]) {
				return true
			}
			i += 2
		}
	}
	return false
}

func isHex(c byte) bool {
	return c >= '0' && c <= '9' || c >= 'a' && c <= 'f' || c >= 'A' && c <= 'F'
}

const tokenPunct = "!#$%&'*+-.^_`|~"

func mixCase(r *rand.Rand, s string) string {
	b := []byte(s)
	for i := range b {
		if r.Intn(2) == 0 {
			if b[i] >= 'a' && b[i] <= 'z' {
				b[i] -= 32
			} else if b[i] >= 'A' && b[i] <= 'Z' {
				b[i] += 32
			}
		}
	}
	return string(b)
}

const valueChars = "abcdefghijklmnopqrstuvwxyzABCDEFGHIJKLMNOPQRSTUVWXYZ0123456789!\"#$%&'()*+,-./:;<=>?@[\\]^_`{|}~"

func genValue(r *rand.Rand, allowLong bool) string {
	switch k := r.Intn(20); {
	case k < 2:
		return ""
	case k < 10:
		return randFrom(r, valueChars, 1+r.Intn(24))
	case k < 13: // inner spaces and tabs
		return randFrom(r, valueChars, 1+r.Intn(6)) + pick(r, []string{" ", "  ", "\t", " \t ", ", ", "; "}) + randFrom(r, valueChars, 1+r.Intn(6))
	case k < 15:
		return pick(r, []string{"café", "日本語", "naïve ✓", "\xe9\xe8 latin1"})
	case k < 16 && allowLong:
		return randFrom(r, valueChars, 1024+r.Intn(15*1024+1))
	case k < 17:
		return randFrom(r, valueChars, 100+r.Intn(400))
	default:
		return pick(r, []string{"0", "text/html,application/xhtml+xml;q=0.9,*/*;q=0.8", "en-US,en;q=0.5", "no-cache", "\"etag-1\", W/\"etag-2\"", "Bearer abc.def.ghi", "bytes=0-0"})
	}
}

var stdReqNames = []string{"Accept", "Accept-Language", "Authorization", "Cache-Control", "Content-Type", "If-None-Match", "Origin", "Referer", "Pragma", "X-Requested-With", "If-Modified-Since", "Dnt", "Sec-Fetch-Mode", "Via", "Warning"}

func genHeaderName(r *rand.Rand, n int) string {
	switch r.Intn(10) {
	case 0, 1, 2:
		return pick(r, stdReqNames)
	case 3:
		return "X-C08" + randFrom(r, tokenPunct, 1+r.Intn(3)) + randFrom(r, unreserved[:52], 1+r.Intn(5))
	case 4:
		return "x-c08-lower-" + fmt.Sprint(n)
	default:
		return fmt.Sprintf("X-C08-%d", r.Intn(1+n*2))
	}
}

// genRequestHeaders returns the end-to-end header lines (without Host, tag,
// framing and hop-by-hop headers).
func genRequestHeaders(r *rand.Rand, h2 bool, budget int) [][2]string {
	var n int
	switch k := r.Intn(10); {
	case k < 2:
		n = 0
	case k < 7:
		n = 1 + r.Intn(10)
	case k < 9:
		n = 10 + r.Intn(20)
	default:
		n = 30 + r.Intn(11)
	}
	var hs [][2]string
	total := 0
	for i := 0; i < n; i++ {
		var name string
		if len(hs) > 0 && r.Intn(5) == 0 {
			name = hs[r.Intn(len(hs))][0] // repeated name
			if !h2 && r.Intn(2) == 0 {
				name = mixCase(r, name)
			}
		} else {
			name = genHeaderName(r, i)
		}
		v := genValue(r, total < budget)
		total += len(name) + len(v) + 4
		hs = append(hs, [2]string{name, v})
	}
	// a near-the-limit header set now and then: many 16 KiB values
	if budget >= 600<<10 && r.Intn(40) == 0 {
		for total < budget {
			v := randFrom(r, valueChars, 16*1024)
			name := fmt.Sprintf("X-C08-Big-%d", len(hs))
			hs = append(hs, [2]string{name, v})
			total += len(v) + len(name) + 4
		}
	}
	if r.Intn(2) == 0 {
		hs = append(hs, [2]string{"Accept-Encoding", pick(r, []string{"gzip", "gzip", "identity", "br", "gzip, deflate, br", "deflate", "*;q=0.1"})})
	}
	if r.Intn(3) != 0 {
		hs = append(hs, [2]string{"User-Agent", pick(r, []string{"c08-client/1.0", "Mozilla/5.0 (X11; Linux x86_64) verif", "curl/8.5.0"})})
	}
	if r.Intn(5) == 0 {
		nc := 1 + r.Intn(3)
		for i := 0; i < nc; i++ {
			v := fmt.Sprintf("c%d=%s", i, randFrom(r, unreserved, 1+r.Intn(12)))
			if r.Intn(3) == 0 {
				v += "; d" + fmt.Sprint(i) + "=" + randFrom(r, unreserved, 3)
			}
			hs = append(hs, [2]string{"Cookie", v})
		}
	}
	r.Shuffle(len(hs), func(i, j int) { hs[i], hs[j] = hs[j], hs[i] })
	if h2 {
		for i := range hs {
			hs[i][0] = strings.ToLower(hs[i][0])
		}
	}
	return hs
}

// genHopByHop returns hop-by-hop header lines; every one of them must be gone
// at the backend (Te: trailers excepted, which the proxy may re-announce).
func genHopByHop(r *rand.Rand, h2 bool, id int) [][2]string {
	var hs [][2]string
	if h2 {
		// RFC 9113 forbids connection-specific fields; only these are legal
		if r.Intn(2) == 0 {
			hs = append(hs, [2]string{"te", "trailers"})
		}
		if r.Intn(2) == 0 {
			hs = append(hs, [2]string{"proxy-authorization", "Basic dmVyaWY6YzA4"})
		}
		return hs
	}
	var conn []string
	if r.Intn(2) == 0 {
		nn := 1 + r.Intn(2)
		for i := 0; i < nn; i++ {
			name := fmt.Sprintf("X-C08-Hop-%d-%d", id, i)
			conn = append(conn, pick(r, []string{name, strings.ToLower(name)}))
			hs = append(hs, [2]string{name, "must-not-arrive-" + fmt.Sprint(i)})
			if r.Intn(4) == 0 {
				hs = append(hs, [2]string{name, "second-value"})
			}
		}
	}
	if r.Intn(3) == 0 {
		conn = append(conn, "keep-alive")
		hs = append(hs, [2]string{"Keep-Alive", "timeout=5, max=100"})
	}
	if len(conn) > 0 {
		if len(conn) > 1 && r.Intn(2) == 0 { // two Connection lines
			hs = append(hs, [2]string{"Connection", conn[0]}, [2]string{"Connection", strings.Join(conn[1:], ", ")})
		} else {
			hs = append(hs, [2]string{"Connection", strings.Join(conn, pick(r, []string{", ", ","}))})
		}
	}
	if r.Intn(4) == 0 {
		hs = append(hs, [2]string{"Proxy-Connection", "keep-alive"})
	}
	if r.Intn(4) == 0 {
		hs = append(hs, [2]string{"Proxy-Authorization", "Basic dmVyaWY6YzA4"})
	}
	if r.Intn(8) == 0 {
		hs = append(hs, [2]string{"Proxy-Authenticate", "Basic realm=x"})
	}
	if r.Intn(4) == 0 {
		hs = append(hs, [2]string{"Te", pick(r, []string{"trailers", "gzip", "trailers, deflate;q=0.5", "deflate"})})
	}
	if r.Intn(8) == 0 && len(conn) == 0 {
		hs = append(hs, [2]string{"Keep-Alive", "timeout=7"})
	}
	r.Shuffle(len(hs), func(i, j int) { hs[i], hs[j] = hs[j], hs[i] })
	return hs
}

func cutPieces(r *rand.Rand, total int, maxPieces int) []int {
	if total == 0 {
		return nil
	}
	var ps []int
	rem := total
	for rem > 0 {
		var n int
		if len(ps) >= maxPieces-1 {
			n = rem
		} else {
			switch k := r.Intn(10); {
			case k < 2:
				n = 1
			case k < 5:
				n = 1 + r.Intn(100)
			case k < 8:
				n = 1 + r.Intn(16*1024)
			default:
				n = 1 + r.Intn(512*1024)
			}
		}
		if n > rem {
			n = rem
		}
		// keep the number of pieces of multi-MiB bodies bounded
		if total > 1<<20 && n < total/(maxPieces) {
			n = total/maxPieces + r.Intn(64*1024)
			if n > rem {
				n = rem
			}
		}
		ps = append(ps, n)
		rem -= n
	}
	return ps
}

func genBodyLen(r *rand.Rand, maxLen int) int {
	var n int
	switch k := r.Intn(20); {
	case k < 5:
		n = 0
	case k < 11:
		n = 1 + r.Intn(1024)
	case k < 17:
		n = 1024 + r.Intn(63*1024)
	default:
		n = 64*1024 + r.Intn(960*1024)
	}
	if n > maxLen {
		n = 1 + r.Intn(maxLen)
	}
	return n
}

var respNames = []string{"Content-Type", "Cache-Control", "Etag", "Last-Modified", "Vary", "X-Frame-Options", "Content-Language", "Expires", "Server", "Link", "Www-Authenticate", "Retry-After", "Access-Control-Allow-Origin"}

func genPlan(r *rand.Rand, method string, big, respCap int) PlanSpec {
	p := PlanSpec{Status: pick(r, statuses), BodySeed: r.Int63()}
	var n int
	switch k := r.Intn(10); {
	case k < 2:
		n = 0
	case k < 8:
		n = 1 + r.Intn(8)
	default:
		n = 8 + r.Intn(23)
	}
	for i := 0; i < n; i++ {
		var name string
		switch k := r.Intn(10); {
		case k < 2 && len(p.Headers) > 0:
			name = p.Headers[r.Intn(len(p.Headers))][0]
		case k < 4:
			name = "Set-Cookie"
		case k < 6:
			name = pick(r, respNames)
		default:
			name = fmt.Sprintf("X-R-%d", r.Intn(1+2*n))
		}
		v := genValue(r, false)
		if name == "Set-Cookie" {
			v = fmt.Sprintf("s%d=%s; Path=/; HttpOnly", i, randFrom(r, unreserved, 1+r.Intn(20)))
		}
		if name == "Content-Type" {
			v = pick(r, []string{"application/octet-stream", "text/plain; charset=utf-8", "application/json", "image/png", "text/html"})
		}
		if r.Intn(60) == 0 {
			v = randFrom(r, valueChars, 2048+r.Intn(6*1024))
		}
		p.Headers = append(p.Headers, [2]string{name, v})
	}
	if p.Status == 301 {
		p.Headers = append(p.Headers, [2]string{"Location", "https://elsewhere.example/x?y=1"})
	}
	if p.Status == 206 {
		p.Headers = append(p.Headers, [2]string{"Content-Range", "bytes 0-9/100"})
	}
	if !bodyAllowed(method, p.Status) {
		return p
	}
	total := genBodyLen(r, respCap)
	if big > 0 {
		total = big
	}
	p.Chunks = cutPieces(r, total, 12+r.Intn(30))
	if r.Intn(6) == 0 { // zero-length writes in between
		p.Chunks = append(p.Chunks, 0)
		r.Shuffle(len(p.Chunks), func(i, j int) { p.Chunks[i], p.Chunks[j] = p.Chunks[j], p.Chunks[i] })
	}
	if r.Intn(5) == 0 {
		p.PauseMs = 1 + r.Intn(3)
		if len(p.Chunks) > 15 {
			p.Chunks = cutPieces(r, total, 10)
		}
	}
	if total > 0 && r.Intn(4) == 0 {
		nt := 1 + r.Intn(3)
		for i := 0; i < nt; i++ {
			name := pick(r, []string{"X-T-Checksum", "Grpc-Status", "Grpc-Message", "X-T-" + fmt.Sprint(r.Intn(5)), "Server-Timing"})
			dup := false
			for _, t := range p.Trailers {
				if t[0] == name && r.Intn(2) == 0 {
					dup = true
				}
			}
			if dup {
				continue
			}
			v := genValue(r, false)
			if r.Intn(4) != 0 && v == "" {
				v = "0"
			}
			p.Trailers = append(p.Trailers, [2]string{name, v})
		}
	}
	if len(p.Trailers) == 0 && r.Intn(5) < 2 {
		p.DeclareCL = true
	}
	if total > 0 && r.Intn(10) < 3 {
		p.HonourGzip = true
	}
	return p
}

func bodyAllowed(method string, status int) bool {
	return method != "HEAD" && status != 204 && status != 304
}

// genSpec builds exchange number id. big > 0 forces a request body of that
// size, bigResp > 0 a response body of that size.
func genSpec(r *rand.Rand, runID string, id int, proto string, big, bigResp, respCap int) *Spec {
	s := &Spec{ID: id, Proto: proto, HeadersPad: -1}
	s.Tag = fmt.Sprintf("%s-%d", runID, id)
	s.Preserve = r.Intn(2) == 0
	s.Method = pick(r, methods)
	if big > 0 {
		s.Method = pick(r, []string{"POST", "PUT", "PATCH"})
	}
	h2 := proto != "h1"
	path, pk := genPath(r)
	q, has, qk := genQuery(r, true)
	s.PathKind, s.QueryKind = pk, qk
	s.Target = path
	if has {
		s.Target += "?" + q
	}
	s.Authority = fmt.Sprintf("c08-%d.front.example", id%97)
	if r.Intn(4) == 0 {
		s.Authority += pick(r, []string{":443", ":8443"})
	}
	budget := 96 << 10
	if r.Intn(8) == 0 {
		budget = 640 << 10
	}
	if proto == "h2raw" && budget > 200<<10 {
		budget = 200 << 10
	}
	s.Headers = genRequestHeaders(r, h2, budget)
	if r.Intn(10) < 3 {
		hop := genHopByHop(r, h2, id)
		s.Headers = append(s.Headers, hop...)
		r.Shuffle(len(s.Headers), func(i, j int) { s.Headers[i], s.Headers[j] = s.Headers[j], s.Headers[i] })
	}
	// request body
	canBody := s.Method != "HEAD" && (s.Method != "GET" || r.Intn(12) == 0)
	s.BodySeed = r.Int63()
	if canBody && (big > 0 || r.Intn(10) < 8) {
		s.HasBody = true
		maxLen := 1 << 20
		if proto == "h2raw" {
			maxLen = 256 << 10
		}
		s.BodyLen = genBodyLen(r, maxLen)
		if big > 0 {
			s.BodyLen = big
			s.BigBody = true
		}
		s.DeclareCL = r.Intn(2) == 0
		s.Pieces = cutPieces(r, s.BodyLen, 20+r.Intn(300))
		if s.BodyLen == 0 && !s.DeclareCL && proto == "h1" && r.Intn(2) == 0 {
			// h1 without CL and TE means "no body" anyway
			s.HasBody = false
		}
	}
	switch proto {
	case "h1":
		s.ChunkExt = r.Intn(8) == 0
	case "h2raw":
		// DATA frames no larger than 16 KiB (the default SETTINGS_MAX_FRAME_SIZE is the floor every server accepts)
		var ps []int
		for _, p := range s.Pieces {
			for p > 16384 {
				k := 1 + r.Intn(16384)
				ps = append(ps, k)
				p -= k
			}
			ps = append(ps, p)
		}
		if s.HasBody && r.Intn(4) == 0 { // zero-length DATA frames in between
			ps = append(ps, 0)
			if len(ps) > 1 {
				i := r.Intn(len(ps))
				ps[i], ps[len(ps)-1] = ps[len(ps)-1], ps[i]
			}
		}
		s.Pieces = ps
		padded := r.Intn(3) == 0
		for range ps {
			pad := -1
			if padded && r.Intn(2) == 0 {
				pad = pick(r, []int{0, 1, 7, 100, 255, r.Intn(256)})
			}
			s.Pads = append(s.Pads, pad)
		}
		s.EndOnEmpty = r.Intn(3) == 0
		if r.Intn(3) == 0 {
			nc := 1 + r.Intn(4)
			for i := 0; i < nc; i++ {
				s.HeaderCuts = append(s.HeaderCuts, 1+r.Intn(300))
			}
		}
		if r.Intn(6) == 0 {
			s.HeadersPad = r.Intn(256)
		}
		s.WithPriority = r.Intn(6) == 0
	}
	s.Plan = genPlan(r, s.Method, bigResp, respCap)
	return s
}

// genRaceSpec is the shape that exposes a scheduling-dependent defect seen with
// HTTP/1.1 clients: a request body with Content-Length, a backend that answers
// as soon as it has read it, and a response body long enough to still be in
// transit when the proxy's outbound writer looks at the inbound body again.
func genRaceSpec(r *rand.Rand, runID string, id int) *Spec {
	s := &Spec{ID: id, Proto: "h1", HeadersPad: -1, Tag: fmt.Sprintf("%s-%d", runID, id)}
	s.Method = pick(r, []string{"POST", "PUT", "PATCH"})
	s.Target = "/upload/" + randFrom(r, unreserved, 1+r.Intn(8))
	s.PathKind, s.QueryKind = "plain", "none"
	s.Authority = fmt.Sprintf("c08-%d.front.example", id%97)
	s.Headers = [][2]string{{"Accept-Encoding", "identity"}, {"User-Agent", "c08-client/1.0"}, {"Content-Type", "application/octet-stream"}}
	s.HasBody, s.DeclareCL = true, true
	s.BodySeed = r.Int63()
	s.BodyLen = 1 + r.Intn(8192)
	s.Pieces = cutPieces(r, s.BodyLen, 1+r.Intn(3))
	s.Plan = PlanSpec{Status: 200, BodySeed: r.Int63(), Headers: [][2]string{{"Content-Type", "application/octet-stream"}}}
	s.Plan.Chunks = cutPieces(r, 16*1024+r.Intn(112*1024), 1+r.Intn(4))
	s.Plan.DeclareCL = r.Intn(2) == 0
	return s
}

func (s *Spec) shapeKey() string {
	hop := 0
	for _, h := range s.Headers {
		if isHopName(strings.ToLower(h[0])) {
			hop++
		}
	}
	return fmt.Sprintf("%s|%v|%s|%s|%s|h%d|hop%d|b%s|cl%v|p%d|st%d|rh%d|rb%d|tr%d|rcl%v", s.Proto, s.Preserve, s.Method, s.PathKind, s.QueryKind,
		len(s.Headers), hop, sizeClass(s.BodyLen, s.HasBody), s.DeclareCL, len(s.Pieces), s.Plan.Status, len(s.Plan.Headers), sum(s.Plan.Chunks), len(s.Plan.Trailers), s.Plan.DeclareCL)
}

func sum(xs []int) int {
	t := 0
	for _, x := range xs {
		t += x
	}
	return t
}

func sizeClass(n int, has bool) string {
	switch {
	case !has:
		return "none"
	case n == 0:
		return "0"
	case n <= 1024:
		return "1B-1KiB"
	case n <= 64<<10:
		return "1KiB-64KiB"
	case n <= 1<<20:
		return "64KiB-1MiB"
	default:
		return "1MiB-8MiB"
	}
}

// bodyBytes is the deterministic content of a body.
func bodyBytes(seed int64, n int) []byte {
	b := make([]byte, n)
	rand.New(rand.NewSource(seed)).Read(b)
	return b
}
