//go:build verif

// C01 — JA3 header equals the JA3 of the ClientHello the client sent.
package main

import "verif/internal/fpcheck"

func main() { fpcheck.Main("C01") }
