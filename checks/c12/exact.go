package main

import (
	"fmt"
	"strings"
	"time"

	"verif/internal/h2peer"
)

// exact is the exact check at a quiescent point shared by the families parked
// and goaway (the same oracle as fexec.settle of the fenced family, for
// scripts that are not lists of fops): with the windows as the ledger has
// them, exactly min(Σ min(bytes the implementation was given to send, stream
// allowance), connection allowance) more bytes must arrive (bounded progress),
// then three PING round trips prove that nothing else does.
type estream struct {
	name  string
	sid   uint32
	avail int64 // body bytes the implementation has been given to send on the stream
	eof   bool  // nothing more will be given: END_STREAM is due after avail bytes
	due   bool  // the stream is open and its sender is at work (HEADERS seen / handler released)
	dead  bool  // reset by either side at a quiescent point: nothing more may arrive
	fin   bool  // the script has finished with it (rig T: response sent)
}

type exact struct {
	l       *h2peer.Ledger
	pre     string // class prefix, e.g. "T/parked/"
	streams []*estream
	deadGot int64
	maxWait time.Duration
	steps   func() string
	lf      func() *finding // ledger findings, classified by the family
	ended   func() string   // "" while the connection is usable
	// noFence, when set and true after the bytes have arrived, skips the data
	// fence of settle (family goaway: every stream is complete, the server is
	// about to close the connection; nothing is left that could be sent).
	noFence func() bool
}

func (e *exact) add(s *estream) *estream { e.streams = append(e.streams, s); return s }

func (e *exact) got(s *estream) int64 { return e.l.Stream(s.sid).Got }

// sumGot: body bytes received on the streams that are not dead.
func (e *exact) sumGot() int64 { return e.l.DataBytes() - e.deadGot }

// kill: to be called at a quiescent point (nothing of s is in flight).
func (e *exact) kill(s *estream) {
	if !s.dead {
		s.dead = true
		if s.sid != 0 {
			e.deadGot += e.got(s)
		}
	}
}

func (e *exact) want() int64 {
	var w int64
	for _, s := range e.streams {
		if s.dead || !s.due || s.sid == 0 {
			continue
		}
		rem := s.avail - e.got(s)
		if a := e.l.Allowance(s.sid); a < rem {
			rem = a
		}
		if rem > 0 {
			w += rem
		}
	}
	if c := e.l.ConnAllowance(); c < w {
		w = c
	}
	if w < 0 {
		w = 0
	}
	return w
}

func (e *exact) detail() string {
	var b strings.Builder
	for _, s := range e.streams {
		if s.dead || !s.due {
			continue
		}
		st := e.l.Stream(s.sid)
		fmt.Fprintf(&b, " [%s = stream %d: got %d of %d handed out, allowance %d, ended=%v reset=%v]", s.name, s.sid, st.Got, s.avail, e.l.Allowance(s.sid), st.Ended, st.ImplReset)
		if b.Len() > 700 {
			break
		}
	}
	return b.String()
}

// fence is the three-round-trip data fence.
func (e *exact) fence(where string) *finding {
	if err := e.l.Quiesce(watchdog); err != nil {
		if f := e.lf(); f != nil {
			return f
		}
		if end := e.ended(); end != "" {
			return &finding{class: e.pre + "connection-ended", msg: fmt.Sprintf("%s: the implementation ended the connection (%s) although the script did nothing illegal; steps: %s", where, end, e.steps())}
		}
		return &finding{class: e.pre + "fence", msg: where + ": PING fence not answered", incon: true}
	}
	run.Add("fences", 3)
	return e.lf()
}

// settle is the exact check.
func (e *exact) settle(where string) *finding {
	l := e.l
	if l.PendingSettings() > 0 {
		ok, _ := l.WaitUntil(watchdog, func() bool { return l.PendingSettings() == 0 })
		if !ok {
			if f := e.lf(); f != nil {
				return f
			}
			if end := e.ended(); end != "" {
				return &finding{class: e.pre + "connection-ended", msg: fmt.Sprintf("%s: the implementation ended the connection (%s) although the script did nothing illegal; steps: %s", where, end, e.steps())}
			}
			return &finding{class: e.pre + "settings-not-acked", stall: true, msg: fmt.Sprintf("%s: SETTINGS not acknowledged within %v; steps: %s", where, watchdog, e.steps())}
		}
	}
	l.Settle()
	target := e.sumGot() + e.want()
	ok, total, gap := l.WaitProgress(watchdog, 12*watchdog, func() bool {
		g := e.sumGot()
		if g > target {
			return true
		}
		if g != target {
			return false
		}
		for _, s := range e.streams {
			if s.dead || !s.due || !s.eof {
				continue
			}
			if st := l.Stream(s.sid); st.Got >= s.avail && !st.Ended && !st.ImplReset {
				return false
			}
		}
		return true
	})
	if gap > e.maxWait {
		e.maxWait = gap
	}
	noteTotalWait(total)
	if f := e.lf(); f != nil {
		return f
	}
	if !ok {
		if end := e.ended(); end != "" {
			return &finding{class: e.pre + "connection-ended", msg: fmt.Sprintf("%s: the implementation ended the connection (%s) although the script did nothing illegal; steps: %s", where, end, e.steps())}
		}
		return &finding{class: e.pre + "queued-data-not-delivered", stall: true,
			msg: fmt.Sprintf("%s: %d of the %d bytes that the granted windows allow (connection allowance %d) did not arrive (no frame at all for %v):%s; steps: %s", where, target-e.sumGot(), target, l.ConnAllowance(), watchdog, e.detail(), e.steps())}
	}
	if e.noFence != nil && e.noFence() {
		if g := e.sumGot(); g != target {
			return &finding{class: e.pre + "excess-after-fence", msg: fmt.Sprintf("%s: %d bytes arrived, the windows allowed %d:%s; steps: %s", where, g, target, e.detail(), e.steps())}
		}
		return nil
	}
	if f := e.fence(where); f != nil {
		return f
	}
	if g := e.sumGot(); g != target {
		return &finding{class: e.pre + "excess-after-fence", msg: fmt.Sprintf("%s: %d bytes arrived, the windows allowed %d:%s; steps: %s", where, g, target, e.detail(), e.steps())}
	}
	run.Add("exact-quiescent-checks", 1)
	return nil
}

// grantAll gives every live stream the window for all it has been handed.
func (e *exact) grantAll() {
	l := e.l
	l.Settle()
	var need int64
	for _, s := range e.streams {
		if s.dead || !s.due || s.sid == 0 {
			continue
		}
		rem := s.avail - e.got(s)
		if rem <= 0 {
			continue
		}
		need += rem
		if a := l.Allowance(s.sid); rem > a {
			l.WindowUpdate(s.sid, uint32(rem-a))
			run.Add("grants", 1)
		}
	}
	if c := l.ConnAllowance(); need > c {
		l.WindowUpdate(0, uint32(need-c))
		run.Add("grants", 1)
	}
}
