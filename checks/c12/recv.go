package main

import (
	"fmt"
	"math/rand"
	"strconv"
	"strings"
	"time"

	"golang.org/x/net/http2"

	"verif/internal/h2peer"
)

// creditBound: pkg/http2/flow.go, inflow.add withholds a WINDOW_UPDATE only
// while unsent < inflowMinRefresh (4 << 10) and unsent < avail.
const creditBound = 4095

// Receiver side: the peer is the sender, the implementation must police the
// windows it advertised and must give credit back.

type recvCase struct {
	Family string   `json:"family"`
	Rig    string   `json:"rig"`
	Index  int      `json:"index"`
	Kind   string   `json:"kind"` // stream-fill | conn-fill | accept | padding | closed
	Sub    string   `json:"sub,omitempty"`
	UpConn int32    `json:"up_conn,omitempty"`
	UpStr  int32    `json:"up_stream,omitempty"`
	N      int      `json:"n_streams,omitempty"`
	Pad    bool     `json:"pad,omitempty"`
	Over   string   `json:"overshoot,omitempty"` // byte | padbyte | many
	Seed   int64    `json:"seed"`
	Log    []string `json:"log,omitempty"`
}

// up is the sending side of one stream (peer -> implementation).
type up struct {
	sid uint32
	key uint64
	off int64
}

// sendFlow sends DATA frames with exactly flow flow-controlled bytes on u.
func sendFlow(l *h2peer.Ledger, u *up, flow int64, pad bool, rng *rand.Rand, end bool) (padFlow int64, err error) {
	mfs := l.ImplMaxFrame()
	for flow > 0 {
		f := flow
		if f > mfs {
			f = mfs
		}
		if f > 1 && rng.Intn(3) > 0 {
			f = 1 + rng.Int63n(f)
		}
		padLen := -1
		dataLen := f
		if pad && f >= 1 && rng.Intn(2) == 0 {
			maxPad := f - 1
			if maxPad > 255 {
				maxPad = 255
			}
			padLen = int(rng.Int63n(maxPad + 1))
			if rng.Intn(3) == 0 {
				padLen = int(maxPad)
			}
			dataLen = f - 1 - int64(padLen)
			padFlow += 1 + int64(padLen)
		}
		b := make([]byte, dataLen)
		h2peer.FillBody(u.key, u.off, b)
		u.off += dataLen
		flow -= f
		if err := l.Data(u.sid, end && flow == 0, b, padLen); err != nil {
			return padFlow, err
		}
	}
	return padFlow, nil
}

type rcx struct {
	c        *recvCase
	l        *h2peer.Ledger
	rng      *rand.Rand
	advConn  int64 // 65535 + the stream-0 increments received during setup
	released bool  // T: the held client has been released
	pre      string
}

func (r *rcx) logf(format string, a ...any) {
	if len(r.c.Log) < 40 {
		r.c.Log = append(r.c.Log, fmt.Sprintf(format, a...))
	}
}

// unreturned connection-level credit at this moment.
func (r *rcx) unreturned() int64 { return r.advConn - r.l.ConnSendAllowance() }

func (r *rcx) ledgerFinding() *finding {
	if v := r.l.Violations(); len(v) > 0 {
		return &finding{class: r.pre + v[0].Kind, msg: v[0].Msg}
	}
	return nil
}

func (r *rcx) ended() string {
	if ga, code, dbg := r.l.GoAway(); ga {
		return fmt.Sprintf("GOAWAY %v %q", code, dbg)
	}
	if r.l.EOF() {
		return "connection closed"
	}
	return ""
}

// fence: one PING round trip (window updates are control frames).
func (r *rcx) fence() *finding {
	if err := r.l.FenceControl(watchdog); err != nil {
		if e := r.ended(); e != "" {
			return &finding{class: r.pre + "connection-ended", msg: "the implementation ended the connection although the peer stayed within the advertised windows: " + e}
		}
		return &finding{class: r.pre + "fence", msg: "PING not answered", incon: true}
	}
	run.Add("fences", 1)
	return r.ledgerFinding()
}

// fill sends on the streams until the advertised allowance is exactly zero.
func (r *rcx) fill(us []*up, pad bool) (padFlow int64, f *finding) {
	l := r.l
	for round := 0; round < 1000; round++ {
		if f := r.fence(); f != nil {
			return padFlow, f
		}
		conn := l.ConnSendAllowance()
		var sent int64
		for _, u := range us {
			a := l.StreamSendAllowance(u.sid)
			if a > conn-sent {
				a = conn - sent
			}
			if a <= 0 {
				continue
			}
			if len(us) > 1 && round == 0 && a > 1 {
				a = 1 + r.rng.Int63n(a) // leave room for the other streams in the first round
			}
			p, err := sendFlow(l, u, a, pad && round == 0, r.rng, false)
			padFlow += p
			if err != nil {
				return padFlow, &finding{class: r.pre + "write", msg: err.Error() + " " + r.ended(), incon: r.ended() == ""}
			}
			sent += a
		}
		if sent == 0 {
			return padFlow, nil
		}
	}
	return padFlow, &finding{class: r.pre + "fill", msg: "window never filled", incon: true}
}

// refused checks that the overshoot just sent on sid is answered by a flow-control error.
// nResets is the number of RST_STREAM frames received on sid so far.
func (r *rcx) nResets(sid uint32) int { return len(r.l.Stream(sid).Resets) }

// refused: from = nResets(sid) before the overshoot was sent.
func (r *rcx) refused(sid uint32, q *treq, from int) *finding {
	l := r.l
	var d [8]byte
	copy(d[:], "c12over!")
	l.Ping(d)
	l.WaitUntil(watchdog, func() bool {
		st := l.Stream(sid)
		ga, _, _ := l.GoAway()
		return len(st.Resets) > from || ga || l.PingAcked(d) || l.EOF()
	})
	st := l.Stream(sid)
	ga, code, _ := l.GoAway()
	if len(st.Resets) > from {
		st.ImplReset, st.ImplResetCode = true, st.Resets[from]
	} else {
		st.ImplReset = false
	}
	switch {
	case st.ImplReset && st.ImplResetCode == http2.ErrCodeFlowControl:
		run.Add("receiver-overshoot-rst-stream", 1)
		return nil
	case ga && code == http2.ErrCodeFlowControl:
		run.Add("receiver-overshoot-goaway", 1)
		return nil
	case !ga && l.EOF() && q != nil:
		// transport: connection error, GOAWAY buffered but never flushed; the
		// client side must report the flow-control error.
		if !r.released {
			r.released = true
			close(q.hold)
		}
		if !waitCh(q.done) {
			return &finding{class: r.pre + "client", msg: "client goroutine did not return: " + r.ended(), incon: r.ended() == ""}
		}
		if strings.Contains(q.bodyErr, "FLOW_CONTROL_ERROR") || strings.Contains(q.err, "FLOW_CONTROL_ERROR") {
			run.Add("receiver-overshoot-teardown-flow-control-error", 1)
			return nil
		}
		return &finding{class: r.pre + "overshoot-not-refused", msg: fmt.Sprintf("overshoot on stream %d: connection closed, client-side error %q / %q does not name FLOW_CONTROL_ERROR", sid, q.err, q.bodyErr)}
	}
	return &finding{class: r.pre + "overshoot-not-refused", msg: fmt.Sprintf("peer exceeded the advertised window on stream %d (stream allowance %d, connection allowance %d): expected RST_STREAM or GOAWAY with FLOW_CONTROL_ERROR, got reset=%v(%v) goaway=%v(%v) eof=%v ping-acked=%v",
		sid, l.StreamSendAllowance(sid), l.ConnSendAllowance(), st.ImplReset, st.ImplResetCode, ga, code, l.EOF(), l.PingAcked(d))}
}

func (r *rcx) overshoot(u *up) error {
	switch r.c.Over {
	case "padbyte":
		return r.l.Data(u.sid, false, nil, 0) // PADDED, pad length 0, no data: one flow-controlled byte
	case "many":
		_, err := sendFlow(r.l, u, 1+r.rng.Int63n(5000), false, r.rng, false)
		return err
	}
	_, err := sendFlow(r.l, u, 1, false, r.rng, false)
	return err
}

func (r *rcx) checkBound(where string) *finding {
	u := r.unreturned()
	noteCredit(u)
	run.Add("credit-bound-checks", 1)
	if u > creditBound {
		wu0, sent := r.l.ConnCredit()
		return &finding{class: r.pre + "credit-not-returned", msg: fmt.Sprintf("%s: un-returned connection-level credit is %d bytes (> %d): advertised %d, peer sent %d flow-controlled bytes, stream-0 WINDOW_UPDATEs total %d", where, u, creditBound, r.advConn, sent, wu0)}
	}
	return nil
}

// padLens are the directed pad lengths of the padded-discard family.
func padLenFor(i int, rng *rand.Rand) int {
	switch i % 4 {
	case 0:
		return 1
	case 1:
		return 17
	case 2:
		return 255
	}
	return rng.Intn(256)
}

// sendPaddedSmall sends n PADDED DATA frames with 0..3 data bytes each on u,
// never exceeding what the implementation advertised (streamToo: also the
// stream window). It returns the flow-controlled bytes and the padding sent.
func (r *rcx) sendPaddedSmall(u *up, n int, streamToo bool) (flow, padFlow int64, frames int, f *finding) {
	l := r.l
	for i := 0; i < n; i++ {
		padLen := padLenFor(i, r.rng)
		dl := 1 + r.rng.Intn(3)
		if i%11 == 10 {
			dl = 0
		}
		need := int64(1 + padLen + dl)
		allow := func() int64 {
			a := l.ConnSendAllowance()
			if streamToo {
				if sa := l.StreamSendAllowance(u.sid); sa < a {
					a = sa
				}
			}
			return a
		}
		if allow() < need {
			if f := r.fence(); f != nil {
				return flow, padFlow, frames, f
			}
			if allow() < need {
				if streamToo && l.StreamSendAllowance(u.sid) < need && l.ConnSendAllowance() >= need {
					return flow, padFlow, frames, nil // stream window used up (it is not refunded on this path)
				}
				return flow, padFlow, frames, &finding{class: r.pre + "credit-not-returned", msg: fmt.Sprintf("%s: after %d padded DATA frames (%d flow-controlled bytes, all discarded by the implementation) the connection window stays at %d, un-returned credit %d", r.c.Sub, frames, flow, l.ConnSendAllowance(), r.unreturned())}
			}
		}
		b := make([]byte, dl)
		h2peer.FillBody(u.key, u.off, b)
		u.off += int64(dl)
		if err := l.Data(u.sid, false, b, padLen); err != nil {
			return flow, padFlow, frames, &finding{class: r.pre + "write", msg: err.Error() + " " + r.ended(), incon: r.ended() == ""}
		}
		flow += need
		padFlow += int64(1 + padLen)
		frames++
	}
	return flow, padFlow, frames, nil
}

// ------------------------------------------------------------------ rig S

func runRecvS(c *recvCase) *finding {
	rng := rand.New(rand.NewSource(c.Seed))
	s, err := newSrig(scfg{IW0: -1, MFS0: -1, UpConn: c.UpConn, UpStream: c.UpStr})
	if err != nil {
		return &finding{class: "S/recv/setup", msg: err.Error(), incon: true}
	}
	defer s.shutdown()
	l := s.l
	r := &rcx{c: c, l: l, rng: rng, pre: "S/recv/" + c.Kind + "/"}
	r.advConn = l.ConnSendAllowance()
	defer func() { collectStats(l, "S"); run.Add("handler-starts", s.nStarts()) }()
	r.logf("advertised: stream %d, connection %d, max frame %d", l.ImplInitialWindow(), r.advConn, l.ImplMaxFrame())
	if got, want := l.ImplInitialWindow(), int64(c.UpStr); want > 0 && got != want {
		return &finding{class: r.pre + "setup", msg: fmt.Sprintf("server advertised stream window %d, configured %d", got, want), incon: true}
	}
	keyBase := uint64(rng.Int63())
	open := func(idx int, pl *plan) (*up, *finding) {
		pl.Key = keyBase + uint64(idx)
		sid, err := s.request(idx, pl, true)
		if err != nil {
			return nil, &finding{class: r.pre + "write", msg: err.Error(), incon: true}
		}
		return &up{sid: sid, key: reqKey(pl.Key)}, nil
	}
	n := c.N
	if n < 1 {
		n = 1
	}
	switch c.Kind {
	case "stream-fill", "conn-fill", "accept":
		var us []*up
		var pls []*plan
		var closedUp *up
		if c.Sub == "closed-stream" {
			// a stream whose handler returns at once without reading the body
			pl := &plan{Abort: -1, Req: "ignore"}
			u, f := open(1000, pl)
			if f != nil {
				return f
			}
			if !waitCh(pl.done) {
				return &finding{class: r.pre + "handler", msg: "handler did not return", incon: true}
			}
			l.WaitUntil(watchdog, func() bool { return l.Stream(u.sid).ImplReset })
			closedUp = u
		}
		for i := 1; i <= n; i++ {
			pl := &plan{Abort: -1, Req: "all", ReadSz: 1 + rng.Intn(40000), Resp: int64(rng.Intn(100)), start: make(chan struct{})}
			u, f := open(i, pl)
			if f != nil {
				return f
			}
			us, pls = append(us, u), append(pls, pl)
		}
		_, f := r.fill(us, c.Pad)
		if f != nil {
			return f
		}
		// nothing was refused
		for _, u := range us {
			if st := l.Stream(u.sid); st.ImplReset {
				return &finding{class: r.pre + "exact-fill-refused", msg: fmt.Sprintf("peer sent exactly the advertised window, stream %d was reset with %v", u.sid, st.ImplResetCode)}
			}
		}
		if e := r.ended(); e != "" {
			return &finding{class: r.pre + "exact-fill-refused", msg: "peer sent exactly the advertised window: " + e}
		}
		run.Add("receiver-exact-fill-accepted", 1)
		u := us[rng.Intn(len(us))]
		if c.Kind != "accept" {
			binding := "connection"
			if l.StreamSendAllowance(u.sid) <= 0 {
				binding = "stream"
			}
			if closedUp != nil {
				u = closedUp // the byte too many goes to a stream the server has already closed
				run.Add("receiver-overshoot-on-closed-stream", 1)
			}
			r.logf("window full (binding: %s); overshoot %q on stream %d", binding, c.Over, u.sid)
			from := r.nResets(u.sid)
			r.overshoot(u) // a write error means the connection was torn down: judged by refused()
			run.Add("receiver-overshoot-cases", 1)
			run.Add("receiver-overshoot-"+binding+"-window", 1)
			if f := r.refused(u.sid, nil, from); f != nil {
				return f
			}
			for _, pl := range pls {
				close(pl.start)
			}
			return r.ledgerFinding()
		}
		// accept: the handlers now read; send the rest of each body as window comes back
		for _, pl := range pls {
			close(pl.start)
		}
		totals := make([]int64, len(us))
		for i := range us {
			totals[i] = us[i].off + int64(rng.Intn(3*int(r.advConn)))
		}
		for i, u := range us {
			for u.off < totals[i] {
				var a int64
				ok, d := l.WaitUntil(watchdog, func() bool {
					a = l.StreamSendAllowance(u.sid)
					if c := l.ConnSendAllowance(); c < a {
						a = c
					}
					return a > 0
				})
				noteWait(d)
				if !ok {
					return &finding{class: r.pre + "credit-not-returned", msg: fmt.Sprintf("handler reads the body but no window came back within %v: stream %d allowance %d, connection allowance %d %s", watchdog, u.sid, l.StreamSendAllowance(u.sid), l.ConnSendAllowance(), r.ended()), stall: false}
				}
				if a > totals[i]-u.off {
					a = totals[i] - u.off
				}
				if _, err := sendFlow(l, u, a, false, rng, false); err != nil {
					return &finding{class: r.pre + "write", msg: err.Error(), incon: true}
				}
			}
			l.Data(u.sid, true, nil, -1)
		}
		for i, pl := range pls {
			if !waitCh(pl.done) {
				return &finding{class: r.pre + "handler", msg: "handler did not return: " + r.ended(), incon: r.ended() == ""}
			}
			if pl.read != totals[i] || pl.badAt >= 0 {
				return &finding{class: r.pre + "request-body", msg: fmt.Sprintf("stream %d: handler read %d of %d bytes, first bad offset %d, err %q", us[i].sid, pl.read, totals[i], pl.badAt, pl.rerr)}
			}
			run.Add("request-bodies-verified", 1)
		}
		ok, _ := l.WaitUntil(watchdog, func() bool {
			for _, u := range us {
				if st := l.Stream(u.sid); !st.Ended && !st.ImplReset {
					return false
				}
			}
			return true
		})
		if !ok {
			return &finding{class: r.pre + "response", msg: "responses did not complete", incon: true}
		}
		if f := r.fence(); f != nil {
			return f
		}
		return r.checkBound("all request bodies consumed, all streams closed")

	case "padding":
		pl := &plan{Abort: -1, Req: "all", ReadSz: 8192, start: make(chan struct{})}
		u, f := open(1, pl)
		if f != nil {
			return f
		}
		// many small padded frames: little data, much padding
		var padFlow, flow int64
		for padFlow < 24000 {
			a := l.StreamSendAllowance(u.sid)
			if c := l.ConnSendAllowance(); c < a {
				a = c
			}
			if a < 300 {
				if f := r.fence(); f != nil {
					return f
				}
				a = l.StreamSendAllowance(u.sid)
				if c := l.ConnSendAllowance(); c < a {
					a = c
				}
				if a < 300 {
					break
				}
			}
			padLen := 200 + rng.Intn(56)
			dl := rng.Intn(20)
			b := make([]byte, dl)
			h2peer.FillBody(u.key, u.off, b)
			u.off += int64(dl)
			l.Data(u.sid, false, b, padLen)
			padFlow += int64(padLen) + 1
			flow += int64(padLen) + 1 + int64(dl)
		}
		if f := r.fence(); f != nil {
			return f
		}
		// a stream-level WINDOW_UPDATE is a frame of its stream, not a control frame: the PING ACK of a fence may
		// overtake it in the peer's write scheduler. Give queued updates a bounded time to be written.
		for i := 0; i < 100 && l.Stream(u.sid).ImplGrants < padFlow-creditBound; i++ {
			time.Sleep(50 * time.Millisecond)
			if f := r.fence(); f != nil {
				return f
			}
		}
		st := l.Stream(u.sid)
		wu0, _ := l.ConnCredit()
		retConn := wu0 - (r.advConn - 65535)
		r.logf("padding %d bytes in %d flow-controlled bytes; returned: connection %d, stream %d", padFlow, flow, retConn, st.ImplGrants)
		run.Add("padding-refund-checks", 2)
		if retConn < padFlow-creditBound {
			return &finding{class: r.pre + "padding-not-refunded", msg: fmt.Sprintf("%d bytes of padding sent (handler not reading), connection-level credit returned: %d (< padding - %d)", padFlow, retConn, creditBound)}
		}
		if st.ImplGrants < padFlow-creditBound {
			return &finding{class: r.pre + "padding-not-refunded", msg: fmt.Sprintf("%d bytes of padding sent on stream %d (handler not reading), stream-level credit returned: %d (< padding - %d)", padFlow, u.sid, st.ImplGrants, creditBound)}
		}
		close(pl.start)
		l.Data(u.sid, true, nil, -1)
		if !waitCh(pl.done) {
			return &finding{class: r.pre + "handler", msg: "handler did not return: " + r.ended(), incon: r.ended() == ""}
		}
		if pl.read != u.off || pl.badAt >= 0 {
			return &finding{class: r.pre + "request-body", msg: fmt.Sprintf("handler read %d of %d bytes, first bad offset %d", pl.read, u.off, pl.badAt)}
		}
		l.WaitUntil(watchdog, func() bool { st := l.Stream(u.sid); return st.Ended || st.ImplReset })
		if f := r.fence(); f != nil {
			return f
		}
		return r.checkBound("padded body consumed, stream closed")

	case "padleak":
		// Directed: padded DATA that the server discards must be refunded in
		// full (pad-length octet + data + padding) at connection level.
		pl := &plan{Abort: -1, Resp: int64(rng.Intn(50))}
		var u *up
		var f *finding
		open1 := func() *finding { u, f = open(1, pl); return f }
		streamOpen := false
		switch c.Sub {
		case "body-closed": // handler closes the body at once and keeps the stream open
			pl.Req, pl.finish = "close", make(chan struct{})
			if f := open1(); f != nil {
				return f
			}
			if !waitCh(pl.bodyClosed) {
				return &finding{class: r.pre + "handler", msg: "handler did not close the body: " + r.ended(), incon: true}
			}
			streamOpen = true
		case "part-closed": // handler reads exactly what was sent, then closes the body
			k := int64(1 + rng.Intn(5000))
			pl.Req, pl.ReqN, pl.finish = "partclose", k, make(chan struct{})
			if f := open1(); f != nil {
				return f
			}
			sendFlow(l, u, k, false, rng, false)
			if !waitCh(pl.bodyClosed) {
				return &finding{class: r.pre + "handler", msg: "handler did not close the body: " + r.ended(), incon: true}
			}
			streamOpen = true
		case "handler-done": // handler returned without reading
			pl.Req = "ignore"
			if f := open1(); f != nil {
				return f
			}
			if !waitCh(pl.done) {
				return &finding{class: r.pre + "handler", msg: "handler did not return", incon: true}
			}
			l.WaitUntil(watchdog, func() bool { return l.Stream(u.sid).ImplReset })
		case "server-reset": // handler aborted: RST_STREAM from the server
			pl.Req, pl.ReqN, pl.Resp, pl.Abort = "part", 10, 100, 1
			if f := open1(); f != nil {
				return f
			}
			sendFlow(l, u, 10, false, rng, false)
			if !waitCh(pl.done) {
				return &finding{class: r.pre + "handler", msg: "handler did not return", incon: true}
			}
			l.WaitUntil(watchdog, func() bool { return l.Stream(u.sid).ImplReset })
		}
		if f := r.fence(); f != nil {
			return f
		}
		n := 100 + rng.Intn(201)
		flow, padFlow, frames, f := r.sendPaddedSmall(u, n, streamOpen)
		if f != nil {
			return f
		}
		if f := r.fence(); f != nil {
			return f
		}
		r.logf("%s: %d padded frames, %d flow-controlled bytes of which %d padding; un-returned %d", c.Sub, frames, flow, padFlow, r.unreturned())
		run.Add("padded-discard-frames", int64(frames))
		run.Add("padded-discard-checks", 1)
		if f := r.checkBound(fmt.Sprintf("%s: %d padded DATA frames (%d flow-controlled bytes, %d of them padding) discarded by the server", c.Sub, frames, flow, padFlow)); f != nil {
			return f
		}
		if st := l.Stream(u.sid); streamOpen && st.ImplReset {
			return &finding{class: r.pre + "unexpected-reset", msg: fmt.Sprintf("stream %d was reset (%v) although the peer stayed within the advertised windows", u.sid, st.ImplResetCode)}
		}
		if pl.finish != nil {
			close(pl.finish)
			if !waitCh(pl.done) {
				return &finding{class: r.pre + "handler", msg: "handler did not return", incon: true}
			}
			l.WaitUntil(watchdog, func() bool { st := l.Stream(u.sid); return st.Ended || st.ImplReset })
			if f := r.fence(); f != nil {
				return f
			}
			return r.checkBound(c.Sub + ": stream closed")
		}
		return r.ledgerFinding()

	case "closed":
		// DATA for streams the server no longer wants: connection-level credit must come back.
		want := 3 * r.advConn
		if want > 400000 {
			want = 400000
		}
		var sentTotal int64
		for i := 1; sentTotal < want; i++ {
			pl := &plan{Abort: -1, Resp: int64(rng.Intn(50))}
			var u *up
			var f *finding
			limitStream := false
			switch c.Sub {
			case "handler-done": // handler returned without reading: END_STREAM + RST_STREAM(NO_ERROR)
				pl.Req = "ignore"
				if u, f = open(i, pl); f != nil {
					return f
				}
				if !waitCh(pl.done) {
					return &finding{class: r.pre + "handler", msg: "handler did not return: " + r.ended(), incon: r.ended() == ""}
				}
				l.WaitUntil(watchdog, func() bool { return l.Stream(u.sid).ImplReset })
			case "handler-abort":
				pl.Req = "part"
				pl.ReqN = 10
				pl.Resp, pl.Abort = 100, 1
				if u, f = open(i, pl); f != nil {
					return f
				}
				sendFlow(l, u, 10, false, rng, false)
				sentTotal += 10
				if !waitCh(pl.done) {
					return &finding{class: r.pre + "handler", msg: "handler did not return: " + r.ended(), incon: r.ended() == ""}
				}
				l.WaitUntil(watchdog, func() bool { return l.Stream(u.sid).ImplReset })
			case "peer-reset": // unread buffered data, then RST_STREAM from the peer
				pl.Req, pl.start = "all", make(chan struct{})
				if u, f = open(i, pl); f != nil {
					return f
				}
				a := l.StreamSendAllowance(u.sid)
				if c := l.ConnSendAllowance(); c < a {
					a = c
				}
				if a > 0 {
					a = 1 + rng.Int63n(a)
					sendFlow(l, u, a, c.Pad, rng, false)
					sentTotal += a
				}
				l.Reset(u.sid, http2.ErrCodeCancel)
				close(pl.start)
				if !waitCh(pl.done) {
					return &finding{class: r.pre + "handler", msg: "handler did not return: " + r.ended(), incon: r.ended() == ""}
				}
			case "body-closed": // handler closed the body and keeps the stream open
				pl.Req, pl.finish = "close", make(chan struct{})
				if u, f = open(i, pl); f != nil {
					return f
				}
				if !waitCh(pl.bodyClosed) {
					return &finding{class: r.pre + "handler", msg: "handler did not close the body: " + r.ended(), incon: r.ended() == ""}
				}
				limitStream = true
				defer close(pl.finish)
			case "half-closed": // END_STREAM sent, handler has not answered yet
				pl.Req, pl.finish = "all", make(chan struct{})
				if u, f = open(i, pl); f != nil {
					return f
				}
				sendFlow(l, u, 1+rng.Int63n(100), false, rng, true)
				defer close(pl.finish)
			}
			// now send DATA on that stream
			burst := 1 + rng.Int63n(r.advConn)
			for burst > 0 {
				if f := r.fence(); f != nil {
					return f
				}
				a := l.ConnSendAllowance()
				if limitStream {
					if sa := l.StreamSendAllowance(u.sid); sa < a {
						a = sa
					}
					if a <= 0 && l.ConnSendAllowance() > 0 {
						break // the stream window of this stream is used up (never refunded)
					}
				}
				if a <= 0 {
					return &finding{class: r.pre + "credit-not-returned", msg: fmt.Sprintf("%s: connection window exhausted (allowance %d) by DATA the server discarded; %d bytes sent in total on %d streams, un-returned %d", c.Sub, l.ConnSendAllowance(), sentTotal, i, r.unreturned())}
				}
				if a > burst {
					a = burst
				}
				if _, err := sendFlow(l, u, a, c.Pad, rng, false); err != nil {
					return &finding{class: r.pre + "write", msg: err.Error() + " " + r.ended(), incon: r.ended() == ""}
				}
				burst -= a
				sentTotal += a
			}
			if f := r.fence(); f != nil {
				return f
			}
			if c.Sub != "peer-reset" && c.Sub != "handler-abort" {
				// everything sent so far was discarded at once
				if f := r.checkBound(fmt.Sprintf("%s: after %d bytes of discarded DATA on %d streams", c.Sub, sentTotal, i)); f != nil {
					return f
				}
			}
			run.Add("discarded-data-streams", 1)
		}
		if f := r.fence(); f != nil {
			return f
		}
		if c.Sub == "body-closed" || c.Sub == "half-closed" {
			return r.ledgerFinding()
		}
		return r.checkBound(c.Sub + ": all streams closed")
	}
	return nil
}

// ------------------------------------------------------------------ rig T

func runRecvT(c *recvCase) *finding {
	rng := rand.New(rand.NewSource(c.Seed))
	t, err := newTrig(tcfg{IW0: -1, MFS0: -1})
	if err != nil {
		return &finding{class: "T/recv/setup", msg: err.Error(), incon: true}
	}
	defer t.shutdown()
	l := t.l
	r := &rcx{c: c, l: l, rng: rng, pre: "T/recv/" + c.Kind + "/"}
	r.advConn = l.ConnSendAllowance()
	defer func() { collectStats(l, "T"); run.Add("transport-requests", t.nStarts()) }()
	r.logf("advertised: stream %d, connection %d, max frame %d", l.ImplInitialWindow(), r.advConn, l.ImplMaxFrame())
	keyBase := uint64(rng.Int63())
	open := func(idx int, q *treq) (*up, *finding) {
		q.NoBody = true
		q.Key = keyBase + uint64(idx)
		q.respKey = reqKey(q.Key)
		t.start(idx, q)
		sid, err := t.waitSid(idx)
		if err != nil {
			return nil, &finding{class: r.pre + "setup", msg: err.Error(), incon: true}
		}
		l.Respond(sid, "200", false)
		select {
		case <-q.gotHdr:
		case <-t.dead:
		}
		return &up{sid: sid, key: q.respKey}, nil
	}
	switch c.Kind {
	case "settings-overflow-probe":
		// Observation only (the property text does not name this case): a
		// SETTINGS_INITIAL_WINDOW_SIZE increase that lifts an open stream window
		// above 2^31-1. RFC 9113 6.9.2 asks for a connection error; the ledger
		// stays an upper bound whatever the transport does.
		q := &treq{Key: keyBase + 1, Size: 300000, CL: true}
		t.start(1, q)
		sid, err := t.waitSid(1)
		if err != nil {
			return &finding{class: r.pre + "setup", msg: err.Error(), incon: true}
		}
		if err := l.Quiesce(watchdog); err != nil {
			return &finding{class: r.pre + "fence", msg: err.Error(), incon: true}
		}
		l.WindowUpdate(sid, uint32(h2peer.MaxWindow-l.Allowance(sid)))
		if err := l.Quiesce(watchdog); err != nil {
			return &finding{class: r.pre + "fence", msg: err.Error(), incon: true}
		}
		l.Settings(http2.Setting{ID: http2.SettingInitialWindowSize, Val: 65535 + 1000})
		l.WaitUntil(watchdog, func() bool { ga, _, _ := l.GoAway(); return ga || l.EOF() || l.PendingSettings() == 0 })
		ga, code, _ := l.GoAway()
		switch {
		case ga && code == http2.ErrCodeFlowControl:
			run.Add("transport-settings-overflow-refused-goaway", 1)
		case l.EOF():
			run.Add("transport-settings-overflow-refused-teardown", 1)
		default:
			run.Add("transport-settings-overflow-ignored", 1)
		}
		l.Reset(sid, http2.ErrCodeCancel)
		return r.ledgerFinding()

	case "stream-fill", "accept":
		q := &treq{Resp: "all", ReadSz: 1 + rng.Intn(60000), hold: make(chan struct{})}
		u, f := open(1, q)
		if f != nil {
			return f
		}
		if _, f := r.fill([]*up{u}, c.Pad); f != nil {
			return f
		}
		if st := l.Stream(u.sid); st.ImplReset || r.ended() != "" {
			return &finding{class: r.pre + "exact-fill-refused", msg: fmt.Sprintf("peer sent exactly the advertised stream window (%d bytes): reset=%v %s", u.off, st.ImplReset, r.ended())}
		}
		run.Add("receiver-exact-fill-accepted", 1)
		if c.Kind == "stream-fill" {
			r.logf("stream window full after %d bytes; overshoot %q", u.off, c.Over)
			from := r.nResets(u.sid)
			r.overshoot(u) // a write error means the connection was torn down: judged by refused()
			run.Add("receiver-overshoot-cases", 1)
			run.Add("receiver-overshoot-stream-window", 1)
			return r.refused(u.sid, q, from)
		}
		r.released = true
		close(q.hold)
		total := u.off + int64(rng.Intn(2<<20))
		for u.off < total {
			var a int64
			ok, d := l.WaitUntil(watchdog, func() bool {
				a = l.StreamSendAllowance(u.sid)
				if c := l.ConnSendAllowance(); c < a {
					a = c
				}
				return a > 0
			})
			noteWait(d)
			if !ok {
				return &finding{class: r.pre + "credit-not-returned", msg: fmt.Sprintf("client reads the body but no window came back within %v: stream allowance %d %s", watchdog, l.StreamSendAllowance(u.sid), r.ended())}
			}
			if a > total-u.off {
				a = total - u.off
			}
			if _, err := sendFlow(l, u, a, false, rng, false); err != nil {
				return &finding{class: r.pre + "write", msg: err.Error(), incon: true}
			}
		}
		l.Data(u.sid, true, nil, -1)
		if !waitCh(q.done) {
			return &finding{class: r.pre + "client", msg: "client goroutine did not return: " + r.ended(), incon: r.ended() == ""}
		}
		if q.read != total || q.badAt >= 0 || q.bodyErr != "" {
			return &finding{class: r.pre + "response-body", msg: fmt.Sprintf("client read %d of %d bytes, first bad offset %d, err %q", q.read, total, q.badAt, q.bodyErr)}
		}
		run.Add("response-bodies-verified", 1)
		if f := r.fence(); f != nil {
			return f
		}
		return r.checkBound("response body consumed, stream closed")

	case "padding":
		q := &treq{Resp: "all", hold: make(chan struct{})}
		u, f := open(1, q)
		if f != nil {
			return f
		}
		var padFlow, flow int64
		for padFlow < 24000 {
			padLen := 200 + rng.Intn(56)
			dl := rng.Intn(20)
			b := make([]byte, dl)
			h2peer.FillBody(u.key, u.off, b)
			u.off += int64(dl)
			l.Data(u.sid, false, b, padLen)
			padFlow += int64(padLen) + 1
			flow += int64(padLen) + 1 + int64(dl)
		}
		if f := r.fence(); f != nil {
			return f
		}
		// a stream-level WINDOW_UPDATE is a frame of its stream, not a control frame: the PING ACK of a fence may
		// overtake it in the peer's write scheduler. Give queued updates a bounded time to be written.
		for i := 0; i < 100 && l.Stream(u.sid).ImplGrants < padFlow-creditBound; i++ {
			time.Sleep(50 * time.Millisecond)
			if f := r.fence(); f != nil {
				return f
			}
		}
		st := l.Stream(u.sid)
		wu0, _ := l.ConnCredit()
		retConn := wu0 - (r.advConn - 65535)
		r.logf("padding %d bytes in %d flow-controlled bytes; returned: connection %d, stream %d", padFlow, flow, retConn, st.ImplGrants)
		run.Add("padding-refund-checks", 2)
		if retConn < padFlow-creditBound || st.ImplGrants < padFlow-creditBound {
			return &finding{class: r.pre + "padding-not-refunded", msg: fmt.Sprintf("%d bytes of padding sent (client not reading), credit returned: connection %d, stream %d (< padding - %d)", padFlow, retConn, st.ImplGrants, creditBound)}
		}
		r.released = true
		close(q.hold)
		l.Data(u.sid, true, nil, -1)
		if !waitCh(q.done) {
			return &finding{class: r.pre + "client", msg: "client goroutine did not return: " + r.ended(), incon: r.ended() == ""}
		}
		if q.read != u.off || q.badAt >= 0 {
			return &finding{class: r.pre + "response-body", msg: fmt.Sprintf("client read %d of %d bytes, first bad offset %d", q.read, u.off, q.badAt)}
		}
		if f := r.fence(); f != nil {
			return f
		}
		return r.checkBound("padded body consumed, stream closed")

	case "padleak":
		// Directed: padded DATA for a response the client has finished with.
		q := &treq{}
		pre := int64(0)
		switch c.Sub {
		case "body-closed":
			q.Resp = "close"
		case "cancel":
			q.Resp, q.RespN = "cancel", 100
			pre = 100 + rng.Int63n(5000)
		case "part":
			q.Resp, q.RespN = "part", 1+rng.Int63n(1000)
			pre = 1000 + rng.Int63n(5000)
		}
		u, f := open(1, q)
		if f != nil {
			return f
		}
		if pre > 0 {
			sendFlow(l, u, pre, false, rng, false)
		}
		// half of the cases race the client's Close with the padded frames
		if c.N == 0 && !waitCh(q.done) {
			return &finding{class: r.pre + "client", msg: "client goroutine did not return: " + r.ended(), incon: r.ended() == ""}
		}
		n := 100 + rng.Intn(201)
		flow, padFlow, frames, f := r.sendPaddedSmall(u, n, false)
		if f != nil {
			return f
		}
		if !waitCh(q.done) {
			return &finding{class: r.pre + "client", msg: "client goroutine did not return: " + r.ended(), incon: r.ended() == ""}
		}
		if f := r.fence(); f != nil {
			return f
		}
		r.logf("%s: %d padded frames, %d flow-controlled bytes of which %d padding; un-returned %d", c.Sub, frames, flow, padFlow, r.unreturned())
		run.Add("padded-discard-frames", int64(frames))
		run.Add("padded-discard-checks", 1)
		return r.checkBound(fmt.Sprintf("%s: %d padded DATA frames (%d flow-controlled bytes, %d of them padding) for a response the client had finished with", c.Sub, frames, flow, padFlow))

	case "closed":
		var sentTotal int64
		for i := 1; sentTotal < 600000; i++ {
			q := &treq{}
			pre := int64(0)
			switch c.Sub {
			case "body-closed": // client closes the body without reading
				q.Resp = "close"
			case "cancel": // client reads a little, then cancels
				q.Resp, q.RespN = "cancel", 100
				pre = 100 + rng.Int63n(50000)
			case "part": // reads part, then closes with data still buffered
				q.Resp, q.RespN = "part", 1+rng.Int63n(1000)
				pre = 1000 + rng.Int63n(50000)
			case "peer-reset":
				q.Resp, q.hold = "all", make(chan struct{})
				pre = 1 + rng.Int63n(60000)
			}
			u, f := open(i, q)
			if f != nil {
				return f
			}
			if pre > 0 {
				if q.hold == nil {
					// the client may already be gone: data goes to whatever state the stream is in
				}
				sendFlow(l, u, pre, c.Pad, rng, false)
				sentTotal += pre
			}
			if c.Sub == "peer-reset" {
				l.Reset(u.sid, http2.ErrCodeCancel)
				close(q.hold)
			}
			if !waitCh(q.done) {
				return &finding{class: r.pre + "client", msg: "client goroutine did not return: " + r.ended(), incon: r.ended() == ""}
			}
			// the client is done with the stream: everything from now on is discarded
			burst := 1 + rng.Int63n(100000)
			if _, err := sendFlow(l, u, burst, c.Pad, rng, false); err != nil {
				return &finding{class: r.pre + "write", msg: err.Error() + " " + r.ended(), incon: r.ended() == ""}
			}
			sentTotal += burst
			if f := r.fence(); f != nil {
				return f
			}
			if f := r.checkBound(fmt.Sprintf("%s: after %d bytes on %d streams the client had finished with", c.Sub, sentTotal, i)); f != nil {
				return f
			}
			run.Add("discarded-data-streams", 1)
		}
		return r.ledgerFinding()
	}
	return nil
}

func recvCases() []kase {
	var cases []kase
	add := func(c *recvCase) {
		c.Family = "recv"
		c.Index = len(cases)
		c.Seed = run.Rand(2000003 + int64(c.Index)).Int63()
		cc := c
		cases = append(cases, kase{family: "recv", rig: c.Rig, index: c.Index, exec: func() (*finding, any) {
			k := *cc
			var f *finding
			if k.Rig == "S" {
				f = runRecvS(&k)
			} else {
				f = runRecvT(&k)
			}
			run.Distinct("recv/" + k.Rig + "/" + k.Kind + "/" + k.Sub + "/" + strconv.Itoa(int(k.UpConn)) + "/" + strconv.Itoa(int(k.UpStr)) + "/" + k.Over + strconv.FormatBool(k.Pad) + strconv.Itoa(k.N))
			if k.Kind == "padding" && run.WantSample() {
				run.Sample(k)
			}
			return f, &k
		}})
	}
	reps := run.Pick(1, 8)
	overs := []string{"byte", "padbyte", "many"}
	for rep := 0; rep < reps; rep++ {
		i := 0
		for _, up := range []int32{1, 100, 4096, 16384, 65535, 70000, 300000} {
			for _, conn := range []int32{65535, 66000, 200000} {
				i++
				add(&recvCase{Rig: "S", Kind: "stream-fill", UpStr: up, UpConn: conn, N: 1, Pad: i%2 == 0, Over: overs[i%3]})
			}
		}
		for _, conn := range []int32{65535, 65536, 70000, 100000} {
			for _, n := range []int{2, 5, 40} {
				i++
				add(&recvCase{Rig: "S", Kind: "conn-fill", UpStr: 1 << 20, UpConn: conn, N: n, Pad: i%2 == 0, Over: overs[i%3]})
			}
		}
		for _, conn := range []int32{65535, 66000, 100000} {
			for _, n := range []int{1, 3} {
				i++
				add(&recvCase{Rig: "S", Kind: "conn-fill", Sub: "closed-stream", UpStr: 1 << 20, UpConn: conn, N: n, Pad: i%2 == 0, Over: overs[i%3]})
			}
		}
		for _, up := range []int32{1000, 65535, 200000} {
			for _, conn := range []int32{65535, 70000, 150000} {
				i++
				add(&recvCase{Rig: "S", Kind: "accept", UpStr: up, UpConn: conn, N: 1 + i%3, Pad: i%2 == 0})
			}
		}
		for _, conn := range []int32{65535, 80000, 1 << 20} {
			add(&recvCase{Rig: "S", Kind: "padding", UpStr: 200000, UpConn: conn})
		}
		for _, sub := range []string{"handler-done", "handler-abort", "peer-reset", "body-closed", "half-closed"} {
			for _, conn := range []int32{65535, 70000, 200000} {
				i++
				add(&recvCase{Rig: "S", Kind: "closed", Sub: sub, UpStr: 65535, UpConn: conn, Pad: i%2 == 0})
			}
		}
		for j, over := range overs {
			add(&recvCase{Rig: "T", Kind: "stream-fill", Over: over, Pad: j%2 == 0})
		}
		add(&recvCase{Rig: "T", Kind: "accept", Pad: true})
		add(&recvCase{Rig: "T", Kind: "accept"})
		add(&recvCase{Rig: "T", Kind: "padding"})
		add(&recvCase{Rig: "T", Kind: "settings-overflow-probe"})
		for _, sub := range []string{"body-closed", "part-closed", "handler-done", "server-reset"} {
			for _, conn := range []int32{65535, 1 << 20} {
				add(&recvCase{Rig: "S", Kind: "padleak", Sub: sub, UpStr: 1 << 20, UpConn: conn})
			}
		}
		for _, sub := range []string{"body-closed", "cancel", "part"} {
			for n := 0; n < 2; n++ {
				add(&recvCase{Rig: "T", Kind: "padleak", Sub: sub, N: n})
			}
		}
		for j, sub := range []string{"body-closed", "cancel", "part", "peer-reset"} {
			add(&recvCase{Rig: "T", Kind: "closed", Sub: sub, Pad: j%2 == 0})
		}
	}
	return cases
}
