package main

const creditBound = 4095

func recvCases() []kase { return nil }
