package main

import (
	"fmt"
	"math/rand"
	"strconv"
	"strings"

	"golang.org/x/net/http2"

	"verif/internal/h2peer"
)

// Family "goaway" (rig S only): streams that are in flight when the server
// starts a graceful shutdown go on normally (RFC 9113 6.8: streams up to and
// including the last-stream-id of a GOAWAY(NO_ERROR) are processed).
//
// The raw-frame peer opens a few streams: responses larger than the stream
// window ("resp"), uploads the handler reads to the end ("upload"), or both.
// The graceful shutdown starts while the stream with the highest id is still
// in flight: the peer sends GOAWAY(NO_ERROR, last-stream-id 0), which the
// server answers with its own GOAWAY(NO_ERROR), or one of the handlers answers
// with "Connection: close". The moment varies: right behind the HEADERS,
// after the first flight, after some grants, or when only the highest stream
// is left. After the server's GOAWAY has been read and a fence has passed the
// exchange continues:
//
//   - grants on streams and on the connection, each followed by the exact
//     check of the fenced family (exactly what the ledger allows arrives, no
//     more after three PING round trips);
//   - the rest of every upload is sent as the server returns window (a wait
//     for window that does not come back is the refutation "credit not
//     returned"), the handler must reach the end of the body and report
//     exactly the bytes sent (content checked), and with every handler at the
//     end of its body the un-returned connection-level credit is within the
//     bound of the receiver-side family;
//   - optionally the peer resets a stream at a quiescent point (nothing of it
//     may arrive afterwards), or opens one more stream behind the GOAWAY and
//     sends DATA on it (the server ignores the stream; the connection-level
//     credit must come back);
//   - finally everything is granted and every response must be complete.

type gaStream struct {
	Kind   string `json:"kind"` // resp | upload | both
	Resp   int64  `json:"resp"`
	W      int    `json:"w,omitempty"`
	Flush  bool   `json:"flush,omitempty"`
	CL     bool   `json:"cl,omitempty"`
	Up     int64  `json:"up,omitempty"`
	UpPre  int64  `json:"up_pre,omitempty"` // bytes of the upload sent before the GOAWAY
	ReadSz int    `json:"read_sz,omitempty"`
	Pad    bool   `json:"pad,omitempty"`
}

type gaGrant struct {
	S int   `json:"s"` // script stream (1-based), 0 = connection
	N int64 `json:"n"`
}

type goawayCase struct {
	Family     string     `json:"family"`
	Rig        string     `json:"rig"`
	Index      int        `json:"index"`
	IW0        int64      `json:"iw0"`
	MFS0       int64      `json:"mfs0"`
	UpConn     int32      `json:"up_conn,omitempty"`
	UpStream   int32      `json:"up_stream,omitempty"`
	Sched      string     `json:"sched,omitempty"`
	KeyBase    uint64     `json:"key_base"`
	Seed       int64      `json:"seed"`
	Streams    []gaStream `json:"streams"`  // in the order of their ids: the last one is the highest
	Trigger    string     `json:"trigger"`  // client-goaway | conn-close
	TrigIdx    int        `json:"trig_idx"` // conn-close: the stream (0-based) whose handler answers "Connection: close"
	At         string     `json:"at"`       // open | first-flight | granted | last-alone
	PreGrants  []gaGrant  `json:"pre_grants,omitempty"`
	PostGrants []gaGrant  `json:"post_grants,omitempty"`
	UpFirst    bool       `json:"up_first,omitempty"`  // the uploads are finished before the grants after the GOAWAY
	RstAfter   int        `json:"rst_after,omitempty"` // k > 0: after the GOAWAY the peer resets stream k (1-based)
	Late       int64      `json:"late_data,omitempty"` // > 0: a stream opened behind the GOAWAY carries that many DATA bytes
	Log        []string   `json:"steps,omitempty"`
}

func newGoawayCase(index int, rng *rand.Rand) *goawayCase {
	c := &goawayCase{Family: "goaway", Rig: "S", Index: index, KeyBase: uint64(rng.Int63()), Seed: rng.Int63()}
	c.IW0 = pick64(rng, -1, 0, 1, 100, 16384, 65535)
	c.MFS0 = pick64(rng, -1, -1, 16384, 65536)
	c.UpStream = int32(pick64(rng, 0, 65535, 20000, 1000))
	c.UpConn = int32(pick64(rng, 0, 65535, 100000, 1<<20))
	c.Sched = []string{"", "", "prio", "random"}[rng.Intn(4)]
	iw := c.IW0
	if iw < 0 {
		iw = 65535
	}
	n := 1 + rng.Intn(4)
	if rng.Intn(10) == 0 {
		n = 8
	}
	kinds := []string{"resp", "upload", "both"}
	for i := 0; i < n; i++ {
		sp := gaStream{Kind: kinds[rng.Intn(3)]}
		last := i == n-1
		if last {
			sp.Kind = kinds[index%3] // every kind is the highest stream at every seed
		}
		big := iw + pick64(rng, 1, 100, 20000, 200000)
		switch sp.Kind {
		case "resp", "both":
			sp.Resp = big
			if !last && rng.Intn(3) == 0 {
				sp.Resp = pick64(rng, 0, 1, 100, iw)
			}
		case "upload":
			sp.Resp = pick64(rng, 0, 10, 100)
		}
		if sp.Kind != "resp" {
			sp.Up = pick64(rng, 0, 1, 1000, 30000, 70000, 200000)
			sp.UpPre = pick64(rng, 0, 0, 1, sp.Up/2, sp.Up)
			sp.ReadSz = int(pick64(rng, 1, 100, 4096, 32768, 1+rng.Int63n(40000)))
			if int64(sp.ReadSz) < sp.Up/2000 {
				sp.ReadSz = int(sp.Up/2000) + 1
			}
			sp.Pad = rng.Intn(3) == 0
		}
		ws := []int{1, 7, 100, 4096, 16384, 16385, 65536, int(sp.Resp) + 1}
		sp.W = ws[rng.Intn(len(ws))]
		if int64(sp.W) < sp.Resp/300 {
			sp.W = int(sp.Resp/300) + 1
		}
		sp.Flush = rng.Intn(2) == 0
		sp.CL = rng.Intn(2) == 0
		c.Streams = append(c.Streams, sp)
	}
	c.At = []string{"open", "first-flight", "granted", "last-alone", "first-flight"}[rng.Intn(5)]
	c.Trigger = "client-goaway"
	if rng.Intn(5) < 2 {
		var resp []int
		for i, sp := range c.Streams {
			if sp.Kind == "resp" && (c.At != "last-alone" || i == n-1) {
				resp = append(resp, i)
			}
		}
		if len(resp) > 0 {
			c.Trigger, c.TrigIdx = "conn-close", resp[rng.Intn(len(resp))]
		}
	}
	grant := func(hi bool, sizes ...int64) gaGrant {
		g := gaGrant{S: rng.Intn(n + 1), N: pick64(rng, sizes...)}
		if hi && rng.Intn(2) == 0 {
			g.S = n
		}
		return g
	}
	if c.At == "granted" {
		for k := 1 + rng.Intn(3); k > 0; k-- {
			c.PreGrants = append(c.PreGrants, grant(false, 1, 100, 16384, 40000))
		}
	}
	for k := 1 + rng.Intn(4); k > 0; k-- {
		c.PostGrants = append(c.PostGrants, grant(true, 1, 2, 100, 16383, 16384, 16385, 40000, 65535, 100000))
	}
	c.UpFirst = rng.Intn(2) == 0
	if rng.Intn(4) == 0 {
		var resp []int
		for i, sp := range c.Streams {
			if sp.Kind == "resp" && !(c.Trigger == "conn-close" && i == c.TrigIdx) {
				resp = append(resp, i)
			}
		}
		if len(resp) > 0 {
			c.RstAfter = resp[rng.Intn(len(resp))] + 1
		}
	}
	if rng.Intn(4) == 0 {
		c.Late = pick64(rng, 1, 100, 5000, 16384)
	}
	return c
}

func (c *goawayCase) key() string {
	k := fmt.Sprintf("goaway/%d/%d/%d/%d/%s/%s%d/%s/pre%d/post%d/%v/r%d/l%v:", c.IW0, c.MFS0, c.UpConn, c.UpStream, c.Sched, c.Trigger, c.TrigIdx, c.At, len(c.PreGrants), len(c.PostGrants), c.UpFirst, c.RstAfter, c.Late > 0)
	for _, sp := range c.Streams {
		k += fmt.Sprintf(" %s/%v/%v", sp.Kind[:1], sp.Up > 0, sp.UpPre > 0)
	}
	return k
}

func goawayCases() []kase {
	var cases []kase
	n := run.Pick(30, 1500)
	for i := 0; i < n; i++ {
		i := i
		cases = append(cases, kase{family: "goaway", rig: "S", index: i, exec: func() (*finding, any) {
			c := newGoawayCase(i, run.Rand(6000029+int64(i)))
			f := runGoaway(c)
			run.Distinct(c.key())
			if run.WantSample() {
				run.Sample(c)
			}
			return f, c
		}})
	}
	return cases
}

func goawayEvidence() {
	run.Assume("Family goaway (rig S): the graceful shutdown is known to have started when the server's GOAWAY(NO_ERROR) frame has been read; its last-stream-id must be the highest stream the peer opened (every HEADERS frame was written, and for the handler-triggered variant fenced, before the trigger). goaway_highest_in_flight_confirmed counts the cases in which, at the fence behind that GOAWAY, the highest stream had not yet delivered its whole response or had not yet received END_STREAM of its upload. From then on every WINDOW_UPDATE, DATA and RST_STREAM frame of the script is sent behind the GOAWAY. The connection closes by itself one second after the last stream has finished, so the last exact check of a case has no fence behind it when it completes every stream (nothing is left that could be sent; the ledger still judges every frame).")
	run.Require("goaway_highest_in_flight_confirmed", int64(run.Pick(22, 1100)))
	run.Require("goaway_exact_checks_after_goaway", int64(run.Pick(30, 1500)))
	run.Require("goaway_highest_resp", int64(run.Pick(6, 300)))
	run.Require("goaway_highest_upload", int64(run.Pick(6, 300)))
	run.Require("goaway_highest_both", int64(run.Pick(6, 300)))
	run.Require("goaway_uploads_verified", int64(run.Pick(15, 700)))
	run.Require("goaway_credit_bound_checks", int64(run.Pick(10, 500)))
}

type gstream struct {
	*estream
	spec   *gaStream
	idx    int
	pl     *plan
	u      *up
	upDone bool // END_STREAM of the upload has been sent
	relsd  bool // the handler's finish gate has been opened
}

type gaExec struct {
	c       *goawayCase
	s       *srig
	l       *h2peer.Ledger
	e       *exact
	rng     *rand.Rand
	streams []*gstream
	advConn int64
	after   bool // the server's GOAWAY has been read
}

func (x *gaExec) logf(format string, a ...any) {
	if len(x.c.Log) < 200 {
		x.c.Log = append(x.c.Log, fmt.Sprintf(format, a...))
	}
}

func (x *gaExec) steps() string { return strings.Join(x.c.Log, "; ") }

// ended: a GOAWAY(NO_ERROR) is part of the script, not the end.
func (x *gaExec) ended() string {
	if ga, code, dbg := x.l.GoAway(); ga && code != http2.ErrCodeNo {
		return fmt.Sprintf("GOAWAY %v %q", code, dbg)
	}
	if x.l.EOF() {
		return "connection closed"
	}
	return ""
}

func (x *gaExec) ledgerFinding() *finding {
	if v := x.l.Violations(); len(v) > 0 {
		return &finding{class: "S/goaway/" + v[0].Kind, msg: fmt.Sprintf("%s (and %d more ledger findings); steps: %s", v[0].Msg, len(v)-1, x.steps())}
	}
	return nil
}

func (x *gaExec) endedFinding(where string) *finding {
	return &finding{class: "S/goaway/connection-ended", msg: fmt.Sprintf("%s: the implementation ended the connection (%s) although the script did nothing illegal; steps: %s", where, x.ended(), x.steps())}
}

// complete: the response of g has arrived entirely.
func (x *gaExec) complete(g *gstream) bool {
	st := x.l.Stream(g.sid)
	return g.due && st.Got >= g.avail && st.Ended
}

// inFlight: g still depends on frames of the peer or has data to deliver.
func (x *gaExec) inFlight(g *gstream) bool {
	if g.dead {
		return false
	}
	return !x.complete(g) || (g.u != nil && !g.upDone)
}

func (x *gaExec) allComplete() bool {
	for _, g := range x.streams {
		if !g.dead && x.inFlight(g) {
			return false
		}
	}
	return true
}

func (x *gaExec) settle(where string) *finding {
	f := x.e.settle(where)
	if f == nil && x.after {
		run.Add("goaway_exact_checks_after_goaway", 1)
	}
	return f
}

// sendUp sends body bytes of g's upload up to the offset `to` as the server's
// windows allow, and END_STREAM when end is set.
func (x *gaExec) sendUp(g *gstream, to int64, end bool) *finding {
	l := x.l
	for g.u.off < to {
		var a int64
		ok, d := l.WaitUntil(watchdog, func() bool {
			a = l.StreamSendAllowance(g.sid)
			if c := l.ConnSendAllowance(); c < a {
				a = c
			}
			return a > 0
		})
		noteWait(d)
		if f := x.ledgerFinding(); f != nil {
			return f
		}
		if !ok {
			if x.ended() != "" {
				return x.endedFinding(g.name + " upload")
			}
			return &finding{class: "S/goaway/credit-not-returned", stall: true, msg: fmt.Sprintf("%s (stream %d): the handler reads the request body but no window came back within %v: %d of %d body bytes sent, stream send allowance %d, connection send allowance %d; steps: %s", g.name, g.sid, watchdog, g.u.off, g.spec.Up, l.StreamSendAllowance(g.sid), l.ConnSendAllowance(), x.steps())}
		}
		if a > to-g.u.off {
			a = to - g.u.off
		}
		off0 := g.u.off
		if _, err := sendFlow(l, g.u, a, g.spec.Pad, x.rng, false); err != nil {
			return &finding{class: "S/goaway/write", msg: err.Error() + " " + x.ended(), incon: x.ended() == ""}
		}
		if x.after {
			run.Add("goaway_upload_bytes_after_goaway", g.u.off-off0)
		}
	}
	if end && !g.upDone {
		if err := l.Data(g.sid, true, nil, -1); err != nil {
			return &finding{class: "S/goaway/write", msg: err.Error() + " " + x.ended(), incon: x.ended() == ""}
		}
		g.upDone = true
	}
	return nil
}

// finishUpload sends the rest of g's upload and waits until the handler has
// reached the end of the body.
func (x *gaExec) finishUpload(g *gstream) *finding {
	if f := x.sendUp(g, g.spec.Up, true); f != nil {
		return f
	}
	x.logf("%s (stream %d): upload complete (%d body bytes, END_STREAM)", g.name, g.sid, g.spec.Up)
	if !waitCh(g.pl.readDone) {
		if f := x.ledgerFinding(); f != nil {
			return f
		}
		if x.ended() != "" {
			return x.endedFinding(g.name + " upload")
		}
		return &finding{class: "S/goaway/upload-not-delivered", stall: true, msg: fmt.Sprintf("%s (stream %d): %d body bytes and END_STREAM were sent within the advertised windows, but the handler has not reached the end of the request body within %v; steps: %s", g.name, g.sid, g.spec.Up, watchdog, x.steps())}
	}
	pl := g.pl
	if pl.read != g.spec.Up || pl.badAt >= 0 || pl.rerr != "" {
		return &finding{class: "S/goaway/request-body", msg: fmt.Sprintf("%s (stream %d): the handler read %d of %d body bytes, first bad offset %d, error %q; steps: %s", g.name, g.sid, pl.read, g.spec.Up, pl.badAt, pl.rerr, x.steps())}
	}
	run.Add("goaway_uploads_verified", 1)
	run.Add("request-bodies-verified", 1)
	return nil
}

func (x *gaExec) release(g *gstream) {
	if g.pl.finish != nil && !g.relsd {
		g.relsd = true
		close(g.pl.finish)
		g.due = true
	}
}

func (x *gaExec) checkBound(where string) *finding {
	if err := x.l.FenceControl(watchdog); err != nil {
		if f := x.ledgerFinding(); f != nil {
			return f
		}
		if x.ended() != "" {
			return x.endedFinding(where)
		}
		return &finding{class: "S/goaway/fence", msg: where + ": PING not answered", incon: true}
	}
	run.Add("fences", 1)
	u := x.advConn - x.l.ConnSendAllowance()
	noteCredit(u)
	run.Add("credit-bound-checks", 1)
	run.Add("goaway_credit_bound_checks", 1)
	if u > creditBound {
		wu0, sent := x.l.ConnCredit()
		return &finding{class: "S/goaway/credit-not-returned", msg: fmt.Sprintf("%s: un-returned connection-level credit is %d bytes (> %d): advertised %d, peer sent %d flow-controlled bytes, stream-0 WINDOW_UPDATEs total %d; steps: %s", where, u, creditBound, x.advConn, sent, wu0, x.steps())}
	}
	return x.ledgerFinding()
}

func (x *gaExec) grant(g gaGrant) (bool, *finding) {
	l := x.l
	var sid uint32
	if g.S > 0 {
		if g.S > len(x.streams) {
			return false, nil
		}
		gs := x.streams[g.S-1]
		if gs.dead || x.complete(gs) || l.Allowance(gs.sid)+g.N > h2peer.MaxWindow {
			return false, nil
		}
		sid = gs.sid
	} else if l.ConnAllowance()+g.N > h2peer.MaxWindow {
		return false, nil
	}
	if err := l.WindowUpdate(sid, uint32(g.N)); err != nil {
		return false, &finding{class: "S/goaway/write", msg: err.Error() + " " + x.ended(), incon: x.ended() == ""}
	}
	run.Add("grants", 1)
	x.logf("WINDOW_UPDATE(%d, %d)", sid, g.N)
	return true, x.settle(fmt.Sprintf("WINDOW_UPDATE(%d, %d)", sid, g.N))
}

func runGoaway(c *goawayCase) (res *finding) {
	c.Log = nil
	s, err := newSrig(scfg{IW0: c.IW0, MFS0: c.MFS0, UpConn: c.UpConn, UpStream: c.UpStream, Sched: c.Sched})
	if err != nil {
		return &finding{class: "S/goaway/setup", msg: err.Error(), incon: true}
	}
	defer s.shutdown()
	l := s.l
	x := &gaExec{c: c, s: s, l: l, rng: rand.New(rand.NewSource(c.Seed))}
	x.e = &exact{l: l, pre: "S/goaway/", steps: x.steps, lf: x.ledgerFinding, ended: x.ended}
	x.e.noFence = func() bool { return x.after && x.allComplete() }
	x.advConn = l.ConnSendAllowance()
	defer func() {
		collectStats(l, "S")
		noteWait(x.e.maxWait)
		run.Add("handler-starts", s.nStarts())
	}()
	run.Add("goaway_cases", 1)
	x.logf("peer SETTINGS: initial window %d, max frame size %d; server advertised: stream window %d, connection window %d", l.InitialWindow(), l.MaxFrame(), l.ImplInitialWindow(), x.advConn)

	// the streams
	for i := range c.Streams {
		sp := &c.Streams[i]
		idx := i + 1
		pl := &plan{Key: c.KeyBase + uint64(idx), Resp: sp.Resp, W: sp.W, Flush: sp.Flush, CL: sp.CL, Abort: -1, Req: "none", ReadSz: sp.ReadSz}
		withBody := sp.Kind != "resp"
		if withBody {
			pl.Req, pl.readDone, pl.finish = "all", make(chan struct{}), make(chan struct{})
		}
		if c.Trigger == "conn-close" && i == c.TrigIdx {
			pl.ConnClose, pl.finish = true, make(chan struct{})
		}
		sid, err := s.request(idx, pl, withBody)
		if err != nil {
			return &finding{class: "S/goaway/write", msg: err.Error(), incon: true}
		}
		g := &gstream{estream: &estream{name: fmt.Sprintf("S%d", idx), sid: sid, avail: sp.Resp, eof: true, due: pl.finish == nil}, spec: sp, idx: idx, pl: pl}
		if withBody {
			g.u = &up{sid: sid, key: reqKey(pl.Key)}
		}
		x.streams = append(x.streams, g)
		x.e.add(g.estream)
		x.logf("%s = stream %d (%s: response %d bytes, upload %d bytes of which %d before the GOAWAY)", g.name, sid, sp.Kind, sp.Resp, sp.Up, min64(sp.UpPre, sp.Up))
	}
	run.Add("streams-opened", int64(len(x.streams)))
	hi := x.streams[len(x.streams)-1]
	for _, g := range x.streams {
		if g.u != nil && g.spec.UpPre > 0 {
			if f := x.sendUp(g, min64(g.spec.UpPre, g.spec.Up), false); f != nil {
				return f
			}
		}
	}
	if c.At != "open" {
		if f := x.settle("first flight"); f != nil {
			return f
		}
	}
	if c.At == "granted" {
		for _, g := range c.PreGrants {
			if _, f := x.grant(g); f != nil {
				return f
			}
		}
	}
	if c.At == "last-alone" {
		// every stream but the highest is brought to its end
		for _, g := range x.streams[:len(x.streams)-1] {
			if g.u != nil {
				if f := x.finishUpload(g); f != nil {
					return f
				}
			}
			x.release(g)
		}
		l.Settle()
		var need int64
		for _, g := range x.streams[:len(x.streams)-1] {
			rem := g.avail - x.e.got(g.estream)
			if rem <= 0 {
				continue
			}
			need += rem
			if a := l.Allowance(g.sid); rem > a {
				l.WindowUpdate(g.sid, uint32(rem-a))
				run.Add("grants", 1)
			}
		}
		// the highest stream shares the connection window: what its stream window
		// still allows comes on top, so that the others can finish whoever is served first
		if rem := min64(hi.avail-x.e.got(hi.estream), l.Allowance(hi.sid)); hi.due && rem > 0 {
			need += rem
		}
		if a := l.ConnAllowance(); need > a {
			l.WindowUpdate(0, uint32(need-a))
			run.Add("grants", 1)
		}
		if f := x.settle("all streams but the highest granted"); f != nil {
			return f
		}
		for _, g := range x.streams[:len(x.streams)-1] {
			if !x.complete(g) {
				return &finding{class: "S/goaway/queued-data-not-delivered", stall: true, msg: fmt.Sprintf("%s (stream %d) has %d of %d bytes after everything was granted; steps: %s", g.name, g.sid, x.e.got(g.estream), g.avail, x.steps())}
			}
		}
		x.logf("every stream but the highest is complete")
	}

	// the graceful shutdown starts
	switch c.Trigger {
	case "client-goaway":
		if err := l.P.Do(func(fr *http2.Framer) error { return fr.WriteGoAway(0, http2.ErrCodeNo, nil) }); err != nil {
			return &finding{class: "S/goaway/write", msg: err.Error() + " " + x.ended(), incon: x.ended() == ""}
		}
		x.logf("peer sent GOAWAY(NO_ERROR, last-stream-id 0)")
	case "conn-close":
		// every HEADERS frame has been processed before the handler is let go
		if err := l.FenceControl(watchdog); err != nil {
			if f := x.ledgerFinding(); f != nil {
				return f
			}
			return &finding{class: "S/goaway/fence", msg: "PING before the trigger not answered: " + x.ended(), incon: true}
		}
		x.release(x.streams[c.TrigIdx])
		x.logf("the handler of %s answers with Connection: close", x.streams[c.TrigIdx].name)
	}
	run.Add("goaway_trigger_"+c.Trigger, 1)
	ok, _ := l.WaitUntil(watchdog, func() bool { ga, _, _ := l.GoAway(); return ga })
	if f := x.ledgerFinding(); f != nil {
		return f
	}
	if !ok {
		if x.ended() != "" {
			return x.endedFinding("waiting for the server's GOAWAY")
		}
		return &finding{class: "S/goaway/no-goaway", incon: true, msg: "the server did not send GOAWAY within the watchdog"}
	}
	if x.ended() != "" {
		return x.endedFinding("graceful shutdown")
	}
	var lastID uint32
	for _, ev := range l.P.Events() {
		if ev.Is(http2.FrameGoAway) {
			lastID = ev.LastStreamID
		}
	}
	if lastID != hi.sid {
		return &finding{class: "S/goaway/construction", incon: true, msg: fmt.Sprintf("the server's GOAWAY names last-stream-id %d, the highest stream opened before the trigger is %d", lastID, hi.sid)}
	}
	x.after = true
	// the exact check behind the GOAWAY (the first one of the case when the
	// shutdown started right behind the HEADERS)
	if f := x.settle("behind the server's GOAWAY"); f != nil {
		return f
	}
	if x.allComplete() {
		run.Add("goaway_highest_in_flight_unconfirmed", 1)
		x.logf("server sent GOAWAY(NO_ERROR, last-stream-id %d); nothing was in flight any more", lastID)
		return x.ledgerFinding()
	}
	if x.inFlight(hi) {
		run.Add("goaway_highest_in_flight_confirmed", 1)
	} else {
		run.Add("goaway_highest_in_flight_unconfirmed", 1)
	}
	run.Add("goaway_highest_"+hi.spec.Kind, 1)
	got0 := l.DataBytes()
	defer func() { run.Add("goaway_response_bytes_after_goaway", l.DataBytes()-got0) }()
	x.logf("server sent GOAWAY(NO_ERROR, last-stream-id %d); fence passed; the highest stream %s has %d of %d response bytes, upload finished %v", lastID, hi.name, x.e.got(hi.estream), hi.avail, hi.u == nil || hi.upDone)

	// a stream opened behind the GOAWAY: ignored by the server, credit comes back
	if c.Late > 0 {
		if n := min64(c.Late, l.ConnSendAllowance()); n > 0 {
			sid := s.nextSID
			s.nextSID += 2
			if err := l.Headers(sid, false, h2peer.PostFields("c12.test", "/"+strconv.Itoa(9000))...); err != nil {
				return &finding{class: "S/goaway/write", msg: err.Error() + " " + x.ended(), incon: x.ended() == ""}
			}
			lu := &up{sid: sid, key: 1}
			if _, err := sendFlow(l, lu, n, false, x.rng, x.rng.Intn(2) == 0); err != nil {
				return &finding{class: "S/goaway/write", msg: err.Error() + " " + x.ended(), incon: x.ended() == ""}
			}
			run.Add("goaway_late_stream_cases", 1)
			x.logf("peer opened stream %d behind the GOAWAY and sent %d bytes of DATA on it", sid, n)
			if f := x.e.fence("DATA on a stream opened behind the GOAWAY"); f != nil {
				return f
			}
			if st := l.Stream(sid); st.Got > 0 || st.Headers != nil {
				return &finding{class: "S/goaway/stream-behind-goaway-answered", msg: fmt.Sprintf("stream %d was opened behind the server's GOAWAY(last-stream-id %d) and was answered; steps: %s", sid, lastID, x.steps())}
			}
			uploads := false
			for _, g := range x.streams {
				uploads = uploads || g.u != nil
			}
			if !uploads {
				// nothing else the peer sent is waiting for a handler
				if f := x.checkBound("DATA on a stream opened behind the GOAWAY"); f != nil {
					return f
				}
			}
		}
	}

	// reset by the peer at a quiescent point
	if c.RstAfter > 0 && c.RstAfter <= len(x.streams) {
		g := x.streams[c.RstAfter-1]
		others := 0
		for _, o := range x.streams {
			if o != g && x.inFlight(o) {
				others++
			}
		}
		if !g.dead && g.due && !x.complete(g) && others > 0 {
			x.e.kill(g.estream)
			if err := l.Reset(g.sid, http2.ErrCodeCancel); err != nil {
				return &finding{class: "S/goaway/write", msg: err.Error() + " " + x.ended(), incon: x.ended() == ""}
			}
			run.Add("streams-reset-by-peer", 1)
			run.Add("goaway_rst_after_goaway", 1)
			x.logf("peer sent RST_STREAM(%d, CANCEL) for %s at a quiescent point", g.sid, g.name)
			if f := x.e.fence("RST_STREAM behind the GOAWAY"); f != nil {
				return f
			}
		}
	}

	uploads := func() *finding {
		n := 0
		for _, g := range x.streams {
			if g.u == nil || g.relsd {
				continue
			}
			if f := x.finishUpload(g); f != nil {
				return f
			}
			n++
		}
		if n == 0 {
			return nil
		}
		// every handler is at the end of its body, every stream of theirs still open
		if f := x.checkBound("every upload consumed by its handler"); f != nil {
			return f
		}
		for _, g := range x.streams {
			if g.u != nil {
				x.release(g)
			}
		}
		x.logf("un-returned connection-level credit %d; handlers released", x.advConn-l.ConnSendAllowance())
		return x.settle("handlers released")
	}
	if c.UpFirst {
		if f := uploads(); f != nil {
			return f
		}
	}
	for _, g := range c.PostGrants {
		if x.allComplete() {
			break
		}
		if _, f := x.grant(g); f != nil {
			return f
		}
	}
	if !c.UpFirst && !x.allComplete() {
		if f := uploads(); f != nil {
			return f
		}
	}

	// everything is granted
	if !x.allComplete() {
		x.e.grantAll()
		x.logf("everything granted")
		if f := x.settle("everything granted"); f != nil {
			return f
		}
	}
	for _, g := range x.streams {
		if g.dead {
			continue
		}
		if !x.complete(g) {
			st := l.Stream(g.sid)
			return &finding{class: "S/goaway/queued-data-not-delivered", stall: true, msg: fmt.Sprintf("after granting everything %s (stream %d) has %d of %d response bytes, END_STREAM=%v; steps: %s", g.name, g.sid, st.Got, g.avail, st.Ended, x.steps())}
		}
		if !waitCh(g.pl.done) {
			return &finding{class: "S/goaway/handler", msg: g.name + ": handler did not return: " + x.ended(), incon: true}
		}
		run.Add("goaway_responses_completed", 1)
	}
	run.Add("bodies-completed", int64(len(x.streams)))
	return x.ledgerFinding()
}
