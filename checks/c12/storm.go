package main

import (
	"fmt"
	"math/rand"
	"sync"

	"golang.org/x/net/http2"

	"verif/internal/h2peer"
)

// Unfenced storms: grants, SETTINGS changes, resets and new streams are fired
// without waiting for anything; the ledger is then a (sound, less tight) upper
// bound. At the end everything is granted and every body must complete.

type stormParams struct {
	Streams int   `json:"streams"`
	NOps    int   `json:"n_ops"`
	Senders int   `json:"senders"` // 1: single sender with occasional control fences; 2: two concurrent senders
	Seed    int64 `json:"seed"`
}

func newStormScript(rigName string, index int, rng *rand.Rand) *fscript {
	sc := &fscript{Family: "storm", Rig: rigName, Index: index, KeyBase: uint64(rng.Int63())}
	sc.IW0 = pick64(rng, -1, 0, 1000, 16384, 65535, 100000)
	sc.MFS0 = pick64(rng, -1, -1, 16384, 20000, 65536)
	sc.Sched = []string{"", "prio", "random"}[rng.Intn(3)]
	sc.Storm = &stormParams{Streams: 2 + rng.Intn(38), NOps: 100 + rng.Intn(300), Senders: 1 + rng.Intn(2), Seed: rng.Int63()}
	return sc
}

func stormCases() []kase {
	var cases []kase
	n := run.Pick(80, 800)
	for _, rigName := range []string{"S", "T"} {
		for i := 0; i < n; i++ {
			rigName, i := rigName, i
			stream := 1000003 + int64(i)*4
			if rigName == "T" {
				stream += 2
			}
			cases = append(cases, kase{family: "storm", rig: rigName, index: i, exec: func() (*finding, any) {
				sc := newStormScript(rigName, i, run.Rand(stream))
				f := runStorm(sc, nil)
				run.Distinct(fmt.Sprintf("storm/%s/%d/%d/%d/%d/%d", sc.Rig, sc.IW0, sc.MFS0, sc.Storm.Streams, sc.Storm.NOps, sc.Storm.Senders))
				return f, sc
			}})
		}
	}
	return cases
}

func runStorm(sc *fscript, _ *fgen) *finding {
	x := &fexec{sc: sc}
	if sc.Rig == "T" {
		t, err := newTrig(tcfg{IW0: sc.IW0, MFS0: sc.MFS0})
		if err != nil {
			return &finding{class: "T/storm/setup", msg: err.Error(), incon: true}
		}
		x.t, x.l = t, t.l
		defer t.shutdown()
	} else {
		s, err := newSrig(scfg{IW0: sc.IW0, MFS0: sc.MFS0, Sched: sc.Sched})
		if err != nil {
			return &finding{class: "S/storm/setup", msg: err.Error(), incon: true}
		}
		x.s, x.l = s, s.l
		defer s.shutdown()
	}
	defer func() {
		collectStats(x.l, sc.Rig)
		noteWait(x.maxWait)
		if x.s != nil {
			run.Add("handler-starts", x.s.nStarts())
		} else {
			run.Add("transport-requests", x.t.nStarts())
		}
	}()
	l := x.l
	sp := sc.Storm
	rng := rand.New(rand.NewSource(sp.Seed))
	openOne := func() *finding {
		o := fop{K: "open", Body: 10000 + rng.Int63n(290000), W: []int{100, 4096, 16384, 70000}[rng.Intn(4)], Flush: rng.Intn(2) == 0, CL: rng.Intn(2) == 0}
		return x.open(o)
	}
	for i := 0; i < sp.Streams; i++ {
		if f := openOne(); f != nil {
			return f
		}
	}
	if f := x.resolveSids(); f != nil {
		return f
	}
	run.Add("streams-opened", int64(sp.Streams))
	sids := make([]uint32, len(x.streams))
	for i, s := range x.streams {
		sids[i] = s.sid
	}
	// Windows cannot overflow by accident: initial windows stay <= 1 MiB and a
	// stream or the connection receives at most NOps grants of <= 65536.
	var dmu sync.Mutex
	deadSid := map[uint32]bool{}
	fire := func(rng *rand.Rand, n int, settings bool) {
		for i := 0; i < n; i++ {
			sid := sids[rng.Intn(len(sids))]
			switch r := rng.Intn(100); {
			case r < 40:
				l.WindowUpdate(sid, uint32(pick64(rng, 1, 2, 100, 16383, 16384, 16385, 65536, 1+rng.Int63n(40000))))
				run.Add("grants", 1)
			case r < 75:
				l.WindowUpdate(0, uint32(pick64(rng, 1, 100, 16384, 65536, 1+rng.Int63n(65536))))
				run.Add("grants", 1)
			case r < 90 && settings:
				l.Settings(http2.Setting{ID: http2.SettingInitialWindowSize, Val: uint32(pick64(rng, 0, 0, 1, 1000, 16384, 65535, 100000, 1<<20, rng.Int63n(100000)))})
				run.Add("settings-changes", 1)
			case r < 95 && settings:
				l.Settings(http2.Setting{ID: http2.SettingMaxFrameSize, Val: uint32(pick64(rng, 16384, 16385, 30000, 65536, 1<<20))})
				run.Add("settings-changes", 1)
			case r < 97:
				dmu.Lock()
				was := deadSid[sid]
				deadSid[sid] = true
				dmu.Unlock()
				if !was {
					l.Reset(sid, http2.ErrCodeCancel)
					run.Add("streams-reset-by-peer", 1)
				}
			default:
				if sp.Senders == 1 && rng.Intn(3) == 0 {
					// a control fence tightens the ledger (all SETTINGS so far are applied)
					if err := l.FenceControl(watchdog); err != nil {
						return
					}
					run.Add("fences", 1)
				} else {
					l.WindowUpdate(sid, 1)
					run.Add("grants", 1)
				}
			}
		}
	}
	if sp.Senders == 2 {
		var wg sync.WaitGroup
		r2 := rand.New(rand.NewSource(sp.Seed + 1))
		wg.Add(2)
		go func() { defer wg.Done(); fire(rng, sp.NOps/2, true) }()
		go func() { defer wg.Done(); fire(r2, sp.NOps/2, false) }()
		wg.Wait()
	} else {
		fire(rng, sp.NOps, true)
	}
	if f := x.ledgerFinding(); f != nil {
		return f
	}
	if e := x.connEnded(); e != "" {
		return &finding{class: sc.Rig + "/storm/connection-ended", msg: "the implementation ended the connection during a legal storm: " + e}
	}
	// quiesce, then grant everything and require completion
	if err := l.Quiesce(watchdog); err != nil {
		if f := x.ledgerFinding(); f != nil {
			return f
		}
		if e := x.connEnded(); e != "" {
			return &finding{class: sc.Rig + "/storm/connection-ended", msg: "the implementation ended the connection during a legal storm: " + e}
		}
		return &finding{class: sc.Rig + "/storm/fence", msg: "fence not answered after the storm", incon: true}
	}
	run.Add("fences", 3)
	for _, s := range x.streams {
		if deadSid[s.sid] {
			x.kill(s)
		}
	}
	if f := x.step(fop{K: "drain"}); f != nil {
		return f
	}
	return x.ledgerFinding()
}

var _ = h2peer.MaxWindow
