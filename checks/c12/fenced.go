package main

import (
	"encoding/json"
	"fmt"
	"math/rand"
	"os"
	"strings"
	"time"

	"golang.org/x/net/http2"

	"verif/internal/h2peer"
)

// fop is one step of a fenced script. After every step that is not marked
// Batch the executor waits for exactly the bytes the ledger allows, then proves
// with three PING round trips that nothing else arrives.
type fop struct {
	K     string `json:"k"`           // open | grant | iw | iwoverflow | mfs | rst | cancel | overflow | drain
	S     int    `json:"s,omitempty"` // script stream (1-based), 0 = connection
	N     int64  `json:"n,omitempty"`
	Batch bool   `json:"batch,omitempty"`
	Body  int64  `json:"body,omitempty"`
	W     int    `json:"w,omitempty"`
	Flush bool   `json:"flush,omitempty"`
	CL    bool   `json:"cl,omitempty"`
	Abort int64  `json:"abort,omitempty"` // open: 0 = none, k>0: stop with RST after k bytes
}

type fscript struct {
	Family  string       `json:"family"`
	Rig     string       `json:"rig"`
	Index   int          `json:"index"`
	Profile string       `json:"profile,omitempty"`
	IW0     int64        `json:"iw0"`
	MFS0    int64        `json:"mfs0"`
	Sched   string       `json:"sched,omitempty"`
	KeyBase uint64       `json:"key_base"`
	Ops     []fop        `json:"ops"`
	Storm   *stormParams `json:"storm,omitempty"`
}

type finding struct {
	class string
	msg   string
	stall bool // progress watchdog expired: re-run in isolation before reporting
	incon bool
}

type fstream struct {
	idx   int
	sid   uint32
	total int64
	abort bool
	dead  bool
	acked bool // T: response sent
	pl    *plan
	rq    *treq
}

type fexec struct {
	sc      *fscript
	l       *h2peer.Ledger
	s       *srig
	t       *trig
	streams []*fstream
	over    bool // the connection was ended on purpose
	deadGot int64
	maxWait time.Duration
	steps   int
}

func (x *fexec) rigT() bool { return x.t != nil }

func (x *fexec) got(s *fstream) int64 { return x.l.Stream(s.sid).Got }

// sumGot: body bytes received on the streams that are not dead (every DATA
// frame of the connection belongs to a script stream; the bytes of a stream
// are frozen in deadGot when it is marked dead after a fence).
func (x *fexec) sumGot() int64 { return x.l.DataBytes() - x.deadGot }

func (x *fexec) kill(s *fstream) {
	if !s.dead {
		s.dead = true
		if s.sid != 0 {
			x.deadGot += x.got(s)
		}
	}
}

// want is what the ledger says must still arrive with the windows as they are.
func (x *fexec) want() int64 {
	var w int64
	for _, s := range x.streams {
		if s.dead || s.sid == 0 {
			continue
		}
		rem := s.total - x.got(s)
		a := x.l.Allowance(s.sid)
		if a < rem {
			rem = a
		}
		if rem > 0 {
			w += rem
		}
	}
	if c := x.l.ConnAllowance(); c < w {
		w = c
	}
	if w < 0 {
		w = 0
	}
	return w
}

func (x *fexec) terminated(s *fstream) bool {
	st := x.l.Stream(s.sid)
	if s.abort {
		return st.ImplReset
	}
	return st.Ended || st.ImplReset
}

func (x *fexec) connEnded() string {
	if ga, code, dbg := x.l.GoAway(); ga {
		return fmt.Sprintf("GOAWAY %v %q", code, dbg)
	}
	if x.l.EOF() {
		return "connection closed"
	}
	return ""
}

func (x *fexec) ledgerFinding() *finding {
	if v := x.l.Violations(); len(v) > 0 {
		// a hard finding outranks the separately classified decrease race
		for i := range v {
			if !strings.HasSuffix(v[i].Kind, "-decrease-race") {
				v[0] = v[i]
				break
			}
		}
		if strings.HasSuffix(v[0].Kind, "-decrease-race") {
			return &finding{class: x.sc.Rig + "/" + v[0].Kind, msg: fmt.Sprintf("first DATA frame of the stream after the ACK of a decrease, sized with the value in force before it: %s (and %d more ledger findings)", v[0].Msg, len(v)-1)}
		}
		return &finding{class: x.sc.Rig + "/" + x.sc.Family + "/" + v[0].Kind, msg: fmt.Sprintf("%s (and %d more ledger findings)", v[0].Msg, len(v)-1)}
	}
	return nil
}

func (x *fexec) resolveSids() *finding {
	if !x.rigT() {
		return nil
	}
	for _, s := range x.streams {
		if s.sid == 0 {
			sid, err := x.t.waitSid(s.idx)
			if err != nil {
				if f := x.ledgerFinding(); f != nil {
					return f
				}
				return &finding{class: "T/" + x.sc.Family + "/no-headers", msg: err.Error() + " " + x.connEnded(), stall: true}
			}
			s.sid = sid
		}
	}
	return nil
}

// settle: the exact check at a quiescent point.
func (x *fexec) settle() *finding {
	l := x.l
	pre := x.sc.Rig + "/" + x.sc.Family + "/"
	if f := x.resolveSids(); f != nil {
		return f
	}
	if l.PendingSettings() > 0 {
		ok, _ := l.WaitUntil(watchdog, func() bool { return l.PendingSettings() == 0 })
		if !ok {
			if f := x.ledgerFinding(); f != nil {
				return f
			}
			return &finding{class: pre + "settings-not-acked", msg: "SETTINGS not acknowledged: " + x.connEnded(), stall: true}
		}
	}
	l.Settle()
	target := x.sumGot() + x.want()
	ok, total, d := l.WaitProgress(watchdog, 12*watchdog, func() bool {
		g := x.sumGot()
		if g > target {
			return true
		}
		if g != target {
			return false
		}
		for _, s := range x.streams {
			if !s.dead && x.got(s) >= s.total && !x.terminated(s) {
				return false
			}
		}
		return true
	})
	if d > x.maxWait {
		x.maxWait = d
	}
	noteTotalWait(total)
	if d > 3*time.Second && os.Getenv("VERIF_C12_DEBUG") != "" {
		b, _ := json.Marshal(x.sc)
		fmt.Fprintf(os.Stderr, "SLOWSETTLE %v step %d target %d streams %d frames %d %s\n", d, x.steps, target, len(x.streams), x.l.Stats().DataFrames, b)
	}
	if f := x.ledgerFinding(); f != nil {
		return f
	}
	if !ok {
		if e := x.connEnded(); e != "" {
			return &finding{class: pre + "connection-ended", msg: fmt.Sprintf("step %d: the implementation ended the connection (%s) although the script did nothing illegal", x.steps, e)}
		}
		var detail string
		for _, s := range x.streams {
			if !s.dead {
				st := l.Stream(s.sid)
				detail += fmt.Sprintf(" [stream %d: got %d of %d, allowance %d, ended=%v reset=%v]", s.sid, st.Got, s.total, l.Allowance(s.sid), st.Ended, st.ImplReset)
				if len(detail) > 600 {
					break
				}
			}
		}
		return &finding{class: pre + "queued-data-not-delivered", stall: true,
			msg: fmt.Sprintf("step %d: %d of the %d bytes that the granted windows allow (connection allowance %d) did not arrive (no frame at all for %v):%s", x.steps, target-x.sumGot(), target, l.ConnAllowance(), watchdog, detail)}
	}
	// T: answer the requests whose body is complete, so that RoundTrip returns.
	if x.rigT() {
		for _, s := range x.streams {
			if !s.dead && !s.acked && l.Stream(s.sid).Ended {
				s.acked = true
				l.Respond(s.sid, "200", true)
			}
		}
	}
	if err := l.Quiesce(watchdog); err != nil {
		if f := x.ledgerFinding(); f != nil {
			return f
		}
		if e := x.connEnded(); e != "" {
			return &finding{class: pre + "connection-ended", msg: fmt.Sprintf("step %d: %s during the fence", x.steps, e)}
		}
		return &finding{class: pre + "fence", msg: "PING fence not answered", incon: true}
	}
	run.Add("fences", 3)
	if f := x.ledgerFinding(); f != nil {
		return f
	}
	if g := x.sumGot(); g != target {
		return &finding{class: pre + "excess-after-fence", msg: fmt.Sprintf("step %d: %d bytes arrived, the windows allowed %d", x.steps, g, target)}
	}
	run.Add("exact-quiescent-checks", 1)
	return nil
}

func (x *fexec) open(o fop) *finding {
	idx := len(x.streams) + 1
	key := x.sc.KeyBase + uint64(idx)
	fs := &fstream{idx: idx, total: o.Body}
	if o.Abort > 0 && o.Abort < o.Body {
		fs.total, fs.abort = o.Abort, true
	}
	x.streams = append(x.streams, fs)
	if x.rigT() {
		fs.rq = &treq{Key: key, Size: o.Body, Chunk: o.W, CL: o.CL}
		x.t.start(idx, fs.rq)
		// the transport ends such a request by cancelling it (op "cancel"); a
		// planned abort is executed by the script when the bytes have arrived.
		fs.total, fs.abort = o.Body, false
		return nil
	}
	fs.pl = &plan{Key: key, Resp: o.Body, W: o.W, Flush: o.Flush, CL: o.CL, Abort: -1, Req: "none"}
	if fs.abort {
		fs.pl.Abort = o.Abort
	}
	sid, err := x.s.request(idx, fs.pl, false)
	if err != nil {
		return &finding{class: "S/" + x.sc.Family + "/write", msg: err.Error(), incon: true}
	}
	fs.sid = sid
	return nil
}

func (x *fexec) stream(o fop) *fstream {
	if o.S < 1 || o.S > len(x.streams) {
		return nil
	}
	return x.streams[o.S-1]
}

// step executes one op (and the exact check that follows it).
func (x *fexec) step(o fop) *finding {
	x.steps++
	l := x.l
	pre := x.sc.Rig + "/" + x.sc.Family + "/"
	switch o.K {
	case "open":
		if f := x.open(o); f != nil {
			return f
		}
		run.Add("streams-opened", 1)
	case "grant":
		var sid uint32
		if o.S != 0 {
			s := x.stream(o)
			if s == nil || s.dead {
				return nil
			}
			if f := x.resolveSids(); f != nil {
				return f
			}
			sid = s.sid
		}
		l.WindowUpdate(sid, uint32(o.N))
		run.Add("grants", 1)
	case "iw":
		l.Settings(http2.Setting{ID: http2.SettingInitialWindowSize, Val: uint32(o.N)})
		run.Add("settings-changes", 1)
	case "mfs":
		l.Settings(http2.Setting{ID: http2.SettingMaxFrameSize, Val: uint32(o.N)})
		run.Add("settings-changes", 1)
	case "rst":
		s := x.stream(o)
		if s == nil || s.dead {
			return nil
		}
		if f := x.resolveSids(); f != nil {
			return f
		}
		l.Reset(s.sid, http2.ErrCodeCancel)
		if err := l.Quiesce(watchdog); err != nil {
			return &finding{class: pre + "fence", msg: "fence after RST_STREAM: " + x.connEnded(), incon: x.connEnded() == ""}
		}
		run.Add("fences", 3)
		x.kill(s)
		run.Add("streams-reset-by-peer", 1)
	case "cancel":
		s := x.stream(o)
		if s == nil || s.dead || !x.rigT() {
			return nil
		}
		if f := x.resolveSids(); f != nil {
			return f
		}
		s.rq.cancel()
		ok, _ := l.WaitUntil(watchdog, func() bool { st := l.Stream(s.sid); return st.ImplReset || st.Ended })
		if !ok {
			return &finding{class: pre + "cancel", msg: "cancelled request: no RST_STREAM", incon: true}
		}
		if err := l.Quiesce(watchdog); err != nil {
			return &finding{class: pre + "fence", msg: "fence after cancel: " + x.connEnded(), incon: x.connEnded() == ""}
		}
		run.Add("fences", 3)
		x.kill(s)
		run.Add("streams-reset-by-impl", 1)
	case "overflow":
		run.Add("overflow-attempts", 1)
		if o.S == 0 {
			l.WindowUpdate(0, uint32(o.N))
			ok, _ := l.WaitUntil(watchdog, func() bool { ga, _, _ := l.GoAway(); return ga })
			x.over = true
			if ga, _, _ := l.GoAway(); !ga && x.rigT() && l.EOF() {
				// The transport tears the connection down on a connection error; its
				// GOAWAY is written to a buffer that is never flushed. The teardown
				// is accepted as the refusal.
				run.Add("overflow-answered", 1)
				run.Add("transport-conn-error-teardown-without-goaway", 1)
				return x.ledgerFinding()
			}
			if ga, code, _ := l.GoAway(); !ok || !ga || code != http2.ErrCodeFlowControl {
				if f := x.ledgerFinding(); f != nil {
					return f
				}
				return &finding{class: pre + "conn-window-overflow-not-refused", msg: fmt.Sprintf("WINDOW_UPDATE(0, %d) lifted the connection window above 2^31-1; expected GOAWAY(FLOW_CONTROL_ERROR), got goaway=%v code=%v", o.N, ga, code)}
			}
			run.Add("overflow-answered", 1)
			return x.ledgerFinding()
		}
		s := x.stream(o)
		if s == nil || s.dead {
			return nil
		}
		l.WindowUpdate(s.sid, uint32(o.N))
		ok, _ := l.WaitUntil(watchdog, func() bool { return l.Stream(s.sid).ImplReset })
		st := l.Stream(s.sid)
		if !ok || st.ImplResetCode != http2.ErrCodeFlowControl {
			if f := x.ledgerFinding(); f != nil {
				return f
			}
			if e := x.connEnded(); e != "" {
				if ga, code, _ := l.GoAway(); ga && code == http2.ErrCodeFlowControl {
					x.over = true
					run.Add("overflow-answered", 1)
					return nil
				}
			}
			return &finding{class: pre + "stream-window-overflow-not-refused", msg: fmt.Sprintf("WINDOW_UPDATE(%d, %d) lifted the stream window above 2^31-1; expected RST_STREAM(FLOW_CONTROL_ERROR), got reset=%v code=%v %s", s.sid, o.N, st.ImplReset, st.ImplResetCode, x.connEnded())}
		}
		run.Add("overflow-answered", 1)
		if err := l.Quiesce(watchdog); err != nil {
			return &finding{class: pre + "fence", msg: "fence after overflow: " + x.connEnded(), incon: x.connEnded() == ""}
		}
		run.Add("fences", 3)
		x.kill(s)
	case "iwoverflow":
		// a SETTINGS_INITIAL_WINDOW_SIZE that lifts an open stream window above 2^31-1
		run.Add("overflow-attempts", 1)
		l.Settings(http2.Setting{ID: http2.SettingInitialWindowSize, Val: uint32(o.N)})
		ok, _ := l.WaitUntil(watchdog, func() bool { ga, _, _ := l.GoAway(); return ga })
		x.over = true
		if ga, code, _ := l.GoAway(); !ok || !ga || code != http2.ErrCodeFlowControl {
			if f := x.ledgerFinding(); f != nil {
				return f
			}
			return &finding{class: pre + "settings-window-overflow-not-refused", msg: fmt.Sprintf("SETTINGS_INITIAL_WINDOW_SIZE=%d lifted an open stream window above 2^31-1; expected GOAWAY(FLOW_CONTROL_ERROR), got goaway=%v code=%v", o.N, ga, code)}
		}
		run.Add("overflow-answered", 1)
		return x.ledgerFinding()
	case "drain":
		if f := x.resolveSids(); f != nil {
			return f
		}
		l.Settle()
		var need int64
		for _, s := range x.streams {
			if s.dead {
				continue
			}
			rem := s.total - x.got(s)
			need += rem
			if a := l.Allowance(s.sid); rem > a {
				l.WindowUpdate(s.sid, uint32(rem-a))
				run.Add("grants", 1)
			}
		}
		if c := l.ConnAllowance(); need > c {
			l.WindowUpdate(0, uint32(need-c))
			run.Add("grants", 1)
		}
		if f := x.settle(); f != nil {
			return f
		}
		for _, s := range x.streams {
			if !s.dead && (x.got(s) != s.total || !x.terminated(s)) {
				return &finding{class: pre + "queued-data-not-delivered", stall: true, msg: fmt.Sprintf("after granting everything stream %d has %d of %d bytes", s.sid, x.got(s), s.total)}
			}
		}
		run.Add("bodies-completed", int64(len(x.streams)))
		return nil
	}
	if o.Batch {
		return nil
	}
	return x.settle()
}

// ---------------------------------------------------------------- generator

type fgen struct {
	rng        *rand.Rand
	profile    string
	maxStreams int
	nOps       int
	emitted    int
	drained    bool
	finalOver  bool
}

var bodySizes = []int64{0, 1, 2, 100, 4095, 4096, 4097, 16383, 16384, 16385, 65535, 65536, 65537, 100000, 300000, 1 << 20}

func pick64(rng *rand.Rand, v ...int64) int64 { return v[rng.Intn(len(v))] }

func (g *fgen) openOp(rigT bool) fop {
	rng := g.rng
	o := fop{K: "open"}
	switch g.profile {
	case "wide":
		o.Body = pick64(rng, 0, 1, 100, 1000, 3000, int64(rng.Intn(6000)))
	case "big":
		o.Body = pick64(rng, 1<<20, 2<<20, 4<<20, 1<<20+int64(rng.Intn(1<<20)))
	case "neg":
		o.Body = pick64(rng, 200000, 500000, 1<<20)
	default:
		o.Body = bodySizes[rng.Intn(len(bodySizes))]
		if rng.Intn(3) == 0 {
			o.Body = int64(rng.Intn(200000))
		}
	}
	ws := []int{1, 7, 100, 4095, 4096, 4097, 16384, 16385, 65536, 1 << 20, int(o.Body) + 1}
	o.W = ws[rng.Intn(len(ws))]
	if int64(o.W) < o.Body/300 {
		o.W = int(o.Body/300) + 1
	}
	o.Flush = rng.Intn(2) == 0
	o.CL = rng.Intn(2) == 0
	if !rigT && o.Body > 1 && rng.Intn(8) == 0 {
		o.Abort = 1 + rng.Int63n(o.Body-1)
	}
	return o
}

// fallback is a step that is legal in every state.
func fallback(s *fstream, allow, conn int64) []fop {
	if allow < h2peer.MaxWindow {
		return []fop{{K: "grant", S: s.idx, N: 1}}
	}
	if conn < h2peer.MaxWindow {
		return []fop{{K: "grant", S: 0, N: 1}}
	}
	return []fop{{K: "mfs", N: 16384}}
}

func clampGrant(w, allow int64) int64 {
	if w < 1 {
		return 0
	}
	if allow+w > h2peer.MaxWindow {
		return 0
	}
	if w > h2peer.MaxWindow {
		return 0
	}
	return w
}

// next produces the ops of the next step from the exact state at the
// quiescent point.
func (g *fgen) next(x *fexec) []fop {
	rng := g.rng
	l := x.l
	if g.drained {
		if g.finalOver {
			g.finalOver = false
			c := l.ConnAllowance()
			if c >= 1 {
				return []fop{{K: "overflow", S: 0, N: h2peer.MaxWindow - c + 1 + rng.Int63n(c)}}
			}
			return []fop{{K: "grant", S: 0, N: h2peer.MaxWindow, Batch: true}, {K: "overflow", S: 0, N: 1 + rng.Int63n(1000)}}
		}
		return nil
	}
	if g.emitted >= g.nOps {
		g.drained = true
		return []fop{{K: "drain"}}
	}
	g.emitted++
	if len(x.streams) == 0 {
		n := 1
		switch g.profile {
		case "multi":
			n = 1 + rng.Intn(4)
		case "wide":
			n = g.maxStreams
		case "neg":
			n = 1 + rng.Intn(2)
		}
		ops := make([]fop, n)
		for i := range ops {
			ops[i] = g.openOp(x.rigT())
			ops[i].Batch = i < n-1
		}
		return ops
	}
	var live []*fstream
	for _, s := range x.streams {
		if !s.dead && x.got(s) < s.total {
			live = append(live, s)
		}
	}
	if len(live) == 0 {
		if len(x.streams) < g.maxStreams {
			return []fop{g.openOp(x.rigT())}
		}
		g.drained = true
		return []fop{{K: "drain"}}
	}
	s := live[rng.Intn(len(live))]
	allow := l.Allowance(s.sid)
	rem := s.total - x.got(s)
	conn := l.ConnAllowance()
	mfs := l.MaxFrame()
	wIW := 12
	if g.profile == "neg" {
		wIW = 35
	}
	r := rng.Intn(100 + wIW)
	switch {
	case r < 34: // stream grant
		c := []int64{1, 2, mfs - 1, mfs, mfs + 1, 16384, 65535, rem, rem - 1, rem + 1, -allow, -allow + 1, -allow - 1, 1 + rng.Int63n(100000), 1 + rng.Int63n(mfs*3)}
		if w := clampGrant(c[rng.Intn(len(c))], allow); w > 0 {
			return []fop{{K: "grant", S: s.idx, N: w}}
		}
		return fallback(s, allow, conn)
	case r < 62: // connection grant
		c := []int64{1, 2, mfs - 1, mfs, mfs + 1, 16384, 65535, rem, rem + 1, allow, allow + 1, allow - 1, 1 + rng.Int63n(200000)}
		if g.profile == "big" || g.profile == "neg" {
			c = append(c, 1<<20, 4<<20, 1+rng.Int63n(2<<20))
		}
		if w := clampGrant(c[rng.Intn(len(c))], conn); w > 0 {
			return []fop{{K: "grant", S: 0, N: w}}
		}
		return fallback(s, allow, conn)
	case r < 70 && len(x.streams) < g.maxStreams:
		return []fop{g.openOp(x.rigT())}
	case r < 75: // max frame size
		return []fop{{K: "mfs", N: pick64(rng, 16384, 16385, 16400, 32768, 65535, 65536, 1<<20, 1<<24-1)}}
	case r < 79: // reset by the peer
		return []fop{{K: "rst", S: s.idx}}
	case r < 82:
		if x.rigT() {
			return []fop{{K: "cancel", S: s.idx}}
		}
		return []fop{{K: "rst", S: s.idx}}
	case r < 85: // stream window overflow
		if allow >= 1 {
			return []fop{{K: "overflow", S: s.idx, N: h2peer.MaxWindow - allow + 1 + rng.Int63n(allow)}}
		}
		return fallback(s, allow, conn)
	case r < 88: // lift the stream window to exactly 2^31-1
		if allow >= 0 && allow < h2peer.MaxWindow {
			return []fop{{K: "grant", S: s.idx, N: h2peer.MaxWindow - allow}}
		}
		return fallback(s, allow, conn)
	case r < 89: // lift the connection window to exactly 2^31-1
		if conn < h2peer.MaxWindow {
			return []fop{{K: "grant", S: 0, N: h2peer.MaxWindow - conn}}
		}
		return fallback(s, allow, conn)
	case r < 100 && g.profile != "neg":
		// another grant kind: grant to both at once (one check for both frames)
		w := 1 + rng.Int63n(50000)
		if clampGrant(w, allow) > 0 && clampGrant(w, conn) > 0 {
			return []fop{{K: "grant", S: s.idx, N: w, Batch: true}, {K: "grant", S: 0, N: w}}
		}
		return fallback(s, allow, conn)
	}
	// SETTINGS_INITIAL_WINDOW_SIZE
	st := l.Stream(s.sid)
	inflight := st.Recv - st.Grants // a value below this makes the window negative
	c := []int64{0, 1, 2, 16383, 16384, 16385, 65535, 65536, rng.Int63n(200000), 1 << 20, l.InitialWindow() + 1, l.InitialWindow() - 1}
	if inflight > 0 {
		c = append(c, inflight-1, inflight/2, inflight-1-rng.Int63n(inflight), inflight, inflight+1, 0)
		if g.profile == "neg" {
			c = append(c, inflight-1, inflight/2, inflight/3, 0, 0)
		}
	}
	v := c[rng.Intn(len(c))]
	if v < 0 {
		v = 0
	}
	if v > h2peer.MaxWindow {
		v = h2peer.MaxWindow
	}
	if rng.Intn(40) == 0 {
		v = h2peer.MaxWindow
	}
	// would it lift any open stream above 2^31-1?
	over := false
	for _, t := range x.streams {
		if t.dead || t.sid == 0 {
			continue
		}
		ts := l.Stream(t.sid)
		if ts.Ended || ts.ImplReset {
			continue
		}
		if v+ts.Grants-ts.Recv > h2peer.MaxWindow {
			over = true
		}
	}
	if over {
		if x.rigT() {
			return []fop{{K: "iw", N: l.InitialWindow()}}
		}
		g.drained = true
		return []fop{{K: "iwoverflow", N: v}}
	}
	return []fop{{K: "iw", N: v}}
}

// ---------------------------------------------------------------- driver

func newFencedScript(rigName string, index int, rng *rand.Rand) (*fscript, *fgen) {
	sc := &fscript{Family: "fenced", Rig: rigName, Index: index, KeyBase: uint64(rng.Int63())}
	g := &fgen{rng: rng}
	switch p := rng.Intn(100); {
	case p < 35:
		g.profile, g.maxStreams = "single", 1
	case p < 68:
		g.profile, g.maxStreams = "multi", 2+rng.Intn(7)
	case p < 78:
		g.profile = "wide"
		g.maxStreams = []int{20, 50, 100, 200}[rng.Intn(4)]
	case p < 88:
		g.profile, g.maxStreams = "big", 1
	default:
		g.profile, g.maxStreams = "neg", 2
	}
	sc.Profile = g.profile
	g.nOps = 8 + rng.Intn(22)
	if g.profile == "wide" {
		g.nOps = 5 + rng.Intn(6)
	}
	sc.IW0 = pick64(rng, -1, -1, 0, 1, 100, 16384, 65535, 65536, 1<<20, 1<<24)
	sc.MFS0 = pick64(rng, -1, -1, -1, 16384, 16385, 65536, 1<<20, 1<<24-1)
	switch g.profile {
	case "big":
		sc.IW0 = pick64(rng, 1<<20, 1<<22, 1<<24, 65535)
		sc.MFS0 = pick64(rng, 65536, 1<<20, 1<<24-1, 16384)
	case "neg":
		sc.IW0 = pick64(rng, 65535, 200000, 1<<20)
	}
	sc.Sched = []string{"", "", "prio", "random"}[rng.Intn(4)]
	g.finalOver = rng.Intn(10) == 0
	return sc, g
}

// runFenced executes a fenced script. With gen != nil the ops are produced
// from the live state and recorded in sc.Ops; otherwise sc.Ops are replayed.
func runFenced(sc *fscript, gen *fgen) (res *finding) {
	x := &fexec{sc: sc}
	if sc.Rig == "T" {
		t, err := newTrig(tcfg{IW0: sc.IW0, MFS0: sc.MFS0})
		if err != nil {
			return &finding{class: "T/fenced/setup", msg: err.Error(), incon: true}
		}
		x.t, x.l = t, t.l
		defer t.shutdown()
	} else {
		s, err := newSrig(scfg{IW0: sc.IW0, MFS0: sc.MFS0, Sched: sc.Sched})
		if err != nil {
			return &finding{class: "S/fenced/setup", msg: err.Error(), incon: true}
		}
		x.s, x.l = s, s.l
		defer s.shutdown()
	}
	defer func() {
		collectStats(x.l, sc.Rig)
		noteWait(x.maxWait)
		if x.s != nil {
			run.Add("handler-starts", x.s.nStarts())
		} else {
			run.Add("transport-requests", x.t.nStarts())
		}
	}()
	if gen != nil {
		sc.Ops = nil
		for !x.over {
			ops := gen.next(x)
			if ops == nil {
				break
			}
			for _, o := range ops {
				sc.Ops = append(sc.Ops, o)
				if f := x.step(o); f != nil {
					return f
				}
			}
		}
	} else {
		for _, o := range sc.Ops {
			if x.over {
				break
			}
			if f := x.step(o); f != nil {
				return f
			}
		}
	}
	return x.ledgerFinding()
}
