// C12 — HTTP/2 flow control is never violated and never leaks window.
//
// Two rigs over net.Pipe: (S) the fork's Server.ServeConn with scripted
// handlers against the raw-frame peer as client, (T) the fork's
// Transport.NewClientConn issuing requests against the raw-frame peer as
// server. The peer reads and writes frames with the independent x/net v0.19.0
// Framer and keeps the flow-control ledger (internal/h2peer/ledger.go); every
// DATA frame is judged against it.
package main

import (
	"encoding/json"
	"fmt"
	"os"
	"runtime"
	"runtime/debug"
	"strings"
	"sync"
	"sync/atomic"
	"time"

	"verif/internal/h2peer"
	"verif/internal/verdict"
)

var run *verdict.Run

var (
	statMu      sync.Mutex
	maxWaitSeen time.Duration
	maxFrame    int64
	stop        int32 // enough findings: stop starting new cases
	findings    int32
)

var maxTotalWait time.Duration

func noteTotalWait(d time.Duration) {
	statMu.Lock()
	if d > maxTotalWait {
		maxTotalWait = d
	}
	statMu.Unlock()
}

func noteWait(d time.Duration) {
	if d > 5*time.Second && os.Getenv("VERIF_C12_DEBUG") != "" {
		fmt.Fprintf(os.Stderr, "LONGWAIT %v\n%s\n", d, debug.Stack())
	}
	statMu.Lock()
	if d > maxWaitSeen {
		maxWaitSeen = d
	}
	statMu.Unlock()
}

// collectStats adds what the ledger of one connection observed.
func collectStats(l *h2peer.Ledger, rig string) {
	l.Advance()
	st := l.Stats()
	run.Add("data-frames-observed", st.DataFrames)
	run.Add("data-bytes-observed", st.DataBytes)
	run.Add("data-frames-observed-"+rig, st.DataFrames)
	run.Add("frames-observed", st.FramesSeen)
	run.Add("ledger-checks", st.LedgerChecks)
	run.Add("body-bytes-content-checked", st.ContentBytesChecked)
	run.Add("grant-frames-sent", st.GrantsSent)
	run.Add("settings-frames-sent", st.SettingsSent)
	run.Add("negative-window-episodes", st.NegativeEpisodes)
	run.Add("impl-window-updates-observed", st.ImplWU)
	run.Add("peer-data-frames-sent", st.PeerDataFrames)
	run.Add("peer-data-bytes-sent", st.PeerDataBytes)
	run.Add("peer-padded-frames-sent", st.PaddedSent)
	run.Add("connections", 1)
	statMu.Lock()
	if st.MaxFrameSeen > maxFrame {
		maxFrame = st.MaxFrameSeen
	}
	statMu.Unlock()
}

// a case is one independent connection-level experiment.
type kase struct {
	family string
	rig    string
	index  int
	exec   func() (*finding, any) // finding, witness
}

type stalled struct {
	k       kase
	f       *finding
	witness any
	rerun   func() *finding
}

var (
	stallMu sync.Mutex
	stalls  []stalled
)

func report(k kase, f *finding, witness any) {
	if f == nil {
		return
	}
	if f.incon {
		run.Inconclusive("%s/%s #%d: %s", k.rig, k.family, k.index, f.msg)
		return
	}
	if !run.IsKnown(f.class) && atomic.AddInt32(&findings, 1) >= 6 {
		atomic.StoreInt32(&stop, 1)
	}
	run.Violation(f.class, witness, "%s/%s case %d: %s", k.rig, k.family, k.index, f.msg)
}

func runCases(cases []kase, workers int) {
	var wg sync.WaitGroup
	ch := make(chan kase)
	for i := 0; i < workers; i++ {
		wg.Add(1)
		go func() {
			defer wg.Done()
			for k := range ch {
				if atomic.LoadInt32(&stop) != 0 {
					continue
				}
				f, w := k.exec()
				run.Eval(1)
				run.Add("scripts-"+k.rig+"-"+k.family, 1)
				if f != nil && f.stall {
					stallMu.Lock()
					stalls = append(stalls, stalled{k: k, f: f, witness: w})
					n := len(stalls)
					stallMu.Unlock()
					if n >= 4 {
						atomic.StoreInt32(&stop, 1)
					}
					continue
				}
				report(k, f, w)
			}
		}()
	}
	for _, k := range cases {
		ch <- k
	}
	close(ch)
	wg.Wait()
}

func main() {
	run = verdict.Start("C12", "exploration",
		"one case = one HTTP/2 connection (fork server or fork client transport against the raw-frame peer) driven by a generated script: "+
			"fenced scripts (exact byte counts at quiescent points), unfenced storms (ledger as upper bound), receiver-side overshoot/credit scripts, long mixed-fate histories, "+
			"transport streams aborted (RST_STREAM / cancel) while their granted DATA frame waits for the write lock, followed by an exact connection-window count; "+
			"SETTINGS_INITIAL_WINDOW_SIZE changes while a transport request waits for a MAX_CONCURRENT_STREAMS slot (exact first flight of the stream opened afterwards); "+
			"server streams (responses larger than the window, uploads) continued across a graceful GOAWAY (exact counts, upload delivery, credit bound); "+
			"distinct = distinct (rig, family, settings, op-kind sequence)")
	if run.ReplayFile != "" {
		replay()
		return
	}
	workers := runtime.GOMAXPROCS(0)
	if workers > 16 {
		workers = 16
	}
	if workers < 4 {
		workers = 4
	}

	// the abort family first: when it refutes, it does so by a 10 s progress
	// watchdog, which then runs next to the other cases
	cases := abortCases()
	cases = append(cases, parkedCases()...)
	cases = append(cases, goawayCases()...)
	nF := run.Pick(700, 5000)
	for _, rigName := range []string{"S", "T"} {
		for i := 0; i < nF; i++ {
			rigName, i := rigName, i
			stream := int64(i)*4 + 1
			if rigName == "T" {
				stream += 2
			}
			cases = append(cases, kase{family: "fenced", rig: rigName, index: i, exec: func() (*finding, any) {
				sc, g := newFencedScript(rigName, i, run.Rand(stream))
				f := runFenced(sc, g)
				noteScript(sc)
				return f, sc
			}})
		}
	}
	cases = append(cases, stormCases()...)
	cases = append(cases, recvCases()...)
	longs := longCases()
	if only := os.Getenv("VERIF_C12_ONLY"); only != "" { // development aid: run one family
		var cs, ls []kase
		for _, k := range cases {
			if strings.Contains(only, k.family) && (os.Getenv("VERIF_C12_INDEX") == "" || os.Getenv("VERIF_C12_INDEX") == fmt.Sprint(k.rig, k.index)) {
				cs = append(cs, k)
			}
		}
		for _, k := range longs {
			if strings.Contains(only, k.family) {
				ls = append(ls, k)
			}
		}
		cases, longs = cs, ls
	}

	// the long histories run next to the short cases
	var lw sync.WaitGroup
	for _, k := range longs {
		k := k
		lw.Add(1)
		go func() {
			defer lw.Done()
			f, w := k.exec()
			run.Eval(1)
			run.Add("scripts-"+k.rig+"-"+k.family, 1)
			report(k, f, w)
		}()
	}
	runCases(cases, workers)
	lw.Wait()

	// progress-watchdog expiries are the refutation of "delivers all queued
	// data"; each is re-run once in isolation before it is reported.
	confirmed := 0
	for i, s := range stalls {
		f := s.f
		if i >= 3 && confirmed > 0 {
			break // the refutation is confirmed; the other expiries would say the same
		}
		if sc, ok := s.witness.(*fscript); ok {
			run.Add("isolation-reruns", 1)
			var f2 *finding
			if sc.Family == "storm" {
				f2 = runStorm(sc, nil)
			} else {
				f2 = runFenced(sc, nil)
			}
			if f2 == nil {
				run.Inconclusive("%s/%s #%d: watchdog expired once (%s) but not when re-run in isolation", s.k.rig, s.k.family, s.k.index, f.msg)
				continue
			}
			f = f2
			f.stall = false
		}
		if ac, ok := s.witness.(*abortCase); ok {
			run.Add("isolation-reruns", 1)
			f2 := runAbort(ac)
			if f2 == nil {
				run.Inconclusive("%s/%s #%d: watchdog expired once (%s) but not when re-run in isolation", s.k.rig, s.k.family, s.k.index, f.msg)
				continue
			}
			f = f2
			f.stall = false
		}
		if pc, ok := s.witness.(*parkedCase); ok {
			run.Add("isolation-reruns", 1)
			f2 := runParked(pc)
			if f2 == nil {
				run.Inconclusive("%s/%s #%d: watchdog expired once (%s) but not when re-run in isolation", s.k.rig, s.k.family, s.k.index, f.msg)
				continue
			}
			f = f2
			f.stall = false
		}
		if gc, ok := s.witness.(*goawayCase); ok {
			run.Add("isolation-reruns", 1)
			f2 := runGoaway(gc)
			if f2 == nil {
				run.Inconclusive("%s/%s #%d: watchdog expired once (%s) but not when re-run in isolation", s.k.rig, s.k.family, s.k.index, f.msg)
				continue
			}
			f = f2
			f.stall = false
		}
		confirmed++
		report(s.k, f, s.witness)
	}

	statMu.Lock()
	run.Set("watchdog_ms", watchdog.Milliseconds())
	run.Set("max_wait_observed_ms", float64(maxWaitSeen.Microseconds())/1000)
	run.Set("max_settle_duration_ms", float64(maxTotalWait.Microseconds())/1000)
	run.Set("max_frame_observed", maxFrame)
	creditMu.Lock()
	run.Set("max_unreturned_credit_observed", maxUnreturned)
	run.Set("credit_bound", creditBound)
	creditMu.Unlock()
	statMu.Unlock()
	finishEvidence()
	if os.Getenv("VERIF_C12_DEBUG") != "" { // development aid: the counters of the newer families
		for _, k := range debugCounters {
			fmt.Printf("[C12 debug] %s=%d\n", k, run.Counter(k))
		}
	}
	run.Finish()
}

var debugCounters = []string{
	"parked_settings_change_during_wait_confirmed", "parked_settings_change_during_wait_unconfirmed", "parked_first_flight_exact_checks", "parked_first_flight_bytes",
	"parked_variant_decrease", "parked_variant_increase", "parked_window_decreases_during_wait", "parked_window_increases_during_wait",
	"parked_free_respond", "parked_free_respond_replaced_by_rst", "parked_free_rst", "parked_free_cancel", "parked_free_raise", "parked_requests_completed", "parked_requests_failed_after_delivery",
	"goaway_cases", "goaway_highest_in_flight_confirmed", "goaway_highest_in_flight_unconfirmed", "goaway_trigger_client-goaway", "goaway_trigger_conn-close",
	"goaway_highest_resp", "goaway_highest_upload", "goaway_highest_both", "goaway_exact_checks_after_goaway", "goaway_response_bytes_after_goaway",
	"goaway_upload_bytes_after_goaway", "goaway_uploads_verified", "goaway_credit_bound_checks", "goaway_late_stream_cases", "goaway_rst_after_goaway",
	"goaway_responses_completed", "exact-quiescent-checks", "isolation-reruns",
}

var sampleMu sync.Mutex

func noteScript(sc *fscript) {
	key := fmt.Sprintf("%s/%s/%s/%d/%d/%s:", sc.Rig, sc.Family, sc.Profile, sc.IW0, sc.MFS0, sc.Sched)
	for _, o := range sc.Ops {
		key += o.K[:1]
		if o.S == 0 {
			key += "c"
		}
	}
	run.Distinct(key)
	if len(sc.Ops) > 6 && len(sc.Ops) < 16 && run.WantSample() {
		run.Sample(sc)
	}
}

func finishEvidence() {
	run.Assume("Oracle: the flow-control ledger kept by the raw-frame peer (x/net v0.19.0 Framer). An increase of SETTINGS_INITIAL_WINDOW_SIZE / SETTINGS_MAX_FRAME_SIZE counts from the moment the peer sends it, a decrease from the moment the implementation's SETTINGS ACK is read; a PING round trip started after a SETTINGS frame also counts as its acknowledgement (frames are processed in order).")
	run.Assume("'Delivers all queued data once window becomes available' is decided as bounded progress: the bytes the ledger allows must arrive and the watchdog expires when no frame at all has arrived for 10 s (max_wait_observed_ms = longest gap without a frame while bytes were due, max_settle_duration_ms = longest complete wait); an expiry is re-run once in isolation before it is reported.")
	run.Assume(fmt.Sprintf("Credit bound: pkg/http2/flow.go inflow.add withholds a WINDOW_UPDATE only while the unsent credit is < inflowMinRefresh (4096) and < the window currently available to the peer, so at a quiescent point with every stream closed the un-returned connection-level credit must be <= %d bytes, independent of the number of streams.", creditBound))
	run.Assume("Known finding D17 (client transport only): the first DATA frame of a stream after the transport's ACK of a SETTINGS_INITIAL_WINDOW_SIZE / SETTINGS_MAX_FRAME_SIZE decrease may still be sized with the value in force before the decrease (chunk taken under cc.mu before the SETTINGS were applied, written under cc.wmu after the ACK). The ledger reports exactly that shape under the classes T/stream-window-decrease-race and T/max-frame-size-decrease-race; a second frame, a frame beyond the old value, or the same on the server is a hard violation.")
	run.Assume("Quiescent point for the credit bound = every handler / client goroutine of the batch has returned, every stream of the batch is closed, and one PING round trip has completed (WINDOW_UPDATE is a control frame and precedes the PING ACK).")
	run.Assume("The transport's connection receive window is fixed at 1 GiB + 65535 on this toolchain (go1.23: no http.HTTP2Config), so connection-level overshoot of the transport is not driven; its stream window (4 MiB) is. SETTINGS-induced window overflow is only asserted for the server (the property text does not name it; the transport's reaction is recorded in transport-settings-overflow-*).")
	run.Require("data-frames-observed-S", 2000)
	run.Require("data-frames-observed-T", 2000)
	run.Require("exact-quiescent-checks", 1000)
	run.Require("negative-window-episodes", 20)
	run.Require("overflow-answered", 10)
	run.Require("receiver-overshoot-cases", 20)
	run.Require("receiver-exact-fill-accepted", 20)
	run.Require("padded-discard-checks", 14)
	run.Require("padded-discard-frames", 1400)
	run.Require("long-history-streams", int64(run.Pick(2*3000, 2*50000)))
	run.Require("handler-starts", 1000)
	run.Require("transport-requests", 1000)
	run.Assume("Family abort (rig T): 'the aborted stream had been granted flow control and was waiting for the write lock' is established by logical steps: the scripted server has read part of another stream's DATA frame from the synchronous pipe and stopped (that writer is inside Write, holding cc.wmu); the request context of the waiter reports the Done() call that awaitFlowControl makes under cc.mu right before it takes the window, and ClientConn.CanTakeNewRequest (one round trip through cc.mu) returned afterwards; the abort is known to have been processed when a second frame for the stream has been taken off the pipe by the read loop (RST_STREAM) or when RoundTrip has returned (cancel). abort_while_waiting_for_write_lock_confirmed counts the aborts for which all of that was observed; whether the granted frame is still written or its bytes are returned to the connection window is left to the transport, the exact count of what upload C delivers decides.")
	run.Require("abort_while_waiting_for_write_lock_confirmed", int64(run.Pick(20, 1500)))
	run.Require("abort_final_exact_checks", int64(run.Pick(16, 1500)))
	run.Assume("Family parked (rig T, Transport.StrictMaxConcurrentStreams): 'the request was waiting for a stream slot while SETTINGS_INITIAL_WINDOW_SIZE changed' is established by logical steps: as many streams as the server's MAX_CONCURRENT_STREAMS allows are open and unanswered, ClientConn.State().StreamsPending (cc.pendingRequests read under cc.mu; the waiter increments it right before cond.Wait) is 1, no HEADERS for the request have arrived after a three-PING fence; the SETTINGS ACK is read, the same two observations are made again, and only then a slot is freed. parked_settings_change_during_wait_confirmed counts the cases for which all of that was observed. The stream's ledger entry is created by its HEADERS, i.e. with the acknowledged initial window: a DATA frame beyond it is class T/parked/stream-window-ignores-settings-change, not the D17 race (no frame of a stream that did not exist can have been sized before the SETTINGS were applied).")
	run.Require("parked_settings_change_during_wait_confirmed", int64(run.Pick(18, 1200)))
	run.Require("parked_first_flight_exact_checks", int64(run.Pick(18, 1200)))
	run.Require("parked_variant_decrease", int64(run.Pick(8, 500)))
	run.Require("parked_variant_increase", int64(run.Pick(8, 500)))
	goawayEvidence()
}

type replayFile struct {
	Family string `json:"family"`
	Rig    string `json:"rig"`
	Index  int    `json:"index"`
}

func replay() {
	var sc fscript
	if err := verdict.LoadReplay(run.ReplayFile, &sc); err != nil {
		fmt.Println("cannot read replay file:", err)
		os.Exit(2)
	}
	k := kase{family: sc.Family, rig: sc.Rig, index: sc.Index}
	var f *finding
	var w any = &sc
	switch sc.Family {
	case "fenced":
		f = runFenced(&sc, nil)
	case "storm":
		f = runStorm(&sc, nil)
	case "recv":
		for _, c := range recvCases() {
			if c.index == sc.Index && c.rig == sc.Rig {
				f, w = c.exec()
			}
		}
	case "long":
		for _, c := range longCases() {
			if c.rig == sc.Rig {
				f, w = c.exec()
			}
		}
	case "abort":
		var ac abortCase
		if err := verdict.LoadReplay(run.ReplayFile, &ac); err != nil {
			fmt.Println("cannot read replay file:", err)
			os.Exit(2)
		}
		f, w = runAbort(&ac), &ac
	case "parked":
		var pc parkedCase
		if err := verdict.LoadReplay(run.ReplayFile, &pc); err != nil {
			fmt.Println("cannot read replay file:", err)
			os.Exit(2)
		}
		f, w = runParked(&pc), &pc
	case "goaway":
		var gc goawayCase
		if err := verdict.LoadReplay(run.ReplayFile, &gc); err != nil {
			fmt.Println("cannot read replay file:", err)
			os.Exit(2)
		}
		f, w = runGoaway(&gc), &gc
	}
	run.Eval(1)
	if f != nil && f.stall {
		f.stall = false
	}
	report(k, f, w)
	b, _ := json.Marshal(map[string]any{"family": sc.Family, "rig": sc.Rig, "index": sc.Index, "finding": f != nil})
	fmt.Println(string(b))
	run.Finish()
}
