package main

import (
	"context"
	"fmt"
	"io"
	"math/rand"
	"net/http"
	"os"
	"runtime"
	"strconv"
	"strings"
	"sync/atomic"
	"time"

	"golang.org/x/net/http2"

	"verif/internal/h2peer"
)

// Family "parked" (rig T only): SETTINGS_INITIAL_WINDOW_SIZE changes while a
// request with a body waits for a free stream slot.
//
// The scripted server advertises a small SETTINGS_MAX_CONCURRENT_STREAMS and
// the transport runs with StrictMaxConcurrentStreams, so a request beyond the
// limit waits on this connection (awaitOpenSlotForStreamLocked releases cc.mu
// while it sleeps; the stream has no id and is not in cc.streams). During
// that wait the server changes the initial window (a decrease, an increase, or
// both in a row), reads the transport's SETTINGS ACK, and only then frees a
// slot (it completes or resets one of the open streams, the client cancels
// one, or the server raises the limit in the same SETTINGS frame that carries
// the last change). The stream of the parked request is opened after the ACK:
// its send window is the new initial window, nothing else.
//
//   - sender side: every DATA frame is judged by the ledger; the ledger entry
//     of the stream is created by its HEADERS, i.e. after the ACK, so its
//     allowance starts at the new value and the "sized before the decrease was
//     applied" excuse of known finding D17 does not apply (class
//     T/parked/stream-window-ignores-settings-change);
//   - delivery: at the quiescent point after the slot was freed exactly
//     min(body, new initial window, connection allowance) bytes of the parked
//     request must have arrived (together with what the other open streams
//     may send), no more after three PING round trips; then stream grants,
//     each with an exact check, then everything is granted and every request
//     of the case (the holders of the slots, the parked request, requests
//     queued behind it) must complete.
//
// "The request is parked" is established by logical events: the slots are
// taken (HEADERS of as many streams as the limit allows were received and none
// of them is finished), ClientConn.State().StreamsPending (a read of
// cc.pendingRequests under cc.mu, which the waiter increments right before
// cond.Wait) is 1, and no HEADERS for the request have arrived after a fence.
// It is looked at again after the last SETTINGS ACK.
//
// Observed on the unchanged tree, not asserted (it is no flow-control matter):
// a SETTINGS frame that only raises MAX_CONCURRENT_STREAMS does not wake the
// parked request (processSettingsNoWrite broadcasts cc.cond only for
// INITIAL_WINDOW_SIZE); it stays parked until something else broadcasts. The
// variant "raise" therefore always carries the last window change in the same
// frame. A response with END_STREAM to a holder whose request body is still
// waiting for connection window does not free its slot either (the transport
// goes on sending the body, the stream is half-closed): the script resets such
// a holder instead (counter parked_free_respond_replaced_by_rst).

type parkedHolder struct {
	Kind string `json:"kind"` // get | done | open | blocked
	Body int64  `json:"body,omitempty"`
	Pre  int64  `json:"pre,omitempty"`
	CL   bool   `json:"cl,omitempty"`
}

type parkedCase struct {
	Family     string         `json:"family"`
	Rig        string         `json:"rig"`
	Index      int            `json:"index"`
	IW0        int64          `json:"iw0"`
	MFS0       int64          `json:"mfs0"`
	KeyBase    uint64         `json:"key_base"`
	MaxStreams int64          `json:"max_streams"`
	Holders    []parkedHolder `json:"holders"`
	Body       int64          `json:"parked_body"`
	CL         bool           `json:"parked_cl,omitempty"`
	Followers  []int64        `json:"followers,omitempty"` // bodies of the requests queued behind the parked one
	Changes    []int64        `json:"changes"`             // SETTINGS_INITIAL_WINDOW_SIZE values sent during the wait, in order
	Direction  string         `json:"direction"`           // decrease | increase: the last change compared with the window in force when the request parked
	Free       string         `json:"free"`                // respond | rst | cancel | raise
	FreeIdx    int            `json:"free_idx"`
	Conn       string         `json:"conn"`             // ample | asis
	Grants     []int64        `json:"grants,omitempty"` // stream grants for the parked stream after its first flight
	Log        []string       `json:"steps,omitempty"`
}

func newParkedCase(index int, rng *rand.Rand) *parkedCase {
	c := &parkedCase{Family: "parked", Rig: "T", Index: index, KeyBase: uint64(rng.Int63())}
	c.IW0 = pick64(rng, -1, -1, 100, 16384, 65535, 1<<18)
	c.MFS0 = pick64(rng, -1, -1, 16384, 65536)
	iw := c.IW0
	if iw < 0 {
		iw = 65535
	}
	m := 1 + rng.Intn(3)
	if rng.Intn(8) == 0 {
		m = 4
	}
	c.MaxStreams = int64(m)
	for i := 0; i < m; i++ {
		h := parkedHolder{Kind: []string{"get", "done", "open", "blocked", "get", "done"}[rng.Intn(6)], CL: rng.Intn(2) == 0}
		switch h.Kind {
		case "done":
			h.Body = pick64(rng, 0, 1, 100, 2000)
			if h.Body > iw {
				h.Body = iw
			}
		case "open":
			h.Pre = pick64(rng, 0, 1, 100, 3000)
			h.CL = false
		case "blocked":
			h.Body = iw + pick64(rng, 1, 1000, 50000)
		}
		c.Holders = append(c.Holders, h)
	}
	// both directions occur at every seed
	c.Direction = []string{"decrease", "increase"}[index%2]
	var v int64
	if c.Direction == "decrease" {
		v = pick64(rng, 0, 1, 100, 1000, 16384, iw-1, iw/2)
		if v >= iw {
			v = iw - 1
		}
		c.Body = v + pick64(rng, 1, 100, 900, 20000, 100000)
	} else {
		d := pick64(rng, 1, 1000, 100000, 1<<20)
		v = iw + d
		c.Body = iw + pick64(rng, 1, 100, d, d+1000)
	}
	if rng.Intn(3) == 0 {
		c.Changes = append(c.Changes, pick64(rng, 0, 1, 50, iw*2, 1<<20, iw))
	}
	c.Changes = append(c.Changes, v)
	c.CL = rng.Intn(2) == 0
	for n := rng.Intn(3); n > 0; n-- {
		c.Followers = append(c.Followers, pick64(rng, 0, 1, 1000, 3000))
	}
	c.FreeIdx = rng.Intn(m)
	frees := []string{"rst", "cancel", "raise", "rst", "cancel"}
	if k := c.Holders[c.FreeIdx].Kind; k == "get" || k == "done" {
		frees = []string{"respond", "respond", "respond", "rst", "cancel", "raise"}
	}
	c.Free = frees[rng.Intn(len(frees))]
	c.Conn = []string{"ample", "ample", "ample", "ample", "asis"}[rng.Intn(5)]
	for n := rng.Intn(3); n > 0; n-- {
		c.Grants = append(c.Grants, pick64(rng, 1, 2, 100, 16383, 16384, 16385, 100000))
	}
	return c
}

func (c *parkedCase) key() string {
	k := fmt.Sprintf("parked/%d/%d/%d/%s/%s%d/%s/f%d/g%d:", c.IW0, c.MFS0, c.MaxStreams, c.Direction, c.Free, c.FreeIdx, c.Conn, len(c.Followers), len(c.Grants))
	for _, h := range c.Holders {
		k += h.Kind[:1]
	}
	for _, v := range c.Changes {
		k += fmt.Sprintf(" %d", v)
	}
	return k + fmt.Sprintf(" b%d", c.Body)
}

func parkedCases() []kase {
	var cases []kase
	n := run.Pick(24, 1500)
	for i := 0; i < n; i++ {
		i := i
		cases = append(cases, kase{family: "parked", rig: "T", index: i, exec: func() (*finding, any) {
			c := newParkedCase(i, run.Rand(5000011+int64(i)))
			f := runParked(c)
			run.Distinct(c.key())
			if run.WantSample() {
				run.Sample(c)
			}
			return f, c
		}})
	}
	return cases
}

// parkBroken: StreamsPending never showed the waiter once (the accessor does
// not mean that any more?); later waits are short, the cases count as
// unconfirmed.
var parkBroken int32

type preq struct {
	*estream
	idx    int
	key    uint64
	body   *gateReader
	cancel context.CancelFunc
	rt     chan struct{}
	done   chan struct{}
	err    string
	status int
}

type parkedExec struct {
	c       *parkedCase
	t       *trig
	l       *h2peer.Ledger
	e       *exact
	reqs    []*preq
	parked  *preq
	nextIdx int
}

func (x *parkedExec) logf(format string, a ...any) {
	if len(x.c.Log) < 200 {
		x.c.Log = append(x.c.Log, fmt.Sprintf(format, a...))
	}
}

func (x *parkedExec) ended() string {
	if ga, code, dbg := x.l.GoAway(); ga {
		return fmt.Sprintf("GOAWAY %v %q", code, dbg)
	}
	if x.l.EOF() {
		return "connection closed"
	}
	return ""
}

func (x *parkedExec) ledgerFinding() *finding {
	v := x.l.Violations()
	if len(v) == 0 {
		return nil
	}
	// a hard finding outranks the separately classified decrease race
	for i := range v {
		if !strings.HasSuffix(v[i].Kind, "-decrease-race") {
			v[0] = v[i]
			break
		}
	}
	if strings.HasSuffix(v[0].Kind, "-decrease-race") {
		return &finding{class: "T/" + v[0].Kind, msg: fmt.Sprintf("first DATA frame of the stream after the ACK of a decrease, sized with the value in force before it: %s (and %d more ledger findings)", v[0].Msg, len(v)-1)}
	}
	steps := strings.Join(x.c.Log, "; ")
	if p := x.parked; v[0].Kind == "stream-window" && p != nil && p.sid != 0 && v[0].StreamID == p.sid {
		// The stream did not exist when the SETTINGS were acknowledged: no frame of
		// it can have been sized before they were applied.
		return &finding{class: "T/parked/stream-window-ignores-settings-change",
			msg: fmt.Sprintf("request parked on MAX_CONCURRENT_STREAMS=%d while SETTINGS_INITIAL_WINDOW_SIZE changed %v (all acknowledged before its stream was opened): %s (and %d more ledger findings); steps: %s", x.c.MaxStreams, x.c.Changes, v[0].Msg, len(v)-1, steps)}
	}
	return &finding{class: "T/parked/" + v[0].Kind, msg: fmt.Sprintf("%s (and %d more ledger findings); steps: %s", v[0].Msg, len(v)-1, steps)}
}

// start issues a request with a gated body; it does not wait for HEADERS.
func (x *parkedExec) start(name string, size, declared int64, noBody bool) *preq {
	x.nextIdx++
	idx := x.nextIdx
	r := x.t
	ctx, cancel := context.WithCancel(context.Background())
	q := &preq{estream: &estream{name: name}, idx: idx, key: x.c.KeyBase + uint64(idx), cancel: cancel,
		rt: make(chan struct{}), done: make(chan struct{})}
	var body io.Reader
	method := "GET"
	if !noBody {
		q.body = &gateReader{key: q.key, wake: make(chan struct{}, 1), dead: r.dead, closed: make(chan struct{})}
		body, method = q.body, "POST"
	}
	req, err := http.NewRequestWithContext(ctx, method, "http://c12.test/"+strconv.Itoa(idx), body)
	if err != nil {
		panic(err)
	}
	if !noBody {
		req.ContentLength = declared
	}
	req.Header.Set("x-idx", strconv.Itoa(idx))
	req.Header.Set("x-key", strconv.FormatUint(q.key, 10))
	req.Header.Set("x-size", strconv.FormatInt(size, 10))
	atomic.AddInt64(&r.starts, 1)
	r.wg.Add(1)
	go func() {
		defer r.wg.Done()
		defer close(q.done)
		defer cancel()
		res, err := r.cc.RoundTrip(req)
		if err != nil {
			q.err = err.Error()
			close(q.rt)
			return
		}
		q.status = res.StatusCode
		close(q.rt)
		io.Copy(io.Discard, res.Body)
		res.Body.Close()
	}()
	x.reqs = append(x.reqs, q)
	x.e.add(q.estream)
	return q
}

// opened: have the HEADERS of q been received?
func (x *parkedExec) opened(q *preq) bool {
	if q.sid != 0 {
		return true
	}
	x.l.Advance()
	if sid, ok := x.t.sidOf(q.idx); ok {
		q.sid, q.due = sid, true
		return true
	}
	return false
}

func (x *parkedExec) waitOpen(q *preq, why string) *finding {
	ok, _ := x.l.WaitUntil(watchdog, func() bool { return x.opened(q) })
	if ok {
		return nil
	}
	if f := x.ledgerFinding(); f != nil {
		return f
	}
	if e := x.ended(); e != "" {
		return &finding{class: "T/parked/connection-ended", msg: fmt.Sprintf("%s: the implementation ended the connection (%s) although the script did nothing illegal; steps: %s", why, e, strings.Join(x.c.Log, "; "))}
	}
	if os.Getenv("VERIF_C12_DEBUG") != "" {
		buf := make([]byte, 1<<20)
		fmt.Fprintf(os.Stderr, "NO-HEADERS %s\n%s\n", why, buf[:runtime.Stack(buf, true)])
	}
	return &finding{class: "T/parked/no-headers", stall: true, msg: fmt.Sprintf("%s: no HEADERS for %s within %v (streams pending in the transport: %d); steps: %s", why, q.name, watchdog, x.pending(), strings.Join(x.c.Log, "; "))}
}

// hand gives n more body bytes (and the end of the body) to q.
func (x *parkedExec) hand(q *preq, n int64, eof bool) {
	q.avail += n
	if eof {
		q.eof = true
	}
	if q.body != nil {
		q.body.open(n, eof)
	}
}

func (x *parkedExec) pending() int { return x.t.cc.State().StreamsPending }

// waitParked waits until the transport reports a request waiting for a slot.
func (x *parkedExec) waitParked() bool {
	wait := watchdog
	if atomic.LoadInt32(&parkBroken) != 0 {
		wait = 200 * time.Millisecond
	}
	deadline := time.Now().Add(wait)
	for {
		if x.pending() >= 1 {
			return true
		}
		if x.l.EOF() {
			return false
		}
		if !time.Now().Before(deadline) {
			atomic.StoreInt32(&parkBroken, 1)
			return false
		}
		time.Sleep(200 * time.Microsecond)
	}
}

func (x *parkedExec) ensureConn(need int64) {
	if a := x.l.ConnAllowance(); a < need {
		x.l.WindowUpdate(0, uint32(need-a))
		run.Add("grants", 1)
		x.logf("WINDOW_UPDATE(0, %d)", need-a)
	}
}

// complete waits until every open live request has delivered its whole body,
// answers it and waits for the client. It returns the number completed.
func (x *parkedExec) complete() (int, *finding) {
	l := x.l
	x.e.grantAll()
	// The connection window covers every request that is not finished, also
	// those that have no stream yet: a request that gets a slot while the batch
	// is awaited sends right away and must not take connection window that the
	// batch was granted.
	l.Settle()
	var all int64
	for _, q := range x.reqs {
		if q.dead || q.fin {
			continue
		}
		all += q.avail
		if q.sid != 0 {
			all -= x.e.got(q.estream)
		}
	}
	x.ensureConn(all)
	var batch []*preq
	for _, q := range x.reqs {
		if !q.dead && !q.fin && q.due {
			batch = append(batch, q)
		}
	}
	ok, total, gap := l.WaitProgress(watchdog, 12*watchdog, func() bool {
		for _, q := range batch {
			if st := l.Stream(q.sid); st.ImplReset || !(st.Got >= q.avail && st.Ended) {
				return false
			}
		}
		return true
	})
	if gap > x.e.maxWait {
		x.e.maxWait = gap
	}
	noteTotalWait(total)
	if f := x.ledgerFinding(); f != nil {
		return 0, f
	}
	if !ok {
		if e := x.ended(); e != "" {
			return 0, &finding{class: "T/parked/connection-ended", msg: fmt.Sprintf("drain: the implementation ended the connection (%s) although the script did nothing illegal; steps: %s", e, strings.Join(x.c.Log, "; "))}
		}
		return 0, &finding{class: "T/parked/queued-data-not-delivered", stall: true, msg: fmt.Sprintf("after granting everything (no frame at all for %v):%s; steps: %s", watchdog, x.e.detail(), strings.Join(x.c.Log, "; "))}
	}
	for _, q := range batch {
		l.Respond(q.sid, "200", true)
		if !waitCh(q.done) {
			return 0, &finding{class: "T/parked/client", msg: fmt.Sprintf("%s: client goroutine did not return after the response: %s", q.name, x.ended()), incon: x.ended() == ""}
		}
		q.fin = true
		if q.err == "" && q.status == 200 {
			run.Add("parked_requests_completed", 1)
		} else {
			run.Add("parked_requests_failed_after_delivery", 1)
		}
	}
	run.Add("bodies-completed", int64(len(batch)))
	return len(batch), nil
}

func runParked(c *parkedCase) (res *finding) {
	c.Log = nil
	t, err := newTrigWrap(tcfg{IW0: c.IW0, MFS0: c.MFS0, MaxStreams: c.MaxStreams, Strict: true}, nil)
	if err != nil {
		return &finding{class: "T/parked/setup", msg: err.Error(), incon: true}
	}
	defer t.shutdown()
	l := t.l
	x := &parkedExec{c: c, t: t, l: l}
	x.e = &exact{l: l, pre: "T/parked/", steps: func() string { return strings.Join(c.Log, "; ") }, lf: x.ledgerFinding, ended: x.ended}
	defer func() {
		collectStats(l, "T")
		noteWait(x.e.maxWait)
		run.Add("transport-requests", t.nStarts())
	}()
	iwPark := l.InitialWindow()
	x.logf("server SETTINGS: MAX_CONCURRENT_STREAMS %d, initial window %d, max frame size %d; connection window %d; Transport.StrictMaxConcurrentStreams", c.MaxStreams, iwPark, l.MaxFrame(), l.ConnAllowance())

	// the holders of the slots
	var blockedRest int64
	for i, h := range c.Holders {
		name := fmt.Sprintf("H%d", i+1)
		var q *preq
		switch h.Kind {
		case "get":
			q = x.start(name, 0, 0, true)
			q.eof = true
		case "done":
			d := int64(-1)
			if h.CL {
				d = h.Body
			}
			q = x.start(name, h.Body, d, false)
			x.hand(q, h.Body, true)
		case "open":
			q = x.start(name, 1<<40, -1, false)
			x.hand(q, h.Pre, false)
		case "blocked":
			d := int64(-1)
			if h.CL {
				d = h.Body
			}
			q = x.start(name, h.Body, d, false)
			x.hand(q, h.Body, true)
			blockedRest += h.Body
		}
		if f := x.waitOpen(q, "slot holder "+name); f != nil {
			return f
		}
		x.logf("%s = stream %d (%s, body %d handed out, end of body %v)", name, q.sid, h.Kind, q.avail, q.eof)
	}
	if f := x.e.settle("slot holders open"); f != nil {
		return f
	}

	// the parked request
	declared := int64(-1)
	if c.CL {
		declared = c.Body
	}
	P := x.start("P", c.Body, declared, false)
	x.parked = P
	x.hand(P, c.Body, true)
	confirmed := x.waitParked()
	if f := x.e.fence("request P issued"); f != nil {
		return f
	}
	if x.opened(P) {
		return &finding{class: "T/parked/construction", incon: true, msg: fmt.Sprintf("HEADERS of the request beyond the limit arrived (stream %d) although %d streams are open and MAX_CONCURRENT_STREAMS is %d", P.sid, len(c.Holders), c.MaxStreams)}
	}
	x.logf("P (POST, %d body bytes, content-length declared %v) issued: no HEADERS after a fence, transport reports a request waiting for a slot: %v", c.Body, c.CL, confirmed)
	for i, b := range c.Followers {
		q := x.start(fmt.Sprintf("F%d", i+1), b, b, false)
		x.hand(q, b, true)
	}
	if len(c.Followers) > 0 {
		x.logf("%d more requests issued behind P (bodies %v)", len(c.Followers), c.Followers)
	}
	if c.Conn == "ample" {
		x.ensureConn(c.Body + blockedRest + 70000)
		if f := x.e.settle("connection window enlarged"); f != nil {
			return f
		}
	}

	// the SETTINGS changes during the wait
	lastIW := iwPark
	sendIW := func(v int64, more ...http2.Setting) *finding {
		ss := append([]http2.Setting{{ID: http2.SettingInitialWindowSize, Val: uint32(v)}}, more...)
		if err := l.Settings(ss...); err != nil {
			return &finding{class: "T/parked/write", msg: err.Error() + " " + x.ended(), incon: x.ended() == ""}
		}
		run.Add("settings-changes", 1)
		switch {
		case v < lastIW:
			run.Add("parked_window_decreases_during_wait", 1)
		case v > lastIW:
			run.Add("parked_window_increases_during_wait", 1)
		}
		lastIW = v
		return nil
	}
	for ci, v := range c.Changes {
		if ci == len(c.Changes)-1 && c.Free == "raise" {
			break // travels with the new limit
		}
		if f := sendIW(v); f != nil {
			return f
		}
		ok, _ := l.WaitUntil(watchdog, func() bool { return l.PendingSettings() == 0 })
		x.logf("server sent SETTINGS_INITIAL_WINDOW_SIZE=%d; SETTINGS ACK received: %v", v, ok)
		if f := x.e.settle(fmt.Sprintf("SETTINGS_INITIAL_WINDOW_SIZE=%d acknowledged", v)); f != nil {
			return f
		}
	}
	if x.opened(P) {
		return &finding{class: "T/parked/construction", incon: true, msg: fmt.Sprintf("HEADERS of the request beyond the limit arrived (stream %d) before a slot was freed", P.sid)}
	}
	still := x.pending() >= 1
	if confirmed && still {
		run.Add("parked_settings_change_during_wait_confirmed", 1)
	} else {
		run.Add("parked_settings_change_during_wait_unconfirmed", 1)
	}
	run.Add("parked_variant_"+c.Direction, 1)
	run.Add("parked_free_"+c.Free, 1)

	// a slot becomes free
	H := x.reqs[c.FreeIdx]
	free := c.Free
	if st := l.Stream(H.sid); free == "respond" && !(st.Ended && st.Got >= H.avail) {
		// The request of H is not complete (its body waits for connection window
		// that other holders have used up): a response would leave the stream
		// half-closed and the slot taken. The server resets it instead.
		free = "rst"
		run.Add("parked_free_respond_replaced_by_rst", 1)
	}
	switch free {
	case "respond":
		if err := l.Respond(H.sid, "200", true); err != nil {
			return &finding{class: "T/parked/write", msg: err.Error() + " " + x.ended(), incon: x.ended() == ""}
		}
		H.fin = true
		x.logf("server answered %s (stream %d) with END_STREAM: a slot is free", H.name, H.sid)
	case "rst":
		x.e.kill(H.estream) // quiescent: nothing of H is in flight
		if err := l.Reset(H.sid, http2.ErrCodeCancel); err != nil {
			return &finding{class: "T/parked/write", msg: err.Error() + " " + x.ended(), incon: x.ended() == ""}
		}
		run.Add("streams-reset-by-peer", 1)
		x.logf("server sent RST_STREAM(%d, CANCEL) for %s: a slot is free", H.sid, H.name)
	case "cancel":
		x.e.kill(H.estream)
		H.cancel()
		if !waitCh(H.rt) {
			return &finding{class: "T/parked/client", msg: "RoundTrip of the cancelled request did not return", incon: true}
		}
		run.Add("streams-reset-by-impl", 1)
		x.logf("client cancelled %s (stream %d), RoundTrip returned %q: a slot is free once the transport's PING is answered", H.name, H.sid, H.err)
	case "raise":
		v := c.Changes[len(c.Changes)-1]
		if f := sendIW(v, http2.Setting{ID: http2.SettingMaxConcurrentStreams, Val: uint32(c.MaxStreams + 1)}); f != nil {
			return f
		}
		x.logf("server sent SETTINGS{INITIAL_WINDOW_SIZE=%d, MAX_CONCURRENT_STREAMS=%d}: a slot is free", v, c.MaxStreams+1)
	}
	if f := x.waitOpen(P, "a slot was freed"); f != nil {
		return f
	}
	x.logf("P = stream %d; the ledger's allowance for it: stream %d, connection %d", P.sid, l.Allowance(P.sid), l.ConnAllowance())
	if f := x.e.settle("first flight of the parked request"); f != nil {
		return f
	}
	run.Add("parked_first_flight_exact_checks", 1)
	run.Add("parked_first_flight_bytes", x.e.got(P.estream))
	x.logf("first flight: %d of %d body bytes of P arrived, stream allowance now %d", x.e.got(P.estream), c.Body, l.Allowance(P.sid))
	for _, g := range c.Grants {
		if st := l.Stream(P.sid); st.Ended || l.Allowance(P.sid)+g > h2peer.MaxWindow {
			break
		}
		l.WindowUpdate(P.sid, uint32(g))
		run.Add("grants", 1)
		x.logf("WINDOW_UPDATE(%d, %d)", P.sid, g)
		if f := x.e.settle(fmt.Sprintf("WINDOW_UPDATE(%d, %d)", P.sid, g)); f != nil {
			return f
		}
	}

	// everything is granted; every request of the case completes
	for _, q := range x.reqs {
		if !q.eof && !q.dead {
			x.hand(q, 0, true)
			if q.sid != 0 {
				l.Expect(q.sid, q.key, q.avail)
			}
		}
	}
	for round := 0; round < 4+2*len(x.reqs); round++ {
		waiting := 0
		for _, q := range x.reqs {
			if q.dead || q.fin {
				continue
			}
			if !x.opened(q) {
				waiting++
			}
		}
		n, f := x.complete()
		if f != nil {
			return f
		}
		if waiting == 0 {
			break
		}
		if n == 0 {
			// nobody was there to be completed: somebody must get a slot now
			var first *preq
			for _, q := range x.reqs {
				if !q.dead && !q.fin && q.sid == 0 {
					first = q
					break
				}
			}
			ok, _ := l.WaitUntil(watchdog, func() bool {
				for _, q := range x.reqs {
					if !q.dead && !q.fin && q.sid == 0 && x.opened(q) {
						return true
					}
				}
				return false
			})
			if !ok {
				if f := x.ledgerFinding(); f != nil {
					return f
				}
				return &finding{class: "T/parked/no-headers", stall: true, msg: fmt.Sprintf("drain: slots are free but no HEADERS for %s within %v %s; steps: %s", first.name, watchdog, x.ended(), strings.Join(c.Log, "; "))}
			}
		}
	}
	for _, q := range x.reqs {
		if !q.dead && !q.fin {
			return &finding{class: "T/parked/drain", incon: true, msg: fmt.Sprintf("%s was not completed by the drain loop", q.name)}
		}
	}
	return x.e.fence("all requests complete")
}
