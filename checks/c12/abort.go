package main

import (
	"context"
	"errors"
	"fmt"
	"io"
	"math/rand"
	"net"
	"net/http"
	"runtime"
	"strconv"
	"strings"
	"sync"
	"sync/atomic"
	"time"

	"golang.org/x/net/http2"

	"verif/internal/h2peer"
)

// Family "abort" (rig T only): a request stream is aborted while its next DATA
// frame has already been granted flow control and waits for the connection's
// write lock.
//
// The client transport sizes a DATA frame in awaitFlowControl (under cc.mu:
// the bytes are deducted from the stream window and from the connection
// window) and writes it under cc.wmu. The gap between the two is only wide
// when the write lock is contended, so the script makes it wide by logical
// steps:
//
//  1. the scripted server stops reading in the middle of a DATA frame of
//     stream A (pauseConn: the pipe is synchronous, so A's writer is inside
//     Write and holds the write lock until reading goes on);
//  2. a waiter stream B is handed a chunk of request body. B's request context
//     is a hookCtx: awaitFlowControl consults ctx.Done() under cc.mu right
//     before it takes the window, so the hook plus one round trip through
//     cc.mu (ClientConn.CanTakeNewRequest) proves that B's awaitFlowControl
//     has returned with the grant. The only thing B can do next is wait for
//     the write lock;
//  3. B is aborted: RST_STREAM from the server, followed by one more frame for
//     the same stream whose Write returns only when the transport's read loop
//     comes back for more input, i.e. when it is done with the RST_STREAM
//     (nothing it does with either frame needs the write lock); or the
//     client cancels the request context and RoundTrip has returned;
//  4. reading resumes, A's frame completes;
//  5. oracle: at the quiescent point the ledger knows what the peer still
//     allows at connection level (65535 + Σ WINDOW_UPDATE(0) − Σ flow-controlled
//     bytes actually received). An upload C with more body than that and
//     enough stream window must deliver exactly that many bytes. Whether the
//     transport still writes the granted frame of the aborted stream or gives
//     the bytes back to its connection window is its choice; losing them is
//     the refutation.
//
// Control waiters (mode "none") queue behind the lock without being aborted
// and must deliver everything.

type abortWaiter struct {
	Mode  string `json:"mode"` // rst | cancel | none
	Pre   int64  `json:"pre,omitempty"`
	Chunk int64  `json:"chunk"`
	Rest  int64  `json:"rest,omitempty"`
	CL    bool   `json:"cl,omitempty"`
}

type abortRound struct {
	AChunk  int64         `json:"a_chunk"`
	HoldAt  int64         `json:"hold_at"` // payload bytes of A's DATA frame read before reading stops
	Waiters []abortWaiter `json:"waiters"`
	Barrier string        `json:"barrier"`         // frame that follows the last RST_STREAM: wu | rst
	Tight   int64         `json:"tight,omitempty"` // > 0: the connection window leaves exactly this many bytes for the last waiter's chunk
	Slack   int64         `json:"slack,omitempty"`
}

type abortCase struct {
	Family  string       `json:"family"`
	Rig     string       `json:"rig"`
	Index   int          `json:"index"`
	IW0     int64        `json:"iw0"`
	MFS0    int64        `json:"mfs0"`
	KeyBase uint64       `json:"key_base"`
	Rounds  []abortRound `json:"rounds"`
	CGrant  int64        `json:"c_grant,omitempty"` // connection grant before upload C
	CExtra  int64        `json:"c_extra"`           // body of C beyond what the connection window allows
	CCL     bool         `json:"c_cl,omitempty"`
	Log     []string     `json:"steps,omitempty"`
}

func newAbortCase(index int, rng *rand.Rand) *abortCase {
	c := &abortCase{Family: "abort", Rig: "T", Index: index, KeyBase: uint64(rng.Int63())}
	c.IW0 = pick64(rng, -1, 65535, 1<<18, 1<<20, 1<<20, 1<<24)
	c.MFS0 = pick64(rng, -1, -1, 16384, 32768, 65536, 1<<20)
	lim := int64(16384) // one Read of the body = one DATA frame
	nR := 1 + rng.Intn(3)
	for r := 0; r < nR; r++ {
		rd := abortRound{Barrier: []string{"wu", "rst"}[rng.Intn(2)]}
		rd.AChunk = pick64(rng, 1, 2, 100, 1000, 4096, 9000, lim, 1+rng.Int63n(lim))
		rd.HoldAt = pick64(rng, 0, 0, 1, rd.AChunk/2, rd.AChunk-1)
		if rd.HoldAt > rd.AChunk-1 {
			rd.HoldAt = rd.AChunk - 1
		}
		rd.Slack = pick64(rng, 1, 1, 1000, 20000, 70000)
		tight := r == nR-1 && rng.Intn(4) == 0
		nW := 1 + rng.Intn(3)
		for i := 0; i < nW; i++ {
			w := abortWaiter{Mode: []string{"rst", "cancel", "rst", "cancel", "none"}[rng.Intn(5)]}
			if i == 0 || tight {
				// the first waiter is always aborted; index parity makes sure both kinds occur at every seed
				w.Mode = []string{"rst", "cancel"}[(index+r+rng.Intn(2)*i)%2]
			}
			w.Pre = pick64(rng, 0, 0, 1, 1000, 5000)
			w.Chunk = pick64(rng, 2, 100, 1000, 4096, lim, 2+rng.Int63n(lim-1))
			w.Rest = pick64(rng, 0, 0, 1, 3000)
			w.CL = rng.Intn(2) == 0
			rd.Waiters = append(rd.Waiters, w)
		}
		if tight {
			rd.Tight = 1 + rng.Int63n(rd.Waiters[nW-1].Chunk-1)
		}
		c.Rounds = append(c.Rounds, rd)
	}
	c.CGrant = pick64(rng, 0, 0, 1, 16384, 50000)
	c.CExtra = pick64(rng, 1, 1000, 100000)
	c.CCL = rng.Intn(2) == 0
	return c
}

func (c *abortCase) key() string {
	k := fmt.Sprintf("abort/%d/%d:", c.IW0, c.MFS0)
	for _, rd := range c.Rounds {
		h := "m"
		if rd.HoldAt == 0 {
			h = "0"
		}
		k += fmt.Sprintf("[%s%s t%v", h, rd.Barrier, rd.Tight > 0)
		for _, w := range rd.Waiters {
			k += fmt.Sprintf(" %s/%v/%v/%v", w.Mode, w.Pre > 0, w.Rest > 0, w.CL)
		}
		k += "]"
	}
	return k
}

func abortCases() []kase {
	var cases []kase
	n := run.Pick(24, 2000)
	for i := 0; i < n; i++ {
		i := i
		cases = append(cases, kase{family: "abort", rig: "T", index: i, exec: func() (*finding, any) {
			c := newAbortCase(i, run.Rand(4000037+int64(i)))
			f := runAbort(c)
			run.Distinct(c.key())
			if run.WantSample() {
				run.Sample(c)
			}
			return f, c
		}})
	}
	return cases
}

// ---------------------------------------------------------------- pauseConn

type heldFrame struct {
	sid    uint32
	length int
	at     int
}

// pauseConn follows the frame boundaries of what the peer reads and, when
// armed, stops in the middle of the next non-empty DATA frame of one stream:
// the 9-byte header and `at` payload bytes are handed on, the rest stays in
// the synchronous pipe, with the remote writer inside Write.
type pauseConn struct {
	net.Conn
	skip    int // client preface
	hdr     [9]byte
	hdrN    int
	left    int // payload bytes of the current frame not yet read
	done    int // payload bytes of the current frame read
	pausing bool
	pauseAt int
	curSid  uint32

	mu     sync.Mutex
	armSid uint32
	armAt  int64

	held   chan heldFrame
	resume chan struct{}
	dead   chan struct{}
	once   sync.Once
}

func newPauseConn(c net.Conn) *pauseConn {
	return &pauseConn{Conn: c, skip: len(h2peer.ClientPreface), held: make(chan heldFrame, 1), resume: make(chan struct{}, 1), dead: make(chan struct{})}
}

func (p *pauseConn) arm(sid uint32, at int64) {
	p.mu.Lock()
	p.armSid, p.armAt = sid, at
	p.mu.Unlock()
}

func (p *pauseConn) release() { p.resume <- struct{}{} }

func (p *pauseConn) Close() error {
	p.once.Do(func() { close(p.dead) })
	return p.Conn.Close()
}

func (p *pauseConn) Read(b []byte) (int, error) {
	if len(b) == 0 {
		return 0, nil
	}
	if p.skip > 0 {
		if len(b) > p.skip {
			b = b[:p.skip]
		}
		n, err := p.Conn.Read(b)
		p.skip -= n
		return n, err
	}
	if p.hdrN < 9 {
		if len(b) > 9-p.hdrN {
			b = b[:9-p.hdrN]
		}
		n, err := p.Conn.Read(b)
		copy(p.hdr[p.hdrN:], b[:n])
		p.hdrN += n
		if p.hdrN == 9 {
			p.left = int(p.hdr[0])<<16 | int(p.hdr[1])<<8 | int(p.hdr[2])
			p.done = 0
			p.curSid = (uint32(p.hdr[5])<<24 | uint32(p.hdr[6])<<16 | uint32(p.hdr[7])<<8 | uint32(p.hdr[8])) & (1<<31 - 1)
			if p.hdr[3] == 0 && p.left > 0 { // DATA
				p.mu.Lock()
				if p.armSid != 0 && p.armSid == p.curSid {
					p.pausing = true
					p.pauseAt = int(p.armAt)
					if p.pauseAt > p.left-1 {
						p.pauseAt = p.left - 1
					}
					p.armSid = 0
				}
				p.mu.Unlock()
			}
			if p.left == 0 {
				p.hdrN = 0
			}
		}
		return n, err
	}
	if p.pausing && p.done == p.pauseAt {
		p.pausing = false
		p.held <- heldFrame{sid: p.curSid, length: p.left + p.done, at: p.done}
		select {
		case <-p.resume:
		case <-p.dead:
			return 0, net.ErrClosed
		}
	}
	lim := p.left
	if p.pausing && p.pauseAt-p.done < lim {
		lim = p.pauseAt - p.done
	}
	if len(b) > lim {
		b = b[:lim]
	}
	n, err := p.Conn.Read(b)
	p.done += n
	p.left -= n
	if p.left == 0 {
		p.hdrN = 0
	}
	return n, err
}

// ---------------------------------------------------------------- gated body, hooked context

// gateReader is a request body that delivers only what the script has
// released.
type gateReader struct {
	key    uint64
	mu     sync.Mutex
	off    int64
	avail  int64
	eof    bool
	wake   chan struct{}
	dead   <-chan struct{}
	closed chan struct{}
	once   sync.Once
}

func (g *gateReader) open(n int64, eof bool) {
	g.mu.Lock()
	g.avail += n
	if eof {
		g.eof = true
	}
	g.mu.Unlock()
	select {
	case g.wake <- struct{}{}:
	default:
	}
}

func (g *gateReader) Read(b []byte) (int, error) {
	for {
		g.mu.Lock()
		if g.avail > 0 {
			if int64(len(b)) > g.avail {
				b = b[:g.avail]
			}
			h2peer.FillBody(g.key, g.off, b)
			g.off += int64(len(b))
			g.avail -= int64(len(b))
			g.mu.Unlock()
			return len(b), nil
		}
		if g.eof {
			g.mu.Unlock()
			return 0, io.EOF
		}
		g.mu.Unlock()
		select {
		case <-g.wake:
		case <-g.dead:
			return 0, errors.New("c12: rig shut down")
		case <-g.closed:
			return 0, errors.New("c12: request body closed")
		}
	}
}

func (g *gateReader) Close() error {
	g.once.Do(func() { close(g.closed) })
	return nil
}

// hookCtx reports the first time Done is called from awaitFlowControl after
// it was armed. awaitFlowControl holds cc.mu during the call, and takes the
// window before it lets go of cc.mu.
type hookCtx struct {
	context.Context
	armed int32
	fired chan struct{}
}

func (h *hookCtx) arm() {
	select {
	case <-h.fired:
	default:
	}
	atomic.StoreInt32(&h.armed, 1)
}

func (h *hookCtx) Done() <-chan struct{} {
	if atomic.LoadInt32(&h.armed) == 1 && calledFromAwaitFlowControl() && atomic.CompareAndSwapInt32(&h.armed, 1, 0) {
		select {
		case h.fired <- struct{}{}:
		default:
		}
	}
	return h.Context.Done()
}

func calledFromAwaitFlowControl() bool {
	var pcs [6]uintptr
	n := runtime.Callers(3, pcs[:])
	fr := runtime.CallersFrames(pcs[:n])
	for i := 0; i < 3; i++ {
		f, more := fr.Next()
		if strings.HasSuffix(f.Function, ".awaitFlowControl") {
			return true
		}
		if !more {
			break
		}
	}
	return false
}

// hookBroken: a hook wait has expired once (the function is not there under
// that name any more?); later waits are short, the cases count as unconfirmed.
var hookBroken int32

type greq struct {
	idx    int
	key    uint64
	total  int64
	body   *gateReader
	ctx    *hookCtx
	cancel context.CancelFunc
	rt     chan struct{} // RoundTrip has returned
	done   chan struct{} // the client goroutine has returned
	err    string
	status int
	sid    uint32

	granted bool
	pred    int64
	recv0   int64
}

// ---------------------------------------------------------------- executor

type abortExec struct {
	c       *abortCase
	t       *trig
	l       *h2peer.Ledger
	pc      *pauseConn
	nextIdx int
	maxWait time.Duration
}

func (x *abortExec) logf(format string, a ...any) {
	if len(x.c.Log) < 200 {
		x.c.Log = append(x.c.Log, fmt.Sprintf(format, a...))
	}
}

func (x *abortExec) ended() string {
	if ga, code, dbg := x.l.GoAway(); ga {
		return fmt.Sprintf("GOAWAY %v %q", code, dbg)
	}
	if x.l.EOF() {
		return "connection closed"
	}
	return ""
}

func (x *abortExec) ledgerFinding() *finding {
	if v := x.l.Violations(); len(v) > 0 {
		if strings.HasSuffix(v[0].Kind, "-decrease-race") {
			return &finding{class: "T/" + v[0].Kind, msg: v[0].Msg}
		}
		return &finding{class: "T/abort/" + v[0].Kind, msg: fmt.Sprintf("%s (and %d more ledger findings); steps: %s", v[0].Msg, len(v)-1, strings.Join(x.c.Log, "; "))}
	}
	return nil
}

func (x *abortExec) quiesce(where string) *finding {
	if err := x.l.Quiesce(watchdog); err != nil {
		if f := x.ledgerFinding(); f != nil {
			return f
		}
		if e := x.ended(); e != "" {
			return &finding{class: "T/abort/connection-ended", msg: fmt.Sprintf("%s: the implementation ended the connection (%s) although the script did nothing illegal; steps: %s", where, e, strings.Join(x.c.Log, "; "))}
		}
		return &finding{class: "T/abort/fence", msg: where + ": PING fence not answered", incon: true}
	}
	run.Add("fences", 3)
	return x.ledgerFinding()
}

// start issues a request with a gated body and waits for its HEADERS.
func (x *abortExec) start(total int64, declared int64) (*greq, *finding) {
	x.nextIdx++
	idx := x.nextIdx
	r := x.t
	inner, cancel := context.WithCancel(context.Background())
	q := &greq{idx: idx, key: x.c.KeyBase + uint64(idx), total: total, cancel: cancel,
		ctx: &hookCtx{Context: inner, fired: make(chan struct{}, 1)},
		rt:  make(chan struct{}), done: make(chan struct{})}
	q.body = &gateReader{key: q.key, wake: make(chan struct{}, 1), dead: r.dead, closed: make(chan struct{})}
	req, err := http.NewRequestWithContext(q.ctx, "POST", "http://c12.test/"+strconv.Itoa(idx), q.body)
	if err != nil {
		panic(err)
	}
	req.ContentLength = declared
	req.Header.Set("x-idx", strconv.Itoa(idx))
	req.Header.Set("x-key", strconv.FormatUint(q.key, 10))
	req.Header.Set("x-size", strconv.FormatInt(total, 10))
	atomic.AddInt64(&r.starts, 1)
	r.wg.Add(1)
	go func() {
		defer r.wg.Done()
		defer close(q.done)
		defer cancel()
		res, err := r.cc.RoundTrip(req)
		if err != nil {
			q.err = err.Error()
			close(q.rt)
			return
		}
		q.status = res.StatusCode
		close(q.rt)
		io.Copy(io.Discard, res.Body)
		res.Body.Close()
	}()
	sid, err := r.waitSid(idx)
	if err != nil {
		if f := x.ledgerFinding(); f != nil {
			return nil, f
		}
		return nil, &finding{class: "T/abort/no-headers", msg: err.Error() + " " + x.ended(), stall: true}
	}
	q.sid = sid
	return q, nil
}

func (x *abortExec) ensureStream(sid uint32, need int64) {
	if a := x.l.Allowance(sid); a < need {
		x.l.WindowUpdate(sid, uint32(need-a))
		run.Add("grants", 1)
	}
}

func (x *abortExec) ensureConn(need int64) {
	if a := x.l.ConnAllowance(); a < need {
		x.l.WindowUpdate(0, uint32(need-a))
		run.Add("grants", 1)
		x.logf("WINDOW_UPDATE(0, %d)", need-a)
	}
}

// arrive waits (bounded progress) until pred holds.
func (x *abortExec) arrive(class string, whatf func() string, pred func() bool) *finding {
	ok, total, gap := x.l.WaitProgress(watchdog, 12*watchdog, pred)
	if gap > x.maxWait {
		x.maxWait = gap
	}
	noteTotalWait(total)
	if f := x.ledgerFinding(); f != nil {
		return f
	}
	if ok {
		return nil
	}
	what := whatf()
	if e := x.ended(); e != "" {
		return &finding{class: "T/abort/connection-ended", msg: fmt.Sprintf("%s: the implementation ended the connection (%s) although the script did nothing illegal; steps: %s", what, e, strings.Join(x.c.Log, "; "))}
	}
	return &finding{class: class, stall: true, msg: fmt.Sprintf("%s (no frame at all for %v); steps: %s", what, watchdog, strings.Join(x.c.Log, "; "))}
}

func (x *abortExec) got(q *greq) int64 { return x.l.Stream(q.sid).Got }

// finish: the body of q is complete; answer and wait for the client.
func (x *abortExec) finish(q *greq, name string) *finding {
	if f := x.arrive("T/abort/queued-data-not-delivered", func() string {
		return fmt.Sprintf("%s (stream %d): %d of %d body bytes arrived, END_STREAM=%v, although the windows allow all of it", name, q.sid, x.got(q), q.total, x.l.Stream(q.sid).Ended)
	},
		func() bool { s := x.l.Stream(q.sid); return s.Got >= q.total && s.Ended }); f != nil {
		return f
	}
	x.l.Respond(q.sid, "200", true)
	if !waitCh(q.done) {
		return &finding{class: "T/abort/client", msg: name + ": client goroutine did not return after the response: " + x.ended(), incon: x.ended() == ""}
	}
	return nil
}

func min64(a int64, b ...int64) int64 {
	for _, v := range b {
		if v < a {
			a = v
		}
	}
	return a
}

func runAbort(c *abortCase) (res *finding) {
	c.Log = nil
	var pc *pauseConn
	t, err := newTrigWrap(tcfg{IW0: c.IW0, MFS0: c.MFS0}, func(n net.Conn) net.Conn { pc = newPauseConn(n); return pc })
	if err != nil {
		return &finding{class: "T/abort/setup", msg: err.Error(), incon: true}
	}
	defer t.shutdown()
	l := t.l
	x := &abortExec{c: c, t: t, l: l, pc: pc}
	defer func() {
		collectStats(l, "T")
		noteWait(x.maxWait)
		run.Add("transport-requests", t.nStarts())
	}()
	mfs := l.MaxFrame()
	x.logf("server SETTINGS: initial window %d, max frame size %d; connection window %d", l.InitialWindow(), mfs, l.ConnAllowance())

	// stream A: the one whose DATA frame is held
	A, f := x.start(1<<40, -1)
	if f != nil {
		return f
	}
	x.logf("A = stream %d (body handed out chunk by chunk)", A.sid)
	var aSent, lostCandidate, grantedTotal int64
	var aborted int

	for ri, rd := range c.Rounds {
		rn := ri + 1
		// the waiters of the round
		var preSum int64
		for _, w := range rd.Waiters {
			preSum += w.Pre
		}
		x.ensureConn(preSum)
		ws := make([]*greq, len(rd.Waiters))
		for i, w := range rd.Waiters {
			total := w.Pre + w.Chunk + w.Rest
			declared := int64(-1)
			if w.CL {
				declared = total
			}
			q, f := x.start(total, declared)
			if f != nil {
				return f
			}
			ws[i] = q
			x.ensureStream(q.sid, total)
			x.logf("round %d: B%d = stream %d (%s, body %d+%d+%d, content-length declared %v)", rn, i+1, q.sid, w.Mode, w.Pre, w.Chunk, w.Rest, w.CL)
			if w.Pre > 0 {
				q.body.open(w.Pre, false)
				if f := x.arrive("T/abort/queued-data-not-delivered", func() string {
					return fmt.Sprintf("round %d: the first %d body bytes of B%d (stream %d) did not arrive although the windows allow them", rn, w.Pre, i+1, q.sid)
				},
					func() bool { return x.got(q) >= w.Pre }); f != nil {
					return f
				}
			}
		}
		if f := x.quiesce(fmt.Sprintf("round %d, waiters open", rn)); f != nil {
			return f
		}

		// the connection window of the round
		if rd.Tight > 0 {
			desired := rd.AChunk + rd.Tight
			for _, w := range rd.Waiters[:len(rd.Waiters)-1] {
				desired += w.Chunk
			}
			if cur := l.ConnAllowance(); cur < desired {
				x.ensureConn(desired)
			} else if cur > desired {
				burn := cur - desired
				x.ensureStream(A.sid, burn)
				A.body.open(burn, false)
				aSent += burn
				if f := x.arrive("T/abort/queued-data-not-delivered", func() string {
					return fmt.Sprintf("round %d: %d more bytes on A (stream %d) did not arrive although the windows allow them", rn, burn, A.sid)
				},
					func() bool { return x.got(A) >= aSent }); f != nil {
					return f
				}
				x.logf("round %d: A sent %d bytes to bring the connection window down to %d", rn, burn, desired)
			}
		} else {
			need := rd.AChunk
			for _, w := range rd.Waiters {
				need += w.Chunk
				if w.Mode == "none" {
					need += w.Rest
				}
			}
			x.ensureConn(need + rd.Slack)
		}
		x.ensureStream(A.sid, rd.AChunk)
		if f := x.quiesce(fmt.Sprintf("round %d, windows arranged", rn)); f != nil {
			return f
		}
		connBefore := l.ConnAllowance()

		// 1. hold A's DATA frame
		pc.arm(A.sid, rd.HoldAt)
		A.body.open(rd.AChunk, false)
		aSent += rd.AChunk
		var hf heldFrame
		select {
		case hf = <-pc.held:
		case <-time.After(watchdog):
			if f := x.ledgerFinding(); f != nil {
				return f
			}
			return &finding{class: "T/abort/queued-data-not-delivered", stall: true, msg: fmt.Sprintf("round %d: A (stream %d) was handed %d more body bytes, stream allowance %d, connection allowance %d, but no DATA frame showed up within %v %s; steps: %s", rn, A.sid, rd.AChunk, l.Allowance(A.sid), connBefore, watchdog, x.ended(), strings.Join(c.Log, "; "))}
		}
		run.Add("abort_data_frames_held_mid_write", 1)
		x.logf("round %d: connection allowance %d; server stopped reading after %d of the %d payload bytes of A's DATA frame (A's writer holds the write lock)", rn, connBefore, hf.at, hf.length)

		// 2. the waiters pass flow control and queue for the write lock
		connAvail := connBefore - int64(hf.length)
		for i, w := range rd.Waiters {
			q := ws[i]
			q.recv0 = l.Stream(q.sid).Recv
			q.pred = min64(w.Chunk, mfs, l.Allowance(q.sid), connAvail)
			if q.pred < 0 {
				q.pred = 0
			}
			q.ctx.arm()
			q.body.open(w.Chunk, w.Rest == 0)
			wait := watchdog
			if atomic.LoadInt32(&hookBroken) != 0 {
				wait = 200 * time.Millisecond
			}
			select {
			case <-q.ctx.fired:
				t.cc.CanTakeNewRequest() // one round trip through cc.mu: awaitFlowControl has returned
				q.granted = q.pred > 0
			case <-time.After(wait):
				atomic.StoreInt32(&hookBroken, 1)
			}
			connAvail -= q.pred
			x.logf("round %d: B%d handed %d body bytes; passed awaitFlowControl=%v (grant %d bytes by the ledger's windows), now waiting for the write lock", rn, i+1, w.Chunk, q.granted, q.pred)
		}

		// 3. abort
		var lastRst *greq
		for i, w := range rd.Waiters {
			q := ws[i]
			switch w.Mode {
			case "rst":
				if err := l.Reset(q.sid, http2.ErrCodeCancel); err != nil {
					return &finding{class: "T/abort/write", msg: err.Error() + " " + x.ended(), incon: x.ended() == ""}
				}
				lastRst = q
				run.Add("streams-reset-by-peer", 1)
				x.logf("round %d: server sent RST_STREAM(%d, CANCEL) while not reading", rn, q.sid)
			case "cancel":
				q.cancel()
				if !waitCh(q.rt) {
					return &finding{class: "T/abort/client", msg: fmt.Sprintf("round %d: RoundTrip of the cancelled request (stream %d) did not return", rn, q.sid), incon: true}
				}
				run.Add("streams-reset-by-impl", 1)
				x.logf("round %d: client cancelled the request on stream %d, RoundTrip returned %q", rn, q.sid, q.err)
			}
		}
		if lastRst != nil {
			// The Write of this frame returns when the transport's read loop asks
			// for more input: it is done with every RST_STREAM before it.
			var err error
			if rd.Barrier == "rst" {
				err = l.Reset(lastRst.sid, http2.ErrCodeCancel)
			} else {
				err = l.WindowUpdate(lastRst.sid, 1)
			}
			if err != nil {
				return &finding{class: "T/abort/write", msg: err.Error() + " " + x.ended(), incon: x.ended() == ""}
			}
			x.logf("round %d: one more frame for stream %d (%s) was taken by the transport: the RST_STREAM has been processed", rn, lastRst.sid, rd.Barrier)
		}

		// 4. go on reading
		pc.release()
		x.logf("round %d: server reads again", rn)
		if f := x.arrive("T/abort/queued-data-not-delivered", func() string {
			return fmt.Sprintf("round %d: A (stream %d) has delivered %d of %d bytes although the windows allow all of them", rn, A.sid, x.got(A), aSent)
		},
			func() bool { return x.got(A) >= aSent }); f != nil {
			return f
		}
		for i, w := range rd.Waiters {
			q := ws[i]
			name := fmt.Sprintf("round %d: B%d", rn, i+1)
			switch w.Mode {
			case "none":
				if w.Rest > 0 {
					q.body.open(w.Rest, true)
				}
				if f := x.finish(q, name+" (not aborted)"); f != nil {
					return f
				}
				run.Add("abort_control_waiters_completed", 1)
			case "rst":
				// RoundTrip returns after the request writer has finished with the stream
				if !waitCh(q.done) {
					return &finding{class: "T/abort/client", msg: name + ": RoundTrip did not return after RST_STREAM: " + x.ended(), incon: x.ended() == ""}
				}
			case "cancel":
				// the transport's RST_STREAM follows whatever the request writer still wrote
				ok, _ := l.WaitUntil(watchdog, func() bool { return l.Stream(q.sid).ImplReset })
				if !ok {
					if f := x.ledgerFinding(); f != nil {
						return f
					}
					return &finding{class: "T/abort/client", msg: name + ": no RST_STREAM for the cancelled request: " + x.ended(), incon: true}
				}
			}
		}
		if f := x.quiesce(fmt.Sprintf("round %d, after the aborts", rn)); f != nil {
			return f
		}
		for i, w := range rd.Waiters {
			if w.Mode == "none" {
				continue
			}
			q := ws[i]
			after := l.Stream(q.sid).Recv - q.recv0
			aborted++
			run.Add("abort_while_waiting_for_write_lock_cases", 1)
			run.Add("abort_variant_"+w.Mode, 1)
			if q.granted {
				run.Add("abort_while_waiting_for_write_lock_confirmed", 1)
				grantedTotal += q.pred
				if q.pred > after {
					lostCandidate += q.pred - after
				}
				if q.pred < w.Chunk {
					run.Add("abort_grant_smaller_than_chunk", 1)
				}
			} else {
				run.Add("abort_while_waiting_for_write_lock_unconfirmed", 1)
			}
			if after > 0 {
				run.Add("abort_granted_frame_written_after_abort", 1)
				run.Add("abort_granted_bytes_written_after_abort", after)
			} else if q.granted {
				run.Add("abort_granted_frame_not_written", 1)
			}
			x.logf("round %d: B%d (stream %d, %s): %d flow-controlled bytes arrived after the abort (granted %d)", rn, i+1, q.sid, w.Mode, after, q.pred)
		}
	}

	// A ends
	l.Expect(A.sid, A.key, aSent)
	A.total = aSent
	A.body.open(0, true)
	if f := x.finish(A, "A"); f != nil {
		return f
	}
	if f := x.quiesce("A complete"); f != nil {
		return f
	}

	// 5. the accounting oracle
	if c.CGrant > 0 {
		l.WindowUpdate(0, uint32(c.CGrant))
		run.Add("grants", 1)
		x.logf("WINDOW_UPDATE(0, %d)", c.CGrant)
	}
	l.Settle()
	if l.ConnAllowance() < 1 {
		x.ensureConn(1000)
	}
	if f := x.quiesce("before C"); f != nil {
		return f
	}
	allow := l.ConnAllowance()
	size := allow + c.CExtra
	declared := int64(-1)
	if c.CCL {
		declared = size
	}
	C, f := x.start(size, declared)
	if f != nil {
		return f
	}
	C.body.open(size, true)
	x.ensureStream(C.sid, size)
	x.logf("connection allowance by the ledger %d; C = stream %d with %d body bytes and a stream window for all of them", allow, C.sid, size)
	ok, total, gap := l.WaitProgress(watchdog, 12*watchdog, func() bool { return x.got(C) >= allow })
	if gap > x.maxWait {
		x.maxWait = gap
	}
	noteTotalWait(total)
	if f := x.ledgerFinding(); f != nil {
		return f
	}
	if !ok {
		if e := x.ended(); e != "" {
			return &finding{class: "T/abort/connection-ended", msg: fmt.Sprintf("upload C: the implementation ended the connection (%s); steps: %s", e, strings.Join(c.Log, "; "))}
		}
		g := x.got(C)
		return &finding{class: "T/abort/conn-window-leaked", stall: true,
			msg: fmt.Sprintf("after %d stream abort(s) that landed while the stream's granted DATA frame was waiting for the write lock, upload C (stream %d, %d body bytes queued, %d bytes of stream window left) stopped after %d of the %d bytes the peer's connection window allows (no frame at all for %v): %d bytes of connection window are lost; the aborted streams had been granted %d bytes of which %d never arrived and were never given back; steps: %s",
				aborted, C.sid, size, l.Allowance(C.sid), g, allow, watchdog, allow-g, grantedTotal, lostCandidate, strings.Join(c.Log, "; "))}
	}
	if f := x.quiesce("C at the connection window"); f != nil {
		return f
	}
	if g := x.got(C); g != allow {
		return &finding{class: "T/abort/excess-after-fence", msg: fmt.Sprintf("upload C delivered %d bytes, the connection window allowed %d; steps: %s", g, allow, strings.Join(c.Log, "; "))}
	}
	run.Add("abort_final_exact_checks", 1)
	run.Add("abort_final_bytes_required", allow)
	run.Add("exact-quiescent-checks", 1)
	x.logf("C delivered exactly %d bytes", allow)
	l.Reset(C.sid, http2.ErrCodeCancel)
	waitCh(C.done)
	return x.ledgerFinding()
}
