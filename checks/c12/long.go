package main

import (
	"fmt"
	"math/rand"
	"sync"
	"time"

	"golang.org/x/net/http2"

	"verif/internal/h2peer"
)

// Long histories: one connection, thousands of streams of mixed fates. After
// every batch (all handlers / client goroutines returned, all streams closed,
// one PING round trip) the un-returned connection-level credit must be within
// the fixed bound, however many streams have passed.

var (
	creditMu      sync.Mutex
	maxUnreturned int64 = -1 << 62
	creditSamples []int64
)

func noteCredit(u int64) {
	creditMu.Lock()
	if u > maxUnreturned {
		maxUnreturned = u
	}
	creditMu.Unlock()
}

func waitCh(ch <-chan struct{}) bool {
	select {
	case <-ch:
		return true
	case <-time.After(watchdog):
		return false
	}
}

type longCase struct {
	Family   string         `json:"family"`
	Rig      string         `json:"rig"`
	Index    int            `json:"index"`
	Streams  int            `json:"streams"`
	Seed     int64          `json:"seed"`
	AtBatch  int            `json:"at_batch,omitempty"`
	AtStream int            `json:"streams_so_far,omitempty"`
	Fates    map[string]int `json:"fates,omitempty"`
	Trace    []int64        `json:"unreturned_trace,omitempty"`
}

func longCases() []kase {
	n := run.Pick(3000, 50000)
	var cases []kase
	for i, rigName := range []string{"S", "T"} {
		rigName := rigName
		c := &longCase{Family: "long", Rig: rigName, Index: i, Streams: n, Seed: run.Rand(3000017 + int64(i)).Int63()}
		cases = append(cases, kase{family: "long", rig: rigName, index: i, exec: func() (*finding, any) {
			k := *c
			k.Fates = map[string]int{}
			var f *finding
			if rigName == "S" {
				f = runLongS(&k)
			} else {
				f = runLongT(&k)
			}
			run.Distinct(fmt.Sprintf("long/%s/%d", rigName, k.Streams))
			for fate, cnt := range k.Fates {
				run.Add("long-"+rigName+"-fate-"+fate, int64(cnt))
			}
			run.Set("long_history_unreturned_trace_"+rigName, k.Trace)
			return f, &k
		}})
	}
	return cases
}

func (c *longCase) trace(u int64) {
	if len(c.Trace) < 40 || c.AtBatch%50 == 0 {
		if len(c.Trace) < 400 {
			c.Trace = append(c.Trace, u)
		}
	}
}

// waitSend waits until the implementation's advertised windows allow n more bytes on sid.
func waitSend(l *h2peer.Ledger, sid uint32, n int64, streamToo bool) bool {
	ok, d := l.WaitUntil(watchdog, func() bool {
		if l.ConnSendAllowance() < n {
			return false
		}
		return !streamToo || l.StreamSendAllowance(sid) >= n
	})
	noteWait(d)
	return ok
}

// sendPayload sends one DATA frame with n payload bytes, sometimes padded.
func sendPayload(l *h2peer.Ledger, u *up, n int64, pad bool, rng *rand.Rand) error {
	b := make([]byte, n)
	h2peer.FillBody(u.key, u.off, b)
	u.off += n
	padLen := -1
	if pad {
		padLen = rng.Intn(256)
	}
	return l.Data(u.sid, false, b, padLen)
}

func runLongS(c *longCase) *finding {
	rng := rand.New(rand.NewSource(c.Seed))
	const upConn, upStream = 256 << 10, 64 << 10
	s, err := newSrig(scfg{IW0: 65535, MFS0: -1, UpConn: upConn, UpStream: upStream, Sched: []string{"", "prio", "random"}[rng.Intn(3)]})
	if err != nil {
		return &finding{class: "S/long/setup", msg: err.Error(), incon: true}
	}
	defer s.shutdown()
	l := s.l
	pre := "S/long/"
	adv := l.ConnSendAllowance()
	defer func() { collectStats(l, "S"); run.Add("handler-starts", s.nStarts()) }()
	keyBase := uint64(rng.Int63())
	fates := []string{"complete", "complete", "peer-reset", "server-abort", "ignored", "closed-early"}
	type ls struct {
		fate string
		pl   *plan
		u    *up
		n    int64 // request body size
		k    int64
		sent int64
		idx  int
	}
	ended := func() string {
		if ga, code, dbg := l.GoAway(); ga {
			return fmt.Sprintf("GOAWAY %v %q", code, dbg)
		}
		if l.EOF() {
			return "connection closed"
		}
		return ""
	}
	idx := 0
	for done := 0; done < c.Streams; {
		c.AtBatch++
		b := 4 + rng.Intn(9)
		if b > c.Streams-done {
			b = c.Streams - done
		}
		var batch []*ls
		for i := 0; i < b; i++ {
			idx++
			st := &ls{fate: fates[rng.Intn(len(fates))], idx: idx}
			st.n = pick64(rng, 0, 1, 100, 5000, 16384, 30000, rng.Int63n(30000))
			st.k = st.n
			pl := &plan{Key: keyBase + uint64(idx), Abort: -1, Resp: pick64(rng, 0, 1, 100, 3000, rng.Int63n(5000)), W: 1 + rng.Intn(4000), Flush: rng.Intn(2) == 0, ReadSz: 1 + rng.Intn(20000)}
			switch st.fate {
			case "complete":
				pl.Req = "all"
			case "peer-reset":
				pl.Req = "all"
				if st.n > 0 {
					st.k = rng.Int63n(st.n)
				}
			case "server-abort":
				pl.Req, pl.ReqN = "part", st.n/2
				pl.Resp, pl.Abort = 100+pl.Resp, 1+rng.Int63n(50)
			case "ignored":
				pl.Req = "ignore"
			case "closed-early":
				pl.Req, pl.ReqN = "partclose", st.n/3
			}
			st.pl = pl
			sid, err := s.request(idx, pl, true)
			if err != nil {
				return &finding{class: pre + "write", msg: err.Error() + " " + ended(), incon: ended() == ""}
			}
			st.u = &up{sid: sid, key: reqKey(pl.Key)}
			batch = append(batch, st)
			c.Fates[st.fate]++
		}
		// send the bodies interleaved
		for active := true; active; {
			active = false
			for _, st := range batch {
				if st.sent >= st.k {
					continue
				}
				chunk := 1 + rng.Int63n(12000)
				if chunk > st.k-st.sent {
					chunk = st.k - st.sent
				}
				if !waitSend(l, st.u.sid, chunk+256, false) {
					if e := ended(); e != "" {
						return &finding{class: pre + "connection-ended", msg: fmt.Sprintf("after %d streams: %s", done, e)}
					}
					c.AtStream = done
					return &finding{class: pre + "credit-not-returned", msg: fmt.Sprintf("after %d streams the connection window stays exhausted for %v: connection allowance %d, un-returned credit %d (advertised %d)", done, watchdog, l.ConnSendAllowance(), adv-l.ConnSendAllowance(), adv)}
				}
				if err := sendPayload(l, st.u, chunk, rng.Intn(4) == 0, rng); err != nil {
					return &finding{class: pre + "write", msg: err.Error() + " " + ended(), incon: ended() == ""}
				}
				st.sent += chunk
				active = true
			}
		}
		for _, st := range batch {
			if st.fate == "peer-reset" {
				l.Reset(st.u.sid, http2.ErrCodeCancel)
			} else {
				l.Data(st.u.sid, true, nil, -1)
			}
		}
		// quiescent point: handlers returned, streams closed, one PING round trip
		for _, st := range batch {
			if !waitCh(st.pl.done) {
				return &finding{class: pre + "handler", msg: fmt.Sprintf("handler of stream %d (%s) did not return: %s", st.u.sid, st.fate, ended()), incon: ended() == ""}
			}
		}
		ok, d := l.WaitUntil(watchdog, func() bool {
			for _, st := range batch {
				if st.fate == "peer-reset" {
					continue
				}
				if x := l.Stream(st.u.sid); !x.Ended && !x.ImplReset {
					return false
				}
			}
			return true
		})
		noteWait(d)
		if v := l.Violations(); len(v) > 0 {
			return &finding{class: pre + v[0].Kind, msg: v[0].Msg}
		}
		if !ok {
			if e := ended(); e != "" {
				return &finding{class: pre + "connection-ended", msg: fmt.Sprintf("after %d streams: %s", done, e)}
			}
			return &finding{class: pre + "queued-data-not-delivered", msg: fmt.Sprintf("after %d streams: responses of the batch did not complete within %v (connection allowance %d)", done, watchdog, l.ConnAllowance())}
		}
		if err := l.FenceControl(watchdog); err != nil {
			return &finding{class: pre + "fence", msg: "PING not answered: " + ended(), incon: ended() == ""}
		}
		run.Add("fences", 1)
		if v := l.Violations(); len(v) > 0 {
			return &finding{class: pre + v[0].Kind, msg: v[0].Msg}
		}
		for _, st := range batch {
			if st.fate == "complete" && (st.pl.read != st.n || st.pl.badAt >= 0) {
				return &finding{class: pre + "request-body", msg: fmt.Sprintf("stream %d: handler read %d of %d bytes, first bad offset %d, err %q", st.u.sid, st.pl.read, st.n, st.pl.badAt, st.pl.rerr)}
			}
			x := l.Stream(st.u.sid)
			if st.fate == "complete" && (!x.Ended || x.Got != x.Total) {
				return &finding{class: pre + "response-body", msg: fmt.Sprintf("stream %d: response %d of %d bytes, ended=%v", st.u.sid, x.Got, x.Total, x.Ended)}
			}
			l.Forget(st.u.sid)
			s.plans.Delete(st.idx)
		}
		done += b
		u := adv - l.ConnSendAllowance()
		noteCredit(u)
		c.trace(u)
		run.Add("credit-bound-checks", 1)
		run.Add("long-history-streams", int64(b))
		if u > creditBound {
			c.AtStream = done
			wu0, sent := l.ConnCredit()
			return &finding{class: pre + "credit-not-returned", msg: fmt.Sprintf("after %d streams (all closed, handlers returned, PING answered) the un-returned connection-level credit is %d bytes (> %d): advertised %d, peer sent %d flow-controlled bytes, stream-0 WINDOW_UPDATEs total %d", done, u, creditBound, adv, sent, wu0)}
		}
		// give the server its own send window back
		if a := l.ConnAllowance(); a < 1<<20 {
			l.WindowUpdate(0, uint32(1<<20-a))
			run.Add("grants", 1)
		}
	}
	return nil
}

func runLongT(c *longCase) *finding {
	rng := rand.New(rand.NewSource(c.Seed))
	t, err := newTrig(tcfg{IW0: 1 << 20, MFS0: -1})
	if err != nil {
		return &finding{class: "T/long/setup", msg: err.Error(), incon: true}
	}
	defer t.shutdown()
	l := t.l
	pre := "T/long/"
	adv := l.ConnSendAllowance()
	defer func() { collectStats(l, "T"); run.Add("transport-requests", t.nStarts()) }()
	l.WindowUpdate(0, 1<<20)
	keyBase := uint64(rng.Int63())
	fates := []string{"complete", "complete", "client-close", "client-cancel", "peer-reset", "ignored", "early-response"}
	type ls struct {
		fate string
		q    *treq
		u    *up
		m    int64 // response body size
		k    int64 // bytes the peer sends before a reset
		idx  int
	}
	ended := func() string {
		if ga, code, dbg := l.GoAway(); ga {
			return fmt.Sprintf("GOAWAY %v %q", code, dbg)
		}
		if l.EOF() {
			return "connection closed"
		}
		return ""
	}
	idx := 0
	for done := 0; done < c.Streams; {
		c.AtBatch++
		b := 4 + rng.Intn(9)
		if b > c.Streams-done {
			b = c.Streams - done
		}
		var batch []*ls
		for i := 0; i < b; i++ {
			idx++
			st := &ls{fate: fates[rng.Intn(len(fates))], idx: idx}
			st.m = pick64(rng, 0, 1, 100, 5000, 16384, 30000, rng.Int63n(30000))
			st.k = st.m
			q := &treq{Key: keyBase + uint64(idx), Size: pick64(rng, 0, 1, 100, 5000, 20000, rng.Int63n(20000)), Chunk: 1 + rng.Intn(20000), CL: rng.Intn(2) == 0, ReadSz: 1 + rng.Intn(20000)}
			q.respKey = reqKey(q.Key)
			switch st.fate {
			case "complete", "early-response":
				q.Resp = "all"
			case "client-close":
				q.Resp, q.RespN = "part", st.m/3
			case "client-cancel":
				q.Resp, q.RespN = "cancel", st.m/3
			case "peer-reset":
				q.Resp = "all"
				if st.m > 0 {
					st.k = rng.Int63n(st.m)
				}
			case "ignored":
				q.Resp = "close"
			}
			st.q = q
			t.start(idx, q)
			batch = append(batch, st)
			c.Fates[st.fate]++
		}
		for _, st := range batch {
			sid, err := t.waitSid(st.idx)
			if err != nil {
				if v := l.Violations(); len(v) > 0 {
					return &finding{class: pre + v[0].Kind, msg: v[0].Msg}
				}
				return &finding{class: pre + "no-headers", msg: err.Error() + " " + ended(), incon: ended() == ""}
			}
			st.u = &up{sid: sid, key: st.q.respKey}
		}
		// the request bodies arrive; answer
		for _, st := range batch {
			if st.fate != "early-response" {
				ok, d := l.WaitUntil(watchdog, func() bool { x := l.Stream(st.u.sid); return x.Ended || x.ImplReset })
				noteWait(d)
				if !ok {
					if v := l.Violations(); len(v) > 0 {
						return &finding{class: pre + v[0].Kind, msg: v[0].Msg}
					}
					if e := ended(); e != "" {
						return &finding{class: pre + "connection-ended", msg: fmt.Sprintf("after %d streams: %s", done, e)}
					}
					x := l.Stream(st.u.sid)
					return &finding{class: pre + "queued-data-not-delivered", msg: fmt.Sprintf("after %d streams: request body of stream %d stuck at %d of %d bytes (stream allowance %d, connection allowance %d)", done, st.u.sid, x.Got, x.Total, l.Allowance(st.u.sid), l.ConnAllowance())}
				}
			}
			l.Respond(st.u.sid, "200", false)
		}
		for active := true; active; {
			active = false
			for _, st := range batch {
				if st.u.off >= st.k {
					continue
				}
				chunk := 1 + rng.Int63n(12000)
				if chunk > st.k-st.u.off {
					chunk = st.k - st.u.off
				}
				if !waitSend(l, st.u.sid, chunk, true) {
					c.AtStream = done
					return &finding{class: pre + "credit-not-returned", msg: fmt.Sprintf("after %d streams the advertised window stays exhausted: connection allowance %d, stream allowance %d %s", done, l.ConnSendAllowance(), l.StreamSendAllowance(st.u.sid), ended())}
				}
				// sendFlow counts flow-controlled bytes; without padding they are the payload
				if _, err := sendFlow(l, st.u, chunk, false, rng, false); err != nil {
					return &finding{class: pre + "write", msg: err.Error() + " " + ended(), incon: ended() == ""}
				}
				active = true
			}
		}
		for _, st := range batch {
			if st.fate == "peer-reset" {
				l.Reset(st.u.sid, http2.ErrCodeCancel)
			} else {
				// some padding on the last frame
				pad := -1
				if rng.Intn(4) == 0 {
					pad = rng.Intn(200)
				}
				l.Data(st.u.sid, true, nil, pad)
			}
		}
		for _, st := range batch {
			if !waitCh(st.q.done) {
				return &finding{class: pre + "client", msg: fmt.Sprintf("client goroutine of stream %d (%s) did not return: %s", st.u.sid, st.fate, ended()), incon: ended() == ""}
			}
		}
		if ok, _ := l.WaitUntil(watchdog, func() bool {
			for _, st := range batch {
				if x := l.Stream(st.u.sid); !x.Ended && !x.ImplReset {
					return false
				}
			}
			return true
		}); !ok {
			return &finding{class: pre + "request-end", msg: "a request stream of the batch was neither ended nor reset: " + ended(), incon: true}
		}
		if err := l.FenceControl(watchdog); err != nil {
			if v := l.Violations(); len(v) > 0 {
				return &finding{class: pre + v[0].Kind, msg: v[0].Msg}
			}
			return &finding{class: pre + "fence", msg: "PING not answered: " + ended(), incon: ended() == ""}
		}
		run.Add("fences", 1)
		if v := l.Violations(); len(v) > 0 {
			hard := v[0]
			for _, x := range v {
				if x.Kind != "stream-window-decrease-race" && x.Kind != "max-frame-size-decrease-race" {
					hard = x
					break
				}
			}
			return &finding{class: pre + hard.Kind, msg: hard.Msg}
		}
		for _, st := range batch {
			q := st.q
			if (st.fate == "complete" || st.fate == "early-response") && (q.err != "" || q.read != st.m || q.badAt >= 0 || q.bodyErr != "") {
				return &finding{class: pre + "response-body", msg: fmt.Sprintf("stream %d (%s): client read %d of %d bytes, first bad offset %d, errors %q %q", st.u.sid, st.fate, q.read, st.m, q.badAt, q.err, q.bodyErr)}
			}
			if st.fate == "complete" {
				if x := l.Stream(st.u.sid); !x.Ended || x.Got != x.Total {
					return &finding{class: pre + "request-body", msg: fmt.Sprintf("stream %d: request body %d of %d bytes, ended=%v", st.u.sid, x.Got, x.Total, x.Ended)}
				}
			}
			l.Forget(st.u.sid)
		}
		done += b
		u := adv - l.ConnSendAllowance()
		noteCredit(u)
		c.trace(u)
		run.Add("credit-bound-checks", 1)
		run.Add("long-history-streams", int64(b))
		if u > creditBound {
			c.AtStream = done
			wu0, sent := l.ConnCredit()
			return &finding{class: pre + "credit-not-returned", msg: fmt.Sprintf("after %d streams (all closed, client goroutines returned, PING answered) the un-returned connection-level credit is %d bytes (> %d): advertised %d, peer sent %d flow-controlled bytes, stream-0 WINDOW_UPDATEs total %d", done, u, creditBound, adv, sent, wu0)}
		}
		if a := l.ConnAllowance(); a < 1<<20 {
			l.WindowUpdate(0, uint32(1<<20-a))
			run.Add("grants", 1)
		}
	}
	return nil
}
