package main

func longCases() []kase { return nil }
