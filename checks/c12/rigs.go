package main

import (
	"context"
	"errors"
	"fmt"
	"io"
	"log"
	"net"
	"net/http"
	"strconv"
	"sync"
	"sync/atomic"
	"time"

	fork "github.com/wi1dcard/fingerproxy/pkg/http2"
	"golang.org/x/net/http2"
	"golang.org/x/net/http2/hpack"

	"verif/internal/h2peer"
)

const watchdog = 10 * time.Second

var discardLog = log.New(io.Discard, "", 0)

// reqKey derives the key of the request body from the key of a stream.
func reqKey(k uint64) uint64 { return k ^ 0x5bd1e995a5a5 }

// ------------------------------------------------------------------ rig S

// plan tells the handler of one stream what to do.
type plan struct {
	Key    uint64
	Resp   int64  // response body size
	W      int    // bytes per Write
	Flush  bool   // Flush after every Write
	CL     bool   // declare Content-Length
	Abort  int64  // >= 0: after that many body bytes (flushed) panic(http.ErrAbortHandler)
	Req    string // none | all | part | ignore | close | partclose
	ReqN   int64
	ReadSz int
	// ConnClose: the handler answers with "Connection: close", which makes the
	// server start a graceful shutdown (GOAWAY NO_ERROR) when the response
	// header is written (family goaway)
	ConnClose bool

	start      chan struct{} // handler waits for it before touching the request body
	finish     chan struct{} // handler waits for it before writing the response
	bodyClosed chan struct{} // closed by the handler once it has closed the request body
	done       chan struct{} // closed when the handler returns
	readDone   chan struct{} // when set: closed by the handler when it is done with the request body

	read  int64 // request body bytes the handler read
	badAt int64 // first offset with wrong content (-1: none)
	rerr  string
	werr  string
}

type scfg struct {
	IW0, MFS0  int64 // peer's initial settings (-1: not sent)
	UpConn     int32 // Server.MaxUploadBufferPerConnection (0: default)
	UpStream   int32
	Sched      string // "", "prio", "random"
	MaxStreams uint32
}

type srig struct {
	p       *h2peer.Peer
	l       *h2peer.Ledger
	plans   sync.Map // int -> *plan
	dead    chan struct{}
	served  chan struct{}
	nextSID uint32
	starts  int64
	closed  bool
}

func (r *srig) handler(w http.ResponseWriter, req *http.Request) {
	idx, _ := strconv.Atoi(req.URL.Path[1:])
	v, ok := r.plans.Load(idx)
	if !ok {
		w.WriteHeader(500)
		return
	}
	pl := v.(*plan)
	atomic.AddInt64(&r.starts, 1)
	defer close(pl.done)
	gate := func(c chan struct{}) {
		if c != nil {
			select {
			case <-c:
			case <-r.dead:
			}
		}
	}
	gate(pl.start)
	rs := pl.ReadSz
	if rs <= 0 {
		rs = 32 << 10
	}
	readN := func(limit int64) {
		buf := make([]byte, rs)
		for limit < 0 || pl.read < limit {
			b := buf
			if limit >= 0 && int64(len(b)) > limit-pl.read {
				b = b[:limit-pl.read]
			}
			n, err := req.Body.Read(b)
			if n > 0 {
				if d := h2peer.CheckBody(reqKey(pl.Key), pl.read, b[:n]); d >= 0 && pl.badAt < 0 {
					pl.badAt = pl.read + int64(d)
				}
				pl.read += int64(n)
			}
			if err != nil {
				if err != io.EOF {
					pl.rerr = err.Error()
				}
				return
			}
		}
	}
	switch pl.Req {
	case "all":
		readN(-1)
	case "part":
		readN(pl.ReqN)
	case "close":
		req.Body.Close()
		close(pl.bodyClosed)
	case "partclose":
		readN(pl.ReqN)
		req.Body.Close()
		close(pl.bodyClosed)
	}
	if pl.readDone != nil {
		close(pl.readDone)
	}
	gate(pl.finish)
	if pl.ConnClose {
		w.Header().Set("Connection", "close")
	}
	if pl.Req != "" && pl.Req != "none" {
		w.Header().Set("X-Read", strconv.FormatInt(pl.read, 10))
		w.Header().Set("X-Bad", strconv.FormatInt(pl.badAt, 10))
	}
	if pl.CL {
		w.Header().Set("Content-Length", strconv.FormatInt(pl.Resp, 10))
	}
	total := pl.Resp
	if pl.Abort >= 0 && pl.Abort < total {
		total = pl.Abort
	}
	ws := pl.W
	if ws <= 0 {
		ws = 16 << 10
	}
	buf := make([]byte, ws)
	fl, _ := w.(http.Flusher)
	var off int64
	for off < total {
		b := buf
		if int64(len(b)) > total-off {
			b = b[:total-off]
		}
		h2peer.FillBody(pl.Key, off, b)
		n, err := w.Write(b)
		off += int64(n)
		if err != nil {
			pl.werr = err.Error()
			return
		}
		if pl.Flush {
			fl.Flush()
		}
	}
	if pl.Abort >= 0 {
		fl.Flush()
		panic(http.ErrAbortHandler)
	}
}

func newSrig(cfg scfg) (*srig, error) {
	c, s := net.Pipe()
	r := &srig{dead: make(chan struct{}), served: make(chan struct{}), nextSID: 1}
	srv := &fork.Server{MaxUploadBufferPerConnection: cfg.UpConn, MaxUploadBufferPerStream: cfg.UpStream,
		MaxConcurrentStreams: 1000, MaxReadFrameSize: 1 << 20}
	if cfg.MaxStreams != 0 {
		srv.MaxConcurrentStreams = cfg.MaxStreams
	}
	switch cfg.Sched {
	case "prio":
		srv.NewWriteScheduler = func() fork.WriteScheduler { return fork.NewPriorityWriteScheduler(nil) }
	case "random":
		srv.NewWriteScheduler = func() fork.WriteScheduler { return fork.NewRandomWriteScheduler() }
	}
	go func() {
		srv.ServeConn(s, &fork.ServeConnOpts{Handler: http.HandlerFunc(r.handler), BaseConfig: &http.Server{ErrorLog: discardLog}})
		close(r.served)
	}()
	r.p = h2peer.New(c, nil)
	r.l = h2peer.NewLedger(r.p, h2peer.AsClient)
	var ss []http2.Setting
	if cfg.IW0 >= 0 {
		ss = append(ss, http2.Setting{ID: http2.SettingInitialWindowSize, Val: uint32(cfg.IW0)})
	}
	if cfg.MFS0 >= 0 {
		ss = append(ss, http2.Setting{ID: http2.SettingMaxFrameSize, Val: uint32(cfg.MFS0)})
	}
	if err := r.l.ClientPreface(ss...); err != nil {
		r.shutdown()
		return nil, err
	}
	if err := setupHandshake(r.l); err != nil {
		r.shutdown()
		return nil, err
	}
	return r, nil
}

// setupHandshake waits for the implementation's SETTINGS and for its ACK of
// ours, acknowledges, and fences.
func setupHandshake(l *h2peer.Ledger) error {
	ok, _ := l.WaitUntil(watchdog, func() bool { return l.ImplSettings() >= 1 && l.PendingSettings() == 0 })
	if !ok {
		return errors.New("setup: no SETTINGS / SETTINGS ACK from the implementation")
	}
	if err := l.SettingsAck(); err != nil {
		return err
	}
	return l.Quiesce(watchdog)
}

func (r *srig) ledger() *h2peer.Ledger { return r.l }

// request opens a stream for plan pl; it returns the stream id.
func (r *srig) request(idx int, pl *plan, withBody bool) (uint32, error) {
	pl.done = make(chan struct{})
	pl.badAt = -1
	if pl.Req == "close" || pl.Req == "partclose" {
		pl.bodyClosed = make(chan struct{})
	}
	r.plans.Store(idx, pl)
	sid := r.nextSID
	r.nextSID += 2
	total := pl.Resp
	if pl.Abort >= 0 && pl.Abort < total {
		total = pl.Abort
	}
	r.l.Expect(sid, pl.Key, total)
	var f []hpack.HeaderField
	if withBody {
		f = h2peer.PostFields("c12.test", "/"+strconv.Itoa(idx))
	} else {
		f = h2peer.GetFields("c12.test", "/"+strconv.Itoa(idx))
	}
	return sid, r.l.Headers(sid, !withBody, f...)
}

func (r *srig) shutdown() {
	if r.closed {
		return
	}
	r.closed = true
	r.p.Close()
	close(r.dead)
	select {
	case <-r.served:
	case <-time.After(watchdog):
	}
}

// ------------------------------------------------------------------ rig T

type tcfg struct {
	IW0, MFS0 int64
	// MaxStreams > 0: the scripted server advertises SETTINGS_MAX_CONCURRENT_STREAMS
	MaxStreams int64
	// Strict: Transport.StrictMaxConcurrentStreams (requests wait for a slot on
	// this connection instead of failing over; family parked)
	Strict bool
}

// treq is one request issued through the transport.
type treq struct {
	Key    uint64
	Size   int64 // request body size
	Chunk  int   // bytes per body Read
	CL     bool  // declare ContentLength
	NoBody bool

	// what the client does with the response
	Resp   string // "" / all | part | close | cancel | hold
	RespN  int64
	ReadSz int

	hold   chan struct{} // Resp hold: wait before reading
	cancel context.CancelFunc
	done   chan struct{}
	gotHdr chan struct{} // closed when RoundTrip returned

	err     string
	status  int
	read    int64
	badAt   int64
	bodyErr string
	respKey uint64
}

type genReader struct {
	key   uint64
	size  int64
	off   int64
	chunk int
}

func (g *genReader) Read(b []byte) (int, error) {
	if g.off >= g.size {
		return 0, io.EOF
	}
	if g.chunk > 0 && len(b) > g.chunk {
		b = b[:g.chunk]
	}
	if int64(len(b)) > g.size-g.off {
		b = b[:g.size-g.off]
	}
	h2peer.FillBody(g.key, g.off, b)
	g.off += int64(len(b))
	return len(b), nil
}

type trig struct {
	p      *h2peer.Peer
	l      *h2peer.Ledger
	tr     *fork.Transport
	cc     *fork.ClientConn
	wg     sync.WaitGroup
	mu     sync.Mutex
	byIdx  map[int]uint32
	seen   map[uint32]bool
	starts int64
	closed bool
	dead   chan struct{}
}

func expectFromHeaders(h []hpack.HeaderField) (uint64, int64, bool) {
	var k uint64
	var n int64
	var okK, okN bool
	for _, f := range h {
		switch f.Name {
		case "x-key":
			v, err := strconv.ParseUint(f.Value, 10, 64)
			k, okK = v, err == nil
		case "x-size":
			v, err := strconv.ParseInt(f.Value, 10, 64)
			n, okN = v, err == nil
		}
	}
	return k, n, okK && okN
}

func newTrig(cfg tcfg) (*trig, error) { return newTrigWrap(cfg, nil) }

// newTrigWrap: wrap, when set, is put around the harness side of the pipe
// (the abort family stops reading in the middle of a DATA frame with it).
func newTrigWrap(cfg tcfg, wrap func(net.Conn) net.Conn) (*trig, error) {
	c, s := net.Pipe()
	if wrap != nil {
		s = wrap(s)
	}
	r := &trig{byIdx: map[int]uint32{}, seen: map[uint32]bool{}, dead: make(chan struct{})}
	r.tr = &fork.Transport{AllowHTTP: true, DisableCompression: true, StrictMaxConcurrentStreams: cfg.Strict}
	type res struct {
		cc  *fork.ClientConn
		err error
	}
	ch := make(chan res, 1)
	go func() {
		cc, err := r.tr.NewClientConn(c)
		ch <- res{cc, err}
	}()
	p, err := h2peer.AcceptClient(s, nil, watchdog)
	if err != nil {
		c.Close()
		s.Close()
		return nil, err
	}
	r.p = p
	r.l = h2peer.NewLedger(p, h2peer.AsServer)
	r.l.ExpectFromHeaders = expectFromHeaders
	r.l.AutoPingAck()
	var ss []http2.Setting
	if cfg.IW0 >= 0 {
		ss = append(ss, http2.Setting{ID: http2.SettingInitialWindowSize, Val: uint32(cfg.IW0)})
	}
	if cfg.MFS0 >= 0 {
		ss = append(ss, http2.Setting{ID: http2.SettingMaxFrameSize, Val: uint32(cfg.MFS0)})
	}
	if cfg.MaxStreams > 0 {
		ss = append(ss, http2.Setting{ID: http2.SettingMaxConcurrentStreams, Val: uint32(cfg.MaxStreams)})
	}
	if err := r.l.Settings(ss...); err != nil {
		p.Close()
		return nil, err
	}
	select {
	case x := <-ch:
		if x.err != nil {
			p.Close()
			return nil, x.err
		}
		r.cc = x.cc
	case <-time.After(watchdog):
		p.Close()
		return nil, errors.New("NewClientConn did not return")
	}
	if err := setupHandshake(r.l); err != nil {
		r.shutdown()
		return nil, err
	}
	return r, nil
}

func (r *trig) ledger() *h2peer.Ledger { return r.l }

// start issues the request in its own goroutine.
func (r *trig) start(idx int, q *treq) {
	ctx, cancel := context.WithCancel(context.Background())
	q.cancel = cancel
	q.done = make(chan struct{})
	q.gotHdr = make(chan struct{})
	q.badAt = -1
	var body io.Reader
	method := "POST"
	if !q.NoBody {
		body = &genReader{key: q.Key, size: q.Size, chunk: q.Chunk}
	} else {
		method = "GET"
	}
	req, err := http.NewRequestWithContext(ctx, method, "http://c12.test/"+strconv.Itoa(idx), body)
	if err != nil {
		panic(err)
	}
	if !q.NoBody {
		if q.CL {
			req.ContentLength = q.Size
			if q.Size == 0 {
				req.Body = http.NoBody
			}
		} else {
			req.ContentLength = -1
		}
	}
	req.Header.Set("x-idx", strconv.Itoa(idx))
	req.Header.Set("x-key", strconv.FormatUint(q.Key, 10))
	req.Header.Set("x-size", strconv.FormatInt(q.Size, 10))
	atomic.AddInt64(&r.starts, 1)
	r.wg.Add(1)
	go func() {
		defer r.wg.Done()
		defer close(q.done)
		defer cancel()
		res, err := r.cc.RoundTrip(req)
		close(q.gotHdr)
		if err != nil {
			q.err = err.Error()
			return
		}
		q.status = res.StatusCode
		defer res.Body.Close()
		if q.hold != nil {
			select {
			case <-q.hold:
			case <-r.dead:
			}
		}
		rs := q.ReadSz
		if rs <= 0 {
			rs = 32 << 10
		}
		buf := make([]byte, rs)
		readN := func(limit int64) {
			for limit < 0 || q.read < limit {
				b := buf
				if limit >= 0 && int64(len(b)) > limit-q.read {
					b = b[:limit-q.read]
				}
				n, err := res.Body.Read(b)
				if n > 0 {
					if d := h2peer.CheckBody(q.respKey, q.read, b[:n]); d >= 0 && q.badAt < 0 {
						q.badAt = q.read + int64(d)
					}
					q.read += int64(n)
				}
				if err != nil {
					if err != io.EOF {
						q.bodyErr = err.Error()
					}
					return
				}
			}
		}
		switch q.Resp {
		case "", "all":
			readN(-1)
		case "part":
			readN(q.RespN)
		case "cancel":
			readN(q.RespN)
			cancel()
			// the body is closed by the deferred Close
		case "close":
		}
	}()
}

// sidOf finds the stream a request was sent on (by its x-idx header).
func (r *trig) sidOf(idx int) (uint32, bool) {
	r.mu.Lock()
	defer r.mu.Unlock()
	if sid, ok := r.byIdx[idx]; ok {
		return sid, true
	}
	for _, sid := range r.l.StreamIDs() {
		if r.seen[sid] {
			continue
		}
		s := r.l.Stream(sid)
		if s.Headers == nil {
			continue
		}
		r.seen[sid] = true
		if v := s.HeaderValue("x-idx"); v != "" {
			i, _ := strconv.Atoi(v)
			r.byIdx[i] = sid
		}
	}
	sid, ok := r.byIdx[idx]
	return sid, ok
}

// waitSid waits until the HEADERS of request idx have been received.
func (r *trig) waitSid(idx int) (uint32, error) {
	var sid uint32
	ok, _ := r.l.WaitUntil(watchdog, func() bool {
		s, ok := r.sidOf(idx)
		sid = s
		return ok
	})
	if !ok {
		return 0, fmt.Errorf("request %d: HEADERS not received", idx)
	}
	return sid, nil
}

func (r *trig) shutdown() {
	if r.closed {
		return
	}
	r.closed = true
	r.p.Close()
	close(r.dead)
	done := make(chan struct{})
	go func() {
		if r.cc != nil {
			r.cc.Close() // can block for ever when the transport is wedged
		}
		r.wg.Wait()
		close(done)
	}()
	select {
	case <-done:
	case <-time.After(watchdog):
	}
}

func (r *srig) nStarts() int64 { return atomic.LoadInt64(&r.starts) }
func (r *trig) nStarts() int64 { return atomic.LoadInt64(&r.starts) }
