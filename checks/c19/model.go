package main

// The reader model: walks a byte stream frame by frame with the RFC 7540
// reference parser (internal/ref/frame.go), reassembles header blocks and
// decodes them with the RFC 7541 reference decoder when ReadMetaHeaders is
// modelled, and says for every ReadFrame call which outcomes are acceptable.

import (
	"fmt"
	"strings"

	"golang.org/x/net/http2/hpack"

	"verif/internal/ref"
)

type expect struct {
	frame   *ref.PFrame // acceptable: this frame
	meta    *ref.PFrame // acceptable: MetaHeadersFrame with this HEADERS header and `fields`
	fields  []ref.HF
	prefix  bool         // (small MaxHeaderListSize) a truncated prefix of fields is acceptable too
	defects []ref.Defect // acceptable: an error matching one of these
	caller  []ref.Defect // defects present that upstream leaves to the caller (subset of defects)
	errSID  uint32       // the stream a StreamError must name
	trunc   bool         // acceptable: io.EOF / io.ErrUnexpectedEOF (the byte stream ends inside or before a frame)
	any     bool         // not judged (RFC leaves it open, or outside the modelled domain)
	stop    bool         // later calls are not judged
	class   string       // input class used as violation class for any mismatch at this call
	diffWL  string       // input class in which the fork legitimately differs from x/net v0.19.0
	refKind string       // evidence counter
	why     string
}

type model struct {
	rest []byte
	st   ref.FrameState
	c    cfg
	eff  uint32
	hdec *ref.Decoder
	// xdec (x/net v0.19.0 hpack, the decoder both Framers use) is fed the same blocks; it is used
	// only to compute the INPUT CLASS of the differential whitelist where the RFC 7541 reference
	// stops at an implementation-defined representation: "a field the Framer's emit callback
	// sees is invalid".
	xdec *hpack.Decoder
}

// emitted returns the fields x/net's hpack decoder emits for block (up to its first error).
func (m *model) emitted(block []byte) []ref.HF {
	var fs []ref.HF
	m.xdec.SetEmitFunc(func(f hpack.HeaderField) { fs = append(fs, ref.HF{Name: f.Name, Value: f.Value}) })
	if _, err := m.xdec.Write(block); err == nil {
		m.xdec.Close()
	}
	m.xdec.SetEmitFunc(func(hpack.HeaderField) {})
	return fs
}

func (m *model) wlInvalidThenContinuation(frags [][]byte, more int) string {
	fs := m.emitted(join(frags)) // always fed: xdec's dynamic table must follow every block
	bad, _, proto := validity(fs)
	if len(bad) > 0 && len(frags)+more >= 2 {
		// v0.34.0: a CONTINUATION after an invalid field is a connection error PROTOCOL_ERROR at once;
		// v0.19.0 decodes on and reports a stream error at the end (or COMPRESSION_ERROR if it meets one)
		return "invalid-field-then-continuation"
	}
	if proto {
		// v0.34.0 accepts the RFC 8441 ":protocol" request pseudo-header, v0.19.0 calls it undefined
		return "protocol-pseudo-header"
	}
	return ""
}

func newModel(stream []byte, c cfg) *model {
	return &model{rest: stream, c: c, eff: c.effLimit(), st: ref.FrameState{MaxFrameSize: c.effLimit()}, hdec: ref.NewDecoder(4096), xdec: hpack.NewDecoder(4096, nil)}
}

func frameSID(raw []byte) uint32 {
	return (uint32(raw[5])<<24 | uint32(raw[6])<<16 | uint32(raw[7])<<8 | uint32(raw[8])) & 0x7fffffff
}

// take cuts the next frame off the stream. e != nil: the call ends here.
func (m *model) take(st ref.FrameState) (frame []byte, e *expect) {
	length, frame, rest, hdrOK, complete := ref.SplitFrame(m.rest)
	if !hdrOK {
		m.rest = nil
		return nil, &expect{trunc: true, stop: true, refKind: "end_of_stream"}
	}
	if length > m.eff {
		r := ref.ParseFrame(m.rest[:9], st)
		m.rest = nil
		return nil, &expect{defects: r.Defects, errSID: r.Frame.StreamID, stop: true, refKind: "reject", why: "length above the read limit"}
	}
	if !complete {
		m.rest = nil
		return nil, &expect{trunc: true, stop: true, refKind: "end_of_stream"}
	}
	m.rest = rest
	return frame, nil
}

func (m *model) next() expect {
	pushOpen := m.st.BlockByPush
	e := m.next1()
	if pushOpen {
		// RFC 7540 §6.6/§6.10: a PUSH_PROMISE without END_HEADERS opens a header block. Input class of
		// D18 (fixed in /repo by f13b66e): a mismatch here is reported under this class. x/net v0.19.0
		// still does not track such a block (rejects its CONTINUATION, accepts other frames inside it).
		e.class = "push-promise-header-block"
		if e.diffWL == "" {
			e.diffWL = wlPushPromise
		}
	}
	return e
}

// differential whitelist classes of the two defects fixed in the fork only (D18, D19)
const (
	wlPushPromise  = "open-push-promise-header-block"
	wlShortPayload = "payload-too-short-for-mandatory-field"
)

// shortPayloadClass: the frame is complete but too short for a mandatory field (D19, fixed in /repo by
// be25c02: ConnectionError(FRAME_SIZE_ERROR)); x/net v0.19.0 answers io.ErrUnexpectedEOF.
func shortPayloadClass(ds []ref.Defect) string {
	for _, d := range ds {
		if d.Name == "payload-too-short-for-mandatory-field" {
			return wlShortPayload
		}
	}
	return ""
}

func (m *model) next1() expect {
	st := m.st
	frame, ep := m.take(st)
	if ep != nil {
		return *ep
	}
	if m.c.AllowIllegalReads {
		// frame order is not checked in this mode: present a state in which this frame is in order
		st.BlockOpen, st.BlockStream, st.BlockByPush = frame[3] == ref.FContinuation, frameSID(frame), false
	}
	r := ref.ParseFrame(frame, st)
	e := expect{errSID: r.Frame.StreamID}
	if r.Verdict == ref.FrameReject {
		e.defects, e.refKind = r.Defects, "reject"
		e.diffWL = shortPayloadClass(r.Defects)
		return e
	}
	if m.c.Meta && r.Frame.Type == ref.FHeaders {
		return m.assemble(r)
	}
	if !m.c.AllowIllegalReads {
		m.st = r.Next
	}
	fr := r.Frame
	e.frame = &fr
	e.defects = append(append(e.defects, r.MayReject...), r.CallerChecks...)
	e.caller = r.CallerChecks
	e.refKind = "ok"
	if r.Verdict == ref.FrameImplDefined {
		e.refKind = "impl_defined"
	}
	return e
}

// beyond MaxHeaderListSize (not an RFC 7540 framing rule; §10.5.1 lets an endpoint refuse): the list may
// be cut (Truncated), refused with PROTOCOL_ERROR / ENHANCE_YOUR_CALM, or - because the Framer also caps
// hpack string lengths at MaxHeaderListSize - with COMPRESSION_ERROR.
var listTooLarge = ref.Defect{Name: "header-list-too-large", Section: "§10.5.1", Codes: []uint32{ref.EProtocol, 0xb, ref.ECompression}}

var compressionDefect = ref.Defect{Name: "header-block-decoding-error", Section: "§4.3", Codes: []uint32{ref.ECompression}, ConnOnly: true}

func malformedDefects(bad []string) []ref.Defect {
	var ds []ref.Defect
	for _, b := range bad {
		// §8.1.2.6: malformed requests/responses are a stream error of type PROTOCOL_ERROR
		ds = append(ds, ref.Defect{Name: "malformed-header-list: " + b, Section: "§8.1.2", Codes: []uint32{ref.EProtocol}})
	}
	return ds
}

// assemble models ReadFrame in ReadMetaHeaders mode after an acceptable HEADERS frame.
func (m *model) assemble(r ref.FrameResult) expect {
	hdr := r.Frame
	st := r.Next
	frags := [][]byte{hdr.Body}
	e := expect{errSID: hdr.StreamID}
	// what the header block read so far already determines (an implementation may
	// report it before it looks at the next frame)
	early := func() (ds []ref.Defect, open bool) {
		cp := *m.hdec
		res := cp.DecodeBlock(join(frags))
		if res.Verdict == ref.Reject {
			// also when the reference only says "truncated so far": a declared string length above the
			// decoder's string limit (hpack.ErrStringLength, 16 MB by default) is refused at once
			ds = append(ds, compressionDefect)
		}
		bad, _, _ := validity(res.Fields)
		ds = append(ds, malformedDefects(bad)...)
		if m.c.MaxList != 0 {
			ds = append(ds, listTooLarge)
		}
		// RFC 7541 leaves the decoding of what was read so far open: not judged
		return ds, res.Verdict == ref.ImplDefined || res.LeadingUpdates >= 2 || res.SecondUpdateNonEmpty
	}
	for st.BlockOpen {
		frame, ep := m.take(st)
		if ep != nil {
			ds, open := early()
			ep.defects = append(ep.defects, ds...)
			ep.any = ep.any || open
			ep.errSID = hdr.StreamID
			ep.diffWL = m.wlInvalidThenContinuation(frags, 1)
			return *ep
		}
		r2 := ref.ParseFrame(frame, st)
		if r2.Verdict == ref.FrameReject {
			ds, open := early()
			e.defects = append(r2.Defects, ds...)
			e.any = open
			if e.diffWL = m.wlInvalidThenContinuation(frags, 1); e.diffWL == "" {
				e.diffWL = shortPayloadClass(r2.Defects)
			}
			e.stop, e.refKind = true, "reject"
			// a stream error inside the block must name the offending frame's stream; one caused by
			// the header list names the HEADERS stream: accept either
			e.errSID = r2.Frame.StreamID
			if r2.Frame.StreamID != hdr.StreamID {
				e.any = e.any || len(e.defects) > len(r2.Defects) // mixed attribution: not judged
			}
			return e
		}
		frags = append(frags, r2.Frame.Body)
		st = r2.Next
	}
	m.st = st
	block := join(frags)
	maxFrag := 0
	for _, f := range frags {
		if len(f) > maxFrag {
			maxFrag = len(f)
		}
	}
	hr := m.hdec.DecodeBlock(block)
	e.diffWL = m.wlInvalidThenContinuation(frags, 0)
	if hr.LeadingUpdates >= 2 || hr.SecondUpdateNonEmpty {
		// hpack (x/net v0.19.0, used by both Framers) rejects a second leading size update: C18's subject, not C19's
		return expect{any: true, stop: true, refKind: "unjudged", why: "two dynamic table size updates", diffWL: e.diffWL}
	}
	bad, impl, protoPseudo := validity(hr.Fields)
	if m.c.MaxList != 0 && (hr.Verdict != ref.Accept || len(bad) > 0 || impl || protoPseudo) {
		return expect{any: true, stop: true, refKind: "unjudged", why: "MaxHeaderListSize with a non-plain header block", diffWL: e.diffWL}
	}
	switch hr.Verdict {
	case ref.ImplDefined:
		return expect{any: true, stop: true, refKind: "unjudged", why: "hpack: " + hr.Why, diffWL: e.diffWL}
	case ref.Reject:
		e.defects = append([]ref.Defect{compressionDefect}, malformedDefects(bad)...)
		e.refKind, e.stop = "reject", true
		return e
	}
	if protoPseudo {
		// ":protocol" is undefined in RFC 7540 (malformed) and defined by RFC 8441: either is fine.
		// The fork (x/net v0.34.0) knows it, v0.19.0 does not.
		return expect{any: true, refKind: "unjudged", why: ":protocol pseudo-header", diffWL: e.diffWL}
	}
	if len(bad) > 0 {
		e.defects, e.refKind = malformedDefects(bad), "reject"
		return e
	}
	if impl {
		return expect{any: true, refKind: "unjudged", why: "header list validity left open by the RFCs", diffWL: e.diffWL}
	}
	e.meta, e.fields = &hdr, hr.Fields
	e.defects = append(append(e.defects, r.MayReject...), r.CallerChecks...)
	e.caller = r.CallerChecks
	e.refKind = "ok"
	if r.Verdict == ref.FrameImplDefined {
		e.refKind = "impl_defined"
	}
	if m.c.MaxList != 0 {
		// MaxHeaderListSize is outside RFC 7540's framing rules: an over-long list may be truncated
		// (MetaHeadersFrame.Truncated) or refused. The fork additionally refuses a fragment longer
		// than twice the remaining allowance (x/net v0.34.0), v0.19.0 does not.
		var total uint32
		for _, f := range hr.Fields {
			total += uint32(len(f.Name) + len(f.Value) + 32)
		}
		if total > m.c.MaxList || uint64(maxFrag) > 2*uint64(m.c.MaxList-total) {
			e.prefix = true
			e.diffWL = "header-list-above-max-header-list-size"
			e.defects = append(e.defects, listTooLarge)
			e.refKind = "impl_defined"
		}
	}
	return e
}

func join(frags [][]byte) []byte {
	var b []byte
	for _, f := range frags {
		b = append(b, f...)
	}
	return b
}

func isTchar(c byte) bool {
	switch {
	case c >= 'a' && c <= 'z', c >= 'A' && c <= 'Z', c >= '0' && c <= '9':
		return true
	}
	return strings.IndexByte("!#$%&'*+-.^_`|~", c) >= 0
}

// validity applies RFC 7540 §8.1.2 / §10.3 to a decoded header list.
// bad: reasons the list MUST be treated as malformed; impl: the RFCs leave it open.
func validity(fields []ref.HF) (bad []string, impl bool, protocolPseudo bool) {
	sawRegular, req, resp := false, false, false
	seen := map[string]bool{}
	for _, f := range fields {
		for i := 0; i < len(f.Value); i++ {
			if c := f.Value[i]; (c < 0x20 && c != '\t') || c == 0x7f {
				bad = append(bad, "character not permitted in a field value (§10.3)")
				break
			}
		}
		if v := f.Value; v != "" && (v[0] == ' ' || v[0] == '\t' || v[len(v)-1] == ' ' || v[len(v)-1] == '\t') {
			impl = true
		}
		if strings.HasPrefix(f.Name, ":") {
			if sawRegular {
				bad = append(bad, "pseudo-header after regular field (§8.1.2.1)")
			}
			switch f.Name {
			case ":method", ":path", ":scheme", ":authority":
				req = true
			case ":status":
				resp = true
			case ":protocol":
				protocolPseudo = true
			default:
				bad = append(bad, "undefined pseudo-header (§8.1.2.1)")
			}
			if seen[f.Name] {
				if f.Name == ":authority" || f.Name == ":protocol" {
					impl = true
				} else {
					bad = append(bad, "duplicate pseudo-header (§8.1.2.3)")
				}
			}
			seen[f.Name] = true
			continue
		}
		sawRegular = true
		ok := f.Name != ""
		for i := 0; i < len(f.Name) && ok; i++ {
			c := f.Name[i]
			if !isTchar(c) || (c >= 'A' && c <= 'Z') {
				ok = false
			}
		}
		if !ok {
			bad = append(bad, "invalid or upper-case field name (§8.1.2, §10.3)")
		}
	}
	if req && resp {
		bad = append(bad, "request and response pseudo-headers mixed (§8.1.2.1)")
	}
	return
}

// matches reports whether error outcome o is an acceptable report of defect d.
func matches(o outcome, d ref.Defect, errSID uint32) bool {
	switch o.Kind {
	case "toolarge": // the Framer's documented way to say FRAME_SIZE_ERROR for a frame above SetMaxReadFrameSize
		return d.Name == "frame-too-large"
	case "conn":
	case "stream":
		if d.ConnOnly || o.ESID != errSID {
			return false
		}
	default:
		return false
	}
	for _, c := range d.Codes {
		if c == o.Code {
			return true
		}
	}
	return false
}

type fail struct{ class, msg string }

// check compares one ReadFrame outcome with what the model accepts.
// leftToCaller: the frame was returned although it carries a caller-checked defect.
func (e *expect) check(o outcome) (f *fail, leftToCaller bool) {
	if e.any {
		return nil, false
	}
	class := func(c string) string {
		if e.class != "" {
			return e.class
		}
		return c
	}
	switch o.Kind {
	case "frame":
		if e.frame == nil {
			if len(e.defects) > 0 {
				return &fail{class("accepted-malformed-frame"), fmt.Sprintf("returned %v, but the frame must be rejected: %s", o, defectList(e.defects))}, false
			}
			return &fail{class("unexpected-frame"), fmt.Sprintf("returned %v, expected %s", o, e.describe())}, false
		}
		if d := sameFrame(o.F, *e.frame, false); d != "" {
			return &fail{class("wrong-field"), fmt.Sprintf("returned %v; RFC 7540 layout gives a different %s", o, d)}, false
		}
		if want := goTypeOf(e.frame.Type, false); o.GoType != want {
			return &fail{class("wrong-go-type"), fmt.Sprintf("returned %v, expected Go type %s", o, want)}, false
		}
		return nil, len(e.caller) > 0
	case "meta":
		if e.meta == nil {
			return &fail{class("unexpected-meta-frame"), fmt.Sprintf("returned %v, expected %s", o, e.describe())}, false
		}
		if d := sameFrame(o.F, *e.meta, true); d != "" {
			return &fail{class("wrong-field"), fmt.Sprintf("returned %v; RFC 7540 layout of the HEADERS frame gives a different %s", o, d)}, false
		}
		if len(o.F.Body) != 0 {
			return &fail{class("wrong-field"), fmt.Sprintf("returned %v with a header block fragment", o)}, false
		}
		if o.GoType != "MetaHeadersFrame" {
			return &fail{class("wrong-go-type"), fmt.Sprintf("returned %v", o)}, false
		}
		if e.prefix {
			if len(o.Fields) > len(e.fields) || !fieldsEq(o.Fields, e.fields[:len(o.Fields)]) || o.Truncated != (len(o.Fields) < len(e.fields)) {
				return &fail{class("wrong-header-list"), fmt.Sprintf("returned %v: not a (truncated) prefix of the %d encoded fields", o, len(e.fields))}, false
			}
			return nil, false
		}
		if !fieldsEq(o.Fields, e.fields) || o.Truncated {
			return &fail{class("wrong-header-list"), fmt.Sprintf("returned %v with fields %s, the header block holds %s", o, showFields(o.Fields), showFields(e.fields))}, false
		}
		return nil, len(e.caller) > 0
	case "eof", "ueof":
		if e.trunc {
			return nil, false
		}
		if o.Kind == "ueof" {
			for _, d := range e.defects {
				if d.Name == "payload-too-short-for-mandatory-field" {
					return &fail{class("short-payload-unexpected-eof"), fmt.Sprintf("a complete frame whose payload is too short for a mandatory field was answered with io.ErrUnexpectedEOF (not a stream or connection error, no error code); RFC: %s", defectList(e.defects))}, false
				}
			}
		}
		return &fail{class("reader-error-on-complete-input"), fmt.Sprintf("returned %v although the input holds a complete frame; expected %s", o, e.describe())}, false
	case "conn", "stream", "toolarge":
		for _, d := range e.defects {
			if matches(o, d, e.errSID) {
				return nil, false
			}
		}
		if len(e.defects) == 0 {
			return &fail{class("rejected-valid-frame"), fmt.Sprintf("returned %v, expected %s", o, e.describe())}, false
		}
		return &fail{class("wrong-error"), fmt.Sprintf("returned %v; RFC 7540 assigns: %s", o, defectList(e.defects))}, false
	}
	return &fail{class("unexpected-error"), fmt.Sprintf("returned %v, expected %s", o, e.describe())}, false
}

func goTypeOf(t uint8, meta bool) string {
	if meta {
		return "MetaHeadersFrame"
	}
	names := []string{"DataFrame", "HeadersFrame", "PriorityFrame", "RSTStreamFrame", "SettingsFrame", "PushPromiseFrame", "PingFrame", "GoAwayFrame", "WindowUpdateFrame", "ContinuationFrame"}
	if int(t) < len(names) {
		return names[t]
	}
	return "UnknownFrame"
}

func defectList(ds []ref.Defect) string {
	var s []string
	for _, d := range ds {
		s = append(s, d.String())
	}
	return strings.Join(s, "; ")
}

func (e *expect) describe() string {
	var s []string
	if e.frame != nil {
		s = append(s, outcome{Kind: "frame", F: *e.frame, GoType: goTypeOf(e.frame.Type, false)}.String())
	}
	if e.meta != nil {
		s = append(s, outcome{Kind: "meta", F: *e.meta, Fields: e.fields, GoType: "MetaHeadersFrame"}.String())
	}
	if len(e.defects) > 0 {
		s = append(s, "error: "+defectList(e.defects))
	}
	if e.trunc {
		s = append(s, "io.EOF/io.ErrUnexpectedEOF (input ends)")
	}
	return strings.Join(s, " or ")
}

func showFields(f []ref.HF) string {
	var sb strings.Builder
	for i, x := range f {
		if i > 5 {
			fmt.Fprintf(&sb, " …(%d fields)", len(f))
			break
		}
		fmt.Fprintf(&sb, " {%q:%q}", head([]byte(x.Name), 24), head([]byte(x.Value), 24))
	}
	return "[" + sb.String() + " ]"
}
