package main

// Adapters that run a byte stream through the two Framers (the fork under test
// and golang.org/x/net/http2 v0.19.0 from the module cache) and normalise what
// ReadFrame returned into `outcome` values, plus the writers used by the round
// trip. The two halves are deliberately the same code over two packages.

import (
	"bytes"
	"fmt"
	"io"

	lf "github.com/wi1dcard/fingerproxy/pkg/http2"
	xf "golang.org/x/net/http2"
	"golang.org/x/net/http2/hpack"

	"verif/internal/ref"
)

type cfg struct {
	Limit             uint32 `json:"set_max_read_frame_size"`                // 0: SetMaxReadFrameSize is not called (default 2^24-1)
	LimitZero         bool   `json:"set_max_read_frame_size_zero,omitempty"` // SetMaxReadFrameSize(0): only empty frames may be read
	Reuse             bool   `json:"set_reuse_frames,omitempty"`             // SetReuseFrames(): every outcome is copied out before the next ReadFrame call
	Meta              bool   `json:"read_meta_headers,omitempty"`
	MaxList           uint32 `json:"max_header_list_size,omitempty"`
	AllowIllegalReads bool   `json:"allow_illegal_reads,omitempty"`
}

func (c cfg) effLimit() uint32 {
	if c.LimitZero {
		return 0
	}
	if c.Limit == 0 || c.Limit > 1<<24-1 {
		return 1<<24 - 1
	}
	return c.Limit
}

func (c cfg) String() string {
	if c.LimitZero {
		return fmt.Sprintf("{limit=0(set) meta=%v maxlist=%d allowIllegalReads=%v}", c.Meta, c.MaxList, c.AllowIllegalReads)
	}
	return fmt.Sprintf("{limit=%d meta=%v maxlist=%d allowIllegalReads=%v reuse=%v}", c.Limit, c.Meta, c.MaxList, c.AllowIllegalReads, c.Reuse)
}

// outcome of one ReadFrame call.
type outcome struct {
	Kind        string // frame, meta, conn, stream, toolarge, eof, ueof, other
	Code        uint32
	ESID        uint32 // stream named by a StreamError
	F           ref.PFrame
	GoType      string
	Fields      []ref.HF
	Truncated   bool
	ErrFrameLen int64 // Header().Length of a frame returned together with an error, else -1
	Msg         string
}

func (o outcome) terminal() bool {
	switch o.Kind {
	case "frame", "meta", "stream":
		return false
	}
	return true
}

var typeNames = []string{"DATA", "HEADERS", "PRIORITY", "RST_STREAM", "SETTINGS", "PUSH_PROMISE", "PING", "GOAWAY", "WINDOW_UPDATE", "CONTINUATION"}

func typeName(t uint8) string {
	if int(t) < len(typeNames) {
		return typeNames[t]
	}
	return "UNKNOWN"
}

func (o outcome) String() string {
	switch o.Kind {
	case "frame", "meta":
		s := fmt.Sprintf("%s{%s len=%d flags=0x%02x stream=%d", o.Kind, typeName(o.F.Type), o.F.Length, o.F.Flags, o.F.StreamID)
		if o.F.Type > 9 {
			s += fmt.Sprintf(" type=0x%02x", o.F.Type)
		}
		if len(o.F.Body) > 0 {
			s += fmt.Sprintf(" body=%x", head(o.F.Body, 24))
		}
		if o.F.HasPriority || o.F.Dep != 0 || o.F.Weight != 0 || o.F.Exclusive {
			s += fmt.Sprintf(" prio(dep=%d excl=%v w=%d)", o.F.Dep, o.F.Exclusive, o.F.Weight)
		}
		switch o.F.Type {
		case ref.FSettings:
			s += fmt.Sprintf(" settings=%v", o.F.Settings)
		case ref.FPing:
			s += fmt.Sprintf(" ping=%x", o.F.Ping)
		case ref.FGoAway:
			s += fmt.Sprintf(" last=%d code=%d", o.F.LastStreamID, o.F.ErrCode)
		case ref.FRSTStream:
			s += fmt.Sprintf(" code=%d", o.F.ErrCode)
		case ref.FWindowUpdate:
			s += fmt.Sprintf(" incr=%d", o.F.Increment)
		case ref.FPushPromise:
			s += fmt.Sprintf(" promise=%d", o.F.PromiseID)
		}
		if o.Kind == "meta" {
			s += fmt.Sprintf(" fields=%d truncated=%v", len(o.Fields), o.Truncated)
		}
		return s + " go=" + o.GoType + "}"
	case "conn":
		return fmt.Sprintf("ConnectionError(code=%d)", o.Code)
	case "stream":
		return fmt.Sprintf("StreamError(stream=%d code=%d)", o.ESID, o.Code)
	case "toolarge":
		return "ErrFrameTooLarge"
	case "eof":
		return "io.EOF"
	case "ueof":
		return "io.ErrUnexpectedEOF"
	}
	return "error(" + o.Msg + ")"
}

func head(b []byte, n int) []byte {
	if len(b) > n {
		return b[:n]
	}
	return b
}

func clone(b []byte) []byte { return append([]byte(nil), b...) }

// sameFrame compares every field two parsers can disagree on; "" when equal.
func sameFrame(a, b ref.PFrame, ignoreBody bool) string {
	switch {
	case a.Type != b.Type:
		return fmt.Sprintf("type %d vs %d", a.Type, b.Type)
	case a.Flags != b.Flags:
		return fmt.Sprintf("flags 0x%02x vs 0x%02x", a.Flags, b.Flags)
	case a.StreamID != b.StreamID:
		return fmt.Sprintf("stream id %d vs %d", a.StreamID, b.StreamID)
	case a.Length != b.Length:
		return fmt.Sprintf("length %d vs %d", a.Length, b.Length)
	case !ignoreBody && !bytes.Equal(a.Body, b.Body):
		return fmt.Sprintf("payload/fragment (%d bytes) %x vs (%d bytes) %x", len(a.Body), head(a.Body, 24), len(b.Body), head(b.Body, 24))
	case a.HasPriority != b.HasPriority || a.Dep != b.Dep || a.Exclusive != b.Exclusive || a.Weight != b.Weight:
		return fmt.Sprintf("priority (has=%v dep=%d excl=%v w=%d) vs (has=%v dep=%d excl=%v w=%d)", a.HasPriority, a.Dep, a.Exclusive, a.Weight, b.HasPriority, b.Dep, b.Exclusive, b.Weight)
	case a.Ping != b.Ping:
		return fmt.Sprintf("ping data %x vs %x", a.Ping, b.Ping)
	case a.LastStreamID != b.LastStreamID:
		return fmt.Sprintf("last stream id %d vs %d", a.LastStreamID, b.LastStreamID)
	case a.ErrCode != b.ErrCode:
		return fmt.Sprintf("error code %d vs %d", a.ErrCode, b.ErrCode)
	case a.Increment != b.Increment:
		return fmt.Sprintf("window increment %d vs %d", a.Increment, b.Increment)
	case a.PromiseID != b.PromiseID:
		return fmt.Sprintf("promised id %d vs %d", a.PromiseID, b.PromiseID)
	case len(a.Settings) != len(b.Settings):
		return fmt.Sprintf("%d settings vs %d", len(a.Settings), len(b.Settings))
	}
	for i := range a.Settings {
		if a.Settings[i] != b.Settings[i] {
			return fmt.Sprintf("setting #%d %v vs %v", i, a.Settings[i], b.Settings[i])
		}
	}
	return ""
}

func fieldsEq(a, b []ref.HF) bool {
	if len(a) != len(b) {
		return false
	}
	for i := range a {
		if a[i] != b[i] {
			return false
		}
	}
	return true
}

// sameOutcome is the differential comparison (frame fields | error class+code).
func sameOutcome(a, b outcome) string {
	if a.Kind != b.Kind {
		return a.String() + " vs " + b.String()
	}
	switch a.Kind {
	case "frame", "meta":
		if d := sameFrame(a.F, b.F, a.Kind == "meta"); d != "" {
			return d
		}
		if a.GoType != b.GoType {
			return "Go type " + a.GoType + " vs " + b.GoType
		}
		if !fieldsEq(a.Fields, b.Fields) || a.Truncated != b.Truncated {
			return fmt.Sprintf("header fields %d (truncated=%v) vs %d (truncated=%v)", len(a.Fields), a.Truncated, len(b.Fields), b.Truncated)
		}
	case "conn", "stream":
		if a.Code != b.Code || a.ESID != b.ESID {
			return a.String() + " vs " + b.String()
		}
	case "other":
		if a.Msg != b.Msg {
			return a.String() + " vs " + b.String()
		}
	}
	return ""
}

const maxCalls = 64

func hfs(in []hpack.HeaderField) []ref.HF {
	var out []ref.HF
	for _, f := range in {
		out = append(out, ref.HF{Name: f.Name, Value: f.Value, Sensitive: f.Sensitive})
	}
	return out
}

// ---------------------------------------------------------------- fork

func classifyFork(err error) outcome {
	o := outcome{ErrFrameLen: -1}
	switch e := err.(type) {
	case lf.ConnectionError:
		o.Kind, o.Code = "conn", uint32(e)
		return o
	case lf.StreamError:
		o.Kind, o.Code, o.ESID = "stream", uint32(e.Code), e.StreamID
		return o
	}
	switch err {
	case lf.ErrFrameTooLarge:
		o.Kind = "toolarge"
	case io.EOF:
		o.Kind = "eof"
	case io.ErrUnexpectedEOF:
		o.Kind = "ueof"
	default:
		o.Kind, o.Msg = "other", err.Error()
	}
	return o
}

func convFork(f lf.Frame) outcome {
	h := f.Header()
	o := outcome{Kind: "frame", ErrFrameLen: -1, GoType: fmt.Sprintf("%T", f)[len("*http2."):]}
	p := &o.F
	p.Length, p.Type, p.Flags, p.StreamID = h.Length, uint8(h.Type), uint8(h.Flags), h.StreamID
	switch f := f.(type) {
	case *lf.DataFrame:
		p.Body = clone(f.Data())
	case *lf.HeadersFrame:
		p.Body = clone(f.HeaderBlockFragment())
		p.HasPriority, p.Dep, p.Exclusive, p.Weight = f.HasPriority(), f.Priority.StreamDep, f.Priority.Exclusive, f.Priority.Weight
	case *lf.MetaHeadersFrame:
		o.Kind = "meta"
		p.HasPriority, p.Dep, p.Exclusive, p.Weight = f.HasPriority(), f.Priority.StreamDep, f.Priority.Exclusive, f.Priority.Weight
		o.Fields, o.Truncated = hfs(f.Fields), f.Truncated
	case *lf.PriorityFrame:
		p.HasPriority, p.Dep, p.Exclusive, p.Weight = true, f.StreamDep, f.Exclusive, f.Weight
	case *lf.RSTStreamFrame:
		p.ErrCode = uint32(f.ErrCode)
	case *lf.SettingsFrame:
		if n := f.NumSettings(); n > 0 {
			p.Settings = make([]ref.FSetting, 0, n)
		}
		f.ForeachSetting(func(s lf.Setting) error {
			p.Settings = append(p.Settings, ref.FSetting{ID: uint16(s.ID), Val: s.Val})
			return nil
		})
		if len(p.Settings) != f.NumSettings() {
			p.Settings = append(p.Settings, ref.FSetting{ID: 0xffff, Val: uint32(f.NumSettings())}) // make the disagreement visible
		}
	case *lf.PushPromiseFrame:
		p.PromiseID, p.Body = f.PromiseID, clone(f.HeaderBlockFragment())
	case *lf.PingFrame:
		p.Ping = f.Data
	case *lf.GoAwayFrame:
		p.LastStreamID, p.ErrCode, p.Body = f.LastStreamID, uint32(f.ErrCode), clone(f.DebugData())
	case *lf.WindowUpdateFrame:
		p.Increment = f.Increment
	case *lf.ContinuationFrame:
		p.Body = clone(f.HeaderBlockFragment())
	case *lf.UnknownFrame:
		p.Body = clone(f.Payload())
	}
	return o
}

// readFork calls ReadFrame until a terminal outcome. A panic is returned, with
// the outcomes obtained before it.
func readFork(stream []byte, c cfg) (outs []outcome, pan any) {
	defer func() {
		if p := recover(); p != nil {
			pan = p
		}
	}()
	fr := lf.NewFramer(io.Discard, bytes.NewReader(stream))
	if c.Limit != 0 || c.LimitZero {
		fr.SetMaxReadFrameSize(c.Limit)
	}
	if c.Meta {
		fr.ReadMetaHeaders = hpack.NewDecoder(4096, nil)
		fr.MaxHeaderListSize = c.MaxList
	}
	fr.AllowIllegalReads = c.AllowIllegalReads
	if c.Reuse {
		fr.SetReuseFrames()
	}
	for i := 0; i < maxCalls; i++ {
		f, err := fr.ReadFrame()
		var o outcome
		if err != nil {
			o = classifyFork(err)
			if f != nil {
				o.ErrFrameLen = int64(f.Header().Length)
			}
		} else if f == nil {
			o = outcome{Kind: "other", Msg: "ReadFrame returned (nil, nil)", ErrFrameLen: -1}
		} else {
			o = convFork(f)
		}
		outs = append(outs, o)
		if o.terminal() {
			break
		}
	}
	return
}

// ---------------------------------------------------------------- x/net v0.19.0

func classifyX(err error) outcome {
	o := outcome{ErrFrameLen: -1}
	switch e := err.(type) {
	case xf.ConnectionError:
		o.Kind, o.Code = "conn", uint32(e)
		return o
	case xf.StreamError:
		o.Kind, o.Code, o.ESID = "stream", uint32(e.Code), e.StreamID
		return o
	}
	switch err {
	case xf.ErrFrameTooLarge:
		o.Kind = "toolarge"
	case io.EOF:
		o.Kind = "eof"
	case io.ErrUnexpectedEOF:
		o.Kind = "ueof"
	default:
		o.Kind, o.Msg = "other", err.Error()
	}
	return o
}

func convX(f xf.Frame) outcome {
	h := f.Header()
	o := outcome{Kind: "frame", ErrFrameLen: -1, GoType: fmt.Sprintf("%T", f)[len("*http2."):]}
	p := &o.F
	p.Length, p.Type, p.Flags, p.StreamID = h.Length, uint8(h.Type), uint8(h.Flags), h.StreamID
	switch f := f.(type) {
	case *xf.DataFrame:
		p.Body = clone(f.Data())
	case *xf.HeadersFrame:
		p.Body = clone(f.HeaderBlockFragment())
		p.HasPriority, p.Dep, p.Exclusive, p.Weight = f.HasPriority(), f.Priority.StreamDep, f.Priority.Exclusive, f.Priority.Weight
	case *xf.MetaHeadersFrame:
		o.Kind = "meta"
		p.HasPriority, p.Dep, p.Exclusive, p.Weight = f.HasPriority(), f.Priority.StreamDep, f.Priority.Exclusive, f.Priority.Weight
		o.Fields, o.Truncated = hfs(f.Fields), f.Truncated
	case *xf.PriorityFrame:
		p.HasPriority, p.Dep, p.Exclusive, p.Weight = true, f.StreamDep, f.Exclusive, f.Weight
	case *xf.RSTStreamFrame:
		p.ErrCode = uint32(f.ErrCode)
	case *xf.SettingsFrame:
		if n := f.NumSettings(); n > 0 {
			p.Settings = make([]ref.FSetting, 0, n)
		}
		f.ForeachSetting(func(s xf.Setting) error {
			p.Settings = append(p.Settings, ref.FSetting{ID: uint16(s.ID), Val: s.Val})
			return nil
		})
	case *xf.PushPromiseFrame:
		p.PromiseID, p.Body = f.PromiseID, clone(f.HeaderBlockFragment())
	case *xf.PingFrame:
		p.Ping = f.Data
	case *xf.GoAwayFrame:
		p.LastStreamID, p.ErrCode, p.Body = f.LastStreamID, uint32(f.ErrCode), clone(f.DebugData())
	case *xf.WindowUpdateFrame:
		p.Increment = f.Increment
	case *xf.ContinuationFrame:
		p.Body = clone(f.HeaderBlockFragment())
	case *xf.UnknownFrame:
		p.Body = clone(f.Payload())
	}
	return o
}

func readX(stream []byte, c cfg) (outs []outcome, pan any) {
	defer func() {
		if p := recover(); p != nil {
			pan = p
		}
	}()
	fr := xf.NewFramer(io.Discard, bytes.NewReader(stream))
	if c.Limit != 0 || c.LimitZero {
		fr.SetMaxReadFrameSize(c.Limit)
	}
	if c.Meta {
		fr.ReadMetaHeaders = hpack.NewDecoder(4096, nil)
		fr.MaxHeaderListSize = c.MaxList
	}
	fr.AllowIllegalReads = c.AllowIllegalReads
	if c.Reuse {
		fr.SetReuseFrames()
	}
	for i := 0; i < maxCalls; i++ {
		f, err := fr.ReadFrame()
		var o outcome
		if err != nil {
			// v0.19.0 returns a typed-nil *MetaHeadersFrame inside the interface on
			// errors in ReadMetaHeaders mode: the frame value must not be touched.
			o = classifyX(err)
		} else {
			o = convX(f)
		}
		outs = append(outs, o)
		if o.terminal() {
			break
		}
	}
	return
}

// ---------------------------------------------------------------- writers

type prio struct {
	Dep  uint32 `json:"dep"`
	Excl bool   `json:"excl,omitempty"`
	W    uint8  `json:"weight"`
}

// op is one Write* call with its parameters.
type op struct {
	M        string         `json:"m"` // data datapad headers continuation priority rst settings settingsack ping goaway wu pp raw
	Sid      uint32         `json:"sid,omitempty"`
	End      bool           `json:"end_stream,omitempty"`
	EndH     bool           `json:"end_headers,omitempty"`
	Data     []byte         `json:"data,omitempty"`       // data / fragment / debug data / raw payload
	Zeros    int            `json:"data_zeros,omitempty"` // Data = this many zero bytes (big cases; keeps witnesses small)
	Pad      []byte         `json:"pad,omitempty"`
	PadNil   bool           `json:"pad_nil,omitempty"`
	PadLen   uint8          `json:"pad_len,omitempty"`
	Prio     prio           `json:"prio"`
	Code     uint32         `json:"code,omitempty"`
	Settings []ref.FSetting `json:"settings,omitempty"`
	Ack      bool           `json:"ack,omitempty"`
	Ping     [8]byte        `json:"ping"`
	Last     uint32         `json:"last,omitempty"`
	Incr     uint32         `json:"incr,omitempty"`
	Promise  uint32         `json:"promise,omitempty"`
	Type     uint8          `json:"type,omitempty"`
	Flags    uint8          `json:"flags,omitempty"`
}

func (o *op) pad() []byte {
	if o.PadNil {
		return nil
	}
	if o.Pad == nil {
		return []byte{}
	}
	return o.Pad
}

func writeFork(fr *lf.Framer, o *op) error {
	switch o.M {
	case "data":
		return fr.WriteData(o.Sid, o.End, o.Data)
	case "datapad":
		return fr.WriteDataPadded(o.Sid, o.End, o.Data, o.pad())
	case "headers":
		return fr.WriteHeaders(lf.HeadersFrameParam{StreamID: o.Sid, BlockFragment: o.Data, EndStream: o.End, EndHeaders: o.EndH,
			PadLength: o.PadLen, Priority: lf.PriorityParam{StreamDep: o.Prio.Dep, Exclusive: o.Prio.Excl, Weight: o.Prio.W}})
	case "continuation":
		return fr.WriteContinuation(o.Sid, o.EndH, o.Data)
	case "priority":
		return fr.WritePriority(o.Sid, lf.PriorityParam{StreamDep: o.Prio.Dep, Exclusive: o.Prio.Excl, Weight: o.Prio.W})
	case "rst":
		return fr.WriteRSTStream(o.Sid, lf.ErrCode(o.Code))
	case "settings":
		ss := make([]lf.Setting, len(o.Settings))
		for i, s := range o.Settings {
			ss[i] = lf.Setting{ID: lf.SettingID(s.ID), Val: s.Val}
		}
		return fr.WriteSettings(ss...)
	case "settingsack":
		return fr.WriteSettingsAck()
	case "ping":
		return fr.WritePing(o.Ack, o.Ping)
	case "goaway":
		return fr.WriteGoAway(o.Last, lf.ErrCode(o.Code), o.Data)
	case "wu":
		return fr.WriteWindowUpdate(o.Sid, o.Incr)
	case "pp":
		return fr.WritePushPromise(lf.PushPromiseParam{StreamID: o.Sid, PromiseID: o.Promise, BlockFragment: o.Data, EndHeaders: o.EndH, PadLength: o.PadLen})
	case "raw":
		return fr.WriteRawFrame(lf.FrameType(o.Type), lf.Flags(o.Flags), o.Sid, o.Data)
	}
	panic("unknown op " + o.M)
}

func writeX(fr *xf.Framer, o *op) error {
	switch o.M {
	case "data":
		return fr.WriteData(o.Sid, o.End, o.Data)
	case "datapad":
		return fr.WriteDataPadded(o.Sid, o.End, o.Data, o.pad())
	case "headers":
		return fr.WriteHeaders(xf.HeadersFrameParam{StreamID: o.Sid, BlockFragment: o.Data, EndStream: o.End, EndHeaders: o.EndH,
			PadLength: o.PadLen, Priority: xf.PriorityParam{StreamDep: o.Prio.Dep, Exclusive: o.Prio.Excl, Weight: o.Prio.W}})
	case "continuation":
		return fr.WriteContinuation(o.Sid, o.EndH, o.Data)
	case "priority":
		return fr.WritePriority(o.Sid, xf.PriorityParam{StreamDep: o.Prio.Dep, Exclusive: o.Prio.Excl, Weight: o.Prio.W})
	case "rst":
		return fr.WriteRSTStream(o.Sid, xf.ErrCode(o.Code))
	case "settings":
		ss := make([]xf.Setting, len(o.Settings))
		for i, s := range o.Settings {
			ss[i] = xf.Setting{ID: xf.SettingID(s.ID), Val: s.Val}
		}
		return fr.WriteSettings(ss...)
	case "settingsack":
		return fr.WriteSettingsAck()
	case "ping":
		return fr.WritePing(o.Ack, o.Ping)
	case "goaway":
		return fr.WriteGoAway(o.Last, xf.ErrCode(o.Code), o.Data)
	case "wu":
		return fr.WriteWindowUpdate(o.Sid, o.Incr)
	case "pp":
		return fr.WritePushPromise(xf.PushPromiseParam{StreamID: o.Sid, PromiseID: o.Promise, BlockFragment: o.Data, EndHeaders: o.EndH, PadLength: o.PadLen})
	case "raw":
		return fr.WriteRawFrame(xf.FrameType(o.Type), xf.Flags(o.Flags), o.Sid, o.Data)
	}
	panic("unknown op " + o.M)
}

// writeAllFork performs the ops on one Framer and returns the bytes each call
// wrote and the error it returned.
func writeAllFork(ops []op, illegal bool) (chunks [][]byte, errs []error, pan any) {
	defer func() {
		if p := recover(); p != nil {
			pan = p
		}
	}()
	var buf bytes.Buffer
	fr := lf.NewFramer(&buf, nil)
	fr.AllowIllegalWrites = illegal
	for i := range ops {
		buf.Reset()
		err := writeFork(fr, &ops[i])
		chunks = append(chunks, clone(buf.Bytes()))
		errs = append(errs, err)
	}
	return
}

func writeAllX(ops []op, illegal bool) (chunks [][]byte, errs []error, pan any) {
	defer func() {
		if p := recover(); p != nil {
			pan = p
		}
	}()
	var buf bytes.Buffer
	fr := xf.NewFramer(&buf, nil)
	fr.AllowIllegalWrites = illegal
	for i := range ops {
		buf.Reset()
		err := writeX(fr, &ops[i])
		chunks = append(chunks, clone(buf.Bytes()))
		errs = append(errs, err)
	}
	return
}
