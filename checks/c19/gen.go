package main

// Input generators. Everything here builds bytes / parameter lists from the
// PRNG of the job; nothing uses the packages under test (frames for the reader
// are laid out by mk(), header blocks are encoded by x/net v0.19.0's hpack).

import (
	"bytes"
	"math/rand"

	"golang.org/x/net/http2/hpack"

	"verif/internal/ref"
)

func mkLen(length uint32, typ, flags uint8, sid uint32, payload []byte) []byte {
	b := make([]byte, 0, 9+len(payload))
	b = append(b, byte(length>>16), byte(length>>8), byte(length), typ, flags, byte(sid>>24), byte(sid>>16), byte(sid>>8), byte(sid))
	return append(b, payload...)
}

func mk(typ, flags uint8, sid uint32, payload []byte) []byte {
	return mkLen(uint32(len(payload)), typ, flags, sid, payload)
}

func rbytes(r *rand.Rand, n int) []byte {
	b := make([]byte, n)
	r.Read(b)
	return b
}

func u32(v uint32) []byte { return []byte{byte(v >> 24), byte(v >> 16), byte(v >> 8), byte(v)} }

var someSids = []uint32{1, 2, 3, 5, 0x7fffffff, 0x7ffffffe}

func goodSid(r *rand.Rand) uint32 {
	if r.Intn(3) == 0 {
		return uint32(r.Int31()) | 1
	}
	return someSids[r.Intn(len(someSids))]
}

func validSid(r *rand.Rand, typ uint8) uint32 {
	switch typ {
	case ref.FSettings, ref.FPing, ref.FGoAway:
		return 0
	case ref.FWindowUpdate:
		if r.Intn(2) == 0 {
			return 0
		}
	}
	s := goodSid(r)
	if r.Intn(8) == 0 {
		s |= 1 << 31 // reserved bit: ignored by a reader
	}
	return s
}

var definedFlags = map[uint8][]uint8{
	ref.FData: {0x1, 0x8}, ref.FHeaders: {0x1, 0x4, 0x8, 0x20}, ref.FSettings: {0x1}, ref.FPushPromise: {0x4, 0x8}, ref.FPing: {0x1}, ref.FContinuation: {0x4},
}

func validFlags(r *rand.Rand, typ uint8) uint8 {
	var f uint8
	for _, b := range definedFlags[typ] {
		if r.Intn(2) == 0 {
			f |= b
		}
	}
	if typ == ref.FSettings && r.Intn(3) != 0 {
		f = 0
	}
	if r.Intn(10) == 0 {
		f |= 0x40 // an undefined flag: ignored by a reader
	}
	return f
}

// pseudo / regular: single-byte indexed representations of static-table entries
var pseudoIdx = []byte{0x82, 0x86, 0x84}        // :method GET, :scheme http, :path /
var regularIdx = []byte{0x90, 0x8f, 0x93, 0xa1} // accept-encoding "gzip, deflate", accept-charset "", accept "", etag ""

func fragBytes(r *rand.Rand, regularOnly bool) []byte {
	var b []byte
	if !regularOnly {
		b = append(b, pseudoIdx[:r.Intn(4)]...)
	}
	for k := r.Intn(4); k > 0; k-- {
		b = append(b, regularIdx[r.Intn(len(regularIdx))])
	}
	return b
}

// validPayload lays out a payload that is valid for the type and flags (RFC 7540 §6).
func validPayload(r *rand.Rand, typ, flags uint8) []byte {
	padded := func(body []byte, fixed []byte) []byte {
		if flags&ref.FlPadded == 0 {
			return append(fixed, body...)
		}
		n := r.Intn(12)
		if r.Intn(6) == 0 {
			n = 255
		}
		p := append([]byte{byte(n)}, fixed...)
		p = append(p, body...)
		return append(p, make([]byte, n)...)
	}
	switch typ {
	case ref.FData:
		return padded(rbytes(r, r.Intn(24)), nil)
	case ref.FHeaders:
		var fixed []byte
		if flags&ref.FlPriority != 0 {
			fixed = append(u32(uint32(r.Int31())|uint32(r.Intn(2))<<31), byte(r.Intn(256)))
		}
		return padded(fragBytes(r, false), fixed)
	case ref.FPriority:
		return append(u32(r.Uint32()), byte(r.Intn(256)))
	case ref.FRSTStream:
		return u32(uint32(r.Intn(16)))
	case ref.FSettings:
		if flags&ref.FlAck != 0 {
			return nil
		}
		var p []byte
		for k := r.Intn(5); k > 0; k-- {
			id := []uint16{1, 3, 4, 6, 8, 0x10, 0xffff}[r.Intn(7)]
			p = append(p, byte(id>>8), byte(id))
			p = append(p, u32(uint32(r.Int31()))...)
		}
		return p
	case ref.FPushPromise:
		return padded(fragBytes(r, false), u32(uint32(r.Int31())|2|uint32(r.Intn(2))<<31))
	case ref.FPing:
		return rbytes(r, 8)
	case ref.FGoAway:
		return append(append(u32(r.Uint32()), u32(uint32(r.Intn(16)))...), rbytes(r, r.Intn(12))...)
	case ref.FWindowUpdate:
		return u32(uint32(1+r.Intn(1<<30)) | uint32(r.Intn(2))<<31)
	case ref.FContinuation:
		return fragBytes(r, true)
	}
	return rbytes(r, r.Intn(16))
}

// validUnit: one valid frame, or a complete header block HEADERS + CONTINUATION*.
func validUnit(r *rand.Rand) [][]byte {
	typ := uint8(r.Intn(11))
	if typ == ref.FContinuation {
		typ = ref.FHeaders
	}
	flags := validFlags(r, typ)
	sid := validSid(r, typ)
	if typ != ref.FHeaders && typ != ref.FPushPromise {
		return [][]byte{mk(typ, flags, sid, validPayload(r, typ, flags))}
	}
	n := r.Intn(3)
	if n > 0 {
		flags &^= ref.FlEndHeaders
	} else {
		flags |= ref.FlEndHeaders
	}
	out := [][]byte{mk(typ, flags, sid, validPayload(r, typ, flags))}
	for i := 0; i < n; i++ {
		var f uint8
		if i == n-1 {
			f = ref.FlEndHeaders
		}
		out = append(out, mk(ref.FContinuation, f, sid, fragBytes(r, true)))
	}
	return out
}

func pickCfg(r *rand.Rand) cfg {
	c := pickCfg0(r)
	// frame reuse (SetReuseFrames) must not change what is read (after seeded change C19-M: a recycled
	// MetaHeadersFrame kept the Truncated flag of an earlier block)
	c.Reuse = r.Intn(4) == 0
	return c
}

func pickCfg0(r *rand.Rand) cfg {
	switch r.Intn(8) {
	case 0, 1, 2:
		return cfg{Meta: true}
	case 3:
		return cfg{Limit: 16384}
	case 4:
		return cfg{AllowIllegalReads: true}
	case 5:
		return cfg{Meta: true, Limit: 16384 + uint32(r.Intn(100))}
	}
	return cfg{}
}

// ---------------------------------------------------------------- round-trip parameters

func rtSid(r *rand.Rand, illegal bool) uint32 {
	if r.Intn(14) == 0 || (illegal && r.Intn(3) == 0) {
		return []uint32{0, 1 << 31, 1<<31 | 1, 0xffffffff, 1<<31 | uint32(r.Int31())}[r.Intn(5)]
	}
	return goodSid(r)
}

func rtLen(r *rand.Rand) int {
	switch r.Intn(14) {
	case 0:
		return 0
	case 1:
		return 1
	case 2:
		return r.Intn(300)
	case 3:
		return []int{16383, 16384, 16385}[r.Intn(3)]
	case 4:
		return r.Intn(70000)
	}
	return r.Intn(64)
}

func rtPadLen(r *rand.Rand) int {
	switch r.Intn(6) {
	case 0:
		return 0
	case 1:
		return 1
	case 2:
		return 255
	case 3:
		return 254
	}
	return r.Intn(256)
}

func rtPrio(r *rand.Rand, illegal bool) prio {
	if r.Intn(3) == 0 {
		return prio{}
	}
	p := prio{Dep: []uint32{0, 1, 3, 0x7fffffff, uint32(r.Int31())}[r.Intn(5)], Excl: r.Intn(2) == 0, W: []uint8{0, 1, 15, 255, uint8(r.Intn(256))}[r.Intn(5)]}
	if r.Intn(20) == 0 || (illegal && r.Intn(4) == 0) {
		p.Dep |= 1 << 31
	}
	return p
}

var settingVals = []uint32{0, 1, 2, 100, 1<<14 - 1, 1 << 14, 1<<16 - 1, 1<<24 - 1, 1 << 24, 1<<31 - 1, 1 << 31, 1<<32 - 1}

func rtSettings(r *rand.Rand) []ref.FSetting {
	n := r.Intn(8)
	if r.Intn(30) == 0 {
		n = 100 + r.Intn(200)
	}
	var ss []ref.FSetting
	for i := 0; i < n; i++ {
		s := ref.FSetting{ID: uint16(r.Intn(10)), Val: settingVals[r.Intn(len(settingVals))]}
		if r.Intn(5) == 0 {
			s.ID = uint16(r.Intn(1 << 16))
		}
		if r.Intn(3) == 0 {
			s.Val = r.Uint32()
		}
		if s.ID == 4 && s.Val > 1<<31-1 && r.Intn(4) != 0 {
			s.Val &= 1<<31 - 1
		}
		ss = append(ss, s)
	}
	return ss
}

func rtHeaderUnit(r *rand.Rand, illegal bool, frags [][]byte) []op {
	sid := rtSid(r, illegal)
	var ops []op
	first := op{M: "headers", Sid: sid, Data: frags[0], EndH: len(frags) == 1, End: r.Intn(2) == 0, Prio: rtPrio(r, illegal)}
	if r.Intn(2) == 0 {
		first.PadLen = uint8(rtPadLen(r))
	}
	if r.Intn(6) == 0 {
		first = op{M: "pp", Sid: sid, Data: frags[0], EndH: len(frags) == 1, Promise: rtSid(r, illegal), PadLen: first.PadLen}
	}
	ops = append(ops, first)
	for i := 1; i < len(frags); i++ {
		ops = append(ops, op{M: "continuation", Sid: sid, Data: frags[i], EndH: i == len(frags)-1})
	}
	return ops
}

func genRT(r *rand.Rand) *rtcase {
	tc := &rtcase{Illegal: r.Intn(6) == 0}
	il := tc.Illegal
	for u := 1 + r.Intn(4); u > 0; u-- {
		switch r.Intn(14) {
		case 0:
			tc.Ops = append(tc.Ops, op{M: "data", Sid: rtSid(r, il), End: r.Intn(2) == 0, Data: rbytes(r, rtLen(r))})
		case 1:
			o := op{M: "datapad", Sid: rtSid(r, il), End: r.Intn(2) == 0, Data: rbytes(r, rtLen(r))}
			switch r.Intn(8) {
			case 0:
				o.PadNil = true
			case 1:
				o.Pad = []byte{}
			default:
				o.Pad = make([]byte, rtPadLen(r))
			}
			if r.Intn(25) == 0 {
				o.Pad = make([]byte, 256+r.Intn(50))
			}
			if len(o.Pad) > 0 && (r.Intn(20) == 0 || (il && r.Intn(3) == 0)) {
				o.Pad[r.Intn(len(o.Pad))] = byte(1 + r.Intn(255))
			}
			tc.Ops = append(tc.Ops, o)
		case 2, 3:
			n := 1 + r.Intn(4)
			if r.Intn(2) == 0 {
				n = 1
			}
			var frags [][]byte
			for i := 0; i < n; i++ {
				frags = append(frags, rbytes(r, rtLen(r)%400))
			}
			tc.Ops = append(tc.Ops, rtHeaderUnit(r, il, frags)...)
		case 4:
			tc.Ops = append(tc.Ops, op{M: "priority", Sid: rtSid(r, il), Prio: rtPrio(r, il)})
		case 5:
			tc.Ops = append(tc.Ops, op{M: "rst", Sid: rtSid(r, il), Code: []uint32{0, 1, 8, 13, 14, 1<<32 - 1, r.Uint32()}[r.Intn(7)]})
		case 6:
			tc.Ops = append(tc.Ops, op{M: "settings", Settings: rtSettings(r)})
		case 7:
			tc.Ops = append(tc.Ops, op{M: "settingsack"})
		case 8:
			o := op{M: "ping", Ack: r.Intn(2) == 0}
			r.Read(o.Ping[:])
			tc.Ops = append(tc.Ops, o)
		case 9:
			tc.Ops = append(tc.Ops, op{M: "goaway", Last: []uint32{0, 1, 1<<31 - 1, 1 << 31, 1<<32 - 1, r.Uint32()}[r.Intn(6)], Code: r.Uint32() >> uint(r.Intn(32)), Data: rbytes(r, rtLen(r)%500)})
		case 10:
			o := op{M: "wu", Sid: rtSid(r, il), Incr: []uint32{1, 2, 65535, 1<<31 - 1, uint32(1 + r.Intn(1<<31-1))}[r.Intn(5)]}
			if r.Intn(2) == 0 {
				o.Sid = 0
			}
			if r.Intn(12) == 0 || (il && r.Intn(2) == 0) {
				o.Incr = []uint32{0, 1 << 31, 1<<31 | 5, 1<<32 - 1}[r.Intn(4)]
			}
			tc.Ops = append(tc.Ops, o)
		case 11, 12:
			o := op{M: "raw", Type: uint8(10 + r.Intn(246)), Flags: uint8(r.Intn(256)), Sid: rtSid(r, true), Data: rbytes(r, rtLen(r)%2000)}
			if r.Intn(3) == 0 { // a known type through WriteRawFrame, valid layout
				o.Type = uint8(r.Intn(9))
				o.Flags = validFlags(r, o.Type)
				o.Sid = validSid(r, o.Type)
				o.Data = validPayload(r, o.Type, o.Flags)
				if o.Type == ref.FHeaders || o.Type == ref.FPushPromise {
					o.Flags |= ref.FlEndHeaders
				}
			}
			tc.Ops = append(tc.Ops, o)
		case 13:
			tc.Ops = append(tc.Ops, op{M: "data", Sid: rtSid(r, il), End: true})
		}
	}
	tc.Cfgs = []cfg{{}}
	switch r.Intn(5) {
	case 0:
		tc.Cfgs = append(tc.Cfgs, cfg{AllowIllegalReads: true})
	case 1:
		tc.Cfgs = append(tc.Cfgs, cfg{Meta: true})
	case 2:
		tc.Cfgs = append(tc.Cfgs, cfg{Limit: []uint32{16384, 16385, 70000, 1<<24 - 1, 1 << 24, 1<<32 - 1}[r.Intn(6)]})
	}
	return tc
}

const nRTBig = 9

// genRTBig: payload lengths at the 24-bit boundary.
func genRTBig(i int) *rtcase {
	const max = 1<<24 - 1
	tc := &rtcase{Cfgs: []cfg{{}, {Limit: 1 << 20}}}
	switch i {
	case 0:
		tc.Ops = []op{{M: "data", Sid: 1, Zeros: max}}
	case 1:
		tc.Ops = []op{{M: "data", Sid: 1, Zeros: max + 1}, {M: "ping"}}
	case 2:
		tc.Ops = []op{{M: "datapad", Sid: 1, Zeros: max - 256, Pad: make([]byte, 255)}}
	case 3:
		tc.Ops = []op{{M: "datapad", Sid: 1, Zeros: max - 255, Pad: make([]byte, 255)}, {M: "settingsack"}}
	case 4:
		tc.Ops = []op{{M: "headers", Sid: 1, EndH: true, Zeros: max - 261, PadLen: 255, Prio: prio{Dep: 3, W: 7}}}
	case 5:
		tc.Ops = []op{{M: "goaway", Last: 7, Code: 2, Zeros: max - 8}}
	case 6:
		tc.Ops = []op{{M: "raw", Type: 0xfa, Flags: 0xff, Sid: 9, Zeros: max}}
	case 7:
		tc.Ops = []op{{M: "headers", Sid: 5, Data: []byte{0x82}}, {M: "continuation", Sid: 5, EndH: true, Zeros: max}}
	case 8:
		tc.Ops = []op{{M: "pp", Sid: 1, Promise: 2, EndH: true, Zeros: max - 4}, {M: "pp", Sid: 1, Promise: 4, EndH: true, Zeros: max - 3}}
	}
	return tc
}

// ---------------------------------------------------------------- header lists

var regNames = []string{"accept", "accept-encoding", "user-agent", "cookie", "x-verif", "content-type", "content-length", "x-a", "te", "cache-control", "a", "z9-_.~!#$%&'*+^`|"}

func printable(r *rand.Rand, n int) string {
	b := make([]byte, n)
	for i := range b {
		switch r.Intn(12) {
		case 0:
			b[i] = byte(0x80 + r.Intn(0x80)) // obs-text
		case 1:
			if i > 0 && i < n-1 {
				b[i] = " \t"[r.Intn(2)]
			} else {
				b[i] = 'x'
			}
		default:
			b[i] = byte(0x21 + r.Intn(0x7e-0x21+1))
		}
	}
	return string(b)
}

func genFields(r *rand.Rand, small bool) []ref.HF {
	var fs []ref.HF
	if r.Intn(4) != 0 {
		fs = append(fs, ref.HF{Name: ":method", Value: []string{"GET", "POST", "PUT"}[r.Intn(3)]})
		if r.Intn(8) != 0 {
			fs = append(fs, ref.HF{Name: ":scheme", Value: []string{"https", "http"}[r.Intn(2)]})
		}
		if small || r.Intn(2) == 0 {
			fs = append(fs, ref.HF{Name: ":path", Value: []string{"/", "/index.html"}[r.Intn(2)]})
		} else {
			fs = append(fs, ref.HF{Name: ":path", Value: "/" + printable(r, r.Intn(40))})
		}
		if !small && r.Intn(2) == 0 {
			fs = append(fs, ref.HF{Name: ":authority", Value: "example.com"})
		}
	} else {
		fs = append(fs, ref.HF{Name: ":status", Value: []string{"200", "204", "404", "500", "101"}[r.Intn(5)]})
	}
	n := r.Intn(10)
	if small {
		n = r.Intn(3)
	}
	for i := 0; i < n; i++ {
		f := ref.HF{Name: regNames[r.Intn(len(regNames))]}
		switch {
		case small && r.Intn(2) == 0:
			f = ref.HF{Name: "accept-encoding", Value: "gzip, deflate"}
		case small:
			f.Value = printable(r, r.Intn(4))
		case r.Intn(12) == 0:
			f.Value = printable(r, r.Intn(3000))
		default:
			f.Value = printable(r, r.Intn(30))
		}
		f.Sensitive = r.Intn(10) == 0
		fs = append(fs, f)
	}
	return fs
}

func breakFields(r *rand.Rand, fs []ref.HF) []ref.HF {
	fs = append([]ref.HF(nil), fs...)
	np := 0
	for np < len(fs) && len(fs[np].Name) > 0 && fs[np].Name[0] == ':' {
		np++
	}
	insert := func(at int, f ref.HF) {
		fs = append(fs[:at], append([]ref.HF{f}, fs[at:]...)...)
	}
	regAt := np + r.Intn(len(fs)-np+1)
	switch r.Intn(15) {
	case 0:
		insert(regAt, ref.HF{Name: "X-Upper", Value: "v"})
	case 1:
		insert(regAt, ref.HF{Name: "", Value: "v"})
	case 2:
		insert(regAt, ref.HF{Name: []string{"a b", "a:b", "a\x00", "\xc3\xa9", "a("}[r.Intn(5)], Value: "v"})
	case 3:
		insert(regAt, ref.HF{Name: "x-a", Value: "a\nb"})
	case 4:
		insert(regAt, ref.HF{Name: "x-a", Value: []string{"a\x00b", "\r", "a\x01", "\x1f"}[r.Intn(4)]})
	case 5:
		insert(regAt, ref.HF{Name: "x-a", Value: "a\x7f"})
	case 6:
		fs = append(fs, ref.HF{Name: "x-a", Value: "1"}, ref.HF{Name: ":path", Value: "/late"})
	case 7:
		insert(r.Intn(np+1), ref.HF{Name: []string{":foo", ":", ":Method", ":status "}[r.Intn(4)], Value: "x"})
	case 8:
		insert(r.Intn(np+1), ref.HF{Name: fs[0].Name, Value: fs[0].Value})
	case 9:
		if fs[0].Name == ":status" {
			insert(r.Intn(np+1), ref.HF{Name: ":method", Value: "GET"})
		} else {
			insert(r.Intn(np+1), ref.HF{Name: ":status", Value: "200"})
		}
	case 10:
		insert(r.Intn(np+1), ref.HF{Name: ":protocol", Value: "websocket"})
	case 11:
		insert(regAt, ref.HF{Name: "x-a", Value: []string{" lead", "trail ", "\ttab"}[r.Intn(3)]})
	case 12:
		insert(np, ref.HF{Name: ":authority", Value: "a"})
		insert(np, ref.HF{Name: ":authority", Value: "b"})
	case 13:
		fs[r.Intn(len(fs))].Value += []string{"\n", "\x00", "\r\n"}[r.Intn(3)] // also reaches pseudo-header values
	case 14:
		insert(regAt, ref.HF{Name: "x-ok", Value: "fine"}) // stays valid
	}
	return fs
}

func encodeList(enc *hpack.Encoder, buf *bytes.Buffer, fs []ref.HF) []byte {
	buf.Reset()
	for _, f := range fs {
		enc.WriteField(hpack.HeaderField{Name: f.Name, Value: f.Value, Sensitive: f.Sensitive})
	}
	return clone(buf.Bytes())
}

func cutAt(block []byte, cuts []int) [][]byte {
	var frags [][]byte
	last := 0
	for _, c := range cuts {
		frags = append(frags, block[last:c])
		last = c
	}
	return append(frags, block[last:])
}

func randCuts(r *rand.Rand, n int) []int {
	k := r.Intn(5)
	var cuts []int
	for i := 0; i < k; i++ {
		cuts = append(cuts, r.Intn(n+1))
	}
	// sorted, duplicates allowed (= empty fragments)
	for i := range cuts {
		for j := i + 1; j < len(cuts); j++ {
			if cuts[j] < cuts[i] {
				cuts[i], cuts[j] = cuts[j], cuts[i]
			}
		}
	}
	return cuts
}

func mutateBlock(r *rand.Rand, b []byte) []byte {
	b = clone(b)
	if len(b) == 0 {
		return []byte{byte(r.Intn(256))}
	}
	switch r.Intn(4) {
	case 0:
		b[r.Intn(len(b))] ^= 1 << uint(r.Intn(8))
	case 1:
		b = b[:r.Intn(len(b))]
	case 2:
		i := r.Intn(len(b) + 1)
		b = append(b[:i], append([]byte{byte(r.Intn(256))}, b[i:]...)...)
	case 3:
		b[r.Intn(len(b))] = byte(r.Intn(256))
	}
	return b
}

// genHdr: header lists -> header blocks -> HEADERS + CONTINUATION write calls.
// mode valid: valid lists, Blocks recorded for the direct comparison; a single block of
// <= 32 bytes is cut at every position (one case per position).
func genHdr(r *rand.Rand, mode string) []*rtcase {
	var buf bytes.Buffer
	enc := hpack.NewEncoder(&buf)
	small := mode == "valid" && r.Intn(2) == 0
	nblocks := 1
	if !small {
		nblocks += r.Intn(3)
	}
	var lists [][]ref.HF
	var blocks [][]byte
	for i := 0; i < nblocks; i++ {
		fs := genFields(r, small)
		if mode == "invalid" && r.Intn(10) < 7 {
			fs = breakFields(r, fs)
		}
		b := encodeList(enc, &buf, fs)
		if mode == "invalid" && r.Intn(5) == 0 {
			b = mutateBlock(r, b)
		}
		lists, blocks = append(lists, fs), append(blocks, b)
	}
	build := func(cutsPer [][]int) *rtcase {
		tc := &rtcase{}
		sid := uint32(1 + 2*r.Intn(50))
		for i, b := range blocks {
			u := rtHeaderUnit(r, false, cutAt(b, cutsPer[i]))
			for k := range u {
				u[k].Sid = sid
				if u[k].M == "pp" { // keep HEADERS here: PUSH_PROMISE blocks are exercised by the rt family
					u[k] = op{M: "headers", Sid: sid, Data: u[k].Data, EndH: u[k].EndH, PadLen: u[k].PadLen}
				}
				if u[k].Prio.Dep>>31 == 1 {
					u[k].Prio.Dep &= 1<<31 - 1
				}
			}
			tc.Ops = append(tc.Ops, u...)
			sid += 2
		}
		switch mode {
		case "valid":
			tc.Blocks = lists
			tc.Cfgs = []cfg{{}, {Meta: true}, {Meta: true, Reuse: true}}
		case "invalid":
			tc.Cfgs = []cfg{{Meta: true}}
			if r.Intn(4) == 0 {
				tc.Cfgs = append(tc.Cfgs, cfg{})
			}
		case "smalllist":
			var total uint32
			for _, f := range lists[0] {
				total += uint32(len(f.Name) + len(f.Value) + 32)
			}
			ml := []uint32{1, 32, total - 1, total, total + 1, total / 2, total / 3, uint32(1 + r.Intn(int(2*total))), uint32(len(blocks[0]) / 2), uint32(1 + len(blocks[0])/3)}[r.Intn(10)]
			if ml == 0 {
				ml = 1
			}
			tc.Cfgs = []cfg{{Meta: true, MaxList: ml}, {Meta: true, MaxList: ml, Reuse: true}}
		}
		return tc
	}
	var out []*rtcase
	if small && len(blocks[0]) <= 32 {
		out = append(out, build([][]int{nil}))
		for c := 0; c <= len(blocks[0]); c++ {
			out = append(out, build([][]int{{c}}))
		}
		out = append(out, build([][]int{randCuts(r, len(blocks[0]))}))
		return out
	}
	cuts := make([][]int, len(blocks))
	for i, b := range blocks {
		cuts[i] = randCuts(r, len(b))
	}
	return append(out, build(cuts))
}

// ---------------------------------------------------------------- reader families

// genTypeFlag: frame header with type idx>>8 and flag byte idx&255.
func genTypeFlag(r *rand.Rand, idx int, w *worker) {
	typ, flags := uint8(idx>>8), uint8(idx)
	sid := validSid(r, typ)
	a := mk(typ, flags, sid, validPayload(r, typ, flags&^0x40|flags&0x40))
	if typ == ref.FContinuation && r.Intn(2) == 0 {
		a = append(mk(ref.FHeaders, 0, sid, []byte{0x82}), a...)
	}
	c := cfg{}
	if typ == ref.FHeaders && idx&1 == 1 {
		c.Meta = true
	}
	w.stream("typeflag", a, c, nil)
	sid2 := []uint32{0, 1, 1<<31 | 1, 1 << 31, 3}[r.Intn(5)]
	b := mk(typ, flags, sid2, rbytes(r, r.Intn(13)))
	if r.Intn(3) == 0 {
		b = append(b, mk(ref.FPing, 0, 0, rbytes(r, 8))...)
	}
	c2 := cfg{}
	if typ == ref.FHeaders && r.Intn(2) == 0 {
		c2.Meta = true
	}
	w.stream("typeflag", b, c2, nil)
}

// genLengths: every payload length around the fixed-size rules, for stream 0 and 1
// and every defined flag combination of the type.
func genLengths(r *rand.Rand, idx int, w *worker) {
	typ := uint8(idx % 12)
	style := idx / 12
	maxL := 26
	if typ == ref.FSettings {
		maxL = 38
	}
	fl := []uint8{0, 0xff}
	defs := definedFlags[typ]
	for m := 1; m < 1<<len(defs); m++ {
		var f uint8
		for i, b := range defs {
			if m&(1<<i) != 0 {
				f |= b
			}
		}
		fl = append(fl, f)
	}
	for L := 0; L <= maxL; L++ {
		for _, sid := range []uint32{0, 1} {
			for _, f := range fl {
				for v := 0; v < 3; v++ {
					var p []byte
					switch (v + style) % 3 {
					case 0:
						p = make([]byte, L)
					case 1:
						p = rbytes(r, L)
					default: // small first byte: plausible pad length
						p = rbytes(r, L)
						if L > 0 {
							p[0] = byte(r.Intn(L + 2))
						}
					}
					c := cfg{}
					if typ == ref.FHeaders && v == 2 {
						c.Meta = true
					}
					s := mk(typ, f, sid, p)
					if typ == ref.FContinuation {
						s = append(mk(ref.FHeaders, 0, 1, nil), s...)
					}
					w.stream("lengths", s, c, nil)
				}
			}
		}
	}
}

func genMutate(r *rand.Rand) ([]byte, cfg) {
	var frames [][]byte
	for u := 1 + r.Intn(3); u > 0; u-- {
		frames = append(frames, validUnit(r)...)
	}
	k := r.Intn(len(frames))
	f := clone(frames[k])
	plen := len(f) - 9
	setLen := func(n int) {
		if n < 0 {
			n = 0
		}
		f[0], f[1], f[2] = byte(n>>16), byte(n>>8), byte(n)
	}
	switch r.Intn(12) {
	case 0: // length field only
		setLen([]int{plen - 1, plen + 1, 0, plen + r.Intn(20), r.Intn(1 << 24)}[r.Intn(5)])
	case 1: // length field and payload together
		n := []int{plen - 1, plen + 1, plen - 2, plen + 6, 0, r.Intn(40)}[r.Intn(6)]
		if n < 0 {
			n = 0
		}
		if n <= plen {
			f = f[:9+n]
		} else {
			f = append(f, rbytes(r, n-plen)...)
		}
		setLen(n)
	case 2:
		f[3] = uint8(r.Intn(12))
	case 3:
		f[3] = uint8(r.Intn(256))
	case 4:
		f[4] ^= 1 << uint(r.Intn(8))
	case 5:
		f[4] = uint8(r.Intn(256))
	case 6:
		copy(f[5:9], u32([]uint32{0, 1, 1 << 31, 1<<31 | 1, 2, 0x7fffffff, r.Uint32()}[r.Intn(7)]))
	case 7:
		if plen > 0 {
			i := 9 + r.Intn(plen)
			if r.Intn(2) == 0 {
				i = 9 + r.Intn(min(plen, 6))
			}
			f[i] = []byte{0, 0xff, 0x80, 0x7f, byte(r.Intn(256)), byte(plen), byte(plen - 1), byte(plen + 1)}[r.Intn(8)]
		}
	case 8:
		if plen > 0 && f[4]&ref.FlPadded != 0 {
			f[9] = []byte{byte(plen - 1), byte(plen), byte(plen - 2), 255, byte(plen - 6), byte(plen - 5)}[r.Intn(6)]
		} else {
			f[4] |= ref.FlPadded
		}
	case 9: // reorder / duplicate / drop
		switch r.Intn(3) {
		case 0:
			frames = append(frames[:k], append([][]byte{f, f}, frames[k+1:]...)...)
		case 1:
			j := r.Intn(len(frames))
			frames[k], frames[j] = frames[j], frames[k]
			f = frames[k]
		default:
			f = nil
		}
	case 10: // insert a frame
		frames = append(frames[:k], append([][]byte{validUnit(r)[0]}, frames[k:]...)...)
	case 11:
		if f[3] == ref.FSettings && plen >= 6 { // a setting the Framer or its caller must refuse
			i := 9 + 6*r.Intn(plen/6)
			id := []uint16{2, 4, 5, 4}[r.Intn(4)]
			f[i], f[i+1] = byte(id>>8), byte(id)
			copy(f[i+2:], u32([]uint32{2, 1 << 31, 1<<32 - 1, 1<<14 - 1, 1 << 24, 0, 1, 1<<31 - 1, 1 << 14}[r.Intn(9)]))
		} else if (f[3] == ref.FHeaders && f[4]&ref.FlPriority != 0 && f[4]&ref.FlPadded == 0 && plen >= 5) || (f[3] == ref.FPriority && plen == 5) {
			copy(f[9:13], f[5:9]) // depends on itself
		}
	}
	frames[k] = f
	s := bytes.Join(frames, nil)
	if r.Intn(12) == 0 && len(s) > 0 {
		s = s[:r.Intn(len(s))]
	}
	return s, pickCfg(r)
}

var seqAlphabet = [][]byte{
	mk(ref.FHeaders, 0, 1, []byte{0x82}),                      // H1 open
	mk(ref.FHeaders, ref.FlEndHeaders, 1, []byte{0x82, 0x84}), // H1 complete
	mk(ref.FHeaders, 0, 3, []byte{0x82}),                      // H3 open
	mk(ref.FHeaders, ref.FlEndHeaders|ref.FlEndStream, 1, []byte{0x82}),
	mk(ref.FContinuation, 0, 1, []byte{0x90}),                           // C1 open
	mk(ref.FContinuation, ref.FlEndHeaders, 1, []byte{0x90}),            // C1 end
	mk(ref.FContinuation, 0, 3, []byte{0x90}),                           // C3 open
	mk(ref.FContinuation, ref.FlEndHeaders, 3, []byte{0x90}),            // C3 end
	mk(ref.FData, ref.FlEndStream, 1, []byte("hi")),                     // DATA
	mk(ref.FPing, 0, 0, []byte("12345678")),                             // PING
	mk(0x0b, 0, 1, []byte("x")),                                         // unknown type
	mk(ref.FPushPromise, ref.FlEndHeaders, 1, []byte{0, 0, 0, 2, 0x82}), // PUSH_PROMISE complete
	mk(ref.FPushPromise, 0, 1, []byte{0, 0, 0, 2, 0x82}),                // PUSH_PROMISE open
	mk(ref.FWindowUpdate, 0, 3, []byte{0, 0, 0, 0}),                     // stream error
	mk(ref.FContinuation, ref.FlEndHeaders, 0, []byte{0x90}),            // CONTINUATION on stream 0
}

func seqJobs() int { return len(seqAlphabet) * len(seqAlphabet) }

var seqCfgs = []cfg{{}, {Meta: true}, {AllowIllegalReads: true}}

// genSeq: job (a,b) -> [a] (once), [a,b], [a,b,c], [a,b,c,d] for all c, d.
func genSeq(idx int, w *worker) {
	n := len(seqAlphabet)
	a, b := idx/n, idx%n
	emit := func(ix ...int) {
		var s []byte
		for _, i := range ix {
			s = append(s, seqAlphabet[i]...)
		}
		for _, c := range seqCfgs {
			w.stream("seq", s, c, nil)
		}
	}
	if b == 0 {
		emit(a)
	}
	emit(a, b)
	for c := 0; c < n; c++ {
		emit(a, b, c)
		for d := 0; d < n; d++ {
			emit(a, b, c, d)
		}
	}
}

func genRandom(r *rand.Rand) ([]byte, cfg) {
	if r.Intn(3) == 0 {
		return rbytes(r, r.Intn(90)), pickCfg(r)
	}
	var s []byte
	for k := 1 + r.Intn(3); k > 0; k-- {
		n := r.Intn(24)
		typ := uint8(r.Intn(12))
		if r.Intn(10) == 0 {
			typ = uint8(r.Intn(256))
		}
		sid := []uint32{0, 1, 1, 3, 1<<31 | 1, r.Uint32()}[r.Intn(6)]
		s = append(s, mk(typ, uint8(r.Intn(256)), sid, rbytes(r, n))...)
	}
	return s, pickCfg(r)
}

func limitIsBig(i int) bool { return i%8 == 7 }

// genLimits: SetMaxReadFrameSize(L) and a frame of length L-1, L, L+1.
func genLimits(r *rand.Rand, idx int) (*genSpec, cfg) {
	var L uint32
	if limitIsBig(idx) {
		L = []uint32{1<<24 - 2, 1<<24 - 1, 1 << 24, 1<<32 - 1, 1 << 23, 1<<20 + uint32(r.Intn(1<<24-1<<20))}[r.Intn(6)]
	} else {
		L = []uint32{16384, 16385, 16390, 20000, 32768, 65535, 65536, 100000, 1 << 20, 16384 + uint32(r.Intn(1<<16))}[r.Intn(10)]
	}
	c := cfg{Limit: L}
	if idx%8 == 3 || idx%8 == 5 {
		// limits below 2^14 (the Framer takes any value; SETTINGS_MAX_FRAME_SIZE has a lower bound, the read
		// limit of a Framer has none - after seeded change C19-L), 0 included: only empty frames may be returned
		L = []uint32{0, 1, 2, 8, 9, 10, 100, 255, 256, 1000, 4096, 16383, uint32(r.Intn(16384))}[r.Intn(13)]
		c = cfg{Limit: L, LimitZero: L == 0}
	}
	eff := c.effLimit()
	length := eff + uint32(idx/8%3) - 1
	if eff == 0 && idx/8%3 == 0 {
		length = uint32(1 + r.Intn(16384)) // (no frame of length -1: any length up to the usual maximum instead)
	}
	if length > 1<<24-1 {
		length = eff
	}
	g := &genSpec{Len: length, PayloadLen: length}
	switch r.Intn(6) {
	case 0:
		g.Typ, g.Sid, g.Flags = ref.FData, 1, uint8(r.Intn(2))
	case 1:
		g.Typ, g.Sid, g.Flags = ref.FHeaders, 1, ref.FlEndHeaders
	case 2:
		g.Typ = ref.FSettings
	case 3:
		g.Typ, g.Sid, g.Flags = 0xee, 5, 0xff
	case 4:
		g.Typ = ref.FPing
	case 5:
		g.Typ, g.Sid, g.Flags = ref.FContinuation, 1, ref.FlEndHeaders
		g.PrefixHex = "000001010000000001" + "82"
	}
	if r.Intn(3) == 0 {
		g.Fill = 0x41
	}
	if length > eff && r.Intn(2) == 0 {
		g.PayloadLen = uint32(r.Intn(20)) // the reader must refuse after the header, whatever follows
	}
	return g, c
}
