package main

import (
	"fmt"
	"testing"

	"verif/internal/verdict"
)

func TestDbg(t *testing.T) {
	var w witness
	if err := verdict.LoadReplay("/verif/replays/C19-1-5.json", &w); err != nil {
		t.Fatal(err)
	}
	chunks, _, _ := writeAllFork(w.RT.Ops, false)
	var stream []byte
	for _, c := range chunks {
		stream = append(stream, c...)
	}
	c := cfg{Meta: true}
	m := newModel(stream, c)
	for i := 0; i < 3; i++ {
		e := m.next()
		fmt.Printf("call %d: any=%v stop=%v diffWL=%q refKind=%s defects=%v why=%s\n", i+1, e.any, e.stop, e.diffWL, e.refKind, e.defects, e.why)
	}
	outs, _ := readFork(stream, c)
	fmt.Println(outs)
	xo, _ := readX(stream, c)
	fmt.Println(xo)
}
