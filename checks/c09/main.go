//go:build verif

// C09 — forwarding headers tell the backend the truth about the client.
package main

import (
	"crypto/tls"
	"fmt"
	"net"
	"strings"
	"sync"
	"time"

	"verif/internal/rig"
	"verif/internal/verdict"
)

type tcase struct {
	Family    string      `json:"family"`
	Preserve  bool        `json:"preserve_host"`
	Proto     string      `json:"protocol"`
	LocalIP   string      `json:"client_ip"`
	Target    string      `json:"proxy_addr"`
	Host      string      `json:"host"`
	Headers   [][2]string `json:"client_forwarding_headers"`
	XFFClient []string    `json:"client_xff_lines"`
}

func splitList(lines []string) []string {
	var out []string
	for _, l := range lines {
		for _, e := range strings.Split(l, ",") {
			out = append(out, strings.TrimSpace(e))
		}
	}
	return out
}

func main() {
	run := verdict.Start("C09", "exploration",
		"requests over real TCP from several source addresses (127.0.0.1-8, ::1, the interface's own IPv4/IPv6 when present) x {HTTP/1.1 with ALPN, HTTP/1.1 without ALPN, HTTP/2} x {0,1,3} client X-Forwarded-For lines (IPv4, IPv6, garbage) x client Forwarded / X-Forwarded-Host / X-Forwarded-Proto nonces present or not x Host forms x host preservation on/off; distinct by the full tuple")
	be := rig.NewBackend(nil)
	defer be.Close()
	pOff, err := rig.StartProxy(be.URL, rig.ProxyOpts{ListenAddr: ":0"})
	if err != nil {
		run.Inconclusive("start proxy: %v", err)
		run.Finish()
	}
	defer pOff.Stop()
	pOn, err := rig.StartProxy(be.URL, rig.ProxyOpts{ListenAddr: ":0", Args: []string{"-preserve-host"}})
	if err != nil {
		run.Inconclusive("start proxy: %v", err)
		run.Finish()
	}
	defer pOn.Stop()
	port := func(p *rig.Proxy) string { _, pt, _ := net.SplitHostPort(p.Addr); return pt }

	// source addresses that exist on this machine
	type src struct{ ip, target string }
	var srcs []src
	for i := 1; i <= 8; i++ {
		srcs = append(srcs, src{fmt.Sprintf("127.0.0.%d", i), "127.0.0.1"})
	}
	cands := []src{{"::1", "::1"}}
	if ifs, err := net.InterfaceAddrs(); err == nil {
		for _, a := range ifs {
			if ipn, ok := a.(*net.IPNet); ok && !ipn.IP.IsLoopback() && !ipn.IP.IsLinkLocalUnicast() {
				cands = append(cands, src{ipn.IP.String(), ipn.IP.String()})
			}
		}
	}
	var skipped []string
	for _, c := range cands {
		ln, err := net.Listen("tcp", net.JoinHostPort(c.ip, "0"))
		if err != nil {
			skipped = append(skipped, c.ip)
			continue
		}
		ln.Close()
		srcs = append(srcs, c)
	}
	run.Set("source_addresses", func() []string {
		var s []string
		for _, x := range srcs {
			s = append(s, x.ip)
		}
		return s
	}())
	run.Set("source_addresses_skipped", skipped)

	xffSets := [][]string{nil, {"203.0.113.7"}, {"203.0.113.7, 2001:db8::1", "garbage-not-an-ip", "10.0.0.1"}, {""}, {"unknown, 198.51.100.2"}, {"fe80::2%eth1"}, {"198.51.100.3, 6.6.6.6%x", "a%25b;c=\"d\""}}
	hosts := []string{"front.example", "front.example:8443", "[2001:db8::5]:443", "FRONT.Example", "a.b.c.d.example:1"}
	var cases []tcase
	rng := run.Rand(9)
	for _, preserve := range []bool{false, true} {
		for _, proto := range []string{"http/1.1", "h2", "no-alpn"} {
			for si, s := range srcs {
				for xi, xff := range xffSets {
					for fw := 0; fw < 2; fw++ {
						if !run.Thorough() && (si+xi+fw)%3 != 0 && si > 1 {
							continue
						}
						host := hosts[(si+xi+fw)%len(hosts)]
						c := tcase{Family: "matrix", Preserve: preserve, Proto: proto, LocalIP: s.ip, Target: s.target, Host: host, XFFClient: xff}
						cases = append(cases, c)
						_ = fw
					}
				}
			}
		}
	}
	for i := run.Pick(600, 10000); i > 0; i-- {
		s := srcs[rng.Intn(len(srcs))]
		var xff []string
		for k := rng.Intn(4); k > 0; k-- {
			xff = append(xff, []string{"203.0.113.9", "2001:db8::9", "x", "1.2.3.4, 5.6.7.8", " 9.9.9.9 ", "fe80::9%lo", "%", "_hidden", "[2001:db8::a]:4711"}[rng.Intn(9)])
		}
		cases = append(cases, tcase{Family: "random", Preserve: rng.Intn(2) == 0, Proto: []string{"http/1.1", "h2", "no-alpn"}[rng.Intn(3)], LocalIP: s.ip, Target: s.target, Host: hosts[rng.Intn(len(hosts))], XFFClient: xff})
	}

	var wg sync.WaitGroup
	sem := make(chan struct{}, 16)
	for i := range cases {
		wg.Add(1)
		sem <- struct{}{}
		go func(i int) {
			defer wg.Done()
			defer func() { <-sem }()
			c := &cases[i]
			px := pOff
			if c.Preserve {
				px = pOn
			}
			r := run.Rand(int64(9000 + i))
			nonce := fmt.Sprintf("nonce%dx%d", run.Seed, i)
			withFw := c.Family == "random" && r.Intn(2) == 0 || c.Family == "matrix" && i%2 == 0
			name := func(n string) string {
				if c.Proto == "h2" {
					return strings.ToLower(n)
				}
				switch r.Intn(3) {
				case 0:
					return strings.ToLower(n)
				case 1:
					return strings.ToUpper(n)
				}
				return n
			}
			var hs [][2]string
			for _, l := range c.XFFClient {
				if c.Proto == "h2" {
					l = strings.TrimSpace(l)
				}
				hs = append(hs, [2]string{name("X-Forwarded-For"), l})
			}
			if withFw {
				hs = append(hs, [2]string{name("Forwarded"), "for=" + nonce + ";proto=http"})
				hs = append(hs, [2]string{name("X-Forwarded-Host"), nonce + ".evil.example"})
				hs = append(hs, [2]string{name("X-Forwarded-Proto"), "http-" + nonce})
				if r.Intn(2) == 0 {
					hs = append(hs, [2]string{name("X-Forwarded-Proto"), "ftp-" + nonce})
					hs = append(hs, [2]string{name("Forwarded"), "by=" + nonce})
				}
			}
			// HTTP/2: a regular `host` field next to :authority - equal to it (plainly legal) or naming another host
			// (RFC 9113 8.3.1: a server SHOULD treat that as malformed; one that serves it must go by :authority).
			// After seeded change C09-M, where the field overrode :authority.
			hostField := ""
			if c.Proto == "h2" {
				switch i % 6 {
				case 2:
					hostField = c.Host
				case 5:
					hostField = "other-" + nonce + ".internal"
				}
				if hostField != "" {
					hs = append(hs, [2]string{"host", hostField})
					run.Add("h2_requests_with_a_host_field_next_to_authority", 1)
				}
			}
			c.Headers = hs
			tag := fmt.Sprintf("C09-%d-%d", run.Seed, i)
			hs = append(hs, [2]string{name(rig.TagHeader), tag})
			local := &net.TCPAddr{IP: net.ParseIP(c.LocalIP)}
			alpn := []string{c.Proto}
			if c.Proto == "no-alpn" {
				alpn = nil // HTTP/1.1 client whose ClientHello carries no ALPN extension
			}
			var tweak func(*tls.Config)
			if i%5 == 3 { // a hello whose JA3 cannot be computed (253-byte server name, known finding D9): an injector fails for every request
				tweak = func(cfg *tls.Config) { cfg.ServerName = strings.Repeat("b", 253) }
				run.Add("connections_with_failing_fingerprint_injector", 1)
			}
			s, err := rig.Dial(net.JoinHostPort(c.Target, port(px)), alpn, local, tweak)
			if err != nil {
				run.Add("dial_failed", 1)
				return
			}
			defer s.Close()
			if s.Proto == "h2" && i%4 == 1 {
				// legal on a TLS connection too (and what an h2 CONNECT / a gateway rewriting schemes sends)
				s.Scheme = "http"
				run.Add("h2_connections_with_scheme_http", 1)
			}
			if s.Proto == "h2" && i%2 == 0 {
				// use up the server's per-connection cache of canonical header names first (multi-step history)
				var filler [][2]string
				for k := 0; k < 40; k++ {
					filler = append(filler, [2]string{fmt.Sprintf("x-filler-%d-%d-abcdefghij", i, k), "v"})
				}
				filler = append(filler, [2]string{strings.ToLower(rig.TagHeader), tag + "-filler"})
				if _, err := s.Do("GET", "/fwdfiller", c.Host, filler, nil, 20*time.Second); err == nil {
					run.Add("h2_connections_with_header_name_cache_filled", 1)
				}
			}
			// two requests per connection: keep-alive / second stream must be just as truthful
			for k := 0; k < 2; k++ {
				t := tag
				if k == 1 {
					t = tag + "b"
					hs[len(hs)-1][1] = t
				}
				resp, err := s.Do("GET", "/fwd", c.Host, hs, nil, 20*time.Second)
				run.Eval(1)
				if hostField != "" && hostField != c.Host && (err != nil || resp.Status != 200) {
					run.Add("h2_requests_with_conflicting_host_field_refused", 1) // allowed (malformed per RFC 9113 8.3.1)
					break
				}
				if err != nil || resp.Status != 200 {
					run.Violation("request-failed", c, "request failed: %v %v", err, resp)
					return
				}
				recs := be.Records(t)
				if len(recs) != 1 {
					run.Violation("not-forwarded-once", c, "backend saw the request %d times", len(recs))
					return
				}
				rec := recs[0]
				run.Add("requests_judged_"+c.Proto, 1)
				run.Distinct(fmt.Sprintf("%v|%s|%s|%s|%v|%v", c.Preserve, c.Proto, c.LocalIP, c.Host, c.XFFClient, withFw))
				// X-Forwarded-For
				got := splitList(rec.Header.Values("X-Forwarded-For"))
				var want []string
				for _, l := range c.XFFClient {
					want = append(want, l)
				}
				want = splitList(want)
				wantIP := net.ParseIP(s.LocalIP)
				if len(got) == 0 || net.ParseIP(got[len(got)-1]) == nil || !net.ParseIP(got[len(got)-1]).Equal(wantIP) {
					run.Violation("xff-last-not-peer", c, "X-Forwarded-For at the backend is %q; its last element must be the TCP peer %s", rec.Header.Values("X-Forwarded-For"), s.LocalIP)
				} else if strings.Join(got[:len(got)-1], "|") != strings.Join(want, "|") {
					run.Violation("xff-prefix", c, "X-Forwarded-For at the backend is %q; the client-supplied list %q must precede the peer address", rec.Header.Values("X-Forwarded-For"), want)
				}
				if len(rec.Header.Values("X-Forwarded-For")) != 1 {
					run.Add("xff_multiple_lines_at_backend", 1)
				}
				// X-Forwarded-Host
				if v := rec.Header.Values("X-Forwarded-Host"); len(v) != 1 || v[0] != c.Host {
					run.Violation("xfh", c, "X-Forwarded-Host at the backend is %q, the client addressed Host %q", v, c.Host)
				}
				// X-Forwarded-Proto
				if v := rec.Header.Values("X-Forwarded-Proto"); len(v) != 1 || v[0] != "https" {
					run.Violation("xfp-"+c.Proto, c, "X-Forwarded-Proto at the backend is %q over %s; every client connection is TLS, so it must be https", v, c.Proto)
				}
				// nonce leak
				for hn, vs := range rec.Header {
					for _, v := range vs {
						if strings.Contains(v, nonce) {
							run.Violation("client-forwarding-value-passed-on", c, "client-supplied value reached the backend: %s: %q", hn, v)
						}
					}
				}
				if v := rec.Header.Values("Forwarded"); len(v) != 0 && withFw {
					run.Violation("forwarded-passed-on", c, "Forwarded header at the backend: %q", v)
				}
				// Host (statement of C08, cheap to check here as well)
				if c.Preserve && rec.Host != c.Host {
					run.Violation("host-not-preserved", c, "Host at the backend %q, client sent %q with host preservation on", rec.Host, c.Host)
				}
				if run.WantSample() && i%97 == 0 {
					run.Sample(map[string]any{"case": c, "backend_xff": rec.Header.Values("X-Forwarded-For"), "backend_xfh": rec.Header.Values("X-Forwarded-Host"), "backend_xfp": rec.Header.Values("X-Forwarded-Proto")})
				}
			}
		}(i)
	}
	wg.Wait()
	run.Require("requests_judged_h2", 100)
	run.Require("requests_judged_http/1.1", 100)
	run.Require("requests_judged_no-alpn", 50)
	run.Assume("peer addresses are limited to the addresses configured on this machine (loopback range, ::1 and the interface addresses)")
	run.Finish()
}
