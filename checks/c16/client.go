//go:build verif

package main

import (
	"bytes"
	"crypto/tls"
	"encoding/hex"
	"errors"
	"fmt"
	"io"
	"net"
	"os"
	"strings"
	"sync"
	"time"

	"golang.org/x/net/http2"
	"golang.org/x/net/http2/hpack"

	"verif/internal/h2peer"
	"verif/internal/rig"
)

// caseSpec is one client connection: what the client does, as a function of (seed, tier) only.
type caseSpec struct {
	ID    int      `json:"id"`
	Kind  string   `json:"kind"` // h2 h1 noalpn bothalpn h1idle plainhttp garbage stall abort capturefail alpnunknown oldtls
	ALPN  []string `json:"alpn,omitempty"`
	TLS12 bool     `json:"client_max_tls12,omitempty"`
	NReq  int      `json:"requests,omitempty"`
	// how the client ends the connection: tls (close_notify + close), tcp (close without close_notify),
	// half (FIN, read until the server closes, close), rst (linger 0), wait (the server has to close first)
	Close string `json:"close,omitempty"`
	// abort: the client stops after exactly K bytes written to the socket. K is given relative to a
	// landmark of the recorded uncut session of the same configuration (resolved at run time).
	Cut  string `json:"cut,omitempty"`     // fin | rst
	KRel string `json:"cut_rel,omitempty"` // abs | hello | finished | end | permille | never
	KOff int    `json:"cut_off,omitempty"` // offset to the landmark (or the permille)
	K    int    `json:"cut_at_byte"`       // resolved
	// raw kinds: bytes sent instead of a ClientHello
	Payload string `json:"payload_hex,omitempty"`
	// capturefail: record-layer version written into the ClientHello record header
	RecVer uint16 `json:"forged_record_version,omitempty"`
	Mid    bool   `json:"mid_connection_check,omitempty"`
	// batches
	StartUs int `json:"start_delay_us,omitempty"`
	HoldUs  int `json:"hold_us,omitempty"`
}

var (
	lblFail = [2]string{"0", ""}
)

func lblOK(proto string) [2]string { return [2]string{"1", proto} }

// result is what the client knows after the connection.
type result struct {
	Local      string      `json:"client_addr"`
	Connected  bool        `json:"tcp_connected"`
	Allowed    [][2]string `json:"allowed_labels"`
	Weak       bool        `json:"two_label_set"` // the client has no proof which of the two happened
	Why        string      `json:"why"`
	Proto      string      `json:"negotiated_protocol_client_view"`
	TLSVersion uint16      `json:"tls_version,omitempty"`
	HsOK       bool        `json:"client_handshake_ok"`
	HsErr      string      `json:"client_handshake_error,omitempty"`
	ServerDone bool        `json:"proof_server_handshake_done"`
	CleanEOF   bool        `json:"close_notify_received"`
	AppBytes   int         `json:"app_bytes_from_server"`
	Responses  int         `json:"responses"`
	Written    int         `json:"bytes_written"`
	FullWrites int         `json:"complete_writes"`
	HsWrites   int         `json:"writes_at_handshake_end"`
	HsBytes    int         `json:"bytes_at_handshake_end"`
	Hello      int         `json:"client_hello_bytes"`
	Class      string      `json:"abort_class,omitempty"`
	RawReply   string      `json:"raw_reply,omitempty"`
	Anomaly    string      `json:"harness_anomaly,omitempty"`
}

// calibT: landmarks of the uncut abort session of one configuration.
type calibT struct {
	HsWrites int // complete Write calls of the client when its Handshake returned
	F        int // bytes written by then = end of the client's Finished flight
	Hello    int // size of the first write (the ClientHello record)
	N        int // bytes written at the end of the session
}

var (
	calibMu sync.Mutex
	calib   = map[string]calibT{}
)

func cfgKey(c *caseSpec) string {
	return fmt.Sprintf("%s|tls12=%v", strings.Join(c.ALPN, ","), c.TLS12)
}

func getCalib(c *caseSpec) (calibT, bool) {
	calibMu.Lock()
	defer calibMu.Unlock()
	v, ok := calib[cfgKey(c)]
	return v, ok
}

func resolveK(c *caseSpec, ref calibT) int {
	k := 0
	switch c.KRel {
	case "never":
		return -1
	case "abs":
		k = c.KOff
	case "hello":
		k = ref.Hello + c.KOff
	case "finished":
		k = ref.F + c.KOff
	case "end":
		k = ref.N + c.KOff
	case "permille":
		k = ref.N * c.KOff / 1000
	}
	if k < 0 {
		k = 0
	}
	if k > ref.N {
		k = ref.N
	}
	return k
}

var errCut = errors.New("c16: client cut the connection here")

// cutConn counts the bytes the client writes and ends the client's side of the
// connection (FIN or RST) after exactly k of them.
type cutConn struct {
	*net.TCPConn
	mu         sync.Mutex
	k          int // -1: no cut
	mode       string
	forge      uint16
	written    int
	fullWrites int
	first      int
	fired      bool

	// inbound TLS record framing (independent 5-byte header walk over the raw bytes)
	rmu      sync.Mutex
	hdr      []byte
	skip     int
	lastType byte
	lastLen  int
	records  int
}

func (c *cutConn) Read(b []byte) (int, error) {
	n, err := c.TCPConn.Read(b)
	c.rmu.Lock()
	p := b[:n]
	for len(p) > 0 {
		if c.skip > 0 {
			k := c.skip
			if k > len(p) {
				k = len(p)
			}
			c.skip -= k
			p = p[k:]
			if c.skip == 0 {
				c.records++
			}
			continue
		}
		c.hdr = append(c.hdr, p[0])
		p = p[1:]
		if len(c.hdr) == 5 {
			c.lastType, c.lastLen = c.hdr[0], int(c.hdr[3])<<8|int(c.hdr[4])
			c.skip = c.lastLen
			c.hdr = c.hdr[:0]
			if c.skip == 0 {
				c.records++
			}
		}
	}
	c.rmu.Unlock()
	return n, err
}

// closeNotifySeen: the inbound stream ended on a record boundary and the last
// record is an alert. crypto/tls reports io.EOF both for close_notify and for a
// bare TCP close on a record boundary, so io.EOF alone proves nothing. TLS 1.2
// shows the alert type in clear; a TLS 1.3 alert is the only record with a
// 19-byte body (2 alert bytes + content type + 16 tag bytes) these servers send.
func (c *cutConn) closeNotifySeen(version uint16) bool {
	c.rmu.Lock()
	defer c.rmu.Unlock()
	if c.skip != 0 || len(c.hdr) != 0 || c.records == 0 {
		return false
	}
	if version == tls.VersionTLS13 {
		return c.lastType == 0x17 && c.lastLen == 19
	}
	return c.lastType == 0x15
}

func (c *cutConn) fireLocked() {
	if c.fired {
		return
	}
	c.fired = true
	if c.mode == "rst" {
		c.TCPConn.SetLinger(0)
		c.TCPConn.Close()
	} else {
		c.TCPConn.CloseWrite()
	}
}

func (c *cutConn) fire() {
	c.mu.Lock()
	c.fireLocked()
	c.mu.Unlock()
}

func (c *cutConn) stats() (written, full, first int, fired bool) {
	c.mu.Lock()
	defer c.mu.Unlock()
	return c.written, c.fullWrites, c.first, c.fired
}

func (c *cutConn) Write(b []byte) (int, error) {
	c.mu.Lock()
	defer c.mu.Unlock()
	if c.fired {
		return 0, errCut
	}
	if c.forge != 0 && c.written == 0 && len(b) >= 5 && b[0] == 0x16 {
		b = append([]byte{}, b...)
		b[1], b[2] = byte(c.forge>>8), byte(c.forge)
	}
	if c.k >= 0 && c.written+len(b) >= c.k {
		part := b[:c.k-c.written]
		n := 0
		var err error
		if len(part) > 0 {
			n, err = c.TCPConn.Write(part)
		}
		c.written += n
		c.fireLocked()
		if err == nil && n == len(b) {
			// the write that reaches k is complete: the caller learns about the cut at its next operation
			if c.fullWrites == 0 {
				c.first = n
			}
			c.fullWrites++
			return n, nil
		}
		if err == nil {
			err = errCut
		}
		return n, err
	}
	n, err := c.TCPConn.Write(b)
	c.written += n
	if err == nil {
		if c.fullWrites == 0 {
			c.first = n
		}
		c.fullWrites++
	}
	return n, err
}

const watchdog = 20 * time.Second

func dialTCP(addr string) (*net.TCPConn, error) {
	d := net.Dialer{Timeout: 10 * time.Second}
	c, err := d.Dial("tcp", addr)
	if err != nil {
		return nil, err
	}
	tc := c.(*net.TCPConn)
	tc.SetNoDelay(true)
	tc.SetDeadline(time.Now().Add(watchdog))
	return tc, nil
}

// drainRaw reads until the peer closes; returns what was read (bounded) and whether EOF was seen.
func drainRaw(c net.Conn, keep int) ([]byte, bool) {
	var out []byte
	buf := make([]byte, 4096)
	for {
		n, err := c.Read(buf)
		if len(out) < keep {
			out = append(out, buf[:n]...)
		}
		if err != nil {
			return out, err == io.EOF
		}
	}
}

// drainTLS reads application data until the connection ends; clean is true
// when crypto/tls reported io.EOF (close_notify or a TCP close on a record boundary).
func drainTLS(tc *tls.Conn) (app int, clean bool) {
	buf := make([]byte, 4096)
	for {
		n, err := tc.Read(buf)
		app += n
		if err != nil {
			return app, err == io.EOF
		}
	}
}

func closeRST(tcp *net.TCPConn) {
	tcp.SetLinger(0)
	tcp.Close()
}

func sleepUs(us int) {
	if us > 0 {
		time.Sleep(time.Duration(us) * time.Microsecond)
	}
}

func offeredProto(alpn []string) string {
	for _, want := range []string{"h2", "http/1.1"} { // the server's preference order
		for _, a := range alpn {
			if a == want {
				return want
			}
		}
	}
	return ""
}

func h2AbortScript(tag string) (pre, req []byte) {
	var b bytes.Buffer
	b.WriteString(h2peer.ClientPreface)
	fr := http2.NewFramer(&b, nil)
	fr.WriteSettings()
	pre = append([]byte{}, b.Bytes()...)
	b.Reset()
	var hb bytes.Buffer
	enc := hpack.NewEncoder(&hb)
	for _, f := range h2peer.GetFields("front.example", "/c16", hpack.HeaderField{Name: "x-verif-tag", Value: tag}) {
		enc.WriteField(f)
	}
	fr.WriteHeaders(http2.HeadersFrameParam{StreamID: 1, BlockFragment: hb.Bytes(), EndStream: true, EndHeaders: true})
	req = append([]byte{}, b.Bytes()...)
	return
}

// runCase plays the client side of one connection and derives, from what the
// client itself observed, the set of labels the statement allows.
// mid is called (if non-nil and the case asks for it) while the connection is
// open and has been answered at least once.
func runCase(addr string, c *caseSpec, mid func()) *result {
	res := &result{}
	sleepUs(c.StartUs)
	tcp, err := dialTCP(addr)
	if err != nil {
		res.Anomaly = "dial: " + err.Error()
		return res
	}
	res.Connected = true
	res.Local = tcp.LocalAddr().String()

	switch c.Kind {
	case "plainhttp", "garbage", "stall":
		payload, _ := hex.DecodeString(c.Payload)
		if len(payload) > 0 {
			tcp.Write(payload)
		}
		sleepUs(c.HoldUs)
		switch c.Close {
		case "wait":
			b, _ := drainRaw(tcp, 256)
			res.RawReply = string(b)
			tcp.Close()
		case "half":
			tcp.CloseWrite()
			b, _ := drainRaw(tcp, 256)
			res.RawReply = string(b)
			tcp.Close()
		case "rst":
			closeRST(tcp)
		default:
			tcp.Close()
		}
		res.Allowed = [][2]string{lblFail}
		res.Why = "the client never sent a ClientHello the server could complete a handshake on"
		return res
	}

	cfg := &tls.Config{InsecureSkipVerify: true, ServerName: "front.example", NextProtos: c.ALPN}
	if c.TLS12 {
		cfg.MaxVersion = tls.VersionTLS12
	}
	if c.Kind == "oldtls" {
		cfg.MinVersion = tls.VersionTLS10
		cfg.MaxVersion = tls.VersionTLS11
	}
	cc := &cutConn{TCPConn: tcp, k: -1}
	var ref calibT
	if c.Kind == "abort" {
		cc.mode = c.Cut
		if c.KRel != "never" {
			var ok bool
			ref, ok = getCalib(c)
			if !ok {
				res.Anomaly = "no calibration for " + cfgKey(c)
				tcp.Close()
				return res
			}
			c.K = resolveK(c, ref)
			cc.k = c.K
			if cc.k == 0 {
				cc.fire()
			}
		}
	}
	if c.Kind == "capturefail" {
		cc.forge = c.RecVer
	}
	tc := tls.Client(cc, cfg)
	err = tc.Handshake()
	res.HsOK = err == nil
	res.Proto = offeredProto(c.ALPN)
	if err != nil {
		res.HsErr = err.Error()
	} else {
		cs := tc.ConnectionState()
		res.Proto = cs.NegotiatedProtocol
		res.TLSVersion = cs.Version
		res.Written, res.FullWrites, res.Hello, _ = cc.stats()
		res.HsWrites, res.HsBytes = res.FullWrites, res.Written
		// Note: a TLS 1.2 client that has verified the server's Finished knows that the
		// server's handshake function is over, not that the server's handshake *call*
		// returned success: the handshake timeout may fire between the two (the server
		// then closes without close_notify and counts a failure). Proof that the
		// server went on is application data or the server's close_notify only.
	}

	if c.Kind == "abort" {
		runAbort(c, res, cc, tc, tcp, ref)
		return res
	}

	if !res.HsOK {
		_, full, _, _ := cc.stats()
		res.FullWrites = full
		tcp.Close()
		if (c.TLS12 || c.Kind == "oldtls") && full >= 2 {
			// a TLS 1.2 client that has sent its Finished cannot tell whether the server finished
			res.Allowed = [][2]string{lblFail, lblOK(res.Proto)}
			res.Weak = true
			res.Why = "TLS 1.2 client failed after sending its Finished flight"
		} else {
			res.Allowed = [][2]string{lblFail}
			res.Why = "client handshake failed before the client's Finished was sent: " + res.HsErr
		}
		return res
	}

	// the handshake is complete on the client
	tag := fmt.Sprintf("C16-%d", c.ID)
	var sess *rig.Session
	sess, err = rig.NewSession(tc, res.Proto, nil)
	if err != nil {
		// h2 preface could not be written: the server is gone already
		sess = nil
	}
	if sess != nil {
		for i := 0; i < c.NReq; i++ {
			hs := [][2]string{{strings.ToLower(rig.TagHeader), fmt.Sprintf("%s-%d", tag, i)}}
			if sess.Peer != nil {
				// HTTP/2: the request is followed at once (same segment) by frames the server records for
				// the connection's fingerprint, so that they arrive while the handler computes it
				sid := sess.TakeStreamID()
				var b []byte
				if i%2 == 0 { // (a block is encoded only if it is sent: the HPACK tables must stay in step)
					fields := h2peer.GetFields("front.example", "/c16", hpack.HeaderField{Name: hs[0][0], Value: hs[0][1]})
					b = h2peer.RawFrame(1, 0x5, sid, sess.Peer.Encode(fields))
				} else {
					// a body that is declared empty and ended by an empty DATA frame (legal)
					post := []hpack.HeaderField{{Name: ":method", Value: "POST"}, {Name: ":scheme", Value: "https"}, {Name: ":authority", Value: "front.example"}, {Name: ":path", Value: "/c16"}, {Name: hs[0][0], Value: hs[0][1]}, {Name: "content-length", Value: "0"}}
					b = append(h2peer.RawFrame(1, 0x4, sid, sess.Peer.Encode(post)), h2peer.RawFrame(0, 0x1, sid, nil)...)
				}
				for k := 0; k < 4; k++ {
					b = append(b, h2peer.RawFrame(4, 0, 0, []byte{0, 3, 0, 0, 0, byte(100 + k)})...)
					b = append(b, h2peer.RawFrame(2, 0, sid+100+uint32(2*k), []byte{0, 0, 0, 0, byte(k)})...)
					b = append(b, h2peer.RawFrame(8, 0, 0, []byte{0, 0, 0, byte(1 + k)})...)
				}
				if sess.Peer.WriteRaw(b) != nil {
					break
				}
				if r, ok := sess.Peer.WaitResponse(sid, 10*time.Second); !ok || r.Reset {
					if f, e := os.OpenFile("/tmp/c16dbg.log", os.O_APPEND|os.O_CREATE|os.O_WRONLY, 0o644); e == nil && os.Getenv("VERIF_C16_DEBUG") != "" {
						evs := sess.Peer.Events()
						last := ""
						for _, e := range evs[max(0, len(evs)-4):] {
							last += e.String() + " ;; "
						}
						fmt.Fprintf(f, "case %d kind %s req %d sid %d ok=%v reset=%v code=%v last=%s\n", c.ID, c.Kind, i, sid, ok, r.Reset, r.ResetCode, last)
						f.Close()
					}
					break
				}
				res.Responses++
				res.ServerDone = true
				if i == 0 && c.Mid && mid != nil {
					mid()
				}
				continue
			}
			resp, err := sess.Do("GET", "/c16", "front.example", hs, nil, 10*time.Second)
			if err != nil || resp == nil {
				break
			}
			res.Responses++
			res.ServerDone = true
			if i == 0 && c.Mid && mid != nil {
				mid()
			}
		}
		if sess.Peer != nil && !res.ServerDone {
			// no request planned: the server's SETTINGS frame proves its handshake is over
			if _, ok := sess.Peer.WaitFor(0, 5*time.Second, func(e h2peer.Event) bool { return !e.EOF }); ok {
				res.ServerDone = true
				res.AppBytes++
			}
		}
	}
	sleepUs(c.HoldUs)
	tcp.SetDeadline(time.Now().Add(watchdog))
	mode := c.Close
	if c.Kind == "capturefail" {
		mode = "half"
	}
	switch mode {
	case "half", "wait":
		if mode == "half" {
			tcp.CloseWrite()
		}
		if sess != nil && sess.Peer != nil {
			sess.Peer.WaitEOF(watchdog)
			evs := sess.Peer.Events()
			if n := len(evs); n > 0 && evs[n-1].EOF && evs[n-1].ReadErr == "EOF" && cc.closeNotifySeen(res.TLSVersion) {
				res.CleanEOF = true
			}
		} else {
			app, clean := drainTLS(tc)
			res.AppBytes += app
			res.CleanEOF = clean && cc.closeNotifySeen(res.TLSVersion)
		}
		tcp.Close()
	case "rst":
		closeRST(tcp)
	case "tcp":
		tcp.Close()
	default:
		tc.Close()
	}
	if res.CleanEOF && c.Kind != "capturefail" {
		// close_notify is only written by a server whose handshake call succeeded: on a
		// handshake error or timeout the socket is closed before tls.Conn.Close runs
		res.ServerDone = true
	}
	res.Written, res.FullWrites, _, _ = cc.stats()

	switch {
	case c.Kind == "capturefail":
		if res.Responses > 0 {
			res.Allowed = [][2]string{lblOK(res.Proto)}
			res.Why = "the connection was served although the ClientHello record carried an unusual record version"
		} else {
			res.Allowed = [][2]string{lblFail}
			res.Why = "handshake completed but the connection was dropped without service (ClientHello capture refused the record version)"
		}
	case res.ServerDone:
		res.Allowed = [][2]string{lblOK(res.Proto)}
		res.Why = "the client has proof that the server went on after the handshake (application data or close_notify received)"
	default:
		res.Allowed = [][2]string{lblFail, lblOK(res.Proto)}
		res.Weak = true
		res.Why = "the client finished its handshake but saw neither application data nor close_notify from the server"
	}
	return res
}

// runAbort: handshake + one request, cut after exactly K client bytes.
func runAbort(c *caseSpec, res *result, cc *cutConn, tc *tls.Conn, tcp *net.TCPConn, ref calibT) {
	tag := "C16-abort"
	if res.HsOK {
		if res.Proto == "h2" {
			pre, req := h2AbortScript(tag)
			if _, err := tc.Write(pre); err == nil {
				tc.Write(req)
			}
		} else {
			io.WriteString(tc, rig.SimpleGet("front.example", "/c16", tag))
		}
	}
	if c.KRel == "never" {
		// calibration run: the landmarks are this session's own
		cc.fire()
	}
	written, full, first, fired := cc.stats()
	if !fired {
		// the session was shorter than K: the cut happens here
		cc.fire()
	}
	res.Written, res.FullWrites, res.Hello = written, full, first
	k := written
	if c.KRel == "never" {
		if !res.HsOK {
			res.Anomaly = "calibration session failed: " + res.HsErr
			tcp.Close()
			return
		}
		ref = calibT{HsWrites: res.HsWrites, F: res.HsBytes, Hello: res.Hello, N: written}
		c.K = written
	}
	if c.Cut == "rst" {
		// already reset by fire()
	} else {
		tcp.SetDeadline(time.Now().Add(watchdog))
		if res.HsOK {
			app, clean := drainTLS(tc)
			clean = clean && cc.closeNotifySeen(res.TLSVersion)
			res.AppBytes, res.CleanEOF = app, clean
			if app > 0 || clean {
				res.ServerDone = true
			}
		} else {
			drainRaw(tcp, 0)
		}
		tcp.Close()
	}

	after := full >= ref.HsWrites && k >= ref.F
	before := full < ref.HsWrites && k < ref.F
	consistent := true
	if res.HsOK && res.HsBytes != ref.F {
		consistent = false
	}
	if full >= 1 && first != ref.Hello {
		consistent = false
	}
	both := [][2]string{lblFail, lblOK(res.Proto)}
	switch {
	case !consistent || (!after && !before):
		res.Class = "ambiguous"
		res.Allowed, res.Weak = both, true
		res.Why = fmt.Sprintf("cut at byte %d does not line up with the recorded session (F=%d hello=%d, this run: hello=%d handshake bytes=%d)", k, ref.F, ref.Hello, first, res.HsBytes)
	case before:
		res.Class = "before"
		res.Allowed = [][2]string{lblFail}
		res.Why = fmt.Sprintf("client stopped after %d bytes, its Finished flight ends at byte %d: the server cannot have completed the handshake", k, ref.F)
	case c.Cut == "rst":
		res.Class = "after-rst"
		res.Allowed, res.Weak = both, true
		res.Why = fmt.Sprintf("client reset after %d bytes (Finished flight ends at %d): the reset may or may not overtake the handshake", k, ref.F)
	case res.ServerDone:
		res.Class = "after-fin"
		res.Allowed = [][2]string{lblOK(res.Proto)}
		res.Why = fmt.Sprintf("client sent %d bytes (Finished flight ends at %d) then FIN, and saw proof of the server's completed handshake", k, ref.F)
	default:
		res.Class = "after-fin-noproof"
		res.Allowed, res.Weak = both, true
		res.Why = fmt.Sprintf("client sent %d bytes (Finished flight ends at %d) then FIN, but saw no proof that the server completed the handshake", k, ref.F)
	}
	if c.KRel == "never" {
		calibMu.Lock()
		calib[cfgKey(c)] = ref
		calibMu.Unlock()
	}
}
