//go:build verif

package main

import (
	"crypto/tls"
	"fmt"
	"net"
	"net/http"
	"sync"
	"sync/atomic"
	"time"

	fingerproxy "github.com/wi1dcard/fingerproxy"

	"verif/internal/rig"
	"verif/internal/verdict"
)

// Connections whose ConnState hook (user code of the embedding program) panics - added after seeded change C16-K,
// which counted such a connection once in the panic handler and once more at the regular end of the connection.
// The hook of the dedicated proxy panics for clients from 127.0.0.71 ... 127.0.0.74 in the state the address
// selects; every such connection, one at a time, must move requests_total by exactly one.

var hookStates = []http.ConnState{http.StateNew, http.StateActive, http.StateIdle, http.StateClosed}
var hookPanicked int64

func startHookLane(run *verdict.Run, id int, backendURL string) (*lane, error) {
	l := &lane{id: id, run: run}
	px, err := rig.StartProxy(backendURL, rig.ProxyOpts{
		Args: append([]string{"-timeout-tls-handshake", handshakeTimeout.String(), "-timeout-http-idle", idleTimeout.String()}, debugArgs...),
		Listener: func(in net.Listener) net.Listener {
			l.acct = rig.NewAcctListener(in)
			return l.acct
		},
		Tweak: func(app *fingerproxy.VerifApp) {
			app.Server.HTTPServer.ConnState = func(c net.Conn, st http.ConnState) {
				ta, ok := c.RemoteAddr().(*net.TCPAddr)
				if !ok {
					return
				}
				if ip := ta.IP.To4(); ip != nil && ip[3] >= 71 && ip[3] <= 74 && st == hookStates[ip[3]-71] {
					atomic.AddInt64(&hookPanicked, 1)
					panic("verif: the ConnState hook fails for this connection")
				}
			}
		},
	})
	if err != nil {
		return nil, err
	}
	l.px = px
	l.prev = l.gather(nil)
	return l, nil
}

func (l *lane) hookPanics() {
	run := l.run
	n := 0
	for rep := 0; rep < run.Pick(2, 12); rep++ {
		for _, proto := range []string{"http/1.1", "h2"} {
			for si := range hookStates {
				if run.Violations() >= 8 {
					return
				}
				n++
				w := map[string]any{"mode": "hook-panic", "protocol": proto, "hook_panics_in_state": hookStates[si].String(), "before": l.prev.String()}
				before := atomic.LoadInt64(&hookPanicked)
				d := net.Dialer{Timeout: 10 * time.Second, LocalAddr: &net.TCPAddr{IP: net.IPv4(127, 0, 0, byte(71+si))}}
				raw, err := d.Dial("tcp", l.px.Addr)
				if err != nil {
					run.Inconclusive("hook-panic %d: dial from 127.0.0.%d: %v", n, 71+si, err)
					return
				}
				raw.SetDeadline(time.Now().Add(5 * time.Second))
				tc := tls.Client(raw, &tls.Config{InsecureSkipVerify: true, ServerName: "front.example", NextProtos: []string{proto}})
				if tc.Handshake() == nil {
					if s, err := rig.NewSession(tc, tc.ConnectionState().NegotiatedProtocol, nil); err == nil {
						th := rig.TagHeader
						s.Do("GET", "/c16hook", "front.example", [][2]string{{th, fmt.Sprintf("C16-hook-%d", n)}}, nil, 3*time.Second)
					}
				}
				raw.Close()
				if !l.waitAccepted(1, 3*time.Second) {
					run.Inconclusive("hook-panic %d: the connection was never accepted", n)
					return
				}
				ac := l.acct.Conns()[l.seen]
				l.seen++
				select {
				case <-ac.Done:
				case <-time.After(15 * time.Second):
					if df := diff(l.gather(w), l.prev); len(df) == 0 {
						run.Violation("not-counted/server-never-finishes-with-the-connection", w, "connection whose ConnState hook panics in %v (%s): the client left 15 s ago, the proxy has neither closed nor counted it", hookStates[si], proto)
					} else {
						run.Inconclusive("hook-panic %d: not closed by the server within 15 s", n)
					}
					l.resync()
					return
				}
				var now snap
				for {
					now = l.gather(w)
					if len(diff(now, l.prev)) != 0 {
						break
					}
					if time.Since(ac.ClosedAt) > settleBound {
						run.Violation("not-counted/hook-panic", w, "connection whose ConnState hook panics in %v (%s) ended %v ago but requests_total did not move", hookStates[si], proto, time.Since(ac.ClosedAt).Round(time.Millisecond))
						return
					}
					time.Sleep(time.Millisecond)
				}
				time.Sleep(singleRecheck)
				again := l.gather(w)
				run.Eval(1)
				run.Distinct(fmt.Sprintf("hook-panic|%s|%v", proto, hookStates[si]))
				run.Add("overcount_rechecks", 1)
				df := diff(again, l.prev)
				w["after"] = again.String()
				w["hook_panicked_for_it"] = atomic.LoadInt64(&hookPanicked) - before
				if again.total()-l.prev.total() != 1 || len(df) != 1 {
					run.Violation("wrong-delta/hook-panic", w, "connection whose ConnState hook panics in %v (%s): requests_total moved by %v, exactly one increment is due", hookStates[si], proto, df)
					l.resync()
					return
				}
				for k := range df {
					if k != lblFail && k != lblOK(proto) {
						run.Violation("label-outside-domain", w, "connection whose ConnState hook panics in %v (%s) counted as %v", hookStates[si], proto, k)
					}
				}
				if atomic.LoadInt64(&hookPanicked) > before {
					run.Add("single_conn_hook_panicked", 1)
				}
				l.prev = again
			}
		}
	}
}

// hangupBursts (added after the seeded regression showed that C16-L - a lost wake-up between net/http closing a handed-over
// connection and serveConn waiting for it - had been caught by luck): rounds of 48 HTTP/1.1 clients that finish the
// handshake at the same moment and hang up at once, so that hand-overs to the HTTP/1.1 server queue up and the
// connections are closed before their serving goroutines wait for them. Conservation per round: the total must
// grow by exactly the number of connections accepted in the round.
func (l *lane) hangupBursts() {
	run := l.run
	for r := 0; r < run.Pick(8, 80) && run.Violations() < 8; r++ {
		before := l.gather(nil)
		seen := l.acct.Accepted()
		var wg sync.WaitGroup
		gate := make(chan struct{})
		var ok int64
		for k := 0; k < 48; k++ {
			wg.Add(1)
			go func() {
				defer wg.Done()
				<-gate
				c, err := tls.DialWithDialer(&net.Dialer{Timeout: 10 * time.Second}, "tcp", l.px.Addr, &tls.Config{InsecureSkipVerify: true, ServerName: "front.example", NextProtos: []string{"http/1.1"}})
				if err != nil {
					return
				}
				atomic.AddInt64(&ok, 1)
				c.Close()
			}()
		}
		close(gate)
		wg.Wait()
		w := map[string]any{"mode": "hangup-burst", "round": r, "clients_that_finished_their_handshake": ok, "before": before.String()}
		if !l.acct.WaitAllClosed(15 * time.Second) {
			run.Violation("not-counted/server-never-finishes-with-the-connection", w, "hang-up burst round %d: 15 s after every client has left, the proxy has not closed every accepted connection", r)
			return
		}
		accepted := int64(l.acct.Accepted() - seen)
		closedAt := time.Now()
		var now snap
		for {
			now = l.gather(w)
			if now.total()-before.total() >= accepted {
				break
			}
			if time.Since(closedAt) > settleBound {
				w["after"] = now.String()
				run.Violation("not-counted/hangup-burst", w, "hang-up burst round %d: %d connections were accepted and are all closed since %v, requests_total moved by %d (%v)", r, accepted, time.Since(closedAt).Round(time.Millisecond), now.total()-before.total(), diff(now, before))
				return
			}
			time.Sleep(2 * time.Millisecond)
		}
		time.Sleep(singleRecheck)
		again := l.gather(w)
		run.Eval(1)
		run.Distinct(fmt.Sprintf("hangup-burst|%d", r))
		run.Add("hangup_burst_rounds", 1)
		run.Add("hangup_burst_connections", accepted)
		if again.total()-before.total() != accepted {
			w["after"] = again.String()
			run.Violation("counted-again/hangup-burst", w, "hang-up burst round %d: %d connections accepted, requests_total moved by %d (%v)", r, accepted, again.total()-before.total(), diff(again, before))
			return
		}
		for k := range diff(again, before) {
			if k != lblFail && k != lblOK("http/1.1") {
				run.Violation("label-outside-domain", w, "hang-up burst round %d: a connection was counted as %v", r, k)
			}
		}
		l.seen = l.acct.Accepted()
		l.prev = again
	}
}
