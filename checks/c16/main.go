//go:build verif

// C16 — requests_total counts every accepted connection exactly once, with true labels.
//
// The proxy runs in-process behind the accounting listener with its own
// Prometheus registry. (a) Singles: one connection at a time per proxy, the
// Gather() delta after the connection has ended must be exactly one increment
// in a label the client's own observations allow, nothing may move while a
// served connection is still open, nothing may move afterwards. (b) Batches:
// 100..300 concurrent connections of mixed outcome; the sum over all labels
// must reach the number of Accept() returns and the per-label counts must be
// the expected multiset.
package main

import (
	"encoding/hex"
	"fmt"
	"math/rand"
	"net"
	"os"
	"sort"
	"strconv"
	"strings"
	"sync"
	"sync/atomic"
	"time"

	"verif/internal/rig"
	"verif/internal/verdict"
)

// handshakeTimeout can be lowered with VERIF_C16_HS_MS to stress the oracle: legitimate
// handshakes then time out and must be accepted under either label, never misjudged.
var handshakeTimeout = func() time.Duration {
	if v, err := strconv.Atoi(os.Getenv("VERIF_C16_HS_MS")); err == nil && v > 0 {
		return time.Duration(v) * time.Millisecond
	}
	return 1000 * time.Millisecond
}()

const (
	idleTimeout      = 600 * time.Millisecond
	metricName       = "fingerproxy_requests_total"
	settleBound      = 5 * time.Second
	batchSettleBound = 10 * time.Second
	singleRecheck    = 30 * time.Millisecond
	batchRecheck     = 300 * time.Millisecond
)

// debugging aid (VERIF_C16_DEBUG=1): keep the server's own verbose log and show the
// lines about connections whose label is in doubt when a batch does not add up
type lockedBuf struct {
	mu sync.Mutex
	b  []byte
}

func (l *lockedBuf) Write(p []byte) (int, error) {
	l.mu.Lock()
	l.b = append(l.b, p...)
	l.mu.Unlock()
	return len(p), nil
}

func (l *lockedBuf) String() string { l.mu.Lock(); defer l.mu.Unlock(); return string(l.b) }

var (
	debugLog  *lockedBuf
	debugArgs []string
)

func init() {
	if os.Getenv("VERIF_C16_DEBUG") != "" {
		debugLog = &lockedBuf{}
		debugArgs = []string{"-verbose"}
	}
}

type snap map[[2]string]int64

func (s snap) total() int64 {
	var t int64
	for _, v := range s {
		t += v
	}
	return t
}

func (s snap) String() string {
	var ks [][2]string
	for k := range s {
		ks = append(ks, k)
	}
	sort.Slice(ks, func(i, j int) bool { return ks[i][0]+"|"+ks[i][1] < ks[j][0]+"|"+ks[j][1] })
	var sb strings.Builder
	for _, k := range ks {
		fmt.Fprintf(&sb, "{ok=%q,negotiated_protocol=%q}=%d ", k[0], k[1], s[k])
	}
	return strings.TrimSpace(sb.String())
}

// diff returns now-prev for every label whose value differs.
func diff(now, prev snap) snap {
	d := snap{}
	for k, v := range now {
		if v != prev[k] {
			d[k] = v - prev[k]
		}
	}
	for k, v := range prev {
		if _, ok := now[k]; !ok && v != 0 {
			d[k] = -v
		}
	}
	return d
}

type lane struct {
	id   int
	px   *rig.Proxy
	acct *rig.AcctListener
	prev snap
	seen int // accepted connections already attributed
	run  *verdict.Run
	last *result // client observations of the most recent single
}

var (
	gathers       int64
	maxSettleUs   int64
	maxBatchSetUs int64
)

func startLane(run *verdict.Run, id int, backendURL string) (*lane, error) {
	l := &lane{id: id, run: run}
	px, err := rig.StartProxy(backendURL, rig.ProxyOpts{
		Args: append([]string{"-timeout-tls-handshake", handshakeTimeout.String(), "-timeout-http-idle", idleTimeout.String()}, debugArgs...),
		Listener: func(in net.Listener) net.Listener {
			l.acct = rig.NewAcctListener(in)
			return l.acct
		},
	})
	if err != nil {
		return nil, err
	}
	l.px = px
	if debugLog != nil {
		rig.Quiet(debugLog)
	}
	l.prev = l.gather(nil)
	return l, nil
}

// gather reads requests_total from the registry the server registered it in.
func (l *lane) gather(witness any) snap {
	atomic.AddInt64(&gathers, 1)
	mfs, err := l.px.App.Registry.Gather()
	if err != nil {
		l.run.Violation("gather-error", witness, "Registry.Gather() failed: %v", err)
		return snap{}
	}
	s := snap{}
	fams := 0
	for _, mf := range mfs {
		if mf.GetName() != metricName {
			continue
		}
		fams++
		for _, m := range mf.GetMetric() {
			var ok, proto string
			names := 0
			for _, lp := range m.GetLabel() {
				switch lp.GetName() {
				case "ok":
					ok = lp.GetValue()
					names++
				case "negotiated_protocol":
					proto = lp.GetValue()
					names++
				default:
					names += 100
				}
			}
			v := m.GetCounter().GetValue()
			if names != 2 || v != float64(int64(v)) || v < 0 {
				l.run.Violation("metric-shape", witness, "requests_total sample with labels %v value %v", m.GetLabel(), v)
			}
			valid := (ok == "0" && proto == "") || (ok == "1" && (proto == "" || proto == "h2" || proto == "http/1.1"))
			if !valid {
				l.run.Violation("label-outside-domain", witness, "requests_total{ok=%q,negotiated_protocol=%q}=%v: no connection of this workload can have this label pair", ok, proto, v)
			}
			s[[2]string{ok, proto}] += int64(v)
		}
	}
	if fams > 1 {
		l.run.Violation("metric-shape", witness, "%d metric families named %s", fams, metricName)
	}
	return s
}

func allowedHas(a [][2]string, k [2]string) bool {
	for _, x := range a {
		if x == k {
			return true
		}
	}
	return false
}

type singleWitness struct {
	Mode   string    `json:"mode"`
	Case   *caseSpec `json:"case"`
	Result *result   `json:"client_observations"`
	Before string    `json:"metric_before"`
	After  string    `json:"metric_after"`
}

// resync waits a little and takes the current values as the new baseline (after a violation).
func (l *lane) resync() {
	time.Sleep(100 * time.Millisecond)
	l.prev = l.gather(nil)
}

// single runs one connection and judges the delta. Returns false when the
// case could not be judged (harness anomaly).
func (l *lane) single(c *caseSpec) bool {
	run := l.run
	midMoved := false
	mid := func() {
		run.Add("mid_connection_checks", 1)
		now := l.gather(c)
		if d := diff(now, l.prev); len(d) != 0 {
			midMoved = true
			run.Violation("counted-before-connection-ended", singleWitness{"single", c, nil, l.prev.String(), now.String()},
				"%s connection %d is open and has just been answered, but requests_total already moved by %v (before: %v)", c.Kind, c.ID, d, l.prev)
		}
	}
	res := runCase(l.px.Addr, c, mid)
	l.last = res
	w := singleWitness{Mode: "single", Case: c, Result: res, Before: l.prev.String()}
	if !res.Connected || res.Anomaly != "" {
		run.Add("harness_anomalies", 1)
		run.Inconclusive("single %d (%s): %s", c.ID, c.Kind, res.Anomaly)
		if res.Connected {
			l.waitAccepted(1, 3*time.Second)
			l.acct.WaitAllClosed(10 * time.Second)
			l.seen = l.acct.Accepted()
			l.resync()
		}
		return false
	}
	if !l.waitAccepted(1, 3*time.Second) {
		// the statement is about accepted connections; this one never was
		run.Add("never_accepted", 1)
		if d := diff(l.gather(w), l.prev); len(d) != 0 {
			run.Violation("counted-without-accept", w, "no Accept() returned for this connection but requests_total moved by %v", d)
			l.resync()
		}
		return false
	}
	conns := l.acct.Conns()
	if len(conns) != l.seen+1 || conns[l.seen].RemoteAddr().String() != res.Local {
		run.Inconclusive("single %d: accepted connections %d (expected %d), peer %v vs client %s", c.ID, len(conns), l.seen+1, conns[l.seen].RemoteAddr(), res.Local)
		l.acct.WaitAllClosed(10 * time.Second)
		l.seen = l.acct.Accepted()
		l.resync()
		return false
	}
	ac := conns[l.seen]
	l.seen++
	select {
	case <-ac.Done:
	case <-time.After(15 * time.Second):
		// the client has left (or was cut off by the proxy's own timers) 15 s ago: the connection has ended for
		// everybody but the proxy, which never counts it
		if d := diff(l.gather(w), l.prev); len(d) == 0 {
			run.Violation("not-counted/server-never-finishes-with-the-connection", w, "%s connection %d: the client was done 15 s ago, the proxy has neither closed the connection nor counted it", c.Kind, c.ID)
		} else {
			run.Inconclusive("single %d (%s): the server did not close the connection within 15 s after the client was done; cannot judge 'when that connection ends'", c.ID, c.Kind)
		}
		l.resync()
		return false
	}
	closedAt := ac.ClosedAt
	// bounded wait for the count to move
	var now snap
	pause := 50 * time.Microsecond
	for {
		now = l.gather(w)
		if now.total() != l.prev.total() || len(diff(now, l.prev)) != 0 {
			break
		}
		if time.Since(closedAt) > settleBound {
			w.After = now.String()
			run.Violation("not-counted/"+c.Kind, w, "%s connection %d ended (server closed it %v ago) but requests_total did not move: %v; allowed %v (%s)",
				c.Kind, c.ID, time.Since(closedAt).Round(time.Millisecond), now, res.Allowed, res.Why)
			return true
		}
		time.Sleep(pause)
		if pause < 2*time.Millisecond {
			pause *= 2
		}
	}
	lat := time.Since(closedAt).Microseconds()
	for {
		old := atomic.LoadInt64(&maxSettleUs)
		if lat <= old || atomic.CompareAndSwapInt64(&maxSettleUs, old, lat) {
			break
		}
	}
	w.After = now.String()
	d := diff(now, l.prev)
	bad := false
	if len(d) != 1 {
		bad = true
	}
	for k, v := range d {
		if v != 1 || !allowedHas(res.Allowed, k) {
			bad = true
		}
	}
	if bad && !midMoved {
		cls := "wrong-delta/" + c.Kind
		if c.Kind == "abort" {
			cls += "/" + res.Class
		}
		run.Violation(cls, w, "%s connection %d: requests_total moved by %v, allowed is exactly one increment of %v (%s)", c.Kind, c.ID, d, res.Allowed, res.Why)
		l.resync()
		return true
	}
	for k := range d {
		run.Add(fmt.Sprintf("observed_ok%s_%s", k[0], protoName(k[1])), 1)
	}
	// over-count recheck
	time.Sleep(singleRecheck)
	again := l.gather(w)
	run.Add("overcount_rechecks", 1)
	if d2 := diff(again, now); len(d2) != 0 {
		w.After = again.String()
		run.Violation("counted-again/"+c.Kind, w, "%s connection %d was counted (%v) and %v later requests_total moved again by %v with no other connection", c.Kind, c.ID, d, singleRecheck, d2)
		l.resync()
		return true
	}
	l.prev = again
	return true
}

func protoName(p string) string {
	switch p {
	case "":
		return "none"
	case "http/1.1":
		return "http11"
	}
	return p
}

func (l *lane) waitAccepted(n int, timeout time.Duration) bool {
	deadline := time.Now().Add(timeout)
	for l.acct.Accepted() < l.seen+n {
		if time.Now().After(deadline) {
			return false
		}
		time.Sleep(100 * time.Microsecond)
	}
	return true
}

// ---------------------------------------------------------------- case generation

var abortConfigs = []struct {
	alpn  []string
	tls12 bool
}{
	{[]string{"h2"}, false}, {[]string{"h2"}, true},
	{[]string{"http/1.1"}, false}, {[]string{"http/1.1"}, true},
	{nil, false}, {nil, true},
}

func garbagePayload(rng *rand.Rand) []byte {
	n := 1 + rng.Intn(600)
	b := make([]byte, n)
	rng.Read(b)
	switch rng.Intn(6) {
	case 0: // looks like a handshake record header with a body that is not a ClientHello
		if n >= 5 {
			b[0], b[1], b[2] = 0x16, 0x03, byte(rng.Intn(4))
			b[3], b[4] = byte((n-5)>>8), byte(n-5)
		}
	case 1: // declares more than it sends: the server waits for the rest
		if n >= 5 {
			b[0], b[1], b[2], b[3], b[4] = 0x16, 0x03, 0x01, 0x3f, 0x00
		}
	case 2:
		b = []byte("SSH-2.0-OpenSSH_9.6\r\n")
	case 3: // an alert record
		b = []byte{0x15, 0x03, 0x03, 0x00, 0x02, 0x02, 0x28}
	case 4: // record version 16.x: rejected on the header
		if n >= 5 {
			b[0], b[1] = 0x16, 0x10+byte(rng.Intn(200))
		}
	}
	return b
}

var httpVerbs = []string{"GET / HTTP/1.1\r\nHost: front.example\r\n\r\n", "HEAD /x HTTP/1.1\r\nHost: a\r\n\r\n", "POST /p HTTP/1.1\r\nHost: a\r\nContent-Length: 0\r\n\r\n",
	"PUT /p HTTP/1.1\r\nHost: a\r\nContent-Length: 0\r\n\r\n", "OPTIONS * HTTP/1.1\r\nHost: a\r\n\r\n", "DELETE /d HTTP/1.1\r\nHost: a\r\n\r\n", "GET /only-a-line HTTP/1.0\r\n\r\n"}

// a plausible ClientHello prefix for stalled connections (record header + start of the hello)
var helloPrefix = []byte{0x16, 0x03, 0x01, 0x01, 0x00, 0x01, 0x00, 0x00, 0xfc, 0x03, 0x03, 0x11, 0x22, 0x33, 0x44, 0x55, 0x66, 0x77, 0x88}

func pick(rng *rand.Rand, xs ...string) string { return xs[rng.Intn(len(xs))] }

// drawCase draws one connection; batch selects the mix used inside batches.
func drawCase(rng *rand.Rand, id int, batch bool) *caseSpec {
	c := &caseSpec{ID: id}
	r := rng.Intn(100)
	tls12 := rng.Intn(3) == 0
	switch {
	case r < 17:
		c.Kind, c.ALPN, c.TLS12, c.NReq = "h2", []string{"h2"}, tls12, rng.Intn(4)
		c.Close = pick(rng, "tls", "tcp", "half", "rst", "half")
	case r < 34:
		c.Kind, c.ALPN, c.TLS12, c.NReq = "h1", []string{"http/1.1"}, tls12, rng.Intn(4)
		c.Close = pick(rng, "tls", "tcp", "half", "rst", "half")
	case r < 42:
		c.Kind, c.TLS12, c.NReq = "noalpn", tls12, rng.Intn(3)
		c.Close = pick(rng, "tls", "tcp", "half", "rst", "half")
	case r < 46:
		c.Kind, c.TLS12, c.NReq = "bothalpn", tls12, rng.Intn(3)
		c.ALPN = [][]string{{"http/1.1", "h2"}, {"h2", "http/1.1"}, {"spdy/3", "h2", "http/1.1"}}[rng.Intn(3)]
		c.Close = pick(rng, "tls", "half")
	case r < 53:
		c.Kind = "plainhttp"
		c.Payload = hex.EncodeToString([]byte(httpVerbs[rng.Intn(len(httpVerbs))]))
		c.Close = pick(rng, "wait", "wait", "half", "tcp", "rst")
	case r < 61:
		c.Kind = "garbage"
		c.Payload = hex.EncodeToString(garbagePayload(rng))
		c.Close = pick(rng, "wait", "half", "tcp", "rst")
	case r < 65:
		c.Kind, c.Close = "stall", "wait"
		if rng.Intn(2) == 0 {
			c.Payload = hex.EncodeToString(helloPrefix[:1+rng.Intn(len(helloPrefix))])
		}
	case r < 85:
		cfg := abortConfigs[rng.Intn(len(abortConfigs))]
		c.Kind, c.ALPN, c.TLS12 = "abort", cfg.alpn, cfg.tls12
		c.Cut = pick(rng, "fin", "rst")
		switch rng.Intn(4) {
		case 0:
			c.KRel, c.KOff = "finished", rng.Intn(9)-4
		case 1:
			c.KRel, c.KOff = "hello", rng.Intn(9)-4
		default:
			c.KRel, c.KOff = "permille", rng.Intn(1001)
		}
	case r < 90:
		c.Kind, c.NReq, c.TLS12 = "capturefail", 1, tls12
		c.ALPN = [][]string{{"h2"}, {"http/1.1"}, nil}[rng.Intn(3)]
		c.RecVer = []uint16{0x0200, 0x0100, 0x0305, 0x0400, 0x0fff, 0x02ff}[rng.Intn(6)]
	case r < 93:
		c.Kind, c.ALPN, c.TLS12 = "alpnunknown", []string{"verif-unknown/1"}, tls12
	case r < 95:
		c.Kind = "oldtls"
		c.ALPN = []string{"h2", "http/1.1"}
	default:
		c.Kind, c.ALPN, c.TLS12, c.NReq, c.Close = "h1idle", []string{"http/1.1"}, tls12, 1+rng.Intn(2), "wait"
		c.Mid = true
	}
	if c.NReq == 0 && c.Close != "" && c.Close != "wait" && rng.Intn(4) != 0 && (c.Kind == "h1" || c.Kind == "noalpn") {
		c.Close = "half" // the only way a client without a request learns what the server did
	}
	if c.NReq > 0 && !batch && (c.Kind == "h2" || c.Kind == "h1" || c.Kind == "noalpn" || c.Kind == "bothalpn") {
		c.Mid = rng.Intn(3) != 0
	}
	if batch {
		c.Mid = false
		c.StartUs = rng.Intn(400000)
		c.HoldUs = rng.Intn(300000)
		if rng.Intn(4) == 0 {
			c.HoldUs = 0
		}
	}
	return c
}

func calibrationCases() []*caseSpec {
	var out []*caseSpec
	for i, cfg := range abortConfigs {
		out = append(out, &caseSpec{ID: -1 - i, Kind: "abort", ALPN: cfg.alpn, TLS12: cfg.tls12, Cut: "fin", KRel: "never"})
	}
	return out
}

func singlesList(run *verdict.Run) []*caseSpec {
	var out []*caseSpec
	id := 0
	add := func(c *caseSpec) { c.ID = id; id++; out = append(out, c) }
	// boundary aborts
	span := run.Pick(1, 8)
	for _, cfg := range abortConfigs {
		for _, cut := range []string{"fin", "rst"} {
			add(&caseSpec{Kind: "abort", ALPN: cfg.alpn, TLS12: cfg.tls12, Cut: cut, KRel: "abs", KOff: 0})
			for _, rel := range []string{"hello", "finished", "end"} {
				for off := -span; off <= span; off++ {
					if rel == "end" && off > 0 {
						continue
					}
					if !run.Thorough() && rel != "finished" && off != 0 {
						continue
					}
					add(&caseSpec{Kind: "abort", ALPN: cfg.alpn, TLS12: cfg.tls12, Cut: cut, KRel: rel, KOff: off})
				}
			}
		}
	}
	if run.Thorough() {
		// every byte offset of the recorded sessions (the upper bound is clamped to the session length)
		for _, cfg := range abortConfigs {
			for _, cut := range []string{"fin", "rst"} {
				for k := 1; k < 480; k++ {
					add(&caseSpec{Kind: "abort", ALPN: cfg.alpn, TLS12: cfg.tls12, Cut: cut, KRel: "abs", KOff: k})
				}
			}
		}
	}
	rng := run.Rand(16)
	for n := run.Pick(400, 3000); n > 0; n-- {
		add(drawCase(rng, 0, false))
	}
	// interleave kinds: a deterministic shuffle so that lanes see a mixture
	rng.Shuffle(len(out), func(i, j int) { out[i], out[j] = out[j], out[i] })
	return out
}

// ---------------------------------------------------------------- batches

type batchWitness struct {
	Mode     string      `json:"mode"`
	Cases    []*caseSpec `json:"cases"`
	Before   string      `json:"metric_before"`
	After    string      `json:"metric_after"`
	Accepted int         `json:"accepted"`
	Expected string      `json:"expected"`
}

func (l *lane) batch(cases []*caseSpec) {
	run := l.run
	acc0 := l.acct.Accepted()
	prev := l.prev
	results := make([]*result, len(cases))
	var wg sync.WaitGroup
	for i := range cases {
		wg.Add(1)
		go func(i int) {
			defer wg.Done()
			results[i] = runCase(l.px.Addr, cases[i], nil)
		}(i)
	}
	wg.Wait()
	clientsDone := time.Now()
	w := &batchWitness{Mode: "batch", Cases: cases, Before: prev.String()}
	connected := 0
	byLocal := map[string][]*result{} // a client port can be reused within one batch
	for i, r := range results {
		if r.Anomaly != "" {
			run.Add("harness_anomalies", 1)
			run.Inconclusive("batch connection %d (%s): %s", cases[i].ID, cases[i].Kind, r.Anomaly)
		}
		if r.Connected {
			connected++
			byLocal[r.Local] = append(byLocal[r.Local], r)
		}
	}
	// every TCP connection the clients established is handed out by Accept()
	deadline := time.Now().Add(5 * time.Second)
	for l.acct.Accepted()-acc0 < connected && time.Now().Before(deadline) {
		time.Sleep(time.Millisecond)
	}
	if !l.acct.WaitAllClosed(15 * time.Second) {
		run.Inconclusive("batch: %d connection(s) still not closed by the server 15 s after all clients were done", len(l.acct.Open()))
		l.seen = l.acct.Accepted()
		l.resync()
		return
	}
	accepted := l.acct.Accepted() - acc0
	w.Accepted = accepted
	conns := l.acct.Conns()[acc0:]
	l.seen = l.acct.Accepted()
	// expected multiset from the connections that were accepted
	exact := snap{}
	amb := map[string]int{} // protocol -> number of connections allowed {fail, ok(proto)}
	matched := 0
	accByAddr := map[string]int{}
	for _, ac := range conns {
		accByAddr[ac.RemoteAddr().String()]++
	}
	for addr, n := range accByAddr {
		rs := byLocal[addr]
		if len(rs) != n {
			// some connection from this address was never accepted (or is not ours): which one is unknown
			run.Inconclusive("batch: %d accepted connection(s) from %s but %d client case(s)", n, addr, len(rs))
			l.resync()
			return
		}
		for _, r := range rs {
			if r.Anomaly != "" || len(r.Allowed) == 0 {
				run.Inconclusive("batch: accepted connection from %s has no judged client case", addr)
				l.resync()
				return
			}
			matched++
			switch {
			case len(r.Allowed) == 1:
				exact[r.Allowed[0]]++
			case len(r.Allowed) == 2 && r.Allowed[0] == lblFail && r.Allowed[1][0] == "1":
				amb[r.Allowed[1][1]]++
				run.Add("batch_two_label_cases", 1)
			default:
				panic(fmt.Sprintf("unexpected allowed set %v", r.Allowed))
			}
		}
	}
	if matched < connected {
		run.Add("never_accepted", int64(connected-matched))
	}
	w.Expected = fmt.Sprintf("exact %v, either-fail-or-ok by protocol %v", exact, amb)

	// poll until the sum over all labels equals the number of Accept() returns
	var now snap
	for {
		now = l.gather(nil)
		got := now.total() - prev.total()
		if got == int64(accepted) {
			break
		}
		if got > int64(accepted) {
			w.After = now.String()
			run.Violation("batch-overcount", w, "batch of %d accepted connections: requests_total grew by %d (delta %v)", accepted, got, diff(now, prev))
			l.resync()
			return
		}
		if time.Since(clientsDone) > batchSettleBound+15*time.Second || time.Since(lastClose(conns)) > batchSettleBound {
			w.After = now.String()
			run.Violation("batch-undercount", w, "batch of %d accepted connections, all closed by the server for %v: requests_total grew by %d only (delta %v; expected %s)",
				accepted, time.Since(lastClose(conns)).Round(time.Millisecond), got, diff(now, prev), w.Expected)
			l.resync()
			return
		}
		time.Sleep(time.Millisecond)
	}
	lat := time.Since(lastClose(conns)).Microseconds()
	for {
		old := atomic.LoadInt64(&maxBatchSetUs)
		if lat <= old || atomic.CompareAndSwapInt64(&maxBatchSetUs, old, lat) {
			break
		}
	}
	w.After = now.String()
	d := diff(now, prev)
	// per-label: d[ok(p)] - exact[ok(p)] must lie in [0, amb[p]]; the failures take the rest
	okLabels := true
	var why []string
	var ambUsed int64
	for _, p := range []string{"", "h2", "http/1.1"} {
		x := d[lblOK(p)] - exact[lblOK(p)]
		if x < 0 || x > int64(amb[p]) {
			okLabels = false
			why = append(why, fmt.Sprintf("{ok=1,%q}: observed %d, expected %d..%d", p, d[lblOK(p)], exact[lblOK(p)], exact[lblOK(p)]+int64(amb[p])))
		}
		ambUsed += x
	}
	var ambTotal int64
	for _, n := range amb {
		ambTotal += int64(n)
	}
	if f := d[lblFail]; f < exact[lblFail] || f > exact[lblFail]+ambTotal {
		okLabels = false
		why = append(why, fmt.Sprintf("{ok=0,\"\"}: observed %d, expected %d..%d", f, exact[lblFail], exact[lblFail]+ambTotal))
	}
	for k := range d {
		if k != lblFail && k != lblOK("") && k != lblOK("h2") && k != lblOK("http/1.1") {
			okLabels = false
			why = append(why, fmt.Sprintf("label %v moved", k))
		}
	}
	if !okLabels && debugLog != nil {
		logs := strings.Split(debugLog.String(), "\n")
		for i, r := range results {
			if !r.Connected {
				continue
			}
			for _, ln := range logs {
				if strings.Contains(ln, "("+r.Local+")") && !strings.Contains(ln, "client hello (") {
					fmt.Printf("[debug] case %+v\n         result %+v\n         log %s\n", *cases[i], *r, ln)
				}
			}
		}
	}
	if !okLabels {
		run.Violation("batch-wrong-labels", w, "batch of %d concurrent connections: total is right but the per-label counts are not the expected multiset: %s; delta %v, expected %s",
			accepted, strings.Join(why, "; "), d, w.Expected)
		l.resync()
		return
	}
	for k, v := range d {
		run.Add(fmt.Sprintf("observed_ok%s_%s", k[0], protoName(k[1])), v)
	}
	time.Sleep(batchRecheck)
	again := l.gather(nil)
	run.Add("overcount_rechecks", 1)
	if d2 := diff(again, now); len(d2) != 0 {
		w.After = again.String()
		run.Violation("batch-counted-again", w, "batch of %d connections was fully counted and %v later requests_total moved again by %v with no connection open", accepted, batchRecheck, d2)
		l.resync()
		return
	}
	l.prev = again
	run.Add("batches", 1)
	run.Add("batch_connections", int64(accepted))
	for i, r := range results {
		if r.Connected {
			noteCase(run, cases[i], r, "batch_")
		}
	}
}

func lastClose(conns []*rig.AcctConn) time.Time {
	var t time.Time
	for _, c := range conns {
		<-c.Done // closed after ClosedAt was written (the caller has waited for every Close)
		if c.ClosedAt.After(t) {
			t = c.ClosedAt
		}
	}
	return t
}

func noteCase(run *verdict.Run, c *caseSpec, r *result, prefix string) {
	run.Eval(1)
	run.Add(prefix+"conn_"+c.Kind, 1)
	if c.Kind == "abort" {
		run.Add(prefix+"abort_"+r.Class, 1)
		if r.Class == "after-fin-noproof" && os.Getenv("VERIF_C16_DEBUG") != "" {
			fmt.Printf("[debug] noproof case %+v\n   result %+v\n", *c, *r)
		}
	}
	if r.Weak {
		run.Add(prefix+"two_label_oracle", 1)
	}
	if c.Kind == "plainhttp" && strings.HasPrefix(r.RawReply, "HTTP/1.0 400") {
		run.Add("plainhttp_400_seen", 1)
	}
	if r.CleanEOF {
		run.Add("close_notify_seen", 1)
	}
	run.Add("responses_received", int64(r.Responses))
	run.Distinct(fmt.Sprintf("%s|%v|%v|%d|%s|%s|%s|%d|%x|%s|%v", c.Kind, c.ALPN, c.TLS12, c.NReq, c.Close, c.Cut, r.Class, c.K, c.RecVer, c.Payload, r.Allowed))
}

// ---------------------------------------------------------------- main

func main() {
	run := verdict.Start("C16", "exploration",
		"connections of every outcome (h2 / http/1.1 / no ALPN / both ALPN with 0..3 requests and five ways of closing; plain HTTP, garbage, stalled until the handshake timeout, unknown ALPN, TLS 1.1, forged record version = capture failure, HTTP/1.1 idle timeout; client abort by FIN or RST after exactly k written bytes of a recorded handshake+request, TLS 1.2 and 1.3) run one at a time (delta must be exactly one increment in a label the client's own observations allow) and in concurrent batches of 100..300 (sum = Accept() returns, per-label multiset); distinct by (kind, ALPN, TLS version, requests, close mode, cut mode and offset, allowed set)")
	be := rig.NewBackend(nil)
	defer be.Close()

	if run.ReplayFile != "" {
		replay(run, be.URL)
		return
	}

	nl := 4
	var lanes []*lane
	for i := 0; i < nl; i++ {
		l, err := startLane(run, i, be.URL)
		if err != nil {
			run.Inconclusive("start proxy: %v", err)
			run.Finish()
		}
		lanes = append(lanes, l)
	}
	hookLane, err := startHookLane(run, nl, be.URL) // (composed with the others, before any traffic)
	if err != nil {
		run.Inconclusive("start proxy: %v", err)
		run.Finish()
	}
	run.Set("handshake_timeout_ms", handshakeTimeout.Milliseconds())
	run.Set("http_idle_timeout_ms", idleTimeout.Milliseconds())

	// calibration: the uncut sessions (also judged as singles)
	for _, c := range calibrationCases() {
		lanes[0].singleNoted(c)
	}
	cal := map[string]calibT{}
	calibMu.Lock()
	for k, v := range calib {
		cal[k] = v
	}
	calibMu.Unlock()
	run.Set("recorded_sessions", cal)
	if len(cal) != len(abortConfigs) {
		run.Inconclusive("calibration incomplete: %d of %d recorded sessions", len(cal), len(abortConfigs))
		run.Finish()
	}

	// (a) singles, one lane = one proxy = one connection at a time
	cases := singlesList(run)
	var wg sync.WaitGroup
	for li, l := range lanes {
		wg.Add(1)
		go func(li int, l *lane) {
			defer wg.Done()
			for i := li; i < len(cases); i += nl {
				if run.Violations() >= 8 {
					return
				}
				l.singleNoted(cases[i])
			}
		}(li, l)
	}
	wg.Add(1)
	go func() { defer wg.Done(); hookLane.hookPanics() }()
	wg.Wait()
	hookLane.hangupBursts()
	run.Logf("singles done")

	// (b) batches on lane 0 (its counters continue from the singles)
	nb := run.Pick(10, 100)
	brng := run.Rand(1600)
	id := 1000000
	for b := 0; b < nb && run.Violations() < 8; b++ {
		n := 100 + brng.Intn(201)
		var bc []*caseSpec
		for i := 0; i < n; i++ {
			c := drawCase(brng, id, true)
			id++
			bc = append(bc, c)
		}
		lanes[b%nl].batch(bc)
	}

	// final: nothing moves once everything is over, and totals equal Accept() returns per proxy
	time.Sleep(200 * time.Millisecond)
	for _, l := range append(append([]*lane{}, lanes...), hookLane) {
		final := l.gather(nil)
		if d := diff(final, l.prev); len(d) != 0 && run.Violations() == 0 {
			run.Violation("moved-at-rest", nil, "proxy %d: requests_total moved by %v while no connection existed", l.id, d)
		}
		if run.Violations() == 0 && final.total() != int64(l.acct.Accepted()) {
			run.Violation("total-differs-from-accepts", nil, "proxy %d: requests_total sums to %d, Accept() returned %d connections", l.id, final.total(), l.acct.Accepted())
		}
		run.Add("accepted_connections", int64(l.acct.Accepted()))
		run.Add("final_total", final.total())
	}
	run.Add("gathers", atomic.LoadInt64(&gathers))
	run.Set("max_settle_latency_us_single", atomic.LoadInt64(&maxSettleUs))
	run.Set("max_settle_latency_us_batch", atomic.LoadInt64(&maxBatchSetUs))
	for _, l := range append(append([]*lane{}, lanes...), hookLane) {
		l.px.Stop()
	}
	run.Require("single_conn_hook_panicked", 8)
	run.Require("hangup_burst_rounds", 4)

	run.Require("single_conn_h2", 15)
	run.Require("single_conn_h1", 15)
	run.Require("single_conn_noalpn", 5)
	run.Require("single_conn_plainhttp", 5)
	run.Require("single_conn_garbage", 5)
	run.Require("single_conn_stall", 2)
	run.Require("single_conn_capturefail", 3)
	run.Require("single_abort_before", 30)
	run.Require("single_abort_after-fin", 15)
	run.Require("single_abort_after-rst", 15)
	run.Require("mid_connection_checks", 20)
	run.Require("batches", int64(nb))
	run.Require("overcount_rechecks", 200)
	run.Assume("the expected label of a connection is derived from what its client observed: application data or close_notify from the server proves ok=1; a handshake the client could not finish (TLS 1.3: before its Finished was written) proves ok=0; a client that finished its handshake but saw neither proof, and a reset at or after the end of the Finished flight, are accepted under either label (counted as two_label_oracle)")
	run.Assume("'when that connection ends' is judged as: not while the connection is open and being served, and within 5 s (singles) / 10 s (batches) after the server closed it; observed latencies are in the evidence")
	run.Assume("the verifhook delay points named in DESIGN.md do not exist in /repo; schedules are varied by concurrency, random start/hold times and four proxies working in parallel only")
	run.Finish()
}

// singleNoted runs a single and records its evidence counters.
func (l *lane) singleNoted(c *caseSpec) *result {
	l.last = nil
	judged := l.single(c)
	if judged && l.last != nil {
		noteCase(l.run, c, l.last, "single_")
		if l.run.WantSample() && c.ID%37 == 0 {
			l.run.Sample(map[string]any{"case": c, "client": l.last})
		}
	}
	return l.last
}

func replay(run *verdict.Run, backendURL string) {
	var w struct {
		Mode  string      `json:"mode"`
		Case  *caseSpec   `json:"case"`
		Cases []*caseSpec `json:"cases"`
	}
	if err := verdict.LoadReplay(run.ReplayFile, &w); err != nil || (w.Case == nil && len(w.Cases) == 0) {
		run.Inconclusive("replay file unreadable or not a C16 witness: %v", err)
		run.Finish()
	}
	l, err := startLane(run, 0, backendURL)
	if err != nil {
		run.Inconclusive("start proxy: %v", err)
		run.Finish()
	}
	for _, c := range calibrationCases() {
		l.single(c)
	}
	if w.Mode == "batch" {
		for i := 0; i < 3 && run.Violations() == 0; i++ {
			l.batch(w.Cases)
		}
	} else {
		for i := 0; i < 5 && run.Violations() == 0; i++ {
			l.singleNoted(w.Case)
		}
	}
	if run.Violations() == 0 {
		fmt.Println("replay: case holds")
	}
	l.px.Stop()
	run.Finish()
}
