//go:build verif

// C10 — no client behaviour or per-connection failure takes the proxy down.
//
// The proxy runs in a child process (cmd/victim, built from the current tree).
// Every case is journalled before it is sent; after each case (fault / panic /
// cut classes) or batch (byte-stream classes) the monitor checks that the
// process is alive and that a fresh control client is served correctly.
package main

import (
	"bufio"
	"bytes"
	"crypto/tls"
	"encoding/hex"
	"encoding/json"
	"fmt"
	"io"
	"math/rand"
	"net"
	"os"
	"os/exec"
	"path/filepath"
	"strconv"
	"strings"
	"sync"
	"sync/atomic"
	"time"

	"golang.org/x/net/http2/hpack"

	"verif/internal/h2peer"
	"verif/internal/hello"
	"verif/internal/rig"
	"verif/internal/verdict"
)

type plan struct {
	Fault *rig.FaultPlan `json:"fault,omitempty"`
	Panic string         `json:"panic,omitempty"`
}

type tcase struct {
	Class    string         `json:"class"`
	Proto    string         `json:"protocol,omitempty"`
	Hex      string         `json:"bytes_hex,omitempty"`
	Offset   int            `json:"cut_after_client_bytes,omitempty"`
	RST      bool           `json:"rst,omitempty"`
	Fault    *rig.FaultPlan `json:"fault,omitempty"`
	Panic    string         `json:"panic_in,omitempty"`
	Sched    string         `json:"write_scheduler,omitempty"`
	Step     string         `json:"stall_step,omitempty"`
	raw      []byte
	gen      string // how raw is produced from genSeed when the case is run (raw is dropped again afterwards:
	genSeed  int64  //  tens of thousands of byte strings held for the whole run cost tens of GB under the race detector)
	stallErr string
}

type victim struct {
	id      int
	sched   string
	cmd     *exec.Cmd
	in      io.WriteCloser
	out     *bufio.Reader
	addr    string
	exited  chan struct{}
	errPath string
	journal *os.File
}

var victimBin string

const singleCPUWorker = 5

// this worker's proxy runs with sub-second HTTP read/write timeouts, so that the per-stream
// timers fire while streams are still open
const shortTimeoutWorker = 4

func startVictim(id int, sched string) (*victim, error) {
	scratch := os.Getenv("VERIF_SCRATCH")
	v := &victim{id: id, sched: sched, exited: make(chan struct{})}
	v.errPath = filepath.Join(scratch, fmt.Sprintf("victim-%d-%d.err", id, time.Now().UnixNano()))
	ef, err := os.Create(v.errPath)
	if err != nil {
		return nil, err
	}
	v.cmd = exec.Command(victimBin)
	v.cmd.Env = append(os.Environ(), "VICTIM_SCHEDULER="+sched)
	if id == shortTimeoutWorker {
		v.cmd.Env = append(v.cmd.Env, "VICTIM_TIMEOUTS=short")
	}
	if id == singleCPUWorker {
		// a single-CPU deployment: process-wide pools and caches are then shared by every
		// connection's goroutines, which makes cross-connection contamination deterministic
		v.cmd.Env = append(v.cmd.Env, "GOMAXPROCS=1")
	}
	v.cmd.Stderr = ef
	v.in, _ = v.cmd.StdinPipe()
	op, _ := v.cmd.StdoutPipe()
	v.out = bufio.NewReader(op)
	if err := v.cmd.Start(); err != nil {
		return nil, err
	}
	ef.Close()
	go func() { v.cmd.Wait(); close(v.exited) }()
	line, err := v.readLine(60 * time.Second)
	if err != nil || !strings.HasPrefix(line, "ready ") {
		return nil, fmt.Errorf("victim did not come up: %q %v", line, err)
	}
	v.addr = strings.TrimSpace(strings.TrimPrefix(line, "ready "))
	v.journal, _ = os.Create(filepath.Join(scratch, fmt.Sprintf("journal-%d.jsonl", id)))
	return v, nil
}

func (v *victim) readLine(timeout time.Duration) (string, error) {
	type res struct {
		s   string
		err error
	}
	ch := make(chan res, 1)
	go func() { s, err := v.out.ReadString('\n'); ch <- res{s, err} }()
	select {
	case r := <-ch:
		return strings.TrimSpace(r.s), r.err
	case <-v.exited:
		return "", fmt.Errorf("victim exited")
	case <-time.After(timeout):
		return "", fmt.Errorf("timeout")
	}
}

func (v *victim) alive() bool {
	select {
	case <-v.exited:
		return false
	default:
		return true
	}
}

func (v *victim) arm(p plan) bool {
	b, _ := json.Marshal(p)
	if _, err := fmt.Fprintf(v.in, "arm %s\n", b); err != nil {
		return false
	}
	l, err := v.readLine(20 * time.Second)
	return err == nil && l == "armed"
}

func (v *victim) disarm() bool {
	if _, err := fmt.Fprintln(v.in, "disarm"); err != nil {
		return false
	}
	l, err := v.readLine(20 * time.Second)
	return err == nil && strings.HasPrefix(l, "disarmed")
}

// census asks the victim how many proxy goroutines exist (and for one of their stacks).
func (v *victim) census() (int, string, bool) {
	if _, err := fmt.Fprintln(v.in, "census"); err != nil {
		return 0, "", false
	}
	l, err := v.readLine(20 * time.Second)
	if err != nil || !strings.HasPrefix(l, "census ") {
		return 0, "", false
	}
	f := strings.SplitN(l, " ", 3)
	n, _ := strconv.Atoi(f[1])
	st := ""
	if len(f) > 2 {
		st = f[2]
	}
	return n, st, true
}

// heap asks the victim for its live heap (after a collection), in bytes.
func (v *victim) heap() (int64, bool) {
	if _, err := fmt.Fprintln(v.in, "heap"); err != nil {
		return 0, false
	}
	l, err := v.readLine(30 * time.Second)
	if err != nil || !strings.HasPrefix(l, "heap ") {
		return 0, false
	}
	n, _ := strconv.ParseInt(strings.TrimPrefix(l, "heap "), 10, 64)
	return n, true
}

// forgeVersionConn rewrites the record-layer version of the first record a TLS client writes (crypto/tls does
// not look at it; the proxy's ClientHello capture refuses it).
type forgeVersionConn struct {
	net.Conn
	ver  uint16
	done bool
}

func (c *forgeVersionConn) Write(b []byte) (int, error) {
	if !c.done && len(b) >= 5 && b[0] == 0x16 {
		c.done = true
		b = append([]byte{}, b...)
		b[1], b[2] = byte(c.ver>>8), byte(c.ver)
	}
	return c.Conn.Write(b)
}

// uploadOnOddRecordVersion: a client whose first record carries a version the capture refuses completes the
// handshake and uploads `total` bytes for as long as it is allowed to; it then keeps the connection open and
// reports how many bytes it could write. What the proxy RETAINS meanwhile is measured by the caller.
func uploadOnOddRecordVersion(addr string, ver uint16, total int, written chan<- int, hold <-chan struct{}) int {
	sent := 0
	defer func() {
		select {
		case written <- sent:
		default:
		}
	}()
	d := net.Dialer{Timeout: 5 * time.Second}
	c, err := d.Dial("tcp", addr)
	if err != nil {
		return 0
	}
	defer c.Close()
	var under net.Conn = c
	if ver != 0 {
		under = &forgeVersionConn{Conn: c, ver: ver}
	}
	t := tls.Client(under, &tls.Config{InsecureSkipVerify: true, ServerName: "front.example", NextProtos: []string{"http/1.1"}})
	c.SetDeadline(time.Now().Add(60 * time.Second))
	if t.Handshake() != nil {
		return 0
	}
	fmt.Fprintf(t, "POST /upload HTTP/1.1\r\nHost: front.example\r\nContent-Length: %d\r\n\r\n", total)
	chunk := bytes.Repeat([]byte("m"), 256<<10)
	for sent < total-len(chunk) { // the last chunk is held back: the exchange stays in flight
		n, err := t.Write(chunk)
		sent += n
		if err != nil {
			break
		}
	}
	written <- sent
	<-hold
	return sent
}

func (v *victim) stop() {
	fmt.Fprintln(v.in, "quit")
	select {
	case <-v.exited:
	case <-time.After(5 * time.Second):
		v.cmd.Process.Kill()
	}
}

func (v *victim) stderrTail() string {
	b, _ := os.ReadFile(v.errPath)
	// keep the panic header
	if i := bytes.Index(b, []byte("panic:")); i >= 0 {
		b = b[i:]
	} else if i := bytes.Index(b, []byte("fatal error:")); i >= 0 {
		b = b[i:]
	}
	if len(b) > 2500 {
		b = b[:2500]
	}
	return string(b)
}

// control: a fresh client must be served correctly.
func (v *victim) control(tag string) error {
	for _, proto := range []string{"http/1.1", "h2"} {
		s, err := rig.Dial(v.addr, []string{proto}, nil, nil)
		if err != nil {
			return fmt.Errorf("control client (%s) cannot connect/handshake: %v", proto, err)
		}
		hn := rig.TagHeader
		if proto == "h2" {
			hn = strings.ToLower(hn)
		}
		resp, err := s.Do("GET", "/control", "front.example", [][2]string{{hn, tag}}, nil, 15*time.Second)
		if err != nil {
			s.Close()
			return fmt.Errorf("control request (%s) failed: %v", proto, err)
		}
		if resp.Status != 200 || string(resp.Body) != "backend:"+tag {
			s.Close()
			return fmt.Errorf("control request (%s) answered %d %q", proto, resp.Status, resp.Body)
		}
		// ... and an upload: request bodies go through process-wide buffer pools
		n := []int{1, 700, 1024, 1500, 2048, 3000, 4096, 8192, 16384}[int(atomic.AddInt64(&controlBodyN, 1))%9]
		resp, err = s.Do("POST", "/control-upload", "front.example", [][2]string{{hn, tag + "-up"}}, bytes.Repeat([]byte("u"), n), 15*time.Second)
		s.Close()
		if err != nil {
			return fmt.Errorf("control upload of %d bytes (%s) failed: %v", n, proto, err)
		}
		if resp.Status != 200 || string(resp.Body) != "backend:"+tag+"-up" {
			return fmt.Errorf("control upload of %d bytes (%s) answered %d %q", n, proto, resp.Status, resp.Body)
		}
	}
	return nil
}

var controlBodyN int64

// uploadsOfPoolSizes: a valid HTTP/2 session that uploads bodies whose sizes sit on and around the size
// classes of the server's body-buffer pools (1, 2, 4, 8, 16 KiB), with and without content-length, in
// one or several DATA frames.
func uploadsOfPoolSizes(r *rand.Rand) []byte {
	var b bytes.Buffer
	b.WriteString(h2peer.ClientPreface)
	b.Write(h2peer.RawFrame(4, 0, 0, []byte{0, 3, 0, 0, 0, 100, 0, 4, 0, 16, 0, 0}))
	b.Write(h2peer.RawFrame(8, 0, 0, []byte{0, 16, 0, 0}))
	sizes := []int{1024, 2048, 4096, 8192, 16384, 16384 + 2048, 2*16384 + 1024, 1025, 2047, 2049, 1536, 4095, 8193}
	var hb bytes.Buffer
	enc := hpack.NewEncoder(&hb)
	for k, sid := 0, uint32(1); k < 1+r.Intn(4); k, sid = k+1, sid+2 {
		n := sizes[r.Intn(len(sizes))]
		hb.Reset()
		fs := []hpack.HeaderField{{Name: ":method", Value: "POST"}, {Name: ":scheme", Value: "https"}, {Name: ":authority", Value: "front.example"}, {Name: ":path", Value: "/pool"}}
		if r.Intn(3) != 0 {
			fs = append(fs, hpack.HeaderField{Name: "content-length", Value: fmt.Sprint(n)})
		}
		for _, f := range fs {
			enc.WriteField(f)
		}
		b.Write(h2peer.RawFrame(1, 4, sid, hb.Bytes()))
		body := bytes.Repeat([]byte{'p'}, n)
		for len(body) > 0 {
			m := min(len(body), []int{16384, 2048, 1024, 1500, 1 + r.Intn(3000)}[r.Intn(5)])
			fl := uint8(0)
			if m == len(body) {
				fl = 1
			}
			b.Write(h2peer.RawFrame(0, fl, sid, body[:m]))
			body = body[m:]
		}
	}
	return b.Bytes()
}

// controlBurst runs n control requests at once on fresh connections.
func (v *victim) controlBurst(tag string, n int) error {
	errs := make(chan error, n)
	for i := 0; i < n; i++ {
		go func(i int) { errs <- v.control(fmt.Sprintf("%s-b%d", tag, i)) }(i)
	}
	var first error
	for i := 0; i < n; i++ {
		if err := <-errs; err != nil && first == nil {
			first = err
		}
	}
	return first
}

// ---- case execution (client side) ----

type cutConn struct {
	net.Conn
	limit, written int64
	rst            bool
	cut            int32
}

func (c *cutConn) Write(b []byte) (int, error) {
	rem := c.limit - atomic.LoadInt64(&c.written)
	if rem <= 0 {
		c.doCut()
		return 0, io.ErrClosedPipe
	}
	if int64(len(b)) <= rem {
		n, err := c.Conn.Write(b)
		if atomic.AddInt64(&c.written, int64(n)) >= c.limit {
			c.doCut()
		}
		return n, err
	}
	n, _ := c.Conn.Write(b[:rem])
	atomic.AddInt64(&c.written, int64(n))
	c.doCut()
	return n, io.ErrClosedPipe
}

func (c *cutConn) doCut() {
	if atomic.CompareAndSwapInt32(&c.cut, 0, 1) {
		if tc, ok := c.Conn.(*net.TCPConn); ok && c.rst {
			tc.SetLinger(0)
		}
		c.Conn.Close()
	}
}

func session(conn net.Conn, proto string) {
	tc := tls.Client(conn, &tls.Config{InsecureSkipVerify: true, ServerName: "front.example", NextProtos: []string{proto}})
	conn.SetDeadline(time.Now().Add(8 * time.Second))
	if tc.Handshake() != nil {
		return
	}
	s, err := rig.NewSession(tc, tc.ConnectionState().NegotiatedProtocol, nil)
	if err != nil {
		return
	}
	hn := rig.TagHeader
	if proto == "h2" {
		hn = strings.ToLower(hn)
	}
	for q := 0; q < 2; q++ {
		if _, err := s.Do("POST", "/c10", "front.example", [][2]string{{hn, fmt.Sprintf("c10-%d", q)}}, []byte("body-0123456789"), 6*time.Second); err != nil {
			return
		}
	}
}

func drain(c net.Conn, quiet time.Duration) {
	buf := make([]byte, 4096)
	for i := 0; i < 50; i++ {
		c.SetReadDeadline(time.Now().Add(quiet))
		if _, err := c.Read(buf); err != nil {
			return
		}
	}
}

// materialize builds the bytes of a generated case from its own seed.
func (tc *tcase) materialize() {
	if tc.raw != nil || tc.gen == "" {
		return
	}
	rng := rand.New(rand.NewSource(tc.genSeed))
	switch tc.gen {
	case "pool-uploads":
		tc.raw = uploadsOfPoolSizes(rng)
	case "prehandshake":
		tc.raw = preHandshake(rng)
	case "h1":
		tc.raw = h1Garbage(rng)
	case "h2":
		tc.raw = mutate(rng, h2Valid(rng))
		switch rng.Intn(5) {
		case 0, 1:
			tc.raw = randomFrames(rng)
		case 2:
			tc.raw = floodThenRequest(rng)
		}
	}
}

// drop frees the bytes of a generated case (they can be rebuilt from the seed).
func (tc *tcase) drop() {
	if tc.gen != "" {
		tc.raw, tc.Hex = nil, ""
	}
}

func execCase(v *victim, tc *tcase) {
	tc.materialize()
	d := net.Dialer{Timeout: 5 * time.Second}
	c, err := d.Dial("tcp", v.addr)
	if err != nil {
		return
	}
	defer c.Close()
	switch tc.Class {
	case "prehandshake":
		c.SetWriteDeadline(time.Now().Add(3 * time.Second))
		c.Write(tc.raw)
		drain(c, 300*time.Millisecond)
	case "post-handshake-bytes":
		t := tls.Client(c, &tls.Config{InsecureSkipVerify: true, ServerName: "front.example", NextProtos: []string{tc.Proto}})
		c.SetDeadline(time.Now().Add(5 * time.Second))
		if t.Handshake() != nil {
			return
		}
		t.Write(tc.raw)
		drain(t, 300*time.Millisecond)
	case "cut":
		cc := &cutConn{Conn: c, limit: int64(tc.Offset), rst: tc.RST}
		if tc.Offset == 0 {
			cc.doCut()
			return
		}
		session(cc, tc.Proto)
		cc.doCut()
	case "io-fault", "panic":
		session(c, tc.Proto)
	case "stalled-download-reset":
		stalledDownloadReset(c)
	case "h2-held-streams":
		heldStreams(c, tc.Offset)
	case "stall-until-cut":
		// Clients that stall at each step - also 1, 2, 3, 4 and 5 bytes into the ClientHello record - and STAY until the
		// proxy cuts them by its own timers (8 s): whatever runs at that moment (the TLS stack's handshake-interrupt
		// goroutine calls Close on the connection wrapper) runs on behalf of that client. After seeded change C10-M.
		steps := []string{"hello-1-bytes", "hello-2-bytes", "hello-3-bytes", "hello-4-bytes", "hello-5-bytes", "hello-6-bytes", "mid-clienthello", "after-clienthello", "after-handshake-h1", "after-handshake-h2", "mid-preface-h2", "mid-request-line-h1"}
		var wg sync.WaitGroup
		for i, st := range steps {
			wg.Add(1)
			go func(i int, st string) {
				defer wg.Done()
				cc := c
				if i > 0 {
					var err error
					if cc, err = d.Dial("tcp", v.addr); err != nil {
						return
					}
					defer cc.Close()
				}
				stallAt(cc, st)
				cc.SetReadDeadline(time.Now().Add(13 * time.Second))
				io.Copy(io.Discard, cc) // until the proxy hangs up (or 13 s)
			}(i, st)
		}
		wg.Wait()
	case "stall":
		// advance to the step, then stay silent with the connection open while a control client must be served
		stallAt(c, tc.Step)
		// the victim's own timers (8 s) must not be what lets the control client through
		done := make(chan error, 1)
		go func() { done <- v.control(fmt.Sprintf("ctl-stall-%d", atomic.AddInt64(&stallN, 1))) }()
		select {
		case err := <-done:
			if err != nil {
				tc.stallErr = err.Error()
			}
		case <-time.After(4 * time.Second):
			tc.stallErr = "control client not served within 4 s while the stalled client was still connected"
			<-done
		}
	}
}

var stallN int64

// stalledDownloadReset: an HTTP/2 client requests a large download; the proxy's socket write
// stalls with a DATA frame in flight (injected at the listener: like a peer that stopped
// reading), the client resets the stream, and then the stalled write fails.
func stalledDownloadReset(c net.Conn) {
	t := tls.Client(c, &tls.Config{InsecureSkipVerify: true, ServerName: "front.example", NextProtos: []string{"h2"}})
	c.SetDeadline(time.Now().Add(10 * time.Second))
	if t.Handshake() != nil {
		return
	}
	var b bytes.Buffer
	b.WriteString(h2peer.ClientPreface)
	b.Write(h2peer.RawFrame(4, 0, 0, []byte{0, 4, 0x7f, 0xff, 0xff, 0xff})) // INITIAL_WINDOW_SIZE 2^31-1
	b.Write(h2peer.RawFrame(8, 0, 0, []byte{0x7f, 0xff, 0, 0}))             // connection window wide open
	var hb bytes.Buffer
	enc := hpack.NewEncoder(&hb)
	for _, f := range []hpack.HeaderField{{Name: ":method", Value: "GET"}, {Name: ":scheme", Value: "https"}, {Name: ":authority", Value: "front.example"}, {Name: ":path", Value: "/big"}} {
		enc.WriteField(f)
	}
	b.Write(h2peer.RawFrame(1, 5, 1, hb.Bytes()))
	if _, err := t.Write(b.Bytes()); err != nil {
		return
	}
	go io.Copy(io.Discard, t)
	time.Sleep(400 * time.Millisecond)                    // the proxy's write of a DATA frame is now blocked
	t.Write(h2peer.RawFrame(3, 0, 1, []byte{0, 0, 0, 8})) // RST_STREAM(CANCEL): the handler stops waiting
	time.Sleep(900 * time.Millisecond)                    // the stalled write fails meanwhile
}

// heldStreams: HTTP/2 requests of several shapes whose responses cannot complete (the client
// grants no flow-control window) are held open for longer than the proxy's read and write
// timeouts, so that the per-stream timers fire on streams in every shape.
func heldStreams(c net.Conn, variant int) {
	t := tls.Client(c, &tls.Config{InsecureSkipVerify: true, ServerName: "front.example", NextProtos: []string{"h2"}})
	c.SetDeadline(time.Now().Add(10 * time.Second))
	if t.Handshake() != nil {
		return
	}
	var b bytes.Buffer
	b.WriteString(h2peer.ClientPreface)
	b.Write(h2peer.RawFrame(4, 0, 0, []byte{0, 4, 0, 0, 0, 0})) // INITIAL_WINDOW_SIZE 0: responses with a body cannot finish
	shapes := [][]hpack.HeaderField{
		{{Name: ":method", Value: "GET"}},
		{{Name: ":method", Value: "GET"}, {Name: "trailer", Value: "x-t"}},
		{{Name: ":method", Value: "GET"}, {Name: "te", Value: "trailers"}},
		{{Name: ":method", Value: "POST"}, {Name: "content-length", Value: "0"}},
		{{Name: ":method", Value: "POST"}, {Name: "trailer", Value: "x-t"}, {Name: "content-length", Value: "0"}},
		{{Name: ":method", Value: "HEAD"}, {Name: "trailer", Value: "x-a, x-b"}},
		{{Name: ":method", Value: "POST"}, {Name: "content-length", Value: "10"}}, // body never sent
		{{Name: ":method", Value: "POST"}, {Name: "trailer", Value: "x-t"}},       // body and trailers never sent
		{{Name: ":method", Value: "PUT"}, {Name: "expect", Value: "100-continue"}, {Name: "content-length", Value: "5"}},
	}
	sid := uint32(1)
	for k := 0; k < len(shapes); k++ {
		sh := shapes[(k+variant)%len(shapes)]
		var hb bytes.Buffer
		enc := hpack.NewEncoder(&hb)
		endStream := true
		for _, f := range sh {
			if f.Name == "content-length" && f.Value != "0" || (f.Name == "trailer" && sh[0].Value == "POST" && len(sh) == 2) {
				endStream = false
			}
		}
		fields := append([]hpack.HeaderField{sh[0], {Name: ":scheme", Value: "https"}, {Name: ":authority", Value: "front.example"}, {Name: ":path", Value: "/big"}}, sh[1:]...)
		for _, f := range fields {
			enc.WriteField(f)
		}
		flags := uint8(0x4)
		if endStream {
			flags |= 0x1
		}
		b.Write(h2peer.RawFrame(1, flags, sid, hb.Bytes()))
		sid += 2
	}
	if _, err := t.Write(b.Bytes()); err != nil {
		return
	}
	go io.Copy(io.Discard, t)
	time.Sleep(1800 * time.Millisecond) // longer than the proxy's 700 ms read and 900 ms write timeouts
}

// boundaryFrames: every small HEADERS / DATA / PUSH_PROMISE frame around the padding and
// priority length rules (what a frame parser slices with), 24 frames per connection.
func boundaryFrames() [][]byte {
	var frames [][]byte
	for _, t := range []uint8{0, 1, 5} {
		for _, fl := range []uint8{0x08, 0x28, 0x20, 0x2c, 0x0c, 0x2d} {
			for L := 0; L <= 12; L++ {
				for p := 0; p <= L+6; p++ {
					pl := make([]byte, L)
					if L > 0 {
						pl[0] = byte(p)
					}
					frames = append(frames, h2peer.RawFrame(t, fl, 0, pl)) // stream id patched below
				}
			}
		}
	}
	var conns [][]byte
	for off := 0; off < len(frames); off += 24 {
		var b bytes.Buffer
		b.WriteString(h2peer.ClientPreface)
		b.Write(h2peer.RawFrame(4, 0, 0, nil))
		for k, f := range frames[off:min(off+24, len(frames))] {
			sid := uint32(1 + 2*k)
			f[5], f[6], f[7], f[8] = byte(sid>>24), byte(sid>>16), byte(sid>>8), byte(sid)
			b.Write(f)
		}
		conns = append(conns, b.Bytes())
	}
	return conns
}

// orderFrames: a header block left open (HEADERS without END_HEADERS, or that plus a CONTINUATION without it)
// followed by one frame of EVERY type 0..255 - on the same stream, on another stream, on stream 0 - one
// connection each (added after seeded change C10-L: a frame-order rule relaxed for unknown types, and a type
// assertion elsewhere that relied on it, on the goroutine that reads frames).
func orderFrames() [][]byte {
	var conns [][]byte
	open := h2peer.RawFrame(1, 0x1, 1, []byte{0x82, 0x87}) // :method GET, :scheme https, END_STREAM, no END_HEADERS
	cont := h2peer.RawFrame(9, 0, 1, []byte{0x84})         // :path /, still open
	for t := 0; t < 256; t++ {
		for v := 0; v < 3; v++ {
			if v > 0 && t >= 16 && t%16 != 10 {
				continue // the second and third shape for the known types and a sample of the unknown ones
			}
			var b bytes.Buffer
			b.WriteString(h2peer.ClientPreface)
			b.Write(h2peer.RawFrame(4, 0, 0, nil))
			b.Write(open)
			sid, flags, pl := uint32(1), uint8(0x4), []byte{0x84, 0x41, 0x01, 'x'}
			switch v {
			case 1:
				b.Write(cont)
				sid, flags, pl = 3, 0, []byte{0, 0, 0, 0, 0, 0, 0, 1}
			case 2:
				sid, flags, pl = 0, 0x1, nil
			}
			b.Write(h2peer.RawFrame(uint8(t), flags, sid, pl))
			// what a client that got away with it would send next
			b.Write(h2peer.RawFrame(9, 0x4, 1, []byte{0x84, 0x41, 0x01, 'x'}))
			b.Write(h2peer.RawFrame(6, 0, 0, []byte("c10order")))
			conns = append(conns, b.Bytes())
		}
	}
	return conns
}

// greetings: what an h2-negotiating client may send INSTEAD of the client preface - the 24 bytes the server reads
// (on a goroutine of its own) before anything else: HTTP/1.x request lines of every shape (method alone, no
// space, one field, many fields, lower case, blanks only), near-prefaces with one byte changed, CR/LF runs,
// NULs. Added after seeded change C10-N (an error message for "bogus greetings" that indexed past a split line).
func greetings() [][]byte {
	var out [][]byte
	pad := func(s string) []byte {
		b := []byte(s)
		for len(b) < 48 {
			b = append(b, "\r\nHost: example.org\r\n\r\n"...)
		}
		return b
	}
	for _, m := range []string{"GET", "POST", "HEAD", "OPTIONS", "PRI", "CONNECT", "get", "G", "PATCHPATCHPATCHPATCHPATCHPATCH"} {
		for _, rest := range []string{"\r\n", "\n", " \r\n", "  \r\n", " /\r\n", " / HTTP/1.1\r\n", " * HTTP/2.0\r\n\r\nSM\r\n", "\t/\r\n", "\x00", ""} {
			out = append(out, pad(m+rest))
		}
	}
	for _, s := range []string{"\r\n\r\n\r\n\r\n\r\n\r\n\r\n\r\n\r\n\r\n\r\n\r\n", "                        ", "\x00\x00\x00\x00\x00\x00\x00\x00\x00\x00\x00\x00\x00\x00\x00\x00\x00\x00\x00\x00\x00\x00\x00\x00", "AAAAAAAAAAAAAAAAAAAAAAAA", " GET / HTTP/1.1\r\n", "\r\nGET / HTTP/1.1\r\n"} {
		out = append(out, pad(s))
	}
	pre := []byte(h2peer.ClientPreface)
	for i := range pre {
		for _, x := range []byte{' ', '\r', 'X'} {
			if pre[i] != x {
				b := append([]byte{}, pre...)
				b[i] = x
				out = append(out, append(b, h2peer.RawFrame(4, 0, 0, nil)...))
			}
		}
	}
	return out
}

func stallAt(c net.Conn, step string) {
	h := &hello.Hello{LegacyVersion: 0x0303, Compression: []byte{0}, Random: make([]byte, 32), Ciphers: []uint16{0xc02f, 0x009c, 0x1301},
		Exts: []hello.Ext{hello.SupportedGroups(29, 23), hello.PointFormats(0), hello.SigAlgs(0x0804, 0x0401, 0x0403), hello.ALPN("h2", "http/1.1")}}
	rec := h.Record()
	if n := 0; strings.HasPrefix(step, "hello-") {
		fmt.Sscanf(step, "hello-%d-bytes", &n)
		c.Write(rec[:n])
		return
	}
	switch step {
	case "before-any-byte":
		return
	case "mid-clienthello":
		c.Write(rec[:len(rec)/2])
		return
	case "after-clienthello":
		c.Write(rec)
		return
	}
	proto := "http/1.1"
	if strings.HasSuffix(step, "h2") {
		proto = "h2"
	}
	tc := tls.Client(c, &tls.Config{InsecureSkipVerify: true, ServerName: "front.example", NextProtos: []string{proto}})
	c.SetDeadline(time.Now().Add(10 * time.Second))
	if tc.Handshake() != nil {
		return
	}
	switch step {
	case "mid-request-line-h1":
		tc.Write([]byte("GET /stal"))
	case "mid-body-h1":
		tc.Write([]byte("POST /stall HTTP/1.1\r\nHost: front.example\r\nContent-Length: 1000\r\n\r\nonly-a-part"))
	case "mid-preface-h2":
		tc.Write([]byte("PRI * HTTP/2.0\r\n\r\nS"))
	case "after-settings-h2":
		tc.Write([]byte("PRI * HTTP/2.0\r\n\r\nSM\r\n\r\n\x00\x00\x00\x04\x00\x00\x00\x00\x00"))
	case "mid-headers-h2":
		tc.Write([]byte("PRI * HTTP/2.0\r\n\r\nSM\r\n\r\n\x00\x00\x00\x04\x00\x00\x00\x00\x00\x00\x00\x20\x01\x04\x00\x00\x00\x01\x82\x87"))
	}
}

// ---- generators ----

func h2Valid(r *rand.Rand) []byte {
	var b bytes.Buffer
	b.WriteString(h2peer.ClientPreface)
	b.Write(h2peer.RawFrame(4, 0, 0, []byte{0, 3, 0, 0, 0, 100, 0, 4, 0, 1, 0, 0}))
	var hb bytes.Buffer
	enc := hpack.NewEncoder(&hb)
	for _, f := range []hpack.HeaderField{{Name: ":method", Value: "POST"}, {Name: ":scheme", Value: "https"}, {Name: ":authority", Value: "front.example"}, {Name: ":path", Value: "/g"}, {Name: "x-a", Value: "b"}, {Name: "content-length", Value: "5"}} {
		enc.WriteField(f)
	}
	b.Write(h2peer.RawFrame(1, 4, 1, hb.Bytes()))
	b.Write(h2peer.RawFrame(0, 1, 1, []byte("hello")))
	b.Write(h2peer.RawFrame(8, 0, 0, []byte{0, 0, 1, 0}))
	b.Write(h2peer.RawFrame(2, 0, 3, []byte{0, 0, 0, 1, 7}))
	b.Write(h2peer.RawFrame(6, 0, 0, []byte{1, 2, 3, 4, 5, 6, 7, 8}))
	return b.Bytes()
}

func mutate(r *rand.Rand, in []byte) []byte {
	b := append([]byte{}, in...)
	for k := 1 + r.Intn(4); k > 0; k-- {
		if len(b) == 0 {
			break
		}
		switch r.Intn(6) {
		case 0:
			b[r.Intn(len(b))] ^= 1 << uint(r.Intn(8))
		case 1:
			b = b[:r.Intn(len(b)+1)]
		case 2:
			i := r.Intn(len(b))
			b[i] = []byte{0, 0xff, 0x7f, 0x80, 1}[r.Intn(5)]
		case 3:
			i := r.Intn(len(b))
			ins := make([]byte, r.Intn(20))
			r.Read(ins)
			b = append(b[:i], append(ins, b[i:]...)...)
		case 4:
			i, j := r.Intn(len(b)), r.Intn(len(b))
			if i > j {
				i, j = j, i
			}
			b = append(b[:i], b[j:]...)
		case 5:
			b = append(b, b[r.Intn(len(b)):]...)
		}
	}
	return b
}

func randomFrames(r *rand.Rand) []byte {
	var b bytes.Buffer
	if r.Intn(5) != 0 {
		b.WriteString(h2peer.ClientPreface)
	}
	if r.Intn(4) != 0 {
		b.Write(h2peer.RawFrame(4, 0, 0, nil))
	}
	for k := r.Intn(30); k > 0; k-- {
		t := uint8(r.Intn(12))
		if r.Intn(8) == 0 {
			t = uint8(r.Intn(256))
		}
		sid := uint32([]int{0, 1, 3, 5, 2, 7, 1<<31 - 1, r.Intn(1 << 31)}[r.Intn(8)])
		pl := make([]byte, []int{0, 1, 4, 5, 6, 8, 9, 17, 100, 1000, 16384, 16385}[r.Intn(12)])
		r.Read(pl)
		if t == 1 && r.Intn(2) == 0 { // plausible header block
			pl = []byte{0x82, 0x87, 0x84, 0x41, 0x01, 'a'}
		}
		b.Write(h2peer.RawFrame(t, uint8(r.Intn(256)), sid, pl))
	}
	// flood of one frame kind
	if r.Intn(6) == 0 {
		f := h2peer.RawFrame([]uint8{6, 4, 3, 8, 2}[r.Intn(5)], 0, uint32(r.Intn(2)), []byte{0, 0, 0, 1, 0, 0, 0, 0}[:[]int{8, 0, 4, 4, 5}[r.Intn(5)]])
		for k := 0; k < 3000+r.Intn(9000); k++ {
			b.Write(f)
		}
	}
	return b.Bytes()
}

// floodThenRequest: a legal connection start, thousands of one legal frame kind, then a request.
func floodThenRequest(r *rand.Rand) []byte {
	var b bytes.Buffer
	b.WriteString(h2peer.ClientPreface)
	b.Write(h2peer.RawFrame(4, 0, 0, nil))
	n := 1000 + r.Intn(12000)
	kind := r.Intn(5)
	for k := 0; k < n; k++ {
		switch kind {
		case 0:
			b.Write(h2peer.RawFrame(6, 0, 0, []byte{1, 2, 3, 4, 5, 6, 7, byte(k)}))
		case 1:
			b.Write(h2peer.RawFrame(4, 0, 0, []byte{0, 3, 0, 0, byte(k >> 8), byte(k)}))
		case 2:
			b.Write(h2peer.RawFrame(2, 0, uint32(1+2*(k%5000)), []byte{0, 0, 0, 0, byte(k)}))
		case 3:
			b.Write(h2peer.RawFrame(8, 0, 0, []byte{0, 0, 0, 1}))
		case 4:
			b.Write(h2peer.RawFrame(0xbb, 0, uint32(k), []byte{1, 2, 3}))
		}
	}
	b.Write(h2peer.RawFrame(1, 5, 20001, []byte{0x82, 0x87, 0x84, 0x41, 0x01, 'a'}))
	return b.Bytes()
}

func h1Garbage(r *rand.Rand) []byte {
	switch r.Intn(6) {
	case 0:
		return []byte("GET / HTTP/1.1\r\nHost: x\r\n" + strings.Repeat("X-A: "+strings.Repeat("a", 8000)+"\r\n", 150) + "\r\n")
	case 1:
		return []byte("POST / HTTP/1.1\r\nHost: x\r\nTransfer-Encoding: chunked\r\n\r\nffffffffffffffff\r\nabc")
	case 2:
		return []byte("GET " + strings.Repeat("/a", 600000) + " HTTP/1.1\r\n\r\n")
	case 3:
		b := make([]byte, r.Intn(3000))
		r.Read(b)
		return b
	case 4:
		return mutate(r, []byte("POST /x?y=1 HTTP/1.1\r\nHost: front.example\r\nContent-Length: 5\r\nConnection: keep-alive\r\n\r\nhelloGET /2 HTTP/1.1\r\nHost: a\r\n\r\n"))
	}
	return []byte("PRI * HTTP/2.0\r\n\r\nSM\r\n\r\n")
}

func preHandshake(r *rand.Rand) []byte {
	h := hello.Random(r)
	rec := h.Record()
	switch r.Intn(9) {
	case 0:
		b := make([]byte, r.Intn(2000))
		r.Read(b)
		return b
	case 1:
		return mutate(r, rec)
	case 2:
		return rec[:r.Intn(len(rec)+1)]
	case 3: // D11-class lengths
		return append([]byte{0x16, 3, 1, 0xff, byte(0xfb + r.Intn(5))}, rec[5:min(len(rec), 40)]...)
	case 4:
		return []byte("GET / HTTP/1.1\r\nHost: plain\r\n\r\n")
	case 5:
		return []byte(h2peer.ClientPreface)
	case 6: // oversized record
		b := append([]byte{0x16, 3, 3, 0x48, 0x01}, make([]byte, 0x4801)...)
		return b
	case 7: // valid hello then garbage records
		g := make([]byte, r.Intn(200))
		r.Read(g)
		return append(rec, g...)
	}
	// length fields +-1 / max / 0
	b := append([]byte{}, rec...)
	if len(b) > 50 {
		i := []int{3, 4, 6, 7, 8, 43}[r.Intn(6)]
		b[i] = []byte{0, 0xff, b[i] + 1, b[i] - 1}[r.Intn(4)]
	}
	return b
}

func main() {
	run := verdict.Start("C10", "fault_enumeration",
		"victim child process (proxy composed through the real flag wiring); classes: pre-handshake byte streams (random, mutated / truncated / length-tampered valid hellos, plain HTTP and HTTP/2 on the TLS port, oversized records), post-handshake byte streams (mutated and random HTTP/2 transcripts incl. floods, malformed HTTP/1.1), client FIN/RST after every 8th (quick) / every (thorough) byte of a valid HTTP/1.1 and HTTP/2 session, an I/O error at every server-side operation index x {reset, timeout, eof, short write, deadline error}, a silent stall at 10 protocol steps with the control client served meanwhile, a panic in every user callback reachable on behalf of a connection (TLS callbacks, ConnState per state, header injector, IsProbeRequest, request handler) x both protocols x {round-robin, priority, random} write scheduler; oracle = process alive and a fresh control client served on both protocols; distinct by case content")
	scratch := os.Getenv("VERIF_SCRATCH")
	if scratch == "" {
		scratch, _ = os.MkdirTemp("", "c10-")
	}
	victimBin = filepath.Join(scratch, "victim")
	args := []string{"build", "-race", "-tags", "verif"}
	if m := os.Getenv("VERIF_MODARGS"); m != "" {
		args = append(args, strings.Fields(m)...)
	}
	args = append(args, "-o", victimBin, "./cmd/victim")
	cmd := exec.Command("go", args...)
	cmd.Dir = run.Root()
	if out, err := cmd.CombinedOutput(); err != nil {
		run.Inconclusive("cannot build the victim: %v %s", err, out)
		run.Finish()
	}

	// ---- case list
	rng := run.Rand(10)
	var single, batched []*tcase
	for _, proto := range []string{"http/1.1", "h2"} {
		L := 700 // a full client session writes ~620-650 bytes (measured by C11); go a little beyond
		step := run.Pick(8, 1)
		for k := 0; k <= L; k += step {
			for _, rst := range []bool{false, true} {
				if !run.Thorough() && (k/step)%2 == 0 == rst {
					continue
				}
				single = append(single, &tcase{Class: "cut", Proto: proto, Offset: k, RST: rst})
			}
		}
		for op := 1; op <= 17; op++ {
			for ki, kind := range []string{"reset", "timeout", "eof", "short-write", "deadline-error"} {
				if !run.Thorough() && (op+ki)%2 == 0 && kind != "reset" {
					continue
				}
				single = append(single, &tcase{Class: "io-fault", Proto: proto, Fault: &rig.FaultPlan{Op: op, Kind: kind}})
			}
		}
		for _, p := range []string{"GetConfigForClient", "GetCertificate", "VerifyConnection", "ConnState:new", "ConnState:active", "ConnState:idle", "ConnState:closed", "header-injector", "IsProbeRequest", "handler"} {
			single = append(single, &tcase{Class: "panic", Proto: proto, Panic: p})
		}
	}
	for rep := 0; rep < run.Pick(1, 4); rep++ {
		for _, st := range []string{"before-any-byte", "mid-clienthello", "after-clienthello", "after-handshake-h1", "mid-request-line-h1", "mid-body-h1", "after-handshake-h2", "mid-preface-h2", "after-settings-h2", "mid-headers-h2"} {
			single = append(single, &tcase{Class: "stall", Step: st})
		}
	}
	for rep := 0; rep < run.Pick(1, 6); rep++ {
		single = append(single, &tcase{Class: "stall-until-cut"})
	}
	for rep := 0; rep < run.Pick(5, 40); rep++ {
		single = append(single, &tcase{Class: "stalled-download-reset", Proto: "h2", Fault: &rig.FaultPlan{Kind: "stall-write", MinLen: 8000, StallMs: 900}})
	}
	for rep := 0; rep < run.Pick(3, 18); rep++ {
		single = append(single, &tcase{Class: "h2-held-streams", Proto: "h2", Offset: rep})
	}
	for _, raw := range boundaryFrames() {
		batched = append(batched, &tcase{Class: "post-handshake-bytes", Proto: "h2", raw: raw})
	}
	for _, raw := range orderFrames() {
		batched = append(batched, &tcase{Class: "post-handshake-bytes", Proto: "h2", raw: raw})
	}
	for _, raw := range greetings() {
		batched = append(batched, &tcase{Class: "post-handshake-bytes", Proto: "h2", raw: raw})
	}
	for i := run.Pick(60, 600); i > 0; i-- {
		batched = append(batched, &tcase{Class: "post-handshake-bytes", Proto: "h2", gen: "pool-uploads", genSeed: rng.Int63()})
	}
	nfuzz := run.Pick(900, 40000)
	for i := 0; i < nfuzz; i++ {
		switch i % 3 {
		case 0:
			batched = append(batched, &tcase{Class: "prehandshake", gen: "prehandshake", genSeed: rng.Int63()})
		case 1:
			batched = append(batched, &tcase{Class: "post-handshake-bytes", Proto: "h2", gen: "h2", genSeed: rng.Int63()})
		case 2:
			batched = append(batched, &tcase{Class: "post-handshake-bytes", Proto: "http/1.1", gen: "h1", genSeed: rng.Int63()})
		}
	}

	// ---- workers, one victim each
	scheds := []string{"", "priority", "random", "", "priority", ""}
	nw := 6
	var wg sync.WaitGroup
	var ctlN int64
	for w := 0; w < nw; w++ {
		wg.Add(1)
		go func(w int) {
			defer wg.Done()
			v, err := startVictim(w, scheds[w])
			if err != nil {
				run.Inconclusive("worker %d: %v", w, err)
				return
			}
			defer func() { v.stop() }()
			baseline := func() (int, bool) { // after one served control client: the serve loops are up, nothing else is
				if v.control("ctl-baseline") != nil {
					return 0, false
				}
				n, ok := 0, false
				for i := 0; i < 30; i++ {
					time.Sleep(100 * time.Millisecond)
					m, _, k := v.census()
					if k && m == n && i > 2 {
						return n, true
					}
					n, ok = m, k
				}
				return n, ok
			}
			base, baseOK := baseline()
			// at the end of the worker every client has left: what served them must be gone too (a failure
			// that leaves a goroutine and its TLS state behind per connection is not confined to it)
			defer func() {
				if !baseOK || !v.alive() {
					return
				}
				var n int
				var st string
				for i := 0; i < 100; i++ {
					var ok bool
					if n, st, ok = v.census(); !ok || n <= base+2 {
						break
					}
					time.Sleep(100 * time.Millisecond)
				}
				run.Add("end_of_worker_census_checks", 1)
				if n > base+2 {
					run.Violation("goroutines-left-behind", map[string]any{"baseline": base, "now": n, "write_scheduler": v.sched, "stack": st},
						"worker %d: %d proxy goroutines remain in the victim 10 s after its last client left (baseline %d); one of them: %s", w, n, base, st[:min(len(st), 400)])
				}
			}()
			restart := func() bool {
				v.stop()
				nv, err := startVictim(w, scheds[w])
				if err != nil {
					run.Inconclusive("worker %d: victim restart failed: %v", w, err)
					return false
				}
				v = nv
				run.Add("victim_restarts", 1)
				base, baseOK = baseline()
				return true
			}
			report := func(tc *tcase, what string) {
				tc.Sched = v.sched
				if tc.raw != nil {
					tc.Hex = verdict.Hex(tc.raw)
				}
				cl := tc.Class
				if tc.Panic != "" {
					cl = "panic-in-" + tc.Panic
				}
				run.Violation(cl, map[string]any{"case": tc, "victim_stderr": v.stderrTail()}, "%s after case %s: %s", what, describe(tc), firstLine(v.stderrTail()))
			}
			journal := func(tc *tcase) {
				if tc.raw != nil && tc.Hex == "" {
					tc.Hex = hex.EncodeToString(tc.raw)
				}
				b, _ := json.Marshal(tc)
				v.journal.Write(append(b, '\n'))
				v.journal.Sync()
			}
			check := func(tc *tcase) bool { // returns false when the victim had to be restarted
				tag := fmt.Sprintf("ctl-%d", atomic.AddInt64(&ctlN, 1))
				run.Add("control_checks", 1)
				if !v.alive() {
					report(tc, "the proxy process terminated")
					return restart() && false
				}
				err := v.control(tag)
				if err == nil && tc.Class == "stalled-download-reset" {
					// a fault of that connection must stay there: many concurrent control clients
					err = v.controlBurst(tag, 48)
				}
				if err != nil {
					if !v.alive() {
						report(tc, "the proxy process terminated")
					} else {
						report(tc, "the proxy no longer serves other connections ("+err.Error()+")")
					}
					return restart() && false
				}
				return true
			}
			// singles
			for i, tc := range single {
				if tc.Class == "stalled-download-reset" {
					if w != singleCPUWorker {
						continue
					}
				} else if tc.Class == "h2-held-streams" {
					if w != shortTimeoutWorker {
						continue
					}
				} else if i%nw != w {
					continue
				}
				journal(tc)
				run.Eval(1)
				run.Add("cases_"+tc.Class, 1)
				run.Distinct(describe(tc) + v.sched)
				if tc.Fault != nil || tc.Panic != "" {
					if !v.arm(plan{Fault: tc.Fault, Panic: tc.Panic}) {
						if !restart() {
							return
						}
						continue
					}
				}
				execCase(v, tc)
				if tc.Fault != nil || tc.Panic != "" {
					v.disarm()
				}
				if run.WantSample() && i%37 == w {
					run.Sample(map[string]any{"case": describe(tc), "write_scheduler": v.sched, "outcome": "process alive, control client served on both protocols"})
				}
				if tc.Class == "stall" && tc.stallErr != "" && v.alive() {
					report(tc, "while a client is stalled at "+tc.Step+" the proxy does not serve other connections ("+tc.stallErr+")")
				}
				if !check(tc) && !v.alive() {
					return
				}
			}
			// memory: what the proxy retains must not grow with the bytes one connection sends. A client
			// whose ClientHello capture fails (record version 0x0305) but whose handshake succeeds uploads
			// 64 MiB; the live heap of the victim is measured while that connection is still open.
			if w == 0 {
				for _, ver := range []uint16{0, 0x0305} { // an ordinary client, and one whose ClientHello capture fails
					h0, ok := v.heap()
					if !ok {
						break
					}
					hold := make(chan struct{})
					written := make(chan int, 2)
					go uploadOnOddRecordVersion(v.addr, ver, 64<<20, written, hold)
					sent := 0
					select {
					case sent = <-written: // everything but the last chunk is written (or the client was refused)
					case <-time.After(60 * time.Second):
					}
					h1, ok1 := v.heap() // the connection, if it was served at all, is still open
					close(hold)
					run.Eval(1)
					run.Add("memory_retention_checks", 1)
					run.Add("memory_retention_bytes_uploaded", int64(sent))
					run.Set(fmt.Sprintf("memory_retention_check_record_version_%#04x", ver), map[string]any{"upload_bytes_written_by_client": sent, "live_heap_before": h0, "live_heap_during": h1})
					if ok1 && h1-h0 > 32<<20 {
						run.Violation("memory-grows-with-client-bytes", map[string]any{"client_wrote": sent, "heap_before": h0, "heap_during": h1, "first_record_version": fmt.Sprintf("%#04x", ver)},
							"a client (first TLS record version %#04x; 0 = as crypto/tls writes it) wrote %d bytes on one connection; the proxy's live heap (after a collection, connection still open) grew from %d to %d bytes", ver, sent, h0, h1)
					}
				}
			}
			// batches
			var mine []*tcase
			for i, tc := range batched {
				if i%nw == w {
					mine = append(mine, tc)
				}
			}
			for off := 0; off < len(mine); off += 25 {
				batch := mine[off:min(off+25, len(mine))]
				var bw sync.WaitGroup
				for _, tc := range batch {
					tc.materialize()
					journal(tc)
					run.Eval(1)
					run.Add("cases_"+tc.Class, 1)
					run.DistinctBytes(append([]byte(tc.Class+tc.Proto), tc.raw...))
					bw.Add(1)
					go func(tc *tcase) { defer bw.Done(); execCase(v, tc) }(tc)
				}
				bw.Wait()
				if run.WantSample() && off == 0 {
					run.Sample(map[string]any{"batch_of": len(batch), "first_case": describe(batch[0]), "first_case_bytes_hex": verdict.Hex(batch[0].raw[:min(len(batch[0].raw), 64)])})
				}
				tag := fmt.Sprintf("ctl-%d", atomic.AddInt64(&ctlN, 1))
				run.Add("control_checks", 1)
				var cerr error
				if v.alive() {
					if cerr = v.control(tag); cerr == nil {
						for _, tc := range batch {
							tc.drop()
						}
						continue
					}
				}
				died := !v.alive()
				// bisect by replaying the batch one case at a time
				run.Add("batches_bisected", 1)
				if !restart() {
					return
				}
				attributed := false
				for _, tc := range batch {
					execCase(v, tc)
					if !check(tc) {
						attributed = true
						if !v.alive() {
							return
						}
					}
				}
				if !attributed {
					// the failure is a fact even though no single case reproduces it alone
					what := "the proxy process terminated"
					if !died {
						what = "the proxy no longer served other connections (" + cerr.Error() + ")"
					}
					run.Violation("after-batch-not-reproduced-by-single-case", map[string]any{"batch_first_case": describe(batch[0]), "batch_size": len(batch), "write_scheduler": v.sched},
						"%s after a batch of %d concurrent cases (first: %s); replaying the cases one at a time on a fresh process did not reproduce it", what, len(batch), describe(batch[0]))
				}
				for _, tc := range batch {
					tc.drop()
				}
			}
		}(w)
	}
	wg.Wait()
	run.Require("control_checks", 100)
	run.Require("cases_panic", 10)
	run.Assume("a control client = a fresh TLS connection per protocol whose tagged request is forwarded and answered by the backend behind the proxy")
	run.Finish()
}

func describe(tc *tcase) string {
	switch tc.Class {
	case "cut":
		return fmt.Sprintf("cut %s after %d bytes rst=%v", tc.Proto, tc.Offset, tc.RST)
	case "io-fault":
		return fmt.Sprintf("io-fault %s op=%d kind=%s", tc.Proto, tc.Fault.Op, tc.Fault.Kind)
	case "panic":
		return fmt.Sprintf("panic in %s (%s)", tc.Panic, tc.Proto)
	case "stall-until-cut":
		return "12 clients stalled at different steps (1..6 bytes into the ClientHello, ...) until the proxy's own timers cut them"
	case "stall":
		return "client stalled at " + tc.Step
	case "h2-held-streams":
		return fmt.Sprintf("h2 streams of 9 request shapes held open past the read/write timeouts (rotation %d)", tc.Offset)
	case "stalled-download-reset":
		return "h2 client stalls a 48 MiB download, resets the stream, then resets the connection"
	}
	return fmt.Sprintf("%s %s %d bytes", tc.Class, tc.Proto, len(tc.raw))
}

func firstLine(s string) string {
	if i := strings.IndexByte(s, '\n'); i >= 0 {
		s = s[:i]
	}
	if len(s) > 200 {
		s = s[:200]
	}
	return s
}
