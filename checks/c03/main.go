//go:build verif

// C03 — the HTTP/2 fingerprint header reflects the frames the client sent.
package main

import (
	"context"
	"crypto/tls"
	"fmt"
	"math"
	"math/rand"
	"net"
	"net/http/httputil"
	"net/url"
	"strings"
	"sync"
	"time"

	fingerproxy "github.com/wi1dcard/fingerproxy"
	"github.com/wi1dcard/fingerproxy/pkg/proxyserver"
	"github.com/wi1dcard/fingerproxy/pkg/reverseproxy"
	"golang.org/x/net/http2"
	"golang.org/x/net/http2/hpack"

	"verif/internal/h2fp"
	"verif/internal/h2peer"
	"verif/internal/ref"
	"verif/internal/rig"
	"verif/internal/verdict"
)

type target struct {
	name string
	max  uint64
	addr string
}

type step struct {
	Op         string       `json:"op"`
	Frame      *ref.H2Frame `json:"frame,omitempty"`
	Splits     int          `json:"continuation_frames,omitempty"`
	Order      int          `json:"pseudo_order,omitempty"`
	Tag        string       `json:"tag,omitempty"`
	Got        []string     `json:"backend_value,omitempty"`
	Admissible []string     `json:"admissible,omitempty"`
}

var knownSettingVals = map[uint32][]uint32{
	1: {0, 4096, 65536, 1 << 20, 100},
	2: {0, 1},
	3: {0, 1, 100, 1000, math.MaxUint32},
	4: {65535, 131072, 6291456, 1 << 20, math.MaxInt32, 70000},
	5: {16384, 16385, 1 << 20, 1<<24 - 1},
	6: {0, 10, 262144, math.MaxUint32},
	8: {0, 1},
}

func genSettings(r *rand.Rand) [][2]uint32 {
	n := []int{0, 1, 2, 3, 4, 5, 6, 7, 12, 20}[r.Intn(10)]
	used := map[uint32]bool{}
	var out [][2]uint32
	for len(out) < n {
		var id uint32
		if r.Intn(3) == 0 {
			id = uint32(9 + r.Intn(65000))
		} else {
			id = []uint32{1, 2, 3, 4, 5, 6, 8}[r.Intn(7)]
		}
		if used[id] {
			if len(used) >= 7 && id < 9 {
				id = uint32(9 + r.Intn(65000))
				if used[id] {
					continue
				}
			} else {
				continue
			}
		}
		used[id] = true
		var v uint32
		if vs, ok := knownSettingVals[id]; ok {
			v = vs[r.Intn(len(vs))]
		} else {
			v = r.Uint32()
		}
		out = append(out, [2]uint32{id, v})
	}
	return out
}

func main() {
	run := verdict.Start("C03", "exploration",
		"random legal client frame histories written with the independent framer over real TLS (SETTINGS with 0..20 known/unknown entries incl. later SETTINGS, zero/one/many WINDOW_UPDATE on stream 0 and on streams, PRIORITY frames on idle/open/closed streams, HEADERS with/without priority, all 24 pseudo-header orders, 0..3 CONTINUATION frames, 1..6 requests per connection) x priority-frame limit {0,1,2,3,5,default 10000, unlimited (library default)}; every request's backend-side X-HTTP2-Fingerprint must equal the reference string of an admissible history prefix; distinct by (limit, history)")
	be := rig.NewBackend(nil)
	defer be.Close()

	// library composition first, before any CLI flag exists in this process: unlimited priority frames
	var targets []*target
	{
		u, _ := url.Parse(be.URL)
		inj := fingerproxy.DefaultHeaderInjectors()
		h := reverseproxy.NewHTTPHandler(u, &httputil.ReverseProxy{}, inj)
		ctx, cancel := context.WithCancel(context.Background())
		defer cancel()
		certs := rig.Certs()
		srv := proxyserver.NewServer(ctx, h, rigTLS(certs))
		ln, err := net.Listen("tcp", "127.0.0.1:0")
		if err != nil {
			run.Inconclusive("listen: %v", err)
			run.Finish()
		}
		go srv.Serve(ln)
		targets = append(targets, &target{"library-default-unlimited", math.MaxUint64, ln.Addr().String()})
	}
	for _, n := range []int{0, 1, 2, 3, 5, -1} {
		var args []string
		name, max := "flag-default-10000", uint64(10000)
		if n >= 0 {
			args = []string{fmt.Sprintf("-max-h2-priority-frames=%d", n)}
			name, max = fmt.Sprintf("flag-%d", n), uint64(n)
		}
		px, err := rig.StartProxy(be.URL, rig.ProxyOpts{Args: args})
		if err != nil {
			run.Inconclusive("start proxy: %v", err)
			run.Finish()
		}
		defer px.Stop()
		targets = append(targets, &target{name, max, px.Addr})
	}

	nh := run.Pick(2800, 40000)
	var wg sync.WaitGroup
	sem := make(chan struct{}, 24)
	for i := 0; i < nh; i++ {
		wg.Add(1)
		sem <- struct{}{}
		go func(i int) {
			defer wg.Done()
			defer func() { <-sem }()
			oneHistory(run, be, targets[i%len(targets)], i)
		}(i)
	}
	wg.Wait()

	// connections that did not negotiate HTTP/2 produce no HTTP/2 fingerprint
	for i := 0; i < run.Pick(30, 300); i++ {
		tg := targets[i%len(targets)]
		// every other client offers no ALPN at all (negotiated protocol "": HTTP/1.1 is spoken; after seeded change C03-L),
		// and every fourth offers a protocol the server does not know next to http/1.1
		alpn := []string{"http/1.1"}
		switch i % 4 {
		case 1, 3:
			alpn = nil
		case 2:
			alpn = []string{"acme-tls/1", "http/1.1"}
		}
		s, err := rig.Dial(tg.addr, alpn, nil, nil)
		if err != nil {
			continue
		}
		if alpn == nil {
			run.Add("http1_connections_without_alpn", 1)
		}
		tag := fmt.Sprintf("C03-%d-h1-%d", run.Seed, i)
		if resp, err := s.Do("GET", "/h1", "front.example", [][2]string{{rig.TagHeader, tag}}, nil, 20*time.Second); err == nil && resp.Status == 200 {
			run.Eval(1)
			run.Add("http1_requests_judged", 1)
			for _, rec := range be.Records(tag) {
				if v := rec.Header.Values("X-Http2-Fingerprint"); len(v) != 0 {
					run.Violation("h2-fingerprint-on-http1", map[string]any{"target": tg.name}, "HTTP/1.1 connection produced X-HTTP2-Fingerprint %q", v)
				}
			}
		}
		s.Close()
	}
	run.Require("requests_judged", 300)
	run.Require("http1_requests_judged", 10)
	run.Require("http1_connections_without_alpn", 5)
	run.Assume("only frame sequences the server accepts are generated (illegal ones are C13's business); admissible instants for a request are the history prefixes from its own completed header block up to the last frame written before its response was received")
	run.Finish()
}

func oneHistory(run *verdict.Run, be *rig.Backend, tg *target, i int) {
	r := run.Rand(int64(3000 + i))
	var tweak func(*tls.Config)
	if i%7 == 3 {
		// a connection whose JA3 cannot be computed (253-byte server name, known finding D9): the injector in
		// front of the HTTP/2 one fails for every request - the HTTP/2 fingerprint must be there all the same
		tweak = func(cfg *tls.Config) { cfg.ServerName = strings.Repeat("c", 253) }
		run.Add("connections_whose_ja3_injector_fails", 1)
	}
	c, err := h2fp.Dial(tg.addr, &net.TCPAddr{IP: net.IPv4(127, 0, 0, byte(1+i%8))}, tweak)
	if err != nil {
		run.Add("dial_failed", 1)
		return
	}
	defer c.Close()
	var steps []step
	fail := func(class string, format string, args ...any) {
		run.Violation(class, map[string]any{"target": tg.name, "max_priority_frames": tg.max, "steps": steps}, "limit=%s: %s", tg.name, fmt.Sprintf(format, args...))
	}
	rec := func(op string, extra ...func(*step)) {
		h := c.History()
		s := step{Op: op}
		if len(h) > 0 {
			f := h[len(h)-1]
			s.Frame = &f
		}
		for _, e := range extra {
			e(&s)
		}
		steps = append(steps, s)
	}
	st := genSettings(r)
	// keep the response deliverable: the initial window must allow the small response body
	for k := range st {
		if st[k][0] == 4 && st[k][1] < 1000 {
			st[k][1] = 65535
		}
	}
	if err := c.Settings(st); err != nil {
		run.Add("write_failed", 1)
		return
	}
	rec("settings")
	nreq := 1 + r.Intn(6)
	// every 25th history is "heavy": a few hundred PRIORITY frames first (every fingerprint computation
	// then takes long), then dozens of requests written in bursts, each with a priority block and its own
	// pseudo-header order, so that handlers compute fingerprints while the next HEADERS is being recorded
	heavy := i%25 == 7
	if heavy {
		nreq = 40 + r.Intn(40)
		for k := 0; k < 300; k++ {
			c.Priority(uint32(1000001+2*k), uint32(2*r.Intn(50)), r.Intn(2) == 0, uint8(r.Intn(256)))
			rec("priority")
		}
		run.Add("heavy_histories", 1)
	}
	ackAt := r.Intn(nreq + 1) // the client acknowledges the server's SETTINGS before this request (== nreq: never)
	opened := []uint32{}
	connWin := int64(65535)
	prioCount := 0
	for q := 0; q < nreq; q++ {
		if q == ackAt {
			if _, ok := c.Peer.WaitFor(0, 20*time.Second, func(e h2peer.Event) bool { return e.Is(http2.FrameSettings) && !e.Ack() }); ok {
				c.SettingsAck()
				rec("settings_ack")
				run.Add("settings_acks_sent", 1)
			}
		}
		// frames between requests
		for k := r.Intn(5); k > 0; k-- {
			switch r.Intn(7) {
			case 0: // further SETTINGS
				st := genSettings(r)
				for k := range st {
					if st[k][0] == 4 && st[k][1] < 1000 {
						st[k][1] = 65535
					}
				}
				c.Settings(st)
				rec("settings")
			case 1, 2: // WINDOW_UPDATE on the connection
				inc := []uint32{1, 15663105, 12517377, 10485760, 65535, 5}[r.Intn(6)]
				if connWin+int64(inc) > math.MaxInt32 {
					continue
				}
				connWin += int64(inc)
				c.WindowUpdate(0, inc)
				rec("window_update")
			case 3: // WINDOW_UPDATE on a closed stream (ignored by the server, still a frame the client sent)
				if len(opened) == 0 {
					continue
				}
				c.WindowUpdate(opened[r.Intn(len(opened))], uint32(1+r.Intn(100000)))
				rec("window_update")
			case 4, 5, 6: // PRIORITY on idle / closed streams
				var sid uint32
				if len(opened) > 0 && r.Intn(2) == 0 {
					sid = opened[r.Intn(len(opened))]
				} else {
					sid = c.Next + uint32(2*r.Intn(20)) + uint32(r.Intn(2)) // idle (odd or even id)
				}
				dep := uint32(r.Intn(30))
				if dep == sid {
					dep = 0
				}
				c.Priority(sid, dep, r.Intn(2) == 0, uint8(r.Intn(256)))
				prioCount++
				rec("priority")
			}
		}
		// the request
		sid := c.Next
		c.Next += 2
		if r.Intn(8) == 0 {
			c.Next += uint32(2 * r.Intn(3))
		}
		tag := fmt.Sprintf("C03-%d-%d-%d", run.Seed, i, q)
		order := r.Intn(24)
		fields := h2fp.PseudoOrder(order, "front.example", "/fp", []string{"GET", "POST", "HEAD"}[r.Intn(3)])
		if r.Intn(6) == 0 { // :authority is optional
			var f2 []hpack.HeaderField
			for _, f := range fields {
				if f.Name != ":authority" {
					f2 = append(f2, f)
				}
			}
			fields = append(f2, hpack.HeaderField{Name: "host", Value: "front.example"})
		}
		fields = append(fields, hpack.HeaderField{Name: strings.ToLower(rig.TagHeader), Value: tag})
		for k := r.Intn(4); k > 0; k-- {
			fields = append(fields, hpack.HeaderField{Name: fmt.Sprintf("x-h%d", k), Value: strings.Repeat("v", r.Intn(50))})
		}
		var pr *h2fp.Prio
		if r.Intn(2) == 0 {
			dep := uint32(r.Intn(int(sid)))
			pr = &h2fp.Prio{Dep: dep, Excl: r.Intn(2) == 0, Weight: uint8(r.Intn(256))}
			if r.Intn(8) == 0 {
				pr = &h2fp.Prio{} // PRIORITY flag with an all-zero block: legal, entry id:0:0:1
				run.Add("headers_with_all_zero_priority_block", 1)
			}
			prioCount++
		}
		splits := r.Intn(4)
		lo, err := c.Headers(sid, fields, pr, splits, true, r)
		if err != nil {
			run.Add("write_failed", 1)
			return
		}
		opened = append(opened, sid)
		rec("request", func(s *step) { s.Splits, s.Order, s.Tag = splits, order, tag })
		type pend struct {
			sid    uint32
			tag    string
			lo, q  int
			stepIx int
			splits int
		}
		batch := []pend{{sid, tag, lo, q, len(steps) - 1, splits}}
		// a burst: further requests are written before the first one has been answered
		// (several handlers of one connection compute their fingerprints at the same time)
		if r.Intn(4) == 0 || heavy {
			kmax := 1 + r.Intn(5)
			if heavy {
				kmax = 10 + r.Intn(20)
			}
			for k := kmax; k > 0 && q+1 < nreq; k-- {
				q++
				sid2 := c.Next
				c.Next += 2
				tag2 := fmt.Sprintf("C03-%d-%d-%d", run.Seed, i, q)
				f2 := h2fp.PseudoOrder(r.Intn(24), "front.example", "/fp", "GET")
				f2 = append(f2, hpack.HeaderField{Name: strings.ToLower(rig.TagHeader), Value: tag2})
				var pr2 *h2fp.Prio
				if r.Intn(2) == 0 || heavy {
					pr2 = &h2fp.Prio{Dep: uint32(r.Intn(int(sid2))), Excl: r.Intn(2) == 0, Weight: uint8(r.Intn(256))}
					prioCount++
				}
				lo2, err := c.Headers(sid2, f2, pr2, 0, true, r)
				if err != nil {
					break
				}
				opened = append(opened, sid2)
				rec("request-in-burst", func(s *step) { s.Tag = tag2 })
				batch = append(batch, pend{sid2, tag2, lo2, q, len(steps) - 1, 0})
				run.Add("requests_in_bursts", 1)
			}
		}
		for _, pd := range batch {
			resp, ok := c.Peer.WaitResponse(pd.sid, 20*time.Second)
			if !ok || resp.Reset {
				ev := c.Peer.Events()
				lastEv := ""
				if len(ev) > 0 {
					lastEv = ev[len(ev)-1].String()
				}
				fail("legal-history-not-served", "request %d (stream %d) got no complete response (reset=%v code=%v, last event %s)", pd.q, pd.sid, resp.Reset, resp.ResetCode, lastEv)
				return
			}
		}
		hi := c.Len()
		h := c.History()
		all := ref.AkamaiAll(h, tg.max)
		for _, pd := range batch {
			recs := be.Records(pd.tag)
			run.Eval(1)
			if len(recs) != 1 {
				fail("not-forwarded-once", "request %d reached the backend %d times", pd.q, len(recs))
				return
			}
			vals := recs[0].Header.Values("X-Http2-Fingerprint")
			adm := all[pd.lo : hi+1]
			steps[pd.stepIx].Got, steps[pd.stepIx].Admissible = vals, dedup(adm)
			run.Add("requests_judged", 1)
			run.Add("frames_in_histories_judged", int64(pd.lo))
			if prioCount > 0 && uint64(prioCount) > tg.max {
				run.Add("requests_with_more_priority_entries_than_limit", 1)
			}
			if prioCount > 0 && uint64(prioCount) == tg.max {
				run.Add("requests_with_priority_entries_equal_to_limit", 1)
			}
			if pd.splits > 0 {
				run.Add("requests_with_continuation", 1)
			}
			okv := false
			if len(vals) == 1 {
				for _, a := range adm {
					if a == vals[0] {
						okv = true
					}
				}
				if strings.Count(vals[0], "|") != 3 {
					fail("not-four-parts", "value %q does not have exactly four |-separated parts", vals[0])
				}
			}
			if !okv {
				fail(classify(vals, adm), "request %d (stream %d, %d priority entries so far): backend saw X-HTTP2-Fingerprint=%q, reference for the client's frame history: %q", pd.q, pd.sid, prioCount, vals, dedup(adm))
				return
			}
		}
	}
	run.Distinct(fmt.Sprintf("%s|%v", tg.name, c.History()))
	if run.WantSample() && i%89 == 0 {
		run.Sample(map[string]any{"target": tg.name, "steps": steps})
	}
}

func dedup(a []string) []string {
	var out []string
	for _, s := range a {
		if len(out) == 0 || out[len(out)-1] != s {
			out = append(out, s)
		}
	}
	return out
}

// classify names the part of the fingerprint that differs (diagnostic class).
func classify(vals []string, adm []string) string {
	if len(vals) != 1 {
		return fmt.Sprintf("header-count-%d", len(vals))
	}
	g := strings.Split(vals[0], "|")
	w := strings.Split(adm[len(adm)-1], "|")
	if len(g) != 4 || len(w) != 4 {
		return "wrong-value"
	}
	names := []string{"settings", "window-update", "priority", "pseudo-headers"}
	for k := 0; k < 4; k++ {
		if g[k] != w[k] {
			return "wrong-" + names[k] + "-part"
		}
	}
	return "wrong-value"
}
