//go:build verif

package main

import (
	"crypto/tls"

	"verif/internal/rig"
)

func rigTLS(c *rig.CertSet) *tls.Config {
	return &tls.Config{Certificates: []tls.Certificate{c.RSA, c.ECDSA}, NextProtos: []string{"h2", "http/1.1"}, MinVersion: tls.VersionTLS12}
}
