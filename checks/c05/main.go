//go:build verif

// C05 — fingerprint headers cannot be supplied or spoofed by the client.
package main

import (
	"crypto/tls"
	"errors"
	"fmt"
	"net"
	"net/http"
	"strings"
	"sync"
	"time"

	utls "github.com/refraction-networking/utls"
	fingerproxy "github.com/wi1dcard/fingerproxy"
	fp "github.com/wi1dcard/fingerproxy/pkg/fingerprint"
	"github.com/wi1dcard/fingerproxy/pkg/metadata"
	"github.com/wi1dcard/fingerproxy/pkg/reverseproxy"

	"verif/internal/hello"
	"verif/internal/rig"
	"verif/internal/verdict"
)

type tcase struct {
	Set     string            `json:"injector_set"`
	Proto   string            `json:"protocol"`
	Conn    string            `json:"connection_kind"` // normal | ja3-fails | ja4-fails
	Form    string            `json:"client_header_form"`
	Headers [][2]string       `json:"client_headers"`
	Outcome map[string]string `json:"injector_outcome_per_name"`
}

func custom(prefix string) []reverseproxy.HeaderInjector {
	return []reverseproxy.HeaderInjector{
		fp.NewFingerprintHeaderInjector(prefix+"-Val", func(*metadata.Metadata) (string, error) { return "proxy-computed", nil }),
		fp.NewFingerprintHeaderInjector(prefix+"-Empty", func(*metadata.Metadata) (string, error) { return "", nil }),
		fp.NewFingerprintHeaderInjector(prefix+"-Err", func(*metadata.Metadata) (string, error) { return "", errors.New("cannot compute") }),
	}
}

// ownInjector is an injector type of the embedding application (not built by the package's constructor),
// whose header names are not in canonical form.
type ownInjector struct {
	name string
	val  string
	err  error
}

func (o ownInjector) GetHeaderName() string                        { return o.name }
func (o ownInjector) GetHeaderValue(*http.Request) (string, error) { return o.val, o.err }

func ownType() []reverseproxy.HeaderInjector {
	return []reverseproxy.HeaderInjector{
		ownInjector{"x-own-Val", "proxy-computed", nil},
		ownInjector{"X-OWN-Empty", "", nil},
		ownInjector{"X-oWn-TLS-Err", "", errors.New("cannot compute")},
	}
}

var forms = []string{"absent", "canonical", "lower", "upper", "mixed", "twice", "five-times", "empty-value", "blanks", "8KiB"}

func mixedCase(s string) string {
	b := []byte(strings.ToLower(s))
	for i := range b {
		if i%2 == 1 && b[i] >= 'a' && b[i] <= 'z' {
			b[i] -= 32
		}
	}
	return string(b)
}

func clientHeaders(names []string, form, proto, nonce string) [][2]string {
	var hs [][2]string
	for ni, n := range names {
		val := fmt.Sprintf("%s-%d", nonce, ni)
		name := n
		reps := 1
		switch form {
		case "absent":
			continue
		case "lower":
			name = strings.ToLower(n)
		case "upper":
			name = strings.ToUpper(n)
		case "mixed":
			name = mixedCase(n)
		case "twice":
			reps = 2
		case "five-times":
			reps = 5
		case "empty-value":
			val = ""
		case "blanks":
			val = "  " + val + "  "
		case "8KiB":
			val = val + strings.Repeat("x", 8192)
		}
		if proto == "h2" {
			name = strings.ToLower(name)
			val = strings.TrimSpace(val)
		}
		for k := 0; k < reps; k++ {
			v := val
			if reps > 1 {
				v = fmt.Sprintf("%s-r%d", val, k)
			}
			hs = append(hs, [2]string{name, v})
		}
	}
	return hs
}

func main() {
	run := verdict.Start("C05", "exploration",
		"matrix {HTTP/1.1 raw text, HTTP/2 raw frames} x connection kind {all injectors succeed, JA3 fails (D9-class SNI), JA4 fails (D13-class extension)} x injector set {default three, default + custom value/empty/error, custom only} x client header form {absent, canonical, lower, upper, mixed case, repeated 2x/5x, empty, padded with blanks, 8 KiB} with unique nonces under every injected name, enumerated completely; PRNG mixes on top in the thorough tier; distinct by the tuple")
	be := rig.NewBackend(nil)
	defer be.Close()
	type pset struct {
		name    string
		px      *rig.Proxy
		names   []string
		outcome map[string]string // per name on a normal connection: value | empty | error | by-conn
	}
	mk := func(name string, inj func() []reverseproxy.HeaderInjector, names []string, outcome map[string]string) *pset {
		saved := fingerproxy.GetHeaderInjectors
		if inj != nil {
			fingerproxy.GetHeaderInjectors = inj
		}
		px, err := rig.StartProxy(be.URL, rig.ProxyOpts{})
		fingerproxy.GetHeaderInjectors = saved
		if err != nil {
			run.Inconclusive("start proxy: %v", err)
			run.Finish()
		}
		return &pset{name, px, names, outcome}
	}
	def := []string{"X-JA3-Fingerprint", "X-JA4-Fingerprint", "X-HTTP2-Fingerprint"}
	sets := []*pset{
		mk("default", nil, def, nil),
		mk("default+custom", func() []reverseproxy.HeaderInjector {
			return append(fingerproxy.DefaultHeaderInjectors(), custom("X-Custom")...)
		},
			append(append([]string{}, def...), "X-Custom-Val", "X-Custom-Empty", "X-Custom-Err"), nil),
		mk("custom-only", func() []reverseproxy.HeaderInjector { return custom("X-Only") }, []string{"X-Only-Val", "X-Only-Empty", "X-Only-Err"}, nil),
		mk("default+own-type", func() []reverseproxy.HeaderInjector {
			return append(ownType(), fingerproxy.DefaultHeaderInjectors()...)
		},
			append([]string{"x-own-Val", "X-OWN-Empty", "X-oWn-TLS-Err"}, def...), nil),
	}
	for _, s := range sets {
		defer s.px.Stop()
	}
	// (composed here with the others, before any traffic flows)
	pan := mk("panicky", panickySet, panickyNames, nil)
	defer pan.px.Stop()

	type job struct {
		set   *pset
		proto string
		conn  string
		forms []string
	}
	var jobs []job
	for _, s := range sets {
		for _, proto := range []string{"http/1.1", "h2"} {
			for _, conn := range []string{"normal", "ja3-fails", "ja4-fails"} {
				jobs = append(jobs, job{s, proto, conn, forms})
			}
		}
	}
	extra := run.Pick(15, 300)
	rng := run.Rand(5)
	for k := 0; k < extra; k++ {
		for _, s := range sets {
			fs := make([]string, 12)
			for i := range fs {
				fs[i] = forms[rng.Intn(len(forms))]
			}
			jobs = append(jobs, job{s, []string{"http/1.1", "h2"}[rng.Intn(2)], []string{"normal", "ja3-fails", "ja4-fails"}[rng.Intn(3)], fs})
		}
	}

	var wg sync.WaitGroup
	sem := make(chan struct{}, 12)
	for ji, j := range jobs {
		wg.Add(1)
		sem <- struct{}{}
		go func(ji int, j job) {
			defer wg.Done()
			defer func() { <-sem }()
			// connect
			var s *rig.Session
			var err error
			switch j.conn {
			case "normal":
				s, err = rig.Dial(j.set.px.Addr, []string{j.proto}, &net.TCPAddr{IP: net.IPv4(127, 0, 0, byte(1+ji%8))}, nil)
			case "ja3-fails":
				s, err = rig.Dial(j.set.px.Addr, []string{j.proto}, nil, func(c *tls.Config) { c.ServerName = strings.Repeat("a", 253) })
			case "ja4-fails":
				for attempt := 0; attempt < 8; attempt++ {
					r := run.Rand(int64(700 + ji*16 + attempt))
					spec, _ := hello.CustomSpec(r, []string{j.proto})
					spec.Extensions = append(spec.Extensions, &utls.GenericExtension{Id: 27, Data: nil})
					uc, rc, e := rig.UTLSDial(j.set.px.Addr, spec, "front.example", nil, nil)
					if e != nil {
						err = e
						run.Add("utls_handshake_retries", 1)
						continue
					}
					s, err = rig.NewSession(uc, uc.ConnectionState().NegotiatedProtocol, rc)
					break
				}
			}
			if err != nil {
				run.Add("dial_failed", 1)
				return
			}
			defer s.Close()
			if s.Proto != j.proto && !(j.proto == "http/1.1" && s.Proto == "") {
				run.Add("unexpected_protocol", 1)
				return
			}
			// what the proxy should compute for this connection
			expect := map[string]string{} // name -> expected value ("" = none, "?" = some value we do not recompute here)
			outcome := map[string]string{}
			stream := s.Rec.Bytes()
			p, perr := hello.ParseStream(stream)
			for _, n := range j.set.names {
				switch {
				case n == "X-JA3-Fingerprint":
					if j.conn == "ja3-fails" {
						expect[n], outcome[n] = "", "error"
					} else if perr == nil {
						expect[n], outcome[n] = p.JA3(), "value"
					}
				case n == "X-JA4-Fingerprint":
					if j.conn == "ja4-fails" {
						expect[n], outcome[n] = "", "error"
					} else if perr == nil {
						expect[n], outcome[n] = p.JA4().Value, "value"
					}
				case n == "X-HTTP2-Fingerprint":
					if j.proto == "h2" {
						expect[n], outcome[n] = "?", "value"
					} else {
						expect[n], outcome[n] = "", "empty"
					}
				case strings.HasSuffix(n, "-Val"):
					expect[n], outcome[n] = "proxy-computed", "value"
				case strings.HasSuffix(n, "-Empty"):
					expect[n], outcome[n] = "", "empty"
				case strings.HasSuffix(n, "-Err"):
					expect[n], outcome[n] = "", "error"
				}
			}
			// on every other HTTP/2 connection, first use up the server's per-connection cache of
			// canonical header names with many distinct uncommon names (multi-step sequence)
			if j.proto == "h2" && ji%2 == 0 {
				var filler [][2]string
				for k := 0; k < 40; k++ {
					filler = append(filler, [2]string{fmt.Sprintf("x-filler-%d-%d-abcdefghij", ji, k), "v"})
				}
				filler = append(filler, [2]string{strings.ToLower(rig.TagHeader), fmt.Sprintf("C05-%d-%d-filler", run.Seed, ji)})
				if _, err := s.Do("GET", "/c05filler", "front.example", filler, nil, 20*time.Second); err == nil {
					run.Add("h2_connections_with_header_name_cache_filled", 1)
				}
			}
			for fi, form := range j.forms {
				nonce := fmt.Sprintf("spoof%dn%dn%d", run.Seed, ji, fi)
				tag := fmt.Sprintf("C05-%d-%d-%d", run.Seed, ji, fi)
				hs := clientHeaders(j.set.names, form, j.proto, nonce)
				tc := tcase{Set: j.set.name, Proto: j.proto, Conn: j.conn, Form: form, Headers: hs, Outcome: outcome}
				th := rig.TagHeader
				if j.proto == "h2" {
					th = strings.ToLower(th)
				}
				hs = append(hs, [2]string{th, tag})
				resp, err := s.Do("GET", "/c05", "front.example", hs, nil, 20*time.Second)
				run.Eval(1)
				run.Distinct(fmt.Sprintf("%s|%s|%s|%s", j.set.name, j.proto, j.conn, form))
				if err != nil || resp.Status != 200 {
					last := ""
					if s.Peer != nil {
						evs := s.Peer.Events()
						for _, e := range evs[max(0, len(evs)-5):] {
							last += e.String() + " ;; "
						}
					}
					run.Violation("request-failed", tc, "request failed: %v %+v; last frames from the server: %s", err, resp, last)
					return
				}
				recs := be.Records(tag)
				if len(recs) != 1 {
					run.Violation("not-forwarded-once", tc, "backend saw the request %d times", len(recs))
					return
				}
				rec := recs[0]
				run.Add("requests_judged_"+j.proto, 1)
				run.Add("requests_judged_conn_"+j.conn, 1)
				for _, n := range j.set.names {
					vals := rec.Header.Values(n)
					leak := false
					for _, v := range vals {
						if strings.Contains(v, nonce) {
							leak = true
						}
					}
					cl := ""
					switch {
					case leak && outcome[n] != "value":
						cl = "client-value-kept-when-injector-gives-" + outcome[n]
					case leak:
						cl = "client-value-next-to-proxy-value"
					case len(vals) > 1:
						cl = "more-than-one-value"
					case len(vals) == 1 && form == "empty-value" && vals[0] == "" && outcome[n] != "value":
						cl = "client-value-kept-when-injector-gives-" + outcome[n]
					case len(vals) == 1 && expect[n] != "?" && vals[0] != expect[n]:
						cl = "value-not-computed-by-proxy"
					}
					if cl != "" {
						run.Violation(cl, tc, "%s/%s/%s/%s: backend received %s=%q (injector outcome for this connection: %s, proxy value %q)", j.set.name, j.proto, j.conn, form, n, abbreviate(vals), outcome[n], expect[n])
					}
					run.Add("header_names_judged", 1)
					if len(vals) == 1 {
						run.Add("proxy_value_present", 1)
					} else if len(vals) == 0 {
						run.Add("header_absent", 1)
					}
				}
				// nonce anywhere else under an injected name (e.g. trailers)
				for k, vs := range rec.Trailer {
					for _, v := range vs {
						if strings.Contains(v, nonce) {
							for _, n := range j.set.names {
								if strings.EqualFold(k, n) {
									run.Violation("client-value-in-trailer", tc, "request trailer %s=%q reached the backend", k, v)
								}
							}
						}
					}
				}
				if run.WantSample() && (ji*31+fi)%53 == 0 {
					run.Sample(map[string]any{"case": tcase{Set: tc.Set, Proto: tc.Proto, Conn: tc.Conn, Form: tc.Form, Outcome: outcome}, "backend_values": func() map[string][]string {
						m := map[string][]string{}
						for _, n := range j.set.names {
							m[n] = abbreviate(rec.Header.Values(n))
						}
						return m
					}()})
				}
			}
			if j.proto == "http/1.1" {
				nonce := fmt.Sprintf("spooftr%dn%d", run.Seed, ji)
				tag := fmt.Sprintf("C05-%d-%d-tr", run.Seed, ji)
				var sb strings.Builder
				fmt.Fprintf(&sb, "POST /c05tr HTTP/1.1\r\nHost: front.example\r\n%s: %s\r\nTransfer-Encoding: chunked\r\nTrailer: %s\r\n\r\n3\r\nabc\r\n0\r\n", rig.TagHeader, tag, strings.Join(j.set.names, ", "))
				for _, n := range j.set.names {
					fmt.Fprintf(&sb, "%s: %s\r\n", n, nonce)
				}
				sb.WriteString("\r\n")
				if resp, err := s.DoRawH1(sb.String(), "POST", 20*time.Second); err == nil && resp.Status == 200 {
					run.Eval(1)
					run.Add("requests_with_trailers_judged", 1)
					for _, rec := range be.Records(tag) {
						for k, vs := range rec.Trailer {
							for _, v := range vs {
								if strings.Contains(v, nonce) {
									run.Violation("client-value-in-trailer", map[string]any{"set": j.set.name, "trailer": k}, "request trailer %s=%q reached the backend", k, v)
								}
							}
						}
						for _, n := range j.set.names {
							for _, v := range rec.Header.Values(n) {
								if strings.Contains(v, nonce) {
									run.Violation("client-trailer-value-in-header", map[string]any{"set": j.set.name, "name": n}, "trailer value surfaced as header %s=%q", n, v)
								}
							}
						}
					}
				}
			}
		}(ji, j)
	}
	wg.Wait()
	panickyInjector(run, be, pan.px)
	portReuse(run, be, sets[0].px)
	run.Require("requests_whose_injector_panicked", 6)
	run.Require("connections_from_the_address_of_an_earlier_connection", 4)
	run.Require("requests_judged_h2", 50)
	run.Require("requests_judged_http/1.1", 50)
	run.Require("requests_judged_conn_ja3-fails", 20)
	run.Require("requests_judged_conn_ja4-fails", 20)
	run.SetExhaustive(false)
	run.Set("matrix_enumerated", "protocol x connection kind x injector set x client header form (180 cells), every cell in both tiers")
	run.Finish()
}

func abbreviate(vs []string) []string {
	out := make([]string, len(vs))
	for i, v := range vs {
		if len(v) > 60 {
			v = v[:60] + "…"
		}
		out[i] = v
	}
	return out
}

var _ = http.StatusOK
