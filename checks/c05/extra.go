//go:build verif

package main

import (
	"fmt"
	"net"
	"net/http"
	"strings"
	"time"

	utls "github.com/refraction-networking/utls"
	fingerproxy "github.com/wi1dcard/fingerproxy"
	"github.com/wi1dcard/fingerproxy/pkg/reverseproxy"

	"verif/internal/hello"
	"verif/internal/rig"
	"verif/internal/verdict"
)

// boomInjector panics for requests that carry X-Boom and gives a value otherwise: user code of the embedding
// application that fails for some requests only.
type boomInjector struct{ name string }

func (b boomInjector) GetHeaderName() string { return b.name }
func (b boomInjector) GetHeaderValue(r *http.Request) (string, error) {
	if r.Header.Get("X-Boom") != "" {
		panic("verif: injector " + b.name + " fails for this request")
	}
	return "proxy-computed", nil
}

var panickyNames = []string{"X-Pan-Before", "X-Pan-Boom", "X-Pan-After", "X-JA3-Fingerprint", "X-JA4-Fingerprint", "X-HTTP2-Fingerprint"}

func panickySet() []reverseproxy.HeaderInjector {
	return append([]reverseproxy.HeaderInjector{
		ownInjector{"X-Pan-Before", "proxy-computed", nil},
		boomInjector{"X-Pan-Boom"},
		ownInjector{"X-Pan-After", "proxy-computed", nil},
	}, fingerproxy.DefaultHeaderInjectors()...)
}

// panickyInjector (added after seeded change C05-K): an injector in the middle of the list panics for one request.
// Whatever the proxy does with that request (the unchanged tree aborts it), no client-supplied value under any
// injected name may reach the backend, and the requests before and after it are judged as usual.
func panickyInjector(run *verdict.Run, be *rig.Backend, px *rig.Proxy) {
	for ci := 0; ci < run.Pick(8, 60); ci++ {
		proto := []string{"http/1.1", "h2"}[ci%2]
		form := forms[1+ci%(len(forms)-1)]
		s, err := rig.Dial(px.Addr, []string{proto}, nil, nil)
		if err != nil {
			run.Add("dial_failed", 1)
			continue
		}
		for step := 0; step < 3; step++ {
			boom := step == 1
			nonce := fmt.Sprintf("spoofpan%dn%dn%d", run.Seed, ci, step)
			tag := fmt.Sprintf("C05-%d-pan-%d-%d", run.Seed, ci, step)
			hs := clientHeaders(panickyNames, form, proto, nonce)
			th := rig.TagHeader
			bh := "X-Boom"
			if proto == "h2" {
				th, bh = strings.ToLower(th), "x-boom"
			}
			hs = append(hs, [2]string{th, tag})
			if boom {
				hs = append(hs, [2]string{bh, "1"})
			}
			resp, err := s.Do("GET", "/c05pan", "front.example", hs, nil, 10*time.Second)
			run.Eval(1)
			run.Distinct(fmt.Sprintf("panicky|%s|%s|%d", proto, form, step))
			w := map[string]any{"protocol": proto, "client_header_form": form, "step": step, "injector_panics_for_this_request": boom}
			if boom {
				run.Add("requests_whose_injector_panicked", 1)
				// the outcome for the client is not judged (C10); give a request that went on some time to arrive
				if err == nil && resp.Status == 200 {
					run.Add("requests_forwarded_although_an_injector_panicked", 1)
				}
				for k := 0; k < 20 && len(be.Records(tag)) == 0; k++ {
					time.Sleep(10 * time.Millisecond)
				}
			} else if err != nil || resp.Status != 200 {
				run.Violation("request-failed", w, "request %d on a connection with a sometimes panicking injector failed: %v %+v", step, err, resp)
				break
			}
			for _, rec := range be.Records(tag) {
				for _, n := range panickyNames {
					for _, v := range rec.Header.Values(n) {
						if strings.Contains(v, nonce) {
							cl := "client-value-next-to-proxy-value"
							if boom {
								cl = "client-value-kept-when-an-earlier-injector-panicked"
							}
							run.Violation(cl, w, "panicky/%s/%s step %d: backend received %s=%q", proto, form, step, n, abbreviate(rec.Header.Values(n)))
						}
					}
				}
				if !boom {
					run.Add("requests_judged_next_to_a_panicking_injector", 1)
				}
			}
			if boom && (err != nil || proto == "http/1.1") {
				// the HTTP/1.1 connection is gone after an aborted request; go on with a fresh one
				s.Close()
				if s, err = rig.Dial(px.Addr, []string{proto}, nil, nil); err != nil {
					run.Add("dial_failed", 1)
					break
				}
			}
		}
		if s != nil {
			s.Close()
		}
	}
}

// portReuse (added after seeded change C05-L): connection A (crypto/tls hello) sends a request and is reset; connection B
// with another ClientHello then comes from the SAME source address and port. B's headers must be computed from B's hello.
func portReuse(run *verdict.Run, be *rig.Backend, px *rig.Proxy) {
	combos := [][2]string{{"http/1.1", "http/1.1"}, {"h2", "h2"}, {"http/1.1", "h2"}, {"h2", "http/1.1"}}
	for i := 0; i < run.Pick(16, 200); i++ {
		pa, pb := combos[i%4][0], combos[i%4][1]
		ip := net.IPv4(127, 0, 0, byte(1+i%8))
		a, err := rig.Dial(px.Addr, []string{pa}, &net.TCPAddr{IP: ip}, nil)
		if err != nil {
			run.Add("dial_failed", 1)
			continue
		}
		port := a.Rec.Conn.LocalAddr().(*net.TCPAddr).Port
		tagA := fmt.Sprintf("C05-%d-reuse-%d-a", run.Seed, i)
		th := func(p string) string {
			if p == "h2" {
				return strings.ToLower(rig.TagHeader)
			}
			return rig.TagHeader
		}
		_, errA := a.Do("GET", "/c05reuse", "front.example", [][2]string{{th(pa), tagA}}, nil, 10*time.Second)
		pA, _ := hello.ParseStream(a.Rec.Bytes())
		if tc, ok := a.Rec.Conn.(*net.TCPConn); ok {
			tc.SetLinger(0) // reset: no TIME_WAIT on this side, the port is free at once
		}
		a.Close()
		if errA != nil || pA == nil {
			run.Add("port_reuse_first_connection_failed", 1)
			continue
		}
		var uc *utls.UConn
		var rc *rig.RecConn
		for attempt := 0; attempt < 40; attempt++ {
			spec, _ := hello.CustomSpec(run.Rand(int64(5500+i*64+attempt)), []string{pb})
			spec.Extensions = append([]utls.TLSExtension{&utls.GenericExtension{Id: uint16(21000 + i), Data: []byte{1}}}, spec.Extensions...)
			uc, rc, err = rig.UTLSDial(px.Addr, spec, "front.example", nil, &net.TCPAddr{IP: ip, Port: port})
			if err == nil {
				break
			}
			time.Sleep(50 * time.Millisecond)
		}
		if err != nil {
			run.Add("port_reuse_not_possible", 1)
			continue
		}
		b, err := rig.NewSession(uc, uc.ConnectionState().NegotiatedProtocol, rc)
		if err != nil || b.Proto != pb {
			uc.Close()
			run.Add("port_reuse_second_connection_failed", 1)
			continue
		}
		tagB := fmt.Sprintf("C05-%d-reuse-%d-b", run.Seed, i)
		_, errB := b.Do("GET", "/c05reuse", "front.example", [][2]string{{th(pb), tagB}}, nil, 10*time.Second)
		pB, perr := hello.ParseStream(rc.Bytes())
		b.Close()
		recs := be.Records(tagB)
		if errB != nil || perr != nil || len(recs) != 1 {
			run.Add("port_reuse_second_connection_failed", 1)
			continue
		}
		run.Eval(1)
		run.Distinct(fmt.Sprintf("reuse|%s|%s|%d", pa, pb, i))
		run.Add("connections_from_the_address_of_an_earlier_connection", 1)
		w := map[string]any{"first": pa, "second": pb, "address": fmt.Sprintf("%v:%d", ip, port)}
		for _, c := range []struct{ name, want, earlier string }{
			{"X-JA3-Fingerprint", pB.JA3(), pA.JA3()},
			{"X-JA4-Fingerprint", pB.JA4().Value, pA.JA4().Value},
		} {
			vals := recs[0].Header.Values(c.name)
			if len(vals) == 1 && vals[0] == c.want {
				continue
			}
			cl := "value-not-computed-by-proxy"
			if len(vals) == 1 && vals[0] == c.earlier {
				cl = "value-of-an-earlier-connection-from-the-same-address"
			}
			run.Violation(cl, w, "second connection from %v:%d (%s after %s): backend received %s=%q, this connection's value is %q, the earlier connection's was %q", ip, port, pb, pa, c.name, vals, c.want, c.earlier)
		}
		if pa == "h2" && pb != "h2" && len(recs[0].Header.Values("X-HTTP2-Fingerprint")) != 0 {
			run.Violation("value-of-an-earlier-connection-from-the-same-address", w, "HTTP/1.1 connection from %v:%d after an HTTP/2 one carries X-HTTP2-Fingerprint=%q", ip, port, recs[0].Header.Values("X-HTTP2-Fingerprint"))
		}
	}
}
