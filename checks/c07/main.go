//go:build verif

// C07 — concurrent streams on one connection see consistent fingerprint data.
//
// Monitors: (i) the race detector (driver) while bursts of streams are served
// and the client keeps writing SETTINGS / WINDOW_UPDATE / PRIORITY / HEADERS;
// (ii) every fingerprint a request carried must be the reference string of ONE
// prefix of the client's frame history between the request's own HEADERS and
// the moment the backend received it — checked directly and, per connection,
// as a linearizability problem with porcupine.
package main

import (
	"fmt"
	"golang.org/x/net/http2"
	"math"
	"net/http"
	"strings"
	"sync"
	"sync/atomic"
	"time"
	"verif/internal/h2peer"

	"github.com/anishathalye/porcupine"
	fingerproxy "github.com/wi1dcard/fingerproxy"
	fp "github.com/wi1dcard/fingerproxy/pkg/fingerprint"
	"github.com/wi1dcard/fingerproxy/pkg/reverseproxy"
	"golang.org/x/net/http2/hpack"

	"verif/internal/h2fp"
	"verif/internal/ref"
	"verif/internal/rig"
	"verif/internal/verdict"
)

const extraInjectors = 12

type reqInfo struct {
	tag  string
	sid  uint32
	lo   int   // history length including the request's own HEADERS
	call int64 // clock before its HEADERS was written
}

type opIn struct {
	Append int // >0: append frame #Append (1-based)
	Lo     int // read: own HEADERS index
}

func main() {
	run := verdict.Start("C07", "exploration",
		"connections with up to 100 concurrently open streams (backend gated) while the same client keeps writing SETTINGS (distinct values), WINDOW_UPDATE, PRIORITY and further HEADERS; 13 fingerprint reads per request (default injector + 12 extra HTTP2 fingerprint injectors); each value must equal the reference of one admissible history prefix; one porcupine history per connection; distinct by (connection seed, request)")
	clock := new(int64)
	be := rig.NewBackend(clock)
	defer be.Close()
	var gmu sync.Mutex
	gates := map[string]chan struct{}{}
	be.PlanFor = func(r *http.Request, tag string) *rig.Plan {
		gmu.Lock()
		g := gates[tag]
		gmu.Unlock()
		return &rig.Plan{Status: 200, Chunks: [][]byte{[]byte("ok")}, Gate: g}
	}
	saved := fingerproxy.GetHeaderInjectors
	fingerproxy.GetHeaderInjectors = func() []reverseproxy.HeaderInjector {
		inj := fingerproxy.DefaultHeaderInjectors()
		for k := 0; k < extraInjectors; k++ {
			p := &fp.HTTP2FingerprintParam{MaxPriorityFrames: math.MaxUint}
			inj = append(inj, fp.NewFingerprintHeaderInjector(fmt.Sprintf("X-H2fp-%d", k), p.HTTP2Fingerprint))
		}
		return inj
	}
	px, err := rig.StartProxy(be.URL, rig.ProxyOpts{Args: []string{"-max-h2-priority-frames=1000000"}})
	fingerproxy.GetHeaderInjectors = saved
	if err != nil {
		run.Inconclusive("start proxy: %v", err)
		run.Finish()
	}
	defer px.Stop()

	nconn := run.Pick(160, 1500)
	var wg sync.WaitGroup
	sem := make(chan struct{}, 8)
	for ci := 0; ci < nconn; ci++ {
		wg.Add(1)
		sem <- struct{}{}
		go func(ci int) {
			defer wg.Done()
			defer func() { <-sem }()
			oneConn(run, be, px, clock, ci, &gmu, gates)
		}(ci)
	}
	wg.Wait()
	run.Require("fingerprint_reads_judged", 5000)
	run.Require("reads_with_more_than_one_admissible_value", 100)
	run.Require("porcupine_histories_ok", 5)
	run.Assume("a frame can only have been captured if the client had started writing it before the backend received the request (shared logical clock), and a request's own HEADERS is always captured before its handler runs")
	run.Finish()
}

func oneConn(run *verdict.Run, be *rig.Backend, px *rig.Proxy, clock *int64, ci int, gmu *sync.Mutex, gates map[string]chan struct{}) {
	r := run.Rand(int64(7000 + ci))
	c, err := h2fp.Dial(px.Addr, nil, nil)
	if err != nil {
		run.Add("dial_failed", 1)
		return
	}
	defer c.Close()
	var calls []int64 // call stamp of history entry i (0-based)
	tick := func() int64 { return atomic.AddInt64(clock, 1) }
	stamp := func() { calls = append(calls, tick()) }
	stamp()
	c.Settings([][2]uint32{{3, 1000}, {4, 6291456}})
	var reqs []*reqInfo
	var myGates []chan struct{}
	nstreams := 20 + r.Intn(80)
	uniq := uint32(ci)*1000000 + 100000
	releaseMode := r.Intn(3) // 0: release all at the end, 1: release continuously, 2: release in bursts
	fillAt := -1
	if ci%8 == 3 {
		// fill the connection up to the server's advertised concurrency limit (and three streams beyond, which
		// are refused): the stream that takes the last free slot is a request like any other
		if _, ok := c.Peer.WaitFor(0, 20*time.Second, func(e h2peer.Event) bool { return e.Is(http2.FrameSettings) && !e.Ack() }); ok {
			for _, e := range c.Peer.Events() {
				if e.Is(http2.FrameSettings) && !e.Ack() {
					for _, st := range e.Settings {
						if st.ID == http2.SettingMaxConcurrentStreams && st.Val >= 4 && st.Val <= 1000 {
							nstreams, releaseMode, fillAt = int(st.Val)+3, 0, int(st.Val)-2
							run.Add("connections_filled_to_the_concurrency_limit", 1)
						}
					}
					break
				}
			}
		}
	}
	relCh := make(chan chan struct{}, nstreams)
	var relWG sync.WaitGroup
	relWG.Add(1)
	go func() {
		defer relWG.Done()
		for g := range relCh {
			close(g)
		}
	}()
	pending := []chan struct{}{}
	for s := 0; s < nstreams; s++ {
		// storm frames before this request
		for k := r.Intn(6); k > 0; k-- {
			uniq++
			stamp()
			switch r.Intn(5) {
			case 0, 1:
				c.Settings([][2]uint32{{3, uniq}, {uint32(20 + r.Intn(1000)), uniq}})
			case 2:
				c.WindowUpdate(0, uint32(1+r.Intn(1000)))
			default:
				c.Priority(uint32(2000001+2*r.Intn(100000)), uint32(r.Intn(50))*2, r.Intn(2) == 0, uint8(uniq))
			}
		}
		if s == fillAt {
			// the server must have opened every earlier stream (its request is at the gated backend) before
			// the last free slots are taken, otherwise the limit is never reached
			dl := time.Now().Add(60 * time.Second)
			for _, q := range reqs {
				be.Wait(q.tag, max(time.Until(dl), time.Millisecond))
			}
		}
		sid := c.Next
		c.Next += 2
		tag := fmt.Sprintf("C07-%d-%d-%d", run.Seed, ci, s)
		g := make(chan struct{})
		gmu.Lock()
		gates[tag] = g
		gmu.Unlock()
		myGates = append(myGates, g)
		fields := h2fp.PseudoOrder(r.Intn(24), "front.example", "/c07", "GET")
		fields = append(fields, hpack.HeaderField{Name: strings.ToLower(rig.TagHeader), Value: tag})
		var pr *h2fp.Prio
		if r.Intn(2) == 0 {
			uniq++
			pr = &h2fp.Prio{Dep: uint32(r.Intn(int(sid))), Excl: r.Intn(2) == 0, Weight: uint8(1 + uniq%255)}
		}
		call := tick()
		calls = append(calls, call)
		lo, err := c.Headers(sid, fields, pr, r.Intn(2), true, r)
		if err != nil {
			break
		}
		reqs = append(reqs, &reqInfo{tag: tag, sid: sid, lo: lo, call: call})
		pending = append(pending, g)
		switch releaseMode {
		case 1:
			if r.Intn(2) == 0 && len(pending) > 0 {
				relCh <- pending[0]
				pending = pending[1:]
			}
		case 2:
			if len(pending) > 15 {
				for _, g := range pending {
					relCh <- g
				}
				pending = nil
			}
		}
	}
	// a last storm while handlers are still gated
	for k := 0; k < 30; k++ {
		uniq++
		stamp()
		if k%2 == 0 {
			c.Settings([][2]uint32{{3, uniq}})
		} else {
			c.Priority(uint32(2000001+2*r.Intn(100000)), 0, false, uint8(uniq))
		}
	}
	for _, g := range pending {
		relCh <- g
	}
	close(relCh)
	relWG.Wait()
	// every gate is open: within one (generous) bound for the whole connection each request must have been
	// answered or refused. A legal request that is never answered is reported - the fingerprint is read while
	// later frames of the same client are recorded, and a lock taken in the wrong order shows up exactly here
	dl := time.Now().Add(60 * time.Second)
	unanswered := 0
	var firstUnanswered *reqInfo
	for _, q := range reqs {
		resp, ok := c.Peer.WaitResponse(q.sid, max(time.Until(dl), time.Millisecond))
		if !ok || resp.Reset {
			run.Add("responses_missing", 1)
			if ok && resp.ResetCode == http2.ErrCodeRefusedStream {
				run.Add("streams_refused_beyond_the_limit", 1)
			}
		}
		if !ok && !c.Peer.Ended() {
			unanswered++
			if firstUnanswered == nil {
				firstUnanswered = q
			}
		}
	}
	if unanswered > 0 {
		run.Violation("requests-never-answered-while-frames-kept-arriving", map[string]any{"conn": ci, "requests": len(reqs), "unanswered": unanswered, "first_unanswered_stream": firstUnanswered.sid, "at_backend": len(be.Records(firstUnanswered.tag))},
			"conn %d: %d of %d legal requests had no response 60 s after every backend gate was opened (first: stream %d, seen by the backend %d time(s)); the connection is still open - handlers and the frame-recording serve loop are stuck", ci, unanswered, len(reqs), firstUnanswered.sid, len(be.Records(firstUnanswered.tag)))
		return
	}
	gmu.Lock()
	for _, q := range reqs {
		delete(gates, q.tag)
	}
	gmu.Unlock()

	hist := c.History()
	if len(hist) != len(calls) {
		run.Inconclusive("conn %d: harness bookkeeping: %d history entries, %d stamps", ci, len(hist), len(calls))
		return
	}
	all := ref.AkamaiAll(hist, math.MaxUint64)
	var ops []porcupine.Operation
	endStamp := tick() + 1
	for i := range hist {
		ops = append(ops, porcupine.Operation{ClientId: 0, Input: opIn{Append: i + 1}, Call: calls[i], Output: "", Return: endStamp})
	}
	maxOpen := 0
	for qi, q := range reqs {
		recs := be.Records(q.tag)
		if len(recs) != 1 {
			run.Add("requests_not_forwarded_once", 1)
			continue
		}
		rec := recs[0]
		hi := 0
		for hi < len(calls) && calls[hi] < rec.Seq {
			hi++
		}
		if hi < q.lo {
			run.Inconclusive("conn %d req %d: bookkeeping: hi %d < lo %d", ci, qi, hi, q.lo)
			continue
		}
		adm := map[string]bool{}
		for n := q.lo; n <= hi; n++ {
			adm[all[n]] = true
		}
		if len(adm) > 1 {
			run.Add("reads_with_more_than_one_admissible_value", 1)
		}
		if hi-q.lo > maxOpen {
			maxOpen = hi - q.lo
		}
		names := []string{"X-Http2-Fingerprint"}
		for k := 0; k < extraInjectors; k++ {
			names = append(names, fmt.Sprintf("X-H2fp-%d", k))
		}
		for k, n := range names {
			vals := rec.Header.Values(n)
			run.Eval(1)
			run.Add("fingerprint_reads_judged", 1)
			if len(vals) != 1 || !adm[vals[0]] {
				cl := "not-a-single-instant"
				if len(vals) == 1 {
					for _, a := range all {
						if a == vals[0] {
							cl = "instant-outside-admissible-window"
						}
					}
				} else {
					cl = "header-count"
				}
				run.Violation(cl, map[string]any{"conn": ci, "request": qi, "stream": q.sid, "header": n, "value": vals, "own_headers_index": q.lo, "frames_started_before_backend_receipt": hi,
					"admissible_first": all[q.lo], "admissible_last": all[hi], "history_len": len(hist)},
					"conn %d stream %d %s=%q is not the fingerprint of any single history prefix between its own HEADERS (#%d) and the frames started before the backend received it (#%d); first admissible %q, last admissible %q", ci, q.sid, n, abbreviate(vals), q.lo, hi, short(all[q.lo]), short(all[hi]))
				continue
			}
			ops = append(ops, porcupine.Operation{ClientId: 1 + qi*len(names) + k, Input: opIn{Lo: q.lo}, Call: q.call, Output: vals[0], Return: rec.Seq})
		}
		run.Distinct(fmt.Sprintf("%d|%d", ci, qi))
	}
	run.Add("frames_in_histories", int64(len(hist)))
	run.Add("requests", int64(len(reqs)))
	run.Add("max_frames_between_headers_and_backend_receipt", 0)
	if int64(maxOpen) > run.Counter("max_window_seen") {
		run.Set("max_frames_written_between_a_requests_headers_and_its_backend_receipt", maxOpen)
		run.Add("max_window_seen", int64(maxOpen)-run.Counter("max_window_seen"))
	}
	// porcupine: appends in order, reads see the state
	model := porcupine.Model{
		Init: func() interface{} { return 0 },
		Step: func(state, input, output interface{}) (bool, interface{}) {
			st := state.(int)
			in := input.(opIn)
			if in.Append > 0 {
				return in.Append == st+1, st + 1
			}
			return st >= in.Lo && all[st] == output.(string), st
		},
		Equal: func(a, b interface{}) bool { return a.(int) == b.(int) },
	}
	res := porcupine.CheckOperationsTimeout(model, ops, 60*time.Second)
	switch res {
	case porcupine.Ok:
		run.Add("porcupine_histories_ok", 1)
		run.Add("porcupine_operations_checked", int64(len(ops)))
	case porcupine.Illegal:
		run.Violation("not-linearizable", map[string]any{"conn": ci, "operations": len(ops)}, "conn %d: the fingerprint reads of this connection are not linearizable against the client's frame history (%d operations)", ci, len(ops))
	default:
		run.Add("porcupine_timeouts", 1)
		run.Inconclusive("conn %d: porcupine timed out on %d operations", ci, len(ops))
	}
	if run.WantSample() && ci%7 == 0 && len(reqs) > 0 {
		q := reqs[len(reqs)/2]
		if recs := be.Records(q.tag); len(recs) == 1 {
			run.Sample(map[string]any{"conn": ci, "streams": len(reqs), "history_frames": len(hist), "request_stream": q.sid, "own_headers_index": q.lo, "value": short(recs[0].Header.Get("X-Http2-Fingerprint"))})
		}
	}
}

func short(s string) string {
	if len(s) > 150 {
		return s[:70] + " … " + s[len(s)-70:]
	}
	return s
}

func abbreviate(vs []string) []string {
	out := make([]string, len(vs))
	for i, v := range vs {
		out[i] = short(v)
	}
	return out
}
