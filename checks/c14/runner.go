package main

import (
	"bytes"
	"context"
	"crypto/tls"
	"errors"
	"fmt"
	"io"
	"net"
	"os"
	"path/filepath"
	"strconv"
	"strings"
	"sync"
	"sync/atomic"
	"syscall"
	"time"

	fingerproxy "github.com/wi1dcard/fingerproxy"
	"github.com/wi1dcard/fingerproxy/pkg/certwatcher"
)

const (
	handshakers    = 4
	convergeBound  = 5 * time.Second  // the restated "eventually"
	starveBound    = 40 * time.Second // harness watchdog: nothing is decided when it fires
	staleToRefute  = 40               // handshakes begun after the step, completed, not presenting P
	stableAfter    = 20               // handshakes that must keep presenting P
	ioDeadline     = 20 * time.Second
	paceWatchdog   = 20 * time.Second
	fenceWatchdog  = 20 * time.Second
	fenceSecond    = 3 * time.Second
	brokenTailWait = 12 // handshakes observed after a history that ends in a broken state
	probeWait      = 30 // handshakes observed after an unsupported history that ends valid
)

type hsRec struct {
	Who    int    `json:"handshaker"`
	H0     int64  `json:"start_stamp"`
	H1     int64  `json:"end_stamp"`
	Serial int64  `json:"serial,omitempty"`
	Err    string `json:"error,omitempty"`
	Env    bool   `json:"environment_error,omitempty"` // timeout / dial problem: not a TLS-level failure
	Vers   uint16 `json:"tls_version,omitempty"`
	end    time.Time
}

type stepRec struct {
	Index       int       `json:"step"`
	Op          string    `json:"op"`
	S0          int64     `json:"start_stamp"`
	S1          int64     `json:"end_stamp"`
	VisibleFrom int64     `json:"state_visible_from_stamp"` // stamp taken before the sub-operation that exposes the new state on the watched paths
	After       diskState `json:"disk_after"`
	Valid       int64     `json:"valid_pair_after,omitempty"`
}

type violation struct {
	class string
	msg   string
	wit   witness
}

type result struct {
	h               *history
	violations      []violation
	inconclusive    string
	handshakes      int
	duringSteps     int
	intermediate    int
	whileBroken     int
	fences          int
	fencePartial    int
	serials         map[int64]bool
	latencies       []time.Duration
	judgedFinal     bool
	endedBroken     bool
	unsupported     string
	probeFinalValid bool
	probeConverged  bool
	slowLoad        time.Duration // how long the initial load of a slow-initial history took
}

// slowTail: ~4 MiB of PEM blocks of a type the certificate parser skips.
var slowTail = func() []byte {
	var b bytes.Buffer
	line := strings.Repeat("QUJD", 16) + "\n"
	for b.Len() < 4<<20 {
		b.WriteString("-----BEGIN X-VERIF-PADDING-----\n")
		for i := 0; i < 400; i++ {
			b.WriteString(line)
		}
		b.WriteString("-----END X-VERIF-PADDING-----\n")
	}
	return b.Bytes()
}()

// flagWired: this process composes its (single) watcher through fingerproxy.VerifNewApp (child mode).
var flagWired bool

// bytes: the file content for c in this history's PEM layout (complete, unpadded files only)
func (hr *histRun) bytes(c content) []byte {
	b := hr.pool.bytes(c)
	if (c.Kind == "cert" && !c.Pad) || c.Kind == "key" {
		return pemStyled(b, hr.h.PEMStyle)
	}
	return b
}

// age gives a file that is about to be renamed into place an old modification time (history flag OldMtime).
func (hr *histRun) age(path string) {
	if hr.h.OldMtime {
		past := time.Now().Add(-time.Hour)
		os.Chtimes(path, past, past)
	}
}

type histRun struct {
	h    *history
	pool *pairPool
	res  *result

	dir, certPath, keyPath string
	k8sGen                 int

	clock atomic.Int64

	stuckHandshakes atomic.Int64
	done            atomic.Int64
	stop            atomic.Bool

	mu      sync.Mutex
	hs      []hsRec
	srvErrs []string

	steps       []stepRec
	cur         diskState
	visibleFrom map[int64]int64 // serial -> stamp from which the matching pair may be on both paths
	certFrom    map[int64]int64 // serial -> stamp from which that certificate may be on the cert path
	keyFrom     map[int]int64   // key id -> stamp from which that key may be on the key path
	brokenIvals [][2]int64      // [stamp from, stamp to) during which no valid pair was on disk (quiescent view)
	brokenSince int64
	unsupported string
}

func (hr *histRun) stamp() int64 { return hr.clock.Add(1) }

func (hr *histRun) path(which string) string {
	if which == "cert" {
		return hr.certPath
	}
	return hr.keyPath
}

// ---- file operations

func writeInPlace(p string, parts ...[]byte) error {
	f, err := os.OpenFile(p, os.O_WRONLY|os.O_TRUNC|os.O_CREATE, 0o600)
	if err != nil {
		return err
	}
	for _, b := range parts {
		if len(b) == 0 {
			continue
		}
		if _, err := f.Write(b); err != nil {
			f.Close()
			return err
		}
	}
	return f.Close()
}

func (hr *histRun) k8sWriteDir(gen int, c, k content) error {
	d := filepath.Join(hr.dir, fmt.Sprintf("..v%d", gen))
	if err := os.Mkdir(d, 0o700); err != nil {
		return err
	}
	if c.Kind != "missing" {
		defer func() { hr.age(filepath.Join(d, "tls.crt")); hr.age(filepath.Join(d, "tls.key")) }()
		if err := os.WriteFile(filepath.Join(d, "tls.crt"), hr.bytes(c), 0o600); err != nil {
			return err
		}
	}
	if k.Kind != "missing" {
		if err := os.WriteFile(filepath.Join(d, "tls.key"), hr.bytes(k), 0o600); err != nil {
			return err
		}
	}
	return nil
}

func (hr *histRun) k8sSwap(gen int) error {
	tmp := filepath.Join(hr.dir, "..data_tmp")
	if err := os.Symlink(fmt.Sprintf("..v%d", gen), tmp); err != nil {
		return err
	}
	return os.Rename(tmp, filepath.Join(hr.dir, "..data"))
}

func (hr *histRun) setup() error {
	dir, err := os.MkdirTemp("", "verif-c14-")
	if err != nil {
		return err
	}
	hr.dir = dir
	if os.Getenv("VERIF_C14_DEBUG") != "" {
		dbgf("[C14 DBG %s] history %d (%s) dir=%s\n", time.Now().Format("05.000000"), hr.h.ID, hr.h.Name, dir)
	}
	hr.certPath = filepath.Join(dir, "tls.crt")
	hr.keyPath = filepath.Join(dir, "tls.key")
	if hr.h.OddPaths {
		hr.certPath = dir + "/./tls.crt"
		hr.keyPath = dir + "//tls.key"
	}
	c, k := certC(hr.h.Init), keyC(hr.pool.keyOf[hr.h.Init])
	hr.cur = diskState{Cert: c, Key: k}
	if hr.h.Layout == "k8s" {
		hr.k8sGen = 1
		if err := hr.k8sWriteDir(1, c, k); err != nil {
			return err
		}
		if err := hr.k8sSwap(1); err != nil {
			return err
		}
		if err := os.Symlink("..data/tls.crt", hr.certPath); err != nil {
			return err
		}
		return os.Symlink("..data/tls.key", hr.keyPath)
	}
	cb := hr.bytes(c)
	if hr.h.SlowInitial {
		cb = append(append([]byte{}, cb...), slowTail...)
	}
	if err := os.WriteFile(hr.certPath, cb, 0o600); err != nil {
		return err
	}
	return os.WriteFile(hr.keyPath, hr.bytes(k), 0o600)
}

// waitHandshakes lets k more handshakes complete (logical pacing).
func (hr *histRun) waitHandshakes(k int) error {
	if k <= 0 {
		return nil
	}
	target := hr.done.Load() + int64(k)
	dl := time.Now().Add(paceWatchdog)
	for hr.done.Load() < target {
		if time.Now().After(dl) {
			return fmt.Errorf("handshakers made no progress for %s", paceWatchdog)
		}
		time.Sleep(200 * time.Microsecond)
	}
	return nil
}

// apply executes one step and records stamps and the state it leaves.
func (hr *histRun) apply(i int, st step) error {
	rec := stepRec{Index: i, Op: st.String()}
	rec.S0 = hr.stamp()
	rec.VisibleFrom = rec.S0
	var err error
	switch st.Op {
	case "write":
		err = writeInPlace(hr.path(st.Path), hr.bytes(st.C))
	case "truncate":
		err = os.Truncate(hr.path(st.Path), 0)
	case "partial", "partial-abandon":
		data := hr.bytes(st.C)
		cut := min(st.Cut, len(data)-10)
		if cut < 0 {
			cut = 0
		}
		var f *os.File
		f, err = os.OpenFile(hr.path(st.Path), os.O_WRONLY|os.O_TRUNC|os.O_CREATE, 0o600)
		if err == nil {
			_, err = f.Write(data[:cut])
			if err == nil && st.Op == "partial" {
				if err = hr.waitHandshakes(st.PauseMid); err == nil {
					_, err = f.Write(data[cut:])
				}
			}
			if cerr := f.Close(); err == nil {
				err = cerr
			}
		}
	case "rename-over":
		tmp := filepath.Join(hr.dir, fmt.Sprintf(".tmp-%d-%s", i, st.Path))
		if err = os.WriteFile(tmp, hr.bytes(st.C), 0o600); err == nil {
			hr.age(tmp)
			if err = hr.waitHandshakes(st.PauseMid); err == nil {
				rec.VisibleFrom = hr.stamp()
				err = os.Rename(tmp, hr.path(st.Path))
			}
		}
	case "delete":
		err = os.Remove(hr.path(st.Path))
	case "k8s-update", "k8s-update-keep-old":
		old := hr.k8sGen
		hr.k8sGen++
		if err = hr.k8sWriteDir(hr.k8sGen, st.C, st.C2); err == nil {
			if err = hr.waitHandshakes(st.PauseMid); err == nil {
				rec.VisibleFrom = hr.stamp()
				if err = hr.k8sSwap(hr.k8sGen); err == nil && st.Op == "k8s-update" {
					if err = hr.waitHandshakes(st.PauseMid); err == nil {
						err = os.RemoveAll(filepath.Join(hr.dir, fmt.Sprintf("..v%d", old)))
					}
				}
			}
		}
	default:
		err = fmt.Errorf("unknown op %q", st.Op)
	}
	rec.S1 = hr.stamp()
	if err != nil {
		return fmt.Errorf("step %d %s: %w", i, st, err)
	}
	var unsup string
	hr.cur, unsup = after(hr.cur, st)
	if unsup != "" && hr.unsupported == "" {
		hr.unsupported = unsup
	}
	rec.After = hr.cur
	if s, ok := hr.pool.valid(hr.cur); ok {
		rec.Valid = s
		if _, seen := hr.visibleFrom[s]; !seen {
			hr.visibleFrom[s] = rec.VisibleFrom
		}
		if hr.brokenSince != 0 {
			hr.brokenIvals = append(hr.brokenIvals, [2]int64{hr.brokenSince, rec.S0})
			hr.brokenSince = 0
		}
	} else if hr.brokenSince == 0 {
		hr.brokenSince = rec.S1
	}
	if hr.cur.Cert.Kind == "cert" {
		if _, seen := hr.certFrom[hr.cur.Cert.Serial]; !seen {
			hr.certFrom[hr.cur.Cert.Serial] = rec.VisibleFrom
		}
	}
	if hr.cur.Key.Kind == "key" {
		if _, seen := hr.keyFrom[hr.cur.Key.Key]; !seen {
			hr.keyFrom[hr.cur.Key.Key] = rec.VisibleFrom
		}
	}
	hr.steps = append(hr.steps, rec)
	return nil
}

// ---- fence: both inotify watches of this history are armed

func inode(p string) (uint64, error) {
	fi, err := os.Stat(p) // follows symlinks, like inotify_add_watch
	if err != nil {
		return 0, err
	}
	st, ok := fi.Sys().(*syscall.Stat_t)
	if !ok {
		return 0, errors.New("no stat_t")
	}
	return st.Ino, nil
}

// watchesArmed returns how many of the inodes are watched by one inotify
// instance of this process (the best instance counts).
func watchesArmed(inos ...uint64) int {
	ents, err := os.ReadDir("/proc/self/fd")
	if err != nil {
		return 0
	}
	best := 0
	for _, e := range ents {
		link, err := os.Readlink("/proc/self/fd/" + e.Name())
		if err != nil || !strings.Contains(link, "inotify") {
			continue
		}
		b, err := os.ReadFile("/proc/self/fdinfo/" + e.Name())
		if err != nil {
			continue
		}
		have := map[uint64]bool{}
		for _, line := range strings.Split(string(b), "\n") {
			if !strings.HasPrefix(line, "inotify ") {
				continue
			}
			for _, f := range strings.Fields(line) {
				if strings.HasPrefix(f, "ino:") {
					if v, err := strconv.ParseUint(f[4:], 16, 64); err == nil {
						have[v] = true
					}
				}
			}
		}
		n := 0
		for _, i := range inos {
			if have[i] {
				n++
			}
		}
		best = max(best, n)
	}
	return best
}

// ---- TLS rig

func (hr *histRun) serve(ln net.Listener, cfg *tls.Config, wg *sync.WaitGroup) {
	defer wg.Done()
	for {
		c, err := ln.Accept()
		if err != nil {
			return
		}
		wg.Add(1)
		go func(c net.Conn) {
			defer wg.Done()
			defer c.Close()
			defer func() {
				if p := recover(); p != nil {
					hr.mu.Lock()
					hr.srvErrs = append(hr.srvErrs, fmt.Sprintf("PANIC in server handshake: %v", p))
					hr.mu.Unlock()
				}
			}()
			c.SetDeadline(time.Now().Add(ioDeadline))
			tc := tls.Server(c, cfg)
			// every read and write of the handshake is bounded by the deadline above: a handshake call that
			// has not returned well after it is stuck in something that is not I/O (the certificate callback)
			stuck := time.AfterFunc(ioDeadline+5*time.Second, func() { hr.stuckHandshakes.Add(1) })
			err := tc.Handshake()
			stuck.Stop()
			if err != nil {
				hr.mu.Lock()
				if len(hr.srvErrs) < 20 {
					hr.srvErrs = append(hr.srvErrs, err.Error())
				}
				hr.mu.Unlock()
				return
			}
			tc.Write([]byte{1})
			io.Copy(io.Discard, tc) // until the client resets the connection
		}(c)
	}
}

func (hr *histRun) handshaker(who int, addr string, wg *sync.WaitGroup) {
	defer wg.Done()
	cfg := &tls.Config{InsecureSkipVerify: true, ServerName: "localhost"}
	if who%2 == 1 {
		cfg.MaxVersion = tls.VersionTLS12
	}
	if who >= 2 {
		// a client that connects by address: no server_name extension in its ClientHello
		// (crypto/tls consults GetCertificate differently for such handshakes)
		cfg.ServerName = ""
	}
	var one [1]byte
	for !hr.stop.Load() {
		rec := hsRec{Who: who}
		rec.H0 = hr.stamp()
		func() {
			c, err := net.DialTimeout("tcp", addr, ioDeadline)
			if err != nil {
				rec.Err, rec.Env = "dial: "+err.Error(), true
				return
			}
			defer c.Close()
			c.SetDeadline(time.Now().Add(ioDeadline))
			tc := tls.Client(c, cfg)
			err = tc.Handshake()
			rec.H1 = hr.stamp()
			if err != nil {
				rec.Err = err.Error()
				var ne net.Error
				rec.Env = errors.As(err, &ne) && ne.Timeout()
				return
			}
			cs := tc.ConnectionState()
			rec.Vers = cs.Version
			if len(cs.PeerCertificates) == 0 {
				rec.Err = "handshake completed without a peer certificate"
				return
			}
			rec.Serial = cs.PeerCertificates[0].SerialNumber.Int64()
			if _, err := io.ReadFull(tc, one[:]); err != nil {
				rec.Err = "after handshake: " + err.Error()
				var ne net.Error
				rec.Env = errors.As(err, &ne) && ne.Timeout()
			}
			if t, ok := c.(*net.TCPConn); ok {
				t.SetLinger(0) // reset instead of TIME_WAIT
			}
		}()
		if rec.H1 == 0 {
			rec.H1 = hr.stamp()
		}
		rec.end = time.Now()
		hr.mu.Lock()
		hr.hs = append(hr.hs, rec)
		hr.mu.Unlock()
		hr.done.Add(1)
		if rec.Err != "" {
			time.Sleep(time.Millisecond) // do not spin on a persistent failure
		}
	}
}

// snapshot returns the handshake records from index from on.
func (hr *histRun) snapshot(from int) []hsRec {
	hr.mu.Lock()
	defer hr.mu.Unlock()
	return append([]hsRec(nil), hr.hs[from:]...)
}

type convOutcome int

const (
	convOK convOutcome = iota
	convRefuted
	convRegressed
	convStarved
	convFailing // handshakes keep failing: decided by the safety clause, nothing to wait for
)

// awaitConvergence: handshakes begun after stamp sEnd must present P within the
// bound, and the stableAfter handshakes begun after the first such one too.
func (hr *histRun) awaitConvergence(P int64, sEnd int64, tEnd time.Time) (convOutcome, time.Duration, []hsRec, string) {
	idx := 0
	stale := 0
	failing := 0
	var staleSample []hsRec
	var first *hsRec
	stable := 0
	for {
		recs := hr.snapshot(idx)
		idx += len(recs)
		for i := range recs {
			r := recs[i]
			if r.Err != "" { // judged by the safety clause
				if !r.Env && r.H0 > sEnd {
					failing++
					if failing >= staleToRefute && first == nil {
						return convFailing, 0, nil, ""
					}
				}
				continue
			}
			if first == nil {
				if r.H0 < sEnd {
					continue
				}
				if r.Serial == P {
					first = &r
					continue
				}
				stale++
				if len(staleSample) < 5 {
					staleSample = append(staleSample, r)
				}
				continue
			}
			if r.H0 < first.H1 {
				continue
			}
			if r.Serial != P {
				return convRegressed, 0, []hsRec{*first, r}, fmt.Sprintf("serial %d was presented (handshake ended at stamp %d), yet a handshake begun later (stamp %d) presented serial %d although the files did not change", P, first.H1, r.H0, r.Serial)
			}
			stable++
			if stable >= stableAfter {
				// a slow-initial history: whatever was still reading the (slow) initial pair when the
				// steps began must have finished before stability is declared
				if hold := 3 * hr.res.slowLoad; hr.h.SlowInitial && time.Since(first.end) < max(hold, time.Second) {
					continue
				}
				return convOK, first.end.Sub(tEnd), nil, ""
			}
		}
		el := time.Since(tEnd)
		if first == nil && el > convergeBound && stale >= staleToRefute {
			return convRefuted, el, staleSample, fmt.Sprintf("%d handshakes begun after the last step completed within %.1fs and none presents serial %d (they present e.g. %d)", stale, el.Seconds(), P, staleSample[0].Serial)
		}
		if el > starveBound {
			return convStarved, el, nil, fmt.Sprintf("watchdog: after %.0fs only %d handshakes begun after the step completed (first P seen: %v, stable %d/%d)", el.Seconds(), stale, first != nil, stable, stableAfter)
		}
		time.Sleep(300 * time.Microsecond)
	}
}

func (hr *histRun) witness(off []hsRec, note string) witness {
	vis := map[string]int64{}
	for s, st := range hr.visibleFrom {
		vis[strconv.FormatInt(s, 10)] = st
	}
	hr.mu.Lock()
	srv := append([]string(nil), hr.srvErrs...)
	hr.mu.Unlock()
	return witness{History: hr.h, Steps: append([]stepRec(nil), hr.steps...), Visible: vis, Offender: off, Server: srv, Note: note}
}

func (hr *histRun) tailSignature() string {
	n := len(hr.h.Steps)
	var parts []string
	for i := max(0, n-2); i < n; i++ {
		st := hr.h.Steps[i]
		if st.Path != "" {
			parts = append(parts, st.Op+"("+st.Path+")")
		} else {
			parts = append(parts, st.Op)
		}
	}
	return hr.h.Layout + ":" + strings.Join(parts, "+")
}

func (hr *histRun) convergencePoint(P int64, sEnd int64, tEnd time.Time, where string) (stop bool) {
	out, lat, off, msg := hr.awaitConvergence(P, sEnd, tEnd)
	switch out {
	case convOK:
		hr.res.latencies = append(hr.res.latencies, lat)
	case convRefuted:
		hr.res.violations = append(hr.res.violations, violation{"no-convergence:" + hr.tailSignature(),
			where + ": both paths hold the valid pair " + strconv.FormatInt(P, 10) + " but " + msg, hr.witness(off, where)})
		return true
	case convRegressed:
		hr.res.violations = append(hr.res.violations, violation{"regressed-after-convergence:" + hr.tailSignature(), where + ": " + msg, hr.witness(off, where)})
		return true
	case convStarved:
		hr.res.inconclusive = where + ": " + msg
		return true
	case convFailing:
		return true
	}
	return false
}

// runHistory executes one history from a fresh directory and judges it.
func runHistory(h *history, pool *pairPool, isolated bool) *result {
	res := &result{h: h, serials: map[int64]bool{}}
	hr := &histRun{h: h, pool: pool, res: res, visibleFrom: map[int64]int64{}, certFrom: map[int64]int64{}, keyFrom: map[int]int64{}}
	harness := func(format string, a ...any) *result {
		res.inconclusive = "harness: " + fmt.Sprintf(format, a...)
		return res
	}
	if err := hr.setup(); err != nil {
		if hr.dir != "" {
			os.RemoveAll(hr.dir)
		}
		return harness("setup: %v", err)
	}
	defer os.RemoveAll(hr.dir)
	hr.visibleFrom[h.Init] = 0
	hr.certFrom[h.Init] = 0
	hr.keyFrom[pool.keyOf[h.Init]] = 0

	ctx, cancel := context.WithCancel(context.Background())
	startDone := make(chan error, 1)
	var cw *certwatcher.CertWatcher
	var wiredCfg *tls.Config
	if flagWired {
		// the watcher and the TLS parameters come out of the command-line wiring (initCertWatcher,
		// defaultTLSConfig), which starts the watcher itself; one composition per process (see main)
		t0 := time.Now()
		app, err := fingerproxy.VerifNewApp(ctx, []string{"-cert-filename=" + hr.certPath, "-certkey-filename=" + hr.keyPath}, nil)
		if hr.h.SlowInitial {
			hr.res.slowLoad = time.Since(t0)
		}
		if err != nil || app.CertWatcher == nil {
			cancel()
			return harness("VerifNewApp with a valid initial pair: %v", err)
		}
		cw, wiredCfg = app.CertWatcher, app.TLSConfig
	} else {
		var err error
		t0 := time.Now()
		cw, err = certwatcher.New(hr.certPath, hr.keyPath)
		if hr.h.SlowInitial {
			hr.res.slowLoad = time.Since(t0)
		}
		if err != nil {
			cancel()
			return harness("certwatcher.New on a valid initial pair: %v", err)
		}
		go func() { startDone <- cw.Start(ctx) }()
	}
	stopWatcher := func() bool {
		cancel()
		if flagWired {
			return true // the process ends after this history
		}
		select {
		case <-startDone:
			return true
		case <-time.After(20 * time.Second):
			return false
		}
	}

	// fence: watches armed
	ci, err1 := inode(hr.certPath)
	ki, err2 := inode(hr.keyPath)
	if err1 != nil || err2 != nil {
		stopWatcher()
		return harness("stat: %v %v", err1, err2)
	}
	// Start adds the two watches back to back (observed: microseconds apart). If one
	// of them is armed and the other still is not fenceSecond later, the watcher is
	// taken to be done arming: a path it does not watch is its problem, not the rig's.
	dl := time.Now().Add(fenceWatchdog)
	var firstSeen time.Time
	for {
		n := watchesArmed(ci, ki)
		if n == 2 {
			res.fences++
			break
		}
		if n == 1 {
			if firstSeen.IsZero() {
				firstSeen = time.Now()
			} else if time.Since(firstSeen) > fenceSecond {
				res.fencePartial++
				break
			}
		}
		select {
		case err := <-startDone:
			cancel()
			return harness("certwatcher.Start returned early: %v", err)
		default:
		}
		if time.Now().After(dl) {
			stopWatcher()
			return harness("inotify watches not visible in /proc/self/fdinfo after %s", fenceWatchdog)
		}
		time.Sleep(200 * time.Microsecond)
	}

	ln, err := net.Listen("tcp", "127.0.0.1:0")
	if err != nil {
		stopWatcher()
		return harness("listen: %v", err)
	}
	cfg := fingerproxy.VerifDefaultTLSConfig(cw) // the real defaultTLSConfig: GetCertificate = cw.GetCertificate
	if wiredCfg != nil {
		cfg = wiredCfg
	}
	var srvWG, cliWG sync.WaitGroup
	srvWG.Add(1)
	go hr.serve(ln, cfg, &srvWG)
	for i := 0; i < handshakers; i++ {
		cliWG.Add(1)
		go hr.handshaker(i, ln.Addr().String(), &cliWG)
	}
	teardown := func() {
		hr.stop.Store(true)
		cliWG.Wait()
		ln.Close()
		srvDone := make(chan struct{})
		go func() { srvWG.Wait(); close(srvDone) }()
		select {
		case <-srvDone:
		case <-time.After(2*ioDeadline + 10*time.Second):
		}
		if n := hr.stuckHandshakes.Load(); n > 0 {
			res.violations = append(res.violations, violation{"server-handshake-never-returns", fmt.Sprintf("%d server-side handshake call(s) had not returned %v after they began although every read and write was bounded by a %v deadline: the certificate callback does not return", n, ioDeadline+5*time.Second, ioDeadline), hr.witness(nil, "teardown")})
		}
		if !stopWatcher() && res.inconclusive == "" {
			res.inconclusive = "harness: certwatcher.Start did not return 20 s after its context was cancelled"
		}
	}

	func() {
		if !h.SlowInitial { // a slow-initial history starts its first step the moment the watches are armed
			if err := hr.waitHandshakes(2); err != nil {
				res.inconclusive = "harness: " + err.Error()
				return
			}
		}
		for i, st := range h.Steps {
			if err := hr.apply(i, st); err != nil {
				res.inconclusive = "harness: " + err.Error()
				return
			}
			tEnd := time.Now()
			last := i == len(h.Steps)-1
			if P, ok := pool.valid(hr.cur); ok && st.Settle && !last && hr.unsupported == "" {
				if hr.convergencePoint(P, hr.steps[i].S1, tEnd, fmt.Sprintf("settle point after step %d", i)) {
					return
				}
			}
			if err := hr.waitHandshakes(st.PauseAfter); err != nil {
				res.inconclusive = "harness: " + err.Error()
				return
			}
			if !last {
				continue
			}
			P, ok := pool.valid(hr.cur)
			switch {
			case ok && hr.unsupported == "":
				res.judgedFinal = true
				hr.convergencePoint(P, hr.steps[i].S1, tEnd, "after the last step")
			case ok:
				res.probeFinalValid = true
				from := len(hr.snapshot(0))
				if err := hr.waitHandshakes(probeWait); err != nil {
					res.inconclusive = "harness: " + err.Error()
					return
				}
				for _, r := range hr.snapshot(from) {
					if r.Serial == P && r.H0 > hr.steps[i].S1 {
						res.probeConverged = true
					}
				}
			default:
				res.endedBroken = true
				if err := hr.waitHandshakes(brokenTailWait); err != nil {
					res.inconclusive = "harness: " + err.Error()
				}
			}
		}
	}()
	sLast := hr.stamp()
	if hr.brokenSince != 0 {
		hr.brokenIvals = append(hr.brokenIvals, [2]int64{hr.brokenSince, sLast})
	}
	teardown()
	res.unsupported = hr.unsupported
	hr.judge()
	return res
}

// judge applies the safety clauses to the complete handshake log.
func (hr *histRun) judge() {
	res := hr.res
	recs := hr.snapshot(0)
	res.handshakes = len(recs)
	var final int64
	if len(hr.steps) > 0 {
		final = hr.steps[len(hr.steps)-1].Valid
	}
	var stale, failed, env []hsRec
	staleClass := ""
	for _, r := range recs {
		for _, s := range hr.steps {
			if r.H0 < s.S1 && r.H1 > s.S0 {
				res.duringSteps++
				break
			}
		}
		for _, iv := range hr.brokenIvals {
			if r.H0 > iv[0] && r.H1 < iv[1] && r.Err == "" {
				res.whileBroken++
				break
			}
		}
		if r.Err != "" {
			if r.Env {
				env = append(env, r)
			} else {
				failed = append(failed, r)
			}
			continue
		}
		res.serials[r.Serial] = true
		if r.Serial != hr.h.Init && r.Serial != final {
			res.intermediate++
		}
		from, known := hr.visibleFrom[r.Serial]
		if known && from < r.H1 {
			continue // a step that could expose this pair began before the handshake ended
		}
		cls := "pair-never-on-disk"
		if known {
			cls = "pair-presented-before-it-was-on-disk"
		} else if k, isPool := hr.pool.keyOf[r.Serial]; isPool {
			cf, okc := hr.certFrom[r.Serial]
			kf, okk := hr.keyFrom[k]
			if okc && okk && cf < r.H1 && kf < r.H1 {
				cls = "pair-halves-never-on-disk-together" // each half was on its path at some time, never as a pair
			}
		}
		if staleClass == "" {
			staleClass = cls
		}
		if len(stale) < 5 {
			stale = append(stale, r)
		}
	}
	if len(stale) > 0 {
		r := stale[0]
		res.violations = append(res.violations, violation{staleClass + ":" + hr.h.Layout,
			fmt.Sprintf("handshake [%d,%d] presented serial %d, which was not on the two watched paths as a matching pair at any time up to the end of the handshake (admissible then: %s)", r.H0, r.H1, r.Serial, hr.admissibleAt(r.H1)),
			hr.witness(stale, "safety: presented pair must have existed together on disk")})
	}
	if len(failed) > 0 {
		r := failed[0]
		res.violations = append(res.violations, violation{"handshake-failed:" + hr.h.Layout,
			fmt.Sprintf("%d handshake(s) failed while the listener was open; first [%d,%d]: %s (disk state then: %s)", len(failed), r.H0, r.H1, r.Err, hr.stateAt(r.H0)),
			hr.witness(failed[:min(5, len(failed))], "safety: no handshake may fail because of the state of the files")})
	}
	hr.mu.Lock()
	for _, e := range hr.srvErrs {
		if strings.HasPrefix(e, "PANIC") {
			res.violations = append(res.violations, violation{"server-panic:" + hr.h.Layout, e, hr.witness(nil, "panic on the serving side")})
			break
		}
	}
	hr.mu.Unlock()
	if len(env) > 0 && res.inconclusive == "" && len(res.violations) == 0 {
		res.inconclusive = fmt.Sprintf("%d handshake(s) hit a timeout/dial error (first: %s)", len(env), env[0].Err)
	}
}

func (hr *histRun) admissibleAt(h1 int64) string {
	var out []string
	for s, from := range hr.visibleFrom {
		if from < h1 {
			out = append(out, strconv.FormatInt(s, 10))
		}
	}
	return "{" + strings.Join(out, ",") + "}"
}

func (hr *histRun) stateAt(stamp int64) string {
	st := diskState{Cert: certC(hr.h.Init), Key: keyC(hr.pool.keyOf[hr.h.Init])}.String()
	for _, s := range hr.steps {
		if s.S0 > stamp {
			break
		}
		if s.S1 > stamp {
			return st + " -> " + s.After.String() + " (step " + strconv.Itoa(s.Index) + " in progress)"
		}
		st = s.After.String()
	}
	return st
}
