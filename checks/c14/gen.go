package main

import (
	"bytes"
	"crypto/ecdsa"
	"crypto/elliptic"
	crand "crypto/rand"
	"crypto/rsa"
	"encoding/json"
	"encoding/pem"
	"fmt"
	"math/big"
	"math/rand"
	"strings"

	"verif/internal/rig"
)

// ---- pool of pre-generated pairs. Key ids start at 1; serials 1000+k belong to
// key k, serials 2000+k are a second certificate for the same key k.

type pairPool struct {
	keyPEM      map[int][]byte
	certPEM     map[int64][]byte
	keyOf       map[int64]int
	serials     []int64
	secondCerts int
	rsaSerial   int64
}

func newPool() *pairPool {
	p := &pairPool{keyPEM: map[int][]byte{}, certPEM: map[int64][]byte{}, keyOf: map[int64]int{}}
	add := func(key any, kid int, serial int64) {
		_, c, k := rig.SelfSigned(key, big.NewInt(serial), fmt.Sprintf("c14-%d", serial))
		p.keyPEM[kid] = k
		p.certPEM[serial] = c
		p.keyOf[serial] = kid
		p.serials = append(p.serials, serial)
	}
	for kid := 1; kid <= 10; kid++ {
		k, err := ecdsa.GenerateKey(elliptic.P256(), crand.Reader)
		if err != nil {
			panic(err)
		}
		add(k, kid, int64(1000+kid))
		if kid <= 4 {
			add(k, kid, int64(2000+kid))
			p.secondCerts++
		}
	}
	rk, err := rsa.GenerateKey(crand.Reader, 2048)
	if err != nil {
		panic(err)
	}
	add(rk, 11, 1011)
	p.rsaSerial = 1011
	return p
}

// ---- contents of a watched path

type content struct {
	Kind   string `json:"kind"`             // cert | key | garbage | empty | prefix | missing
	Serial int64  `json:"serial,omitempty"` // cert (or the certificate a prefix was cut from)
	Key    int    `json:"key,omitempty"`    // key id (or the key a prefix was cut from)
	Cut    int    `json:"cut,omitempty"`    // prefix: bytes kept
	Garb   int    `json:"garb,omitempty"`   // garbage variant
	Pad    bool   `json:"padded,omitempty"` // cert: followed by ~4 MiB of PEM blocks the parser skips (reading the file takes milliseconds)
}

func certC(s int64) content { return content{Kind: "cert", Serial: s} }
func keyC(k int) content    { return content{Kind: "key", Key: k} }

func (c content) String() string {
	switch c.Kind {
	case "cert":
		return fmt.Sprintf("C%d", c.Serial)
	case "key":
		return fmt.Sprintf("K%d", c.Key)
	case "prefix":
		if c.Serial != 0 {
			return fmt.Sprintf("C%d[:%d]", c.Serial, c.Cut)
		}
		return fmt.Sprintf("K%d[:%d]", c.Key, c.Cut)
	case "garbage":
		return fmt.Sprintf("garbage%d", c.Garb)
	}
	return c.Kind
}

func (p *pairPool) bytes(c content) []byte {
	switch c.Kind {
	case "cert":
		if c.Pad {
			return append(append([]byte{}, p.certPEM[c.Serial]...), slowTail...)
		}
		return p.certPEM[c.Serial]
	case "key":
		return p.keyPEM[c.Key]
	case "prefix":
		var base []byte
		if c.Serial != 0 {
			base = p.certPEM[c.Serial]
		} else {
			base = p.keyPEM[c.Key]
		}
		return base[:min(c.Cut, len(base)-10)] // never reaches the END line's closing dashes: not a parsable PEM
	case "garbage":
		switch c.Garb % 5 {
		case 0:
			return []byte("this is not PEM at all\n")
		case 1:
			r := rand.New(rand.NewSource(int64(c.Garb)))
			b := make([]byte, 300)
			r.Read(b)
			return b
		case 2:
			return pem.EncodeToMemory(&pem.Block{Type: "CERTIFICATE", Bytes: []byte("junk DER junk DER junk DER")})
		case 3: // the two files switched: a private key where the certificate belongs (cert path only)
			return p.keyPEM[1]
		default: // a certificate where the key belongs (key path only)
			return p.certPEM[1001]
		}
	}
	return nil
}

type diskState struct {
	Cert content `json:"cert"`
	Key  content `json:"key"`
}

// valid reports the serial of the matching pair the two paths hold, if any.
func (p *pairPool) valid(s diskState) (int64, bool) {
	if s.Cert.Kind == "cert" && s.Key.Kind == "key" && p.keyOf[s.Cert.Serial] == s.Key.Key {
		return s.Cert.Serial, true
	}
	return 0, false
}

func (s diskState) String() string { return "(" + s.Cert.String() + "," + s.Key.String() + ")" }

// ---- steps and histories

type step struct {
	Op   string  `json:"op"`             // write | truncate | partial | partial-abandon | rename-over | delete | k8s-update | k8s-update-keep-old
	Path string  `json:"path,omitempty"` // cert | key (single-path ops)
	C    content `json:"content"`        // new content of Path; k8s: content of tls.crt in the new directory
	C2   content `json:"content2"`       // k8s: content of tls.key in the new directory
	Cut  int     `json:"cut,omitempty"`  // partial: bytes in the first write

	PauseMid   int  `json:"pause_mid,omitempty"`   // handshakes to let complete between the sub-operations of the step
	PauseAfter int  `json:"pause_after,omitempty"` // handshakes to let complete before the next step
	Settle     bool `json:"settle,omitempty"`      // if the step leaves a valid pair: wait (judged) until it is presented
}

func (st step) String() string {
	switch st.Op {
	case "k8s-update", "k8s-update-keep-old":
		return fmt.Sprintf("%s(%s,%s)", st.Op, st.C, st.C2)
	case "truncate", "delete":
		return fmt.Sprintf("%s(%s)", st.Op, st.Path)
	}
	return fmt.Sprintf("%s(%s:=%s)", st.Op, st.Path, st.C)
}

type history struct {
	ID     int    `json:"id"`
	Name   string `json:"name,omitempty"`
	Layout string `json:"layout"` // plain | k8s
	Init   int64  `json:"initial_serial"`
	Steps  []step `json:"steps"`
	// SlowInitial: the initial certificate file carries a long tail of PEM blocks that are not
	// certificates (ignored by the parser), so that reading the INITIAL pair takes tens of
	// milliseconds - whatever reads it around start-up overlaps with the first update steps
	SlowInitial bool `json:"slow_initial_parse,omitempty"`
	// OddPaths: the two paths are configured in a legal but not canonical spelling
	// (dir/./tls.crt, dir//tls.key)
	OddPaths bool `json:"non_canonical_path_spelling,omitempty"`
	// PEMStyle: how complete certificate and key files are laid out on disk - all of them legal PEM that
	// tls.X509KeyPair loads (after seeded change C14-M, a "still being written" heuristic that waited for a final newline):
	// 0 as encoded, 1 no final newline, 2 CRLF line ends, 3 explanatory text before the first block, 4 blank lines at the end
	PEMStyle int `json:"pem_style,omitempty"`
	// OldMtime: files that are renamed into place (rename-over, the directories of a symlink swap) carry a modification
	// time of an hour ago, as after `cp -p`, `rsync -t`, a roll-back to kept copies or a pair staged earlier
	// (after seeded change C14-N, which skipped reloads unless the modification time had advanced)
	OldMtime bool `json:"renamed_files_keep_an_old_mtime,omitempty"`
}

func pemStyled(b []byte, style int) []byte {
	switch style {
	case 1:
		return bytes.TrimRight(b, "\r\n")
	case 2:
		return bytes.ReplaceAll(b, []byte("\n"), []byte("\r\n"))
	case 3:
		return append([]byte("subject=CN = front.example\nissuer=verif\n\n"), b...)
	case 4:
		return append(append([]byte{}, b...), "\n\n\n"...)
	}
	return b
}

func (h *history) key() string {
	type bare struct {
		Op, Path string
		C, C2    content
		Cut      int
	}
	var bs []bare
	for _, s := range h.Steps {
		bs = append(bs, bare{s.Op, s.Path, s.C, s.C2, s.Cut})
	}
	b, _ := json.Marshal(bs)
	return fmt.Sprintf("%s|%d|%s", h.Layout, h.Init, b)
}

func (h *history) brief() string {
	var parts []string
	for _, s := range h.Steps {
		parts = append(parts, s.String())
	}
	return fmt.Sprintf("init=C%d; %s", h.Init, strings.Join(parts, " "))
}

// after returns the disk state a step leaves and whether the step makes the
// history leave the three supported styles ("deleted" / "kept-old-dir").
func after(cur diskState, st step) (diskState, string) {
	switch st.Op {
	case "write", "partial", "rename-over":
		if st.Path == "cert" {
			cur.Cert = st.C
		} else {
			cur.Key = st.C
		}
	case "partial-abandon":
		c := content{Kind: "prefix", Serial: st.C.Serial, Key: st.C.Key, Cut: st.Cut}
		if st.Path == "cert" {
			cur.Cert = c
		} else {
			cur.Key = c
		}
	case "truncate":
		if st.Path == "cert" {
			cur.Cert = content{Kind: "empty"}
		} else {
			cur.Key = content{Kind: "empty"}
		}
	case "delete":
		if st.Path == "cert" {
			cur.Cert = content{Kind: "missing"}
		} else {
			cur.Key = content{Kind: "missing"}
		}
		return cur, "deleted"
	case "k8s-update", "k8s-update-keep-old":
		cur.Cert, cur.Key = st.C, st.C2
		if st.C.Kind == "missing" || st.C2.Kind == "missing" {
			return cur, "deleted"
		}
		if st.Op == "k8s-update-keep-old" {
			return cur, "kept-old-dir"
		}
	}
	return cur, ""
}

// ---- generator

type gen struct {
	rng  *rand.Rand
	pool *pairPool
	h    *history
	cur  diskState
	used map[int64]bool
}

func (g *gen) pace(st step) step {
	st.PauseMid = []int{0, 0, 1, 2}[g.rng.Intn(4)]
	st.PauseAfter = []int{0, 0, 0, 1, 2, 4}[g.rng.Intn(6)]
	st.Settle = g.rng.Intn(4) == 0
	return st
}

func (g *gen) push(st step) {
	st = g.pace(st)
	g.h.Steps = append(g.h.Steps, st)
	g.cur, _ = after(g.cur, st)
}

// fresh picks a serial not yet used in this history (sometimes an old one: roll-back).
func (g *gen) fresh(differentKey bool) int64 {
	for tries := 0; ; tries++ {
		s := g.pool.serials[g.rng.Intn(len(g.pool.serials))]
		if s == g.pool.rsaSerial && g.rng.Intn(3) != 0 { // keep RSA handshakes (slow under -race) infrequent
			continue
		}
		if g.used[s] && !(tries > 40 || g.rng.Intn(10) == 0) {
			continue
		}
		if differentKey && g.cur.Key.Kind == "key" && g.pool.keyOf[s] == g.cur.Key.Key && tries < 80 {
			continue
		}
		if g.cur.Cert.Kind == "cert" && g.cur.Cert.Serial == s && tries < 80 {
			continue
		}
		g.used[s] = true
		return s
	}
}

// style turns "path := content" into a step in one of the update styles.
func (g *gen) style(path string, c content) step {
	data := g.pool.bytes(c)
	switch r := g.rng.Intn(10); {
	case r < 5:
		return step{Op: "write", Path: path, C: c}
	case r < 8:
		return step{Op: "rename-over", Path: path, C: c}
	default:
		if len(data) < 40 {
			return step{Op: "write", Path: path, C: c}
		}
		return step{Op: "partial", Path: path, C: c, Cut: 1 + g.rng.Intn(len(data)-10)}
	}
}

func (g *gen) path() string {
	if g.rng.Intn(2) == 0 {
		return "cert"
	}
	return "key"
}

func (g *gen) garbage(path string) content {
	v := g.rng.Intn(4) // 0..2 generic, 3 = switched files
	if v == 3 && path == "key" {
		v = 4
	}
	return content{Kind: "garbage", Garb: v + 5*g.rng.Intn(50)}
}

func (g *gen) updatePair(budget int) {
	s := g.fresh(true)
	first, second := "cert", "key"
	if g.rng.Intn(2) == 0 {
		first, second = second, first
	}
	cont := func(p string) content {
		if p == "cert" {
			return certC(s)
		}
		return keyC(g.pool.keyOf[s])
	}
	firstMissing := (first == "cert" && g.cur.Cert.Kind == "missing") || (first == "key" && g.cur.Key.Kind == "missing")
	if budget >= 3 && g.rng.Intn(5) == 0 && !firstMissing {
		g.push(step{Op: "truncate", Path: first})
	}
	g.push(g.style(first, cont(first)))
	if budget >= 2 {
		g.push(g.style(second, cont(second)))
	}
}

func (g *gen) sameKeyNewCert() bool {
	if g.cur.Key.Kind != "key" {
		return false
	}
	var cands []int64
	for _, s := range g.pool.serials {
		if g.pool.keyOf[s] == g.cur.Key.Key && !(g.cur.Cert.Kind == "cert" && g.cur.Cert.Serial == s) {
			cands = append(cands, s)
		}
	}
	if len(cands) == 0 {
		return false
	}
	s := cands[g.rng.Intn(len(cands))]
	g.used[s] = true
	g.push(g.style("cert", certC(s)))
	return true
}

func (g *gen) breakIt() {
	p := g.path()
	missing := (p == "cert" && g.cur.Cert.Kind == "missing") || (p == "key" && g.cur.Key.Kind == "missing")
	switch r := g.rng.Intn(7); {
	case r == 0 && !missing:
		g.push(step{Op: "truncate", Path: p})
	case r == 1:
		g.push(step{Op: "write", Path: p, C: g.garbage(p)})
	case r == 2:
		g.push(step{Op: "rename-over", Path: p, C: g.garbage(p)})
	case r == 3:
		g.push(step{Op: "rename-over", Path: p, C: content{Kind: "empty"}})
	case r == 4: // half-written file left behind
		s := g.fresh(true)
		c := certC(s)
		if p == "key" {
			c = keyC(g.pool.keyOf[s])
		}
		n := len(g.pool.bytes(c))
		g.push(step{Op: "partial-abandon", Path: p, C: c, Cut: 1 + g.rng.Intn(n-10)})
	default: // a valid file that does not match the other one
		s := g.fresh(true)
		if p == "cert" {
			g.push(g.style(p, certC(s)))
		} else {
			g.push(g.style(p, keyC(g.pool.keyOf[s])))
		}
	}
}

func (g *gen) rewriteSame() bool {
	p := g.path()
	c := g.cur.Cert
	if p == "key" {
		c = g.cur.Key
	}
	if c.Kind != "cert" && c.Kind != "key" {
		return false
	}
	g.push(g.style(p, c))
	return true
}

// repair appends the steps that make the disk hold a valid pair again.
func (g *gen) repair() {
	if _, ok := g.pool.valid(g.cur); ok {
		return
	}
	// one half usable? fix the other one (either direction), else install a fresh pair
	if g.cur.Cert.Kind == "cert" && g.rng.Intn(3) != 0 {
		g.push(g.style("key", keyC(g.pool.keyOf[g.cur.Cert.Serial])))
		return
	}
	if g.cur.Key.Kind == "key" && g.rng.Intn(3) != 0 {
		for _, s := range g.rng.Perm(len(g.pool.serials)) {
			ser := g.pool.serials[s]
			if g.pool.keyOf[ser] == g.cur.Key.Key {
				g.used[ser] = true
				g.push(g.style("cert", certC(ser)))
				return
			}
		}
	}
	g.updatePair(2)
}

func genPlain(rng *rand.Rand, pool *pairPool) *history {
	init := pool.serials[rng.Intn(len(pool.serials))]
	if init == pool.rsaSerial {
		init = 1001
	}
	g := &gen{rng: rng, pool: pool, used: map[int64]bool{init: true},
		h:   &history{Layout: "plain", Init: init},
		cur: diskState{Cert: certC(init), Key: keyC(pool.keyOf[init])}}
	n := 1 + rng.Intn(8)
	wantValid := rng.Intn(5) != 0
	body := n
	if wantValid && body > 6 {
		body = 6
	}
	for len(g.h.Steps) < body {
		budget := body - len(g.h.Steps)
		switch r := rng.Intn(100); {
		case r < 40:
			g.updatePair(budget)
		case r < 50:
			if !g.sameKeyNewCert() {
				g.updatePair(budget)
			}
		case r < 80:
			g.breakIt()
		case r < 92:
			if !g.rewriteSame() {
				g.breakIt()
			}
		case r < 96:
			p := g.path()
			if (p == "cert" && g.cur.Cert.Kind != "missing") || (p == "key" && g.cur.Key.Kind != "missing") {
				g.push(step{Op: "delete", Path: p})
			}
		default:
			g.updatePair(budget)
		}
	}
	if wantValid {
		g.repair()
	}
	if len(g.h.Steps) > 8 {
		g.h.Steps = g.h.Steps[:8]
	}
	return g.h
}

func genK8s(rng *rand.Rand, pool *pairPool) *history {
	init := pool.serials[rng.Intn(len(pool.serials))]
	if init == pool.rsaSerial {
		init = 1002
	}
	g := &gen{rng: rng, pool: pool, used: map[int64]bool{init: true},
		h:   &history{Layout: "k8s", Init: init},
		cur: diskState{Cert: certC(init), Key: keyC(pool.keyOf[init])}}
	n := 1 + rng.Intn(6)
	wantValid := rng.Intn(5) != 0
	for i := 0; i < n; i++ {
		last := i == n-1
		r := rng.Intn(100)
		if last && wantValid && r >= 70 {
			r = rng.Intn(70)
		}
		switch {
		case r < 60:
			s := g.fresh(true)
			g.push(step{Op: "k8s-update", C: certC(s), C2: keyC(pool.keyOf[s])})
		case r < 70:
			if g.cur.Key.Kind == "key" {
				var cands []int64
				for _, s := range pool.serials {
					if pool.keyOf[s] == g.cur.Key.Key && !(g.cur.Cert.Kind == "cert" && g.cur.Cert.Serial == s) {
						cands = append(cands, s)
					}
				}
				if len(cands) > 0 {
					s := cands[rng.Intn(len(cands))]
					g.used[s] = true
					g.push(step{Op: "k8s-update", C: certC(s), C2: g.cur.Key})
					continue
				}
			}
			s := g.fresh(true)
			g.push(step{Op: "k8s-update", C: certC(s), C2: keyC(pool.keyOf[s])})
		case r < 80: // halves that do not match
			s, s2 := g.fresh(true), g.fresh(true)
			k := pool.keyOf[s2]
			if k == pool.keyOf[s] {
				k = k%10 + 1
			}
			g.push(step{Op: "k8s-update", C: certC(s), C2: keyC(k)})
		case r < 90: // garbage / empty / half file in the new directory
			s := g.fresh(true)
			c, k := certC(s), keyC(pool.keyOf[s])
			bad := []content{g.garbage("cert"), {Kind: "empty"}, {Kind: "prefix", Serial: s, Cut: 1 + rng.Intn(200)}}[rng.Intn(3)]
			if rng.Intn(2) == 0 {
				c = bad
			} else {
				if bad.Kind == "garbage" {
					bad = g.garbage("key")
				} else if bad.Kind == "prefix" {
					bad = content{Kind: "prefix", Key: pool.keyOf[s], Cut: bad.Cut}
				}
				k = bad
			}
			g.push(step{Op: "k8s-update", C: c, C2: k})
		case r < 97: // identical content again (new directory, same bytes)
			g.push(step{Op: "k8s-update", C: g.cur.Cert, C2: g.cur.Key})
		default: // a file is absent from the new directory: the watched path stops resolving
			s := g.fresh(true)
			if rng.Intn(2) == 0 {
				g.push(step{Op: "k8s-update", C: content{Kind: "missing"}, C2: keyC(pool.keyOf[s])})
			} else {
				g.push(step{Op: "k8s-update", C: certC(s), C2: content{Kind: "missing"}})
			}
		}
	}
	return g.h
}

// directed returns the canonical scenarios, independent of the seed.
func flipFlop(n int) []step {
	var st []step
	for i := 0; i < n; i++ {
		if i%2 == 0 {
			st = append(st, step{Op: "k8s-update", C: content{Kind: "cert", Serial: 1002, Pad: true}, C2: keyC(3)})
		} else {
			st = append(st, step{Op: "k8s-update", C: content{Kind: "garbage", Garb: 1}, C2: keyC(2)})
		}
	}
	return append(st, step{Op: "k8s-update", C: certC(1003), C2: keyC(3)})
}

func directed(pool *pairPool) []*history {
	C, K := certC, keyC
	w := func(p string, c content) step { return step{Op: "write", Path: p, C: c, PauseAfter: 1} }
	w0 := func(p string, c content) step { return step{Op: "write", Path: p, C: c} }
	rn := func(p string, c content) step { return step{Op: "rename-over", Path: p, C: c, PauseAfter: 1} }
	rn0 := func(p string, c content) step { return step{Op: "rename-over", Path: p, C: c} }
	settle := func(s step) step { s.Settle = true; return s }
	pause := func(s step, n int) step { s.PauseAfter = n; return s }
	part := func(p string, c content, cut, mid int) step {
		return step{Op: "partial", Path: p, C: c, Cut: cut, PauseMid: mid, PauseAfter: 1}
	}
	k8 := func(c, k content) step { return step{Op: "k8s-update", C: c, C2: k, PauseMid: 1, PauseAfter: 1} }
	garb := content{Kind: "garbage", Garb: 1}
	hs := []*history{
		{Name: "inplace-cert-then-key", Layout: "plain", Init: 1001, Steps: []step{w("cert", C(1002)), w("key", K(2))}},
		{Name: "inplace-key-then-cert", Layout: "plain", Init: 1001, Steps: []step{w("key", K(2)), w("cert", C(1002))}},
		{Name: "rename-twice-rearm", Layout: "plain", Init: 1001, Steps: []step{rn("cert", C(1002)), settle(rn("key", K(2))), rn("key", K(3)), rn("cert", C(1003))}},
		{Name: "truncate-both-then-write", Layout: "plain", Init: 1003, Steps: []step{{Op: "truncate", Path: "cert", PauseAfter: 2}, {Op: "truncate", Path: "key", PauseAfter: 2}, w("key", K(4)), w("cert", C(1004))}},
		{Name: "two-part-writes", Layout: "plain", Init: 1001, Steps: []step{part("cert", C(1005), 200, 2), part("key", K(5), 100, 2)}},
		{Name: "garbage-then-same-key-new-cert-by-rename", Layout: "plain", Init: 1001, Steps: []step{pause(w("cert", garb), 4), rn("cert", C(2001))}},
		{Name: "same-key-new-cert-inplace", Layout: "plain", Init: 1002, Steps: []step{w("cert", C(2002))}},
		{Name: "mismatched-key-and-back", Layout: "plain", Init: 1001, Steps: []step{pause(w("key", K(3)), 4), settle(w("key", K(1))), w("cert", C(2001))}},
		{Name: "rotate-by-rename-right-after-start", Layout: "plain", Init: 1001, SlowInitial: true, Steps: []step{rn("key", K(2)), rn("cert", C(1002))}},
		{Name: "rotate-by-rename-cert-first-right-after-start", Layout: "plain", Init: 1001, SlowInitial: true, Steps: []step{rn("cert", C(1002)), rn("key", K(2))}},
		{Name: "rotate-in-place-right-after-start", Layout: "plain", Init: 1003, SlowInitial: true, Steps: []step{w("cert", C(1004)), w("key", K(4))}},
		{Name: "odd-path-spelling-inplace", Layout: "plain", Init: 1001, OddPaths: true, Steps: []step{w("cert", C(1002)), w("key", K(2))}},
		{Name: "odd-path-spelling-rename", Layout: "plain", Init: 1002, OddPaths: true, Steps: []step{rn("key", K(3)), rn("cert", C(1003))}},
		{Name: "odd-path-spelling-k8s", Layout: "k8s", Init: 1001, OddPaths: true, Steps: []step{settle(k8(C(1002), K(2))), k8(C(1003), K(3))}},
		// torn reads: the directory flips between {C1002 (slow to read), K3 - not its key} and {garbage, K2 - the
		// key of C1002}: certificate 1002 and its key are never on the two paths together, a reload that reads
		// the certificate before a swap and the key after it would put exactly that pair together (D22)
		{Name: "k8s-flip-flop-cert-and-its-key-never-together", Layout: "k8s", Init: 1001, Steps: flipFlop(14)},
		{Name: "k8s-three-updates", Layout: "k8s", Init: 1001, Steps: []step{settle(k8(C(1002), K(2))), settle(k8(C(1003), K(3))), k8(C(1004), K(4))}},
		{Name: "k8s-broken-updates-then-good", Layout: "k8s", Init: 1001, Steps: []step{k8(C(1002), K(3)), k8(garb, K(2)), k8(C(1002), content{Kind: "empty"}), k8(C(1002), K(2))}},
		{Name: "k8s-same-key-new-cert", Layout: "k8s", Init: 1003, Steps: []step{k8(C(2003), K(3))}},
		{Name: "k8s-rapid", Layout: "k8s", Init: 1001, Steps: []step{{Op: "k8s-update", C: C(1005), C2: K(5)}, {Op: "k8s-update", C: C(1006), C2: K(6)}, {Op: "k8s-update", C: C(1007), C2: K(7)}}},
		{Name: "rename-then-inplace-on-new-inode", Layout: "plain", Init: 1001, Steps: []step{rn("cert", C(1002)), settle(w("key", K(2))), w("cert", C(1003)), rn("key", K(3))}},
		{Name: "abandoned-half-write-then-complete", Layout: "plain", Init: 1001, Steps: []step{{Op: "partial-abandon", Path: "cert", C: C(1006), Cut: 300, PauseAfter: 3}, w("cert", C(1006)), w("key", K(6))}},
		{Name: "rapid-eight-steps", Layout: "plain", Init: 1001, Steps: []step{w0("cert", C(1002)), w0("key", K(2)), rn0("cert", C(1003)), rn0("key", K(3)), w0("key", K(4)), w0("cert", C(1004)), rn0("key", K(5)), rn0("cert", C(1005))}},
		{Name: "rsa-pair", Layout: "plain", Init: 1001, Steps: []step{w("cert", C(1011)), settle(w("key", K(11))), rn("key", K(7)), rn("cert", C(1007))}},
		{Name: "roll-back-to-earlier-pair", Layout: "plain", Init: 1001, Steps: []step{w("cert", C(1008)), settle(w("key", K(8))), w("cert", C(1001)), w("key", K(1))}},
		{Name: "switched-files", Layout: "plain", Init: 1001, Steps: []step{pause(w("cert", content{Kind: "garbage", Garb: 3}), 2), pause(w("key", content{Kind: "garbage", Garb: 4}), 2), rn("cert", C(1009)), rn("key", K(9))}},
		// outside the supported styles: safety only, convergence reported as a counter
		{Name: "delete-and-recreate", Layout: "plain", Init: 1001, Steps: []step{{Op: "delete", Path: "cert", PauseAfter: 3}, w("cert", C(1002)), w("key", K(2))}},
		{Name: "k8s-swap-old-dir-kept", Layout: "k8s", Init: 1001, Steps: []step{{Op: "k8s-update-keep-old", C: C(1002), C2: K(2), PauseMid: 1, PauseAfter: 1}}},
	}
	out := make([]*history, 0, len(hs))
	for _, h := range hs {
		c := *h
		c.Steps = append([]step(nil), h.Steps...)
		out = append(out, &c)
	}
	return out
}
