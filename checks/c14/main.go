// C14 — certificate hot-reload is safe and converges.
//
// Monitor: one history = a fresh temp directory holding the two watched paths, the
// real certwatcher (New + Start) behind the real defaultTLSConfig on a loopback
// TLS listener, four handshaker goroutines that connect continuously and log
// (start stamp, end stamp, leaf serial | error), and a file-operation script whose
// steps are logged with stamps of the same logical clock together with the on-disk
// state they leave. Key pairs are pre-generated; the certificate serial number is
// the identity of a pair (a completed handshake with leaf serial s proves that the
// server signed with the private key belonging to s).
//
// Oracle (see judge() in runner.go):
//
//	safety      every completed handshake presents a serial whose certificate and
//	            key were on the two watched paths together as a matching pair during
//	            a step that began before the handshake ended (the initial pair
//	            always counts); no handshake fails.
//	convergence after the last step (and at settle points in the middle) of a
//	            history in the three supported styles that leaves a valid pair P,
//	            handshakes started after the step present P within 5 s and the 20
//	            handshakes after that present P too.
//
// Files: main.go (driver, evidence), gen.go (pool, contents, history generator),
// runner.go (rig, file operations, oracle).
package main

import (
	"crypto/tls"
	"encoding/json"
	"fmt"
	"io"
	"log"
	"os"
	"os/exec"
	"sort"
	"strings"
	"sync"
	"sync/atomic"
	"time"

	"github.com/wi1dcard/fingerproxy/pkg/certwatcher"

	"verif/internal/verdict"
)

// ---- certwatcher log sink: the watcher's own view of what it saw, as evidence.

type logSink struct {
	events, reloadOK, reloadFail, rewatchFail, watchErr atomic.Int64
}

func (s *logSink) Write(p []byte) (int, error) {
	line := string(p)
	if os.Getenv("VERIF_C14_DEBUG") != "" {
		dbgf("[C14 LOG %s] %s", time.Now().Format("05.000000"), line)
	}
	switch {
	case strings.Contains(line, "certificate event:"):
		s.events.Add(1)
	case strings.Contains(line, "updated current TLS certificate"):
		s.reloadOK.Add(1)
	case strings.Contains(line, "error re-reading certificate"):
		s.reloadFail.Add(1)
	case strings.Contains(line, "error re-watching file"):
		s.rewatchFail.Add(1)
	case strings.Contains(line, "certificate watch error"):
		s.watchErr.Add(1)
	}
	return len(p), nil
}

var sink = &logSink{}

type witness struct {
	History  *history          `json:"history"`
	Steps    []stepRec         `json:"step_log,omitempty"`
	Visible  map[string]int64  `json:"pair_admissible_from_stamp,omitempty"`
	Offender []hsRec           `json:"offending_handshakes,omitempty"`
	Server   []string          `json:"server_side_errors,omitempty"`
	Note     string            `json:"note,omitempty"`
	Extra    map[string]string `json:"extra,omitempty"`
}

const parallelHistories = 8 // x1 watcher each; inotify max_user_instances is 128 on this box
const stopAfterViolations = 3

func main() {
	run := verdict.Start("C14", "exploration",
		"histories of 1..8 update steps on the two watched paths: plain layout (in-place truncate / full write / two-part write / abandoned half write / garbage / empty, temp file + rename over; either file first; mismatched halves; same-key new certificate; rewrite of identical content) or Kubernetes layout (tls.crt -> ..data/tls.crt, ..data -> ..vN; new directory, symlink swap by rename, old directory removed), with logical pacing (wait for k handshakes) between and inside steps; 4 handshakers race every step; distinct by (layout, initial pair, step list incl. contents); every history changes the bytes on a watched path at least once")

	certwatcher.Logger = log.New(sink, "", 0)
	certwatcher.VerboseLogs = true
	log.SetOutput(io.Discard)

	pool := newPool()
	for style := 0; style < 5; style++ { // every layout must be a pair the TLS stack loads, or the histories that use it prove nothing
		sr := pool.serials[0]
		if _, err := tls.X509KeyPair(pemStyled(pool.certPEM[sr], style), pemStyled(pool.keyPEM[pool.keyOf[sr]], style)); err != nil {
			run.Inconclusive("PEM layout %d is not loadable by tls.X509KeyPair: %v", style, err)
			run.Finish()
		}
	}

	if f := os.Getenv("VERIF_C14_CHILD"); f != "" {
		child(f, pool)
		return
	}
	if run.ReplayFile != "" {
		replay(run, pool)
		return
	}

	var hists []*history
	reps := run.Pick(3, 10)
	for r := 0; r < reps; r++ {
		for _, h := range directed(pool) {
			hists = append(hists, h)
		}
	}
	nRandom := run.Pick(100, 1500)
	for i := 0; i < nRandom; i++ {
		rng := run.Rand(int64(100 + i))
		if rng.Intn(10) < 3 {
			hists = append(hists, genK8s(rng, pool))
		} else {
			hists = append(hists, genPlain(rng, pool))
		}
	}
	for i, h := range hists {
		h.ID = i
		if !h.SlowInitial {
			h.PEMStyle = i % 5
		}
		h.OldMtime = i%3 == 1
	}

	var (
		mu        sync.Mutex
		latencies []float64
		serials   = map[int64]bool{}
		rerun     []*history
	)
	report := func(res *result, isolated bool) {
		h := res.h
		run.Eval(1)
		run.Distinct(h.key())
		run.Add("histories", 1)
		run.Add("histories_layout_"+h.Layout, 1)
		for _, st := range h.Steps {
			run.Add("steps_"+st.Op, 1)
			run.Add("steps_total", 1)
		}
		run.Add("handshakes_observed", int64(res.handshakes))
		run.Add("handshakes_during_steps", int64(res.duringSteps))
		run.Add("handshakes_presenting_intermediate_pair", int64(res.intermediate))
		run.Add("handshakes_while_disk_state_broken", int64(res.whileBroken))
		run.Add("watches_armed_fences", int64(res.fences))
		run.Add("watches_armed_only_one_path", int64(res.fencePartial))
		if res.unsupported != "" {
			run.Add("histories_safety_only_"+res.unsupported, 1)
			if res.probeFinalValid {
				run.Add("unsupported_"+res.unsupported+"_final_valid", 1)
				if res.probeConverged {
					run.Add("unsupported_"+res.unsupported+"_converged_anyway", 1)
				}
			}
		}
		if res.judgedFinal {
			run.Add("histories_judged_for_convergence", 1)
		}
		if res.slowLoad > 0 {
			run.Add("slow_initial_histories", 1)
			run.Add("slow_initial_load_ms_total", res.slowLoad.Milliseconds())
		}
		run.Add("convergence_points_judged", int64(len(res.latencies)))
		if res.endedBroken {
			run.Add("histories_ending_in_broken_state", 1)
		}
		mu.Lock()
		for _, l := range res.latencies {
			latencies = append(latencies, float64(l)/float64(time.Millisecond))
		}
		for s := range res.serials {
			serials[s] = true
		}
		mu.Unlock()
		if run.WantSample() && (h.ID%7 == 0) {
			run.Sample(map[string]any{"history": h, "handshakes": res.handshakes, "serials_presented": keys(res.serials),
				"convergence_ms": msList(res.latencies)})
		}
		for _, v := range res.violations {
			run.Violation(v.class, v.wit, "history #%d (%s, %d steps: %s): %s", h.ID, h.Layout, len(h.Steps), h.brief(), v.msg)
		}
		if res.inconclusive != "" {
			if isolated {
				run.Inconclusive("history #%d (%s): %s (also when re-run in isolation)", h.ID, h.brief(), res.inconclusive)
			} else {
				mu.Lock()
				rerun = append(rerun, h)
				mu.Unlock()
			}
		}
	}

	jobs := make(chan *history)
	var wg sync.WaitGroup
	for w := 0; w < parallelHistories; w++ {
		wg.Add(1)
		go func() {
			defer wg.Done()
			for h := range jobs {
				report(runHistory(h, pool, false), false)
			}
		}()
	}
	for i, h := range hists {
		if run.Violations() >= stopAfterViolations { // refuted already; every further refutation costs the 5 s bound
			run.Set("stopped_early", fmt.Sprintf("%d violations after %d of %d histories", run.Violations(), i, len(hists)))
			break
		}
		jobs <- h
	}
	close(jobs)
	wg.Wait()

	// cases that could not be decided under parallel load are re-run alone
	for _, h := range rerun {
		run.Add("histories_rerun_in_isolation", 1)
		report(runHistory(h, pool, true), true)
	}

	// histories run through the command-line wiring (flags -> initCertWatcher -> defaultTLSConfig), one
	// child process each: composing twice in one process rewrites package-level settings under the
	// feet of the first watcher
	var wired []*history
	for _, h := range hists {
		if len(wired) < run.Pick(18, 150) && (h.Layout == "k8s" || h.ID%5 == 0) {
			wired = append(wired, h)
		}
	}
	wjobs := make(chan *history)
	var wwg sync.WaitGroup
	for w := 0; w < 4; w++ {
		wwg.Add(1)
		go func() {
			defer wwg.Done()
			for h := range wjobs {
				runWiredChild(run, h)
			}
		}()
	}
	for _, h := range wired {
		if run.Violations() >= stopAfterViolations {
			break
		}
		wjobs <- h
	}
	close(wjobs)
	wwg.Wait()
	run.Require("histories_through_flag_wiring_judged", int64(len(wired))/2)

	sort.Float64s(latencies)
	if n := len(latencies); n > 0 {
		run.Set("reload_convergence_latency_ms", map[string]any{
			"median": round2(latencies[n/2]), "p99": round2(latencies[(n*99)/100]), "max": round2(latencies[n-1]), "points": n,
			"watchdog_ms": float64(convergeBound / time.Millisecond)})
	}
	run.Set("distinct_serials_presented", len(serials))
	run.Add("distinct_serials_presented", int64(len(serials)))
	run.Add("watcher_events_logged", sink.events.Load())
	run.Add("watcher_reloads_ok", sink.reloadOK.Load())
	run.Add("watcher_reloads_failed_kept_last_good", sink.reloadFail.Load())
	run.Add("watcher_rewatch_failures", sink.rewatchFail.Load())
	run.Add("watcher_errors_channel", sink.watchErr.Load())
	run.Set("pool", map[string]any{"keys": len(pool.keyPEM), "certificates": len(pool.certPEM), "same_key_second_certificates": pool.secondCerts})

	run.Require("handshakes_observed", int64(len(hists))*20)
	run.Require("handshakes_during_steps", int64(len(hists)))
	run.Require("histories_judged_for_convergence", int64(len(hists))/2)
	run.Require("watcher_reloads_ok", int64(len(hists))/2)
	run.Require("watcher_reloads_failed_kept_last_good", 10)
	run.Require("handshakes_while_disk_state_broken", 10)
	run.Require("distinct_serials_presented", 8)
	for _, op := range []string{"write", "truncate", "partial", "partial-abandon", "rename-over", "k8s-update"} {
		run.Require("steps_"+op, 3)
	}

	run.Assume("a step begins only after both inotify watches of the history's watcher are armed (fenced through /proc/self/fdinfo); an update falling between certwatcher.New and the first watcher.Add is outside the judged domain")
	run.Assume("the Kubernetes style is the kubelet's atomic writer: new timestamped directory, ..data swapped by rename, old directory removed; a swap that keeps the old directory, and explicit deletion of a watched path, are judged for safety only and their convergence is reported as a counter")
	run.Assume("in-place writes open with O_TRUNC and append, so every transient content is a strict prefix of the new content (never a parsable PEM); the pair a step can make visible is therefore the pair of the state it leaves")
	run.Assume("bounded-progress restatement of 'eventually': P must be presented within 5 s of the end of the last step (and the watchdog only refutes when at least 40 handshakes started after the step completed without presenting P; otherwise the history is re-run in isolation)")
	run.Finish()
}

func keys(m map[int64]bool) []int64 {
	var out []int64
	for k := range m {
		out = append(out, k)
	}
	sort.Slice(out, func(i, j int) bool { return out[i] < out[j] })
	return out
}

func msList(d []time.Duration) []float64 {
	var out []float64
	for _, x := range d {
		out = append(out, round2(float64(x)/float64(time.Millisecond)))
	}
	return out
}

func round2(f float64) float64 { return float64(int64(f*100+0.5)) / 100 }

func replay(run *verdict.Run, pool *pairPool) {
	var w witness
	if err := verdict.LoadReplay(run.ReplayFile, &w); err != nil || w.History == nil {
		fmt.Println("cannot load replay:", err)
		run.Inconclusive("replay file unreadable")
		run.Finish()
	}
	b, _ := json.Marshal(w.History)
	fmt.Printf("replaying history: %s\n", b)
	const times = 25 // the interleaving is not part of the witness; repeat
	bad := 0
	for i := 0; i < times; i++ {
		res := runHistory(w.History, pool, true)
		run.Eval(1)
		run.Distinct(w.History.key())
		run.Distinct(fmt.Sprintf("%s#%d", w.History.key(), i))
		run.Add("handshakes_observed", int64(res.handshakes))
		for _, v := range res.violations {
			bad++
			run.Violation(v.class, v.wit, "replay run %d: %s", i, v.msg)
		}
		if res.inconclusive != "" {
			run.Inconclusive("replay run %d: %s", i, res.inconclusive)
		}
		if bad >= stopAfterViolations {
			break
		}
	}
	if bad == 0 {
		fmt.Printf("replay: history holds in %d runs\n", times)
	}
	run.Finish()
}

// ---- flag-wired histories in child processes

type childOut struct {
	Violations   []childViolation `json:"violations"`
	Inconclusive string           `json:"inconclusive"`
	Handshakes   int              `json:"handshakes"`
	Judged       bool             `json:"judged_for_convergence"`
	Points       int              `json:"convergence_points"`
}

type childViolation struct {
	Class string  `json:"class"`
	Msg   string  `json:"msg"`
	Wit   witness `json:"witness"`
}

func child(file string, pool *pairPool) {
	var h history
	b, err := os.ReadFile(file)
	if err == nil {
		err = json.Unmarshal(b, &h)
	}
	if err != nil {
		fmt.Printf("CHILD-RESULT {\"inconclusive\":\"cannot read the history: %v\"}\n", err)
		os.Exit(0)
	}
	flagWired = true
	res := runHistory(&h, pool, true)
	out := childOut{Inconclusive: res.inconclusive, Handshakes: res.handshakes, Judged: res.judgedFinal, Points: len(res.latencies)}
	for _, v := range res.violations {
		out.Violations = append(out.Violations, childViolation{v.class, v.msg, v.wit})
	}
	ob, _ := json.Marshal(out)
	fmt.Printf("CHILD-RESULT %s\n", ob)
	os.Exit(0)
}

func runWiredChild(run *verdict.Run, h *history) {
	dir := os.Getenv("VERIF_SCRATCH")
	f, err := os.CreateTemp(dir, "c14-child-*.json")
	if err != nil {
		run.Add("flag_wired_child_setup_failed", 1)
		return
	}
	defer os.Remove(f.Name())
	b, _ := json.Marshal(h)
	f.Write(b)
	f.Close()
	attempt := func() (*childOut, string) {
		cmd := exec.Command(os.Args[0])
		cmd.Env = append(os.Environ(), "VERIF_C14_CHILD="+f.Name())
		outb, err := cmd.CombinedOutput()
		for _, line := range strings.Split(string(outb), "\n") {
			if strings.HasPrefix(line, "CHILD-RESULT ") {
				var o childOut
				if json.Unmarshal([]byte(line[len("CHILD-RESULT "):]), &o) == nil {
					return &o, ""
				}
			}
		}
		t := strings.TrimSpace(string(outb))
		if len(t) > 600 {
			t = t[len(t)-600:]
		}
		return nil, fmt.Sprintf("child ended without a result (%v): %s", err, t)
	}
	o, bad := attempt()
	if o != nil && o.Inconclusive != "" && len(o.Violations) == 0 {
		o, bad = attempt() // undecided under load: once more
	}
	run.Eval(1)
	run.Distinct("wired|" + h.key())
	run.Add("histories_through_flag_wiring", 1)
	if o == nil {
		run.Inconclusive("flag-wired history #%d (%s): %s", h.ID, h.brief(), bad)
		return
	}
	run.Add("handshakes_observed_flag_wired", int64(o.Handshakes))
	if o.Judged {
		run.Add("histories_through_flag_wiring_judged", 1)
	}
	for _, v := range o.Violations {
		run.Violation(v.Class, v.Wit, "history #%d through the command-line wiring (%s, %d steps: %s): %s", h.ID, h.Layout, len(h.Steps), h.brief(), v.Msg)
	}
	if o.Inconclusive != "" && len(o.Violations) == 0 {
		run.Inconclusive("flag-wired history #%d (%s): %s (twice)", h.ID, h.brief(), o.Inconclusive)
	}
}

var dbgMu sync.Mutex

// dbgf appends to the file named by VERIF_C14_DEBUG (debugging aid).
func dbgf(format string, a ...any) {
	dbgMu.Lock()
	defer dbgMu.Unlock()
	if f, err := os.OpenFile(os.Getenv("VERIF_C14_DEBUG"), os.O_APPEND|os.O_CREATE|os.O_WRONLY, 0o644); err == nil {
		fmt.Fprintf(f, format, a...)
		f.Close()
	}
}
