//go:build verif

// C17 — shutdown stops service and returns once HTTP/1.1 exchanges drained.
//
// Every scenario owns a proxy (composed through the real flag wiring) and a
// recording backend. A scenario is "the state at the instant of cancellation":
// see Spec. The oracle is in scen.go (in-process) and binary.go (real binary
// under SIGTERM / SIGINT, thorough tier).
package main

import (
	"fmt"
	"math/rand"
	"sort"
	"sync"

	"verif/internal/rig"
	"verif/internal/verdict"
)

// Spec is the complete description of one scenario (also the replay witness).
type Spec struct {
	ID   int    `json:"id"`
	Seed int64  `json:"seed"`
	Mode string `json:"cancel_mode"` // ctx | ctx-twice | ctx-then-httpclose | httpclose | httpclose-then-ctx | early | before-serve | binary

	Stalled0    int  `json:"stalled_no_bytes"`     // TCP connected, nothing sent
	StalledHalf int  `json:"stalled_half_hello"`   // TCP connected, half a ClientHello sent
	NewH1       int  `json:"h1_handshaked_silent"` // handshaked HTTP/1.1, no complete request yet (net/http StateNew)
	IdleH1      int  `json:"h1_idle_keepalive"`    // one completed request, keep-alive
	IdleH2      int  `json:"h2_idle"`              // one completed request
	GatedH2     int  `json:"h2_gated_detached"`    // in-flight h2 request, handler ignores its context
	GatedH2Ctx  int  `json:"h2_gated"`             // in-flight h2 request through the unmodified handler
	GatedH1     int  `json:"h1_gated_detached"`    // in-flight h1 exchange, handler ignores its context; released by the script
	GatedH1Ctx  int  `json:"h1_gated"`             // in-flight h1 exchange through the unmodified handler
	AttPre      int  `json:"attempts_just_before"` // new connections racing with the cancel (not judged)
	AttDuring   int  `json:"attempts_during"`      // started together with the cancel call (not judged)
	AttPost     int  `json:"attempts_after"`       // dial started after the cancel returned (judged)
	HoldMs      int  `json:"hold_ms"`              // cancel -> first release of a detached h1 gate
	Stagger     bool `json:"stagger_release"`
	EarlyYields int  `json:"early_yields"` // scheduler yields between starting Serve and cancelling (mode early)
	SlowHookMs  int  `json:"slow_connstate_hook_ms,omitempty"` // the user's ConnState hook takes this long for new HTTP/1.1 connections (hand-overs queue up)
	HandoverH1  int  `json:"h1_handshakes_racing_cancel,omitempty"` // HTTP/1.1 clients whose handshakes complete around the cancel instant

	Signal string `json:"signal,omitempty"` // binary runs: SIGTERM | SIGINT
	// RepeatSignalMs > 0: the same signal is sent a second time that long after the first one (repeated
	// cancellation while the shutdown is still in progress)
	RepeatSignalMs int `json:"repeat_signal_after_ms,omitempty"`
}

func (s Spec) hasHTTPClose() bool {
	return s.Mode == "httpclose" || s.Mode == "httpclose-then-ctx" || s.Mode == "ctx-then-httpclose"
}
func (s Spec) ctxCancelled() bool { return s.Mode != "httpclose" }
func (s Spec) preConnect() bool   { return s.Mode != "early" && s.Mode != "before-serve" }

// boundMs: 3 s, or 9 s when handshaked-but-silent HTTP/1.1 connections exist
// (net/http's Shutdown treats StateNew connections as idle only after 5 s).
func (s Spec) boundMs() int {
	if s.NewH1 > 0 && !s.hasHTTPClose() {
		return 9000
	}
	return 3000
}

func (s Spec) shape() string {
	b := func(n int) int {
		switch {
		case n == 0:
			return 0
		case n == 1:
			return 1
		case n <= 4:
			return 2
		}
		return 3
	}
	return fmt.Sprintf("%s|%d%d%d%d%d%d%d%d%d|%d%d%d|%v|%s|h%d", s.Mode, b(s.Stalled0), b(s.StalledHalf), b(s.NewH1), b(s.IdleH1), b(s.IdleH2),
		b(s.GatedH2), b(s.GatedH2Ctx), b(s.GatedH1), b(s.GatedH1Ctx), b(s.AttPre), b(s.AttDuring), b(s.AttPost), s.Stagger, s.Signal, s.HoldMs/1000)
}

func (s *Spec) normalize() {
	if !s.preConnect() {
		s.Stalled0, s.StalledHalf, s.NewH1, s.IdleH1, s.IdleH2 = 0, 0, 0, 0, 0
		s.GatedH2, s.GatedH2Ctx, s.GatedH1, s.GatedH1Ctx, s.AttPre = 0, 0, 0, 0, 0
	}
	if s.hasHTTPClose() {
		// HTTPServer.Close (the harness's own act) kills in-flight HTTP/1.1 exchanges
		s.GatedH1, s.GatedH1Ctx = 0, 0
	}
	if s.GatedH1 == 0 {
		s.HoldMs, s.Stagger = 0, false
	} else if s.HoldMs == 0 {
		s.HoldMs = 100
	}
}

func genSpecs(run *verdict.Run) []Spec {
	rng := run.Rand(17)
	k := func() int { return 1 + rng.Intn(8) }
	fixed := []Spec{
		{Mode: "ctx"},
		{Mode: "before-serve"},
		{Mode: "before-serve", AttDuring: k(), AttPost: k()},
		{Mode: "early", EarlyYields: 0},
		{Mode: "early", EarlyYields: 1 + rng.Intn(3), AttDuring: k(), AttPost: k()},
		{Mode: "ctx", Stalled0: k()},
		{Mode: "ctx", StalledHalf: k()},
		{Mode: "ctx", NewH1: k()},
		{Mode: "ctx", IdleH1: k()},
		{Mode: "ctx", IdleH2: k()},
		{Mode: "ctx", GatedH2: k()},
		{Mode: "ctx", GatedH2Ctx: k()},
		{Mode: "ctx", GatedH1: k(), HoldMs: 300, AttPost: k()},
		{Mode: "ctx", GatedH1Ctx: k()},
		{Mode: "ctx", AttPre: k(), AttDuring: k(), AttPost: k()},
		{Mode: "ctx-twice", IdleH1: k(), IdleH2: k()},
		{Mode: "httpclose", IdleH1: k(), IdleH2: k(), AttPost: k()},
		{Mode: "httpclose-then-ctx", IdleH1: k(), NewH1: k(), AttPost: k()},
		{Mode: "ctx-then-httpclose", IdleH1: k(), Stalled0: k(), AttPost: k()},
		{Mode: "ctx", GatedH1: 1 + rng.Intn(3), NewH1: 1 + rng.Intn(3), HoldMs: 5600, AttPost: k(), IdleH1: k()},
		{Mode: "ctx-twice", GatedH1: k(), GatedH1Ctx: k(), GatedH2: k(), IdleH1: k(), IdleH2: k(), Stalled0: k(), HoldMs: 400, Stagger: true, AttPre: k(), AttDuring: k(), AttPost: k()},
		{Mode: "ctx", SlowHookMs: 40, HandoverH1: 8},
		{Mode: "ctx", SlowHookMs: 25, HandoverH1: 12, IdleH1: k()},
		{Mode: "ctx-twice", SlowHookMs: 60, HandoverH1: 6, IdleH2: k()},
	}
	n := run.Pick(40, 600)
	modes := []string{"ctx", "ctx", "ctx", "ctx", "ctx", "ctx", "ctx", "ctx", "ctx", "ctx", "ctx-twice", "ctx-twice", "ctx-twice",
		"httpclose", "httpclose", "httpclose-then-ctx", "ctx-then-httpclose", "early", "early", "before-serve"}
	var out []Spec
	out = append(out, fixed...)
	for len(out) < n {
		opt := func(p float64) int {
			if rng.Float64() < p {
				return k()
			}
			return 0
		}
		s := Spec{Mode: modes[rng.Intn(len(modes))]}
		s.Stalled0, s.StalledHalf = opt(0.3), opt(0.3)
		s.NewH1 = opt(0.2)
		s.IdleH1, s.IdleH2 = opt(0.45), opt(0.4)
		s.GatedH2, s.GatedH2Ctx = opt(0.3), opt(0.25)
		s.GatedH1, s.GatedH1Ctx = opt(0.4), opt(0.25)
		s.AttPre, s.AttDuring, s.AttPost = opt(0.35), opt(0.35), opt(0.6)
		s.HoldMs = 50 + rng.Intn(750)
		if run.Thorough() && rng.Intn(25) == 0 {
			s.HoldMs = 5200 + rng.Intn(1500)
		}
		s.Stagger = rng.Intn(2) == 0
		s.EarlyYields = rng.Intn(4)
		out = append(out, s)
	}
	out = out[:n]
	for i := range out {
		out[i].ID = i
		out[i].Seed = run.Seed*100003 + int64(i)
		out[i].normalize()
	}
	return out
}

type finding struct {
	class  string
	msg    string
	timing bool // a watchdog expiry: re-run once in isolation before it is reported
}

type outcome struct {
	spec      Spec
	findings  []finding
	setupErr  string
	returned  bool
	latencyMs float64
	counters  map[string]int64
}

func (o *outcome) add(name string, n int64) {
	if o.counters == nil {
		o.counters = map[string]int64{}
	}
	o.counters[name] += n
}
func (o *outcome) fail(class string, timing bool, format string, args ...any) {
	o.findings = append(o.findings, finding{class, fmt.Sprintf(format, args...), timing})
}

// runBatch builds every proxy of the batch sequentially (VerifNewApp rewrites
// package-level configuration of /repo, which request handling reads: no
// traffic may be in flight meanwhile), then runs the scenarios in parallel.
func runBatch(run *verdict.Run, specs []Spec, par int) []*outcome {
	scs := make([]*scen, len(specs))
	outs := make([]*outcome, len(specs))
	for i, sp := range specs {
		sc, err := buildScen(sp)
		if err != nil {
			outs[i] = &outcome{spec: sp, setupErr: "build: " + err.Error()}
			continue
		}
		scs[i] = sc
	}
	var wg sync.WaitGroup
	sem := make(chan struct{}, par)
	for i := range scs {
		if scs[i] == nil {
			continue
		}
		wg.Add(1)
		go func(i int) {
			defer wg.Done()
			sem <- struct{}{}
			defer func() { <-sem }()
			outs[i] = scs[i].run()
		}(i)
	}
	wg.Wait()
	return outs
}

type agg struct {
	run  *verdict.Run
	lat  map[string][]float64
	miss int
}

func (a *agg) account(o *outcome) {
	run := a.run
	s := o.spec
	run.Eval(1)
	run.Distinct(s.shape())
	run.Sample(s)
	ing := map[string]int{"stalled_no_bytes": s.Stalled0, "stalled_half_hello": s.StalledHalf, "h1_handshaked_silent": s.NewH1, "h1_idle": s.IdleH1,
		"h2_idle": s.IdleH2, "h2_gated_detached": s.GatedH2, "h2_gated": s.GatedH2Ctx, "h1_gated_detached": s.GatedH1, "h1_gated": s.GatedH1Ctx,
		"attempts_before": s.AttPre, "attempts_during": s.AttDuring, "attempts_after": s.AttPost}
	any := false
	for name, n := range ing {
		if n > 0 {
			run.Add("scenarios_with_"+name, 1)
			any = true
		}
	}
	if !any {
		run.Add("scenarios_with_nothing_connected", 1)
	}
	run.Add("scenarios_mode_"+s.Mode+s.Signal, 1)
	for k, v := range o.counters {
		run.Add(k, v)
	}
	if o.returned {
		key := "no_statenew"
		if s.boundMs() > 3000 {
			key = "with_statenew"
		}
		if s.Mode == "binary" {
			key = "binary_" + key
		}
		a.lat[key] = append(a.lat[key], o.latencyMs)
	}
}

func (a *agg) latencyStats() map[string]any {
	out := map[string]any{}
	for k, v := range a.lat {
		sort.Float64s(v)
		out[k] = map[string]any{"n": len(v), "median_ms": round1(v[len(v)/2]), "max_ms": round1(v[len(v)-1]), "min_ms": round1(v[0])}
	}
	return out
}

func round1(f float64) float64 { return float64(int64(f*10)) / 10 }

// judge reports the findings of an outcome. Outcomes with timing findings or
// setup failures are returned for one isolated re-run.
func (a *agg) judge(o *outcome, final bool) (retry bool) {
	run := a.run
	if o.setupErr != "" {
		if !final {
			return true
		}
		run.Inconclusive("scenario %d (%s): rig failure twice: %s", o.spec.ID, o.spec.shape(), o.setupErr)
		return false
	}
	for _, f := range o.findings {
		if f.timing && !final {
			return true
		}
	}
	for _, f := range o.findings {
		run.Violation(f.class, o.spec, "scenario %d [%s]: %s", o.spec.ID, o.spec.shape(), f.msg)
	}
	return false
}

func main() {
	run := verdict.Start("C17", "exploration",
		"scenario = state of a running proxy at the instant its context is cancelled: PRNG-chosen numbers (0..8) of clients stalled mid-handshake (no bytes / half a ClientHello), handshaked-silent HTTP/1.1, idle keep-alive HTTP/1.1, idle HTTP/2, in-flight HTTP/2 requests, in-flight HTTP/1.1 exchanges (held at the backend by a gate; handler ignoring or honouring its context), new connections racing with / following the cancel; cancel by context (once, twice), by closing the inner HTTP/1.1 server, both, before Serve, right after starting Serve; plus the real binary under SIGTERM/SIGINT (4 runs quick, 20 thorough); distinct by cancel mode x per-ingredient count class (0,1,2-4,5-8) x release order x hold class")
	rig.Quiet(nil)
	rig.Certs()
	a := &agg{run: run, lat: map[string][]float64{}}
	run.Assume("bounded restatement of 'returns as soon as': Serve must return within 3 s (9 s when handshaked-silent HTTP/1.1 connections exist: net/http closes those only after 5 s) of the later of {cancel, end of the last in-flight HTTP/1.1 exchange}; a miss is re-run once in isolation")
	run.Assume("'served' for a connection attempted after cancellation = its request reaches the backend; in-flight exchanges that the unmodified handler aborts at cancellation (request context derives from the server context) are not judged, only timed")
	run.Assume("goroutines of connections that completed their handshake around the cancellation and block in ChannelListener.SendToChannel are outside this property (DESIGN.md section 3, observation i)")

	if run.ReplayFile != "" {
		var sp Spec
		if err := verdict.LoadReplay(run.ReplayFile, &sp); err != nil {
			run.Inconclusive("replay file: %v", err)
			run.Finish()
		}
		var o *outcome
		if sp.Mode == "binary" {
			bin, err := buildBinary()
			if err != nil {
				run.Inconclusive("build binary: %v", err)
				run.Finish()
			}
			o = binaryRun(sp, bin)
		} else {
			o = runBatch(run, []Spec{sp}, 1)[0]
		}
		a.account(o)
		a.judge(o, true)
		run.Set("serve_return_latency", a.latencyStats())
		removeBinary()
		run.Finish()
	}

	specs := genSpecs(run)
	const batch = 40
	par := 16
	var retry []Spec
	for lo := 0; lo < len(specs); lo += batch {
		hi := lo + batch
		if hi > len(specs) {
			hi = len(specs)
		}
		for _, o := range runBatch(run, specs[lo:hi], par) {
			if a.judge(o, false) {
				retry = append(retry, o.spec)
				run.Add("isolated_reruns", 1)
				continue
			}
			a.account(o)
		}
		if run.Thorough() {
			run.Logf("scenarios %d/%d", hi, len(specs))
		}
	}
	// a watchdog miss is re-run alone (nothing else loading the machine) before it
	// is reported; after three reproduced misses the remaining ones add nothing
	reproduced := 0
	for _, sp := range retry {
		if reproduced >= 3 {
			run.Add("bound_misses_not_rerun_after_3_reproduced", 1)
			continue
		}
		o := runBatch(run, []Spec{sp}, 1)[0]
		a.account(o)
		if len(o.findings) == 0 && o.setupErr == "" {
			run.Add("bound_miss_not_reproduced_in_isolation", 1)
		} else {
			reproduced++
		}
		a.judge(o, true)
	}

	{ // the real binary under SIGTERM / SIGINT: four runs in the quick tier, twenty in the thorough one
		bin, err := buildBinary()
		if err != nil {
			run.Inconclusive("build of the real binary failed: %v", err)
		} else {
			rng := rand.New(rand.NewSource(run.Seed*7717 + 5))
			for i := 0; i < run.Pick(4, 20); i++ {
				sp := Spec{ID: 100000 + i, Seed: run.Seed*1009 + int64(i), Mode: "binary", Signal: []string{"SIGTERM", "SIGINT"}[i%2]}
				if i == 2 || i == 3 || i%5 == 4 {
					// a shutdown that lasts (a handshaked, still silent HTTP/1.1 connection keeps net/http's
					// Shutdown busy for about 5 s) and the signal repeated in the middle of it
					sp.NewH1, sp.RepeatSignalMs = 1+rng.Intn(2), 300+rng.Intn(1500)
				} else if i >= 2 {
					sp.IdleH1, sp.IdleH2, sp.Stalled0, sp.StalledHalf = rng.Intn(5), rng.Intn(5), rng.Intn(4), rng.Intn(4)
					sp.GatedH1Ctx, sp.GatedH2Ctx = rng.Intn(3), rng.Intn(3)
					if rng.Intn(4) == 0 {
						sp.NewH1 = 1 + rng.Intn(3)
					}
				}
				o := binaryRun(sp, bin)
				if a.judge(o, false) {
					run.Add("isolated_reruns", 1)
					o = binaryRun(sp, bin)
					a.account(o)
					a.judge(o, true)
					continue
				}
				a.account(o)
			}
			run.Require("signal_runs_exited", int64(run.Pick(4, 18)))
		}
		removeBinary()
	}

	postCancelStorm(run)

	run.Set("serve_return_latency", a.latencyStats())
	n := int64(len(specs))
	run.Require("serve_returned_server_closed", n*9/10)
	run.Require("cancels", n)
	run.Require("listener_refused_after_return", n*9/10)
	run.Require("h1_idle_observed_closed", 10)
	run.Require("h1_gated_detached_completed_after_release", 5)
	run.Require("done_empty_before_release_checks", 5)
	run.Require("post_cancel_attempts", 20)
	run.Require("post_cancel_attempts_while_listener_open", 1)
	run.Finish()
}
