//go:build verif

package main

import (
	"bytes"
	"crypto/tls"
	"errors"
	"fmt"
	"io"
	"net"
	"net/http"
	"os"
	"os/exec"
	"path/filepath"
	"strings"
	"sync"
	"syscall"
	"time"

	"verif/internal/rig"
)

var binDir string

// buildBinary builds the unmodified main package of the tree under test.
func buildBinary() (string, error) {
	repo := os.Getenv("VERIF_REPO_DIR")
	if repo == "" {
		repo = "/repo"
	}
	d, err := os.MkdirTemp(os.Getenv("VERIF_SCRATCH"), "c17bin-")
	if err != nil {
		return "", err
	}
	binDir = d
	bin := filepath.Join(d, "fingerproxy")
	cmd := exec.Command("go", "build", "-o", bin, "./cmd")
	cmd.Dir = repo
	cmd.Env = append(os.Environ(), "GOFLAGS=-mod=mod", "GOPROXY=off", "GOSUMDB=off", "GOTOOLCHAIN=local")
	if out, err := cmd.CombinedOutput(); err != nil {
		return "", fmt.Errorf("%v: %s", err, out)
	}
	return bin, nil
}

func removeBinary() {
	if binDir != "" {
		os.RemoveAll(binDir)
	}
}

func freeAddr() (string, error) {
	l, err := net.Listen("tcp", "127.0.0.1:0")
	if err != nil {
		return "", err
	}
	defer l.Close()
	return l.Addr().String(), nil
}

// binaryRun starts the real binary, puts connections into the states of sp,
// sends the signal and checks that the process exits and the port is released.
func binaryRun(sp Spec, bin string) *outcome {
	var o *outcome
	for try := 0; try < 3; try++ {
		var portClash bool
		o, portClash = binaryRunOnce(sp, bin)
		if !portClash {
			break
		}
	}
	return o
}

func binaryRunOnce(sp Spec, bin string) (o *outcome, portClash bool) {
	o = &outcome{spec: sp}
	sc := &scen{spec: sp, gates: map[string]*gate{}, out: o, returned: make(chan struct{})}
	sc.be = rig.NewBackend(nil)
	sc.be.PlanFor = sc.planFor
	defer sc.be.Close()
	addr, err1 := freeAddr()
	maddr, err2 := freeAddr()
	if err1 != nil || err2 != nil {
		o.setupErr = fmt.Sprintf("no free port: %v %v", err1, err2)
		return
	}
	sc.addr = addr
	cert, key := rig.CertFiles()
	var stderr bytes.Buffer
	cmd := exec.Command(bin, "-listen-addr", addr, "-metrics-listen-addr", maddr, "-cert-filename", cert, "-certkey-filename", key, "-forward-url", sc.be.URL)
	cmd.Stderr = &stderr
	cmd.Stdout = io.Discard
	if err := cmd.Start(); err != nil {
		o.setupErr = "start binary: " + err.Error()
		return
	}
	exited := make(chan struct{})
	var exitAt time.Time
	go func() {
		cmd.Wait()
		exitAt = time.Now()
		close(exited)
	}()
	hasExited := func() bool {
		select {
		case <-exited:
			return true
		default:
			return false
		}
	}
	defer func() {
		sc.mu.Lock()
		for _, g := range sc.gates {
			g.open()
		}
		sess, raws := sc.sessions, sc.raws
		sc.mu.Unlock()
		for _, s := range sess {
			s.Close()
		}
		for _, c := range raws {
			c.Close()
		}
		if !hasExited() {
			cmd.Process.Kill()
			<-exited
		}
	}()

	// the process listens
	up := waitUntilSlow(20*time.Second, func() bool {
		if hasExited() {
			return true
		}
		c, err := net.DialTimeout("tcp", addr, time.Second)
		if err != nil {
			return false
		}
		c.Close()
		return true
	})
	if hasExited() {
		if strings.Contains(stderr.String(), "address already in use") {
			return o, true
		}
		o.setupErr = "binary exited before any signal: " + tail(stderr.String())
		return
	}
	if !up {
		o.setupErr = "binary did not listen within 20 s"
		return
	}
	if err := sc.ready(false); err != nil {
		o.setupErr = err.Error()
		return
	}

	var mu sync.Mutex
	var idle, fresh []*rig.Session
	var gated []*exchange
	completed := func(alpn, kind string, n int) error {
		return parallel(n, func(i int) error {
			s, err := sc.dial(alpn)
			if err != nil {
				return err
			}
			r, err := s.Do("GET", "/"+kind, host, [][2]string{{strings.ToLower(rig.TagHeader), sc.tag(kind, i)}}, nil, 15*time.Second)
			if err != nil || r.Status != 200 {
				return fmt.Errorf("%s request: %v %v", kind, r, err)
			}
			if alpn == "http/1.1" {
				mu.Lock()
				idle = append(idle, s)
				mu.Unlock()
			}
			return nil
		})
	}
	startGated := func(proto, kind string, n int) error {
		return parallel(n, func(i int) error {
			e, err := sc.startExchange(proto, kind, i, false)
			if err != nil {
				return err
			}
			mu.Lock()
			gated = append(gated, e)
			mu.Unlock()
			return nil
		})
	}
	hello := clientHello()
	err := completed("http/1.1", "idleh1", sp.IdleH1)
	if err == nil {
		err = completed("h2", "idleh2", sp.IdleH2)
	}
	if err == nil {
		err = startGated("h1", "gh1c", sp.GatedH1Ctx)
	}
	if err == nil {
		err = startGated("h2", "gh2c", sp.GatedH2Ctx)
	}
	if err == nil {
		err = parallel(sp.NewH1, func(i int) error {
			s, err := sc.dial("http/1.1")
			if err == nil {
				mu.Lock()
				fresh = append(fresh, s)
				mu.Unlock()
			}
			return err
		})
	}
	if err == nil {
		err = parallel(sp.Stalled0+sp.StalledHalf, func(i int) error {
			c, err := sc.rawDial()
			if err == nil && i >= sp.Stalled0 {
				_, err = c.Write(hello[:len(hello)/2])
			}
			return err
		})
	}
	if err != nil {
		o.setupErr = "binary run setup: " + err.Error()
		return
	}
	// no fence is available inside the other process; the pause only shapes the
	// state (whether the last connections have reached net/http), not the verdict
	time.Sleep(100 * time.Millisecond)

	sig := syscall.SIGTERM
	if sp.Signal == "SIGINT" {
		sig = syscall.SIGINT
	}
	if err := cmd.Process.Signal(sig); err != nil {
		o.setupErr = "signal: " + err.Error()
		return
	}
	t0 := time.Now()
	o.add("cancels", 1)
	o.add("signals_sent_"+sp.Signal, 1)
	repeated := make(chan bool, 1)
	if sp.RepeatSignalMs > 0 {
		go func() {
			select {
			case <-exited:
				repeated <- false
			case <-time.After(time.Duration(sp.RepeatSignalMs) * time.Millisecond):
				repeated <- cmd.Process.Signal(sig) == nil
			}
		}()
	} else {
		repeated <- false
	}
	defer func() {
		if <-repeated {
			o.add("signals_repeated_during_shutdown", 1)
		}
	}()
	var watchers []*watcher
	for _, s := range idle {
		watchers = append(watchers, watch("idle keep-alive", s.TLS))
	}
	for _, s := range fresh {
		watchers = append(watchers, watch("handshaked-silent", s.TLS))
	}
	for _, e := range gated {
		if e.proto != "h1" {
			continue
		}
		select {
		case <-e.done:
		case <-time.After(10 * time.Second):
			e.g.open()
			<-e.done
		}
		if e.endAt.After(t0) {
			t0 = e.endAt
		}
	}
	bound := time.Duration(sp.boundMs()) * time.Millisecond
	select {
	case <-exited:
	case <-time.After(time.Until(t0.Add(bound))):
	}
	select {
	case <-exited: // looked at alone: both cases above may have been ready
	default:
		late := "not within 6 s more"
		select {
		case <-exited:
			late = fmt.Sprintf("only after %.0f ms", exitAt.Sub(t0).Seconds()*1000)
		case <-time.After(6 * time.Second):
			cmd.Process.Kill()
			<-exited // stderr may be read only after Wait returned
		}
		o.fail("process-did-not-exit-in-bound", true, "%s: process did not exit within %v; exited %s; stderr: %s", sp.Signal, bound, late, tail(stderr.String()))
	}
	if len(o.findings) > 0 {
		return
	}
	o.returned = true
	o.latencyMs = exitAt.Sub(t0).Seconds() * 1000
	o.add("signal_runs_exited", 1)
	o.add(fmt.Sprintf("signal_runs_exit_code_%d", cmd.ProcessState.ExitCode()), 1)
	if strings.Contains(stderr.String(), serverClosedText) {
		o.add("serve_returned_server_closed", 1)
	} else {
		o.fail("wrong-return-value", false, "%s: the binary did not log the 'server closed' error returned by the serve call; stderr: %s", sp.Signal, tail(stderr.String()))
	}
	deadline := t0.Add(bound)
	for _, w := range watchers {
		select {
		case <-w.done:
		case <-time.After(time.Until(deadline)):
		}
		select {
		case <-w.done:
			if w.closed {
				o.add("h1_idle_observed_closed", 1)
				continue
			}
		default:
		}
		o.fail("idle-h1-not-closed", true, "%s: %s HTTP/1.1 connection still open after the process exited", sp.Signal, w.kind)
	}
	// the port is free
	c, err := net.DialTimeout("tcp", addr, 3*time.Second)
	switch {
	case err != nil && errors.Is(err, syscall.ECONNREFUSED):
		o.add("listener_refused_after_return", 1)
		if l, err := net.Listen("tcp", addr); err == nil {
			l.Close()
			o.add("port_rebound_after_exit", 1)
		}
	case err != nil:
		o.add("listener_probe_other_error", 1)
	default:
		tc := tls.Client(c, &tls.Config{InsecureSkipVerify: true})
		c.SetDeadline(time.Now().Add(3 * time.Second))
		if tc.Handshake() == nil && len(tc.ConnectionState().PeerCertificates) > 0 &&
			bytes.Equal(tc.ConnectionState().PeerCertificates[0].Raw, rig.Certs().RSA.Certificate[0]) {
			o.fail("listener-open-after-return", false, "%s: the process exited but its port still answers with its certificate", sp.Signal)
		} else {
			o.add("port_reused_by_someone_else", 1)
		}
		c.Close()
	}
	return
}

var serverClosedText = http.ErrServerClosed.Error()

func tail(s string) string {
	if len(s) > 600 {
		s = "…" + s[len(s)-600:]
	}
	return strings.ReplaceAll(s, "\n", " | ")
}

func waitUntilSlow(timeout time.Duration, f func() bool) bool {
	dl := time.Now().Add(timeout)
	for !f() {
		if time.Now().After(dl) {
			return false
		}
		time.Sleep(20 * time.Millisecond)
	}
	return true
}
