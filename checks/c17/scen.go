//go:build verif

package main

import (
	"context"
	"crypto/tls"
	"errors"
	"fmt"
	"io"
	"math/rand"
	"net"
	"net/http"
	"runtime"
	"strings"
	"sync"
	"syscall"
	"time"

	fingerproxy "github.com/wi1dcard/fingerproxy"

	"verif/internal/rig"
)

const (
	host         = "front.example"
	detachHeader = "X-Verif-Detach"
)

// stateTracker follows net/http's view of the HTTP/1.1 connections through the
// server's ConnState callback (ordinary configuration); used for fences only.
type stateTracker struct {
	mu sync.Mutex
	m  map[net.Conn]http.ConnState
}

func (t *stateTracker) hook(c net.Conn, s http.ConnState) {
	t.mu.Lock()
	if s == http.StateClosed || s == http.StateHijacked {
		delete(t.m, c)
	} else {
		t.m[c] = s
	}
	t.mu.Unlock()
}

func (t *stateTracker) count(s http.ConnState) int {
	t.mu.Lock()
	defer t.mu.Unlock()
	n := 0
	for _, v := range t.m {
		if v == s {
			n++
		}
	}
	return n
}

func (t *stateTracker) total() int {
	t.mu.Lock()
	defer t.mu.Unlock()
	return len(t.m)
}

func waitUntil(timeout time.Duration, f func() bool) bool {
	dl := time.Now().Add(timeout)
	for !f() {
		if time.Now().After(dl) {
			return false
		}
		time.Sleep(time.Millisecond)
	}
	return true
}

type gate struct {
	ch   chan struct{}
	once sync.Once
}

func (g *gate) open() { g.once.Do(func() { close(g.ch) }) }

type exchange struct {
	tag      string
	proto    string
	detached bool
	sess     *rig.Session
	g        *gate
	done     chan struct{}
	resp     *rig.Resp
	err      error
	endAt    time.Time
	w        *watcher // HTTP/1.1: the connection after the exchange
}

// watcher waits for the proxy to close a client connection.
type watcher struct {
	kind     string
	conn     net.Conn
	done     chan struct{}
	closed   bool
	closedAt time.Time
	how      string
}

func watch(kind string, c net.Conn) *watcher {
	w := &watcher{kind: kind, conn: c, done: make(chan struct{})}
	go func() {
		defer close(w.done)
		buf := make([]byte, 4096)
		c.SetReadDeadline(time.Now().Add(60 * time.Second))
		for {
			_, err := c.Read(buf)
			if err == nil {
				continue
			}
			var ne net.Error
			if errors.As(err, &ne) && ne.Timeout() {
				w.how = "still open (read timeout)"
				return
			}
			w.closed, w.closedAt, w.how = true, time.Now(), err.Error()
			return
		}
	}()
	return w
}

type attempt struct {
	tag     string
	proto   string
	phase   string
	judged  bool
	result  string // refused | dial-error | handshake-failed | no-response | response
	status  int
	started time.Time
}

type scen struct {
	spec   Spec
	be     *rig.Backend
	app    *fingerproxy.VerifApp
	hs     *http.Server
	ln     net.Listener // what Serve gets
	acct   *rig.AcctListener
	addr   string
	cancel context.CancelFunc
	st     *stateTracker

	returned chan struct{}
	retErr   error
	retAt    time.Time

	earlyCancelAt time.Time

	mu    sync.Mutex
	gates map[string]*gate

	sessions []*rig.Session
	raws     []net.Conn
	dialed   int

	attMu    sync.Mutex
	attempts []*attempt
	attWG    sync.WaitGroup

	out *outcome
}

func proxyTLSConfig() *tls.Config {
	return &tls.Config{NextProtos: []string{"h2", "http/1.1"}, MinVersion: tls.VersionTLS12, MaxVersion: tls.VersionTLS13,
		Certificates: []tls.Certificate{rig.Certs().ECDSA}}
}

func (sc *scen) tweak(app *fingerproxy.VerifApp) {
	sc.app = app
	sc.hs = app.Server.HTTPServer
	sc.hs.ConnState = sc.st.hook
	if ms := sc.spec.SlowHookMs; ms > 0 {
		// ordinary user configuration: a ConnState hook that takes a while for new connections;
		// net/http calls it on its accepting goroutine, so hand-overs from the TLS side queue up
		sc.hs.ConnState = func(c net.Conn, s http.ConnState) {
			if s == http.StateNew {
				time.Sleep(time.Duration(ms) * time.Millisecond)
			}
			sc.st.hook(c, s)
		}
	}
	next := sc.hs.Handler
	// "a handler that ignores its context": requests that ask for it are
	// forwarded with a context that is not cancelled with the server's
	sc.hs.Handler = http.HandlerFunc(func(w http.ResponseWriter, r *http.Request) {
		if r.Header.Get(detachHeader) != "" {
			r = r.WithContext(context.WithoutCancel(r.Context()))
		}
		next.ServeHTTP(w, r)
	})
}

func (sc *scen) planFor(r *http.Request, tag string) *rig.Plan {
	sc.mu.Lock()
	g := sc.gates[tag]
	sc.mu.Unlock()
	if g == nil {
		return nil
	}
	return &rig.Plan{Gate: g.ch, Chunks: [][]byte{[]byte("released:" + tag)}}
}

func (sc *scen) collect(done <-chan error) {
	go func() {
		err := <-done
		sc.retErr, sc.retAt = err, time.Now()
		close(sc.returned)
	}()
}

func (sc *scen) hasReturned() bool {
	select {
	case <-sc.returned:
		return true
	default:
		return false
	}
}

// buildScen composes backend and proxy. Runs in the sequential build phase.
func buildScen(sp Spec) (*scen, error) {
	sc := &scen{spec: sp, st: &stateTracker{m: map[net.Conn]http.ConnState{}}, returned: make(chan struct{}),
		gates: map[string]*gate{}, out: &outcome{spec: sp}}
	sc.be = rig.NewBackend(nil)
	sc.be.PlanFor = sc.planFor
	wrap := func(l net.Listener) net.Listener {
		sc.acct = rig.NewAcctListener(l)
		return sc.acct
	}
	if sp.Mode == "before-serve" {
		ctx, cancel := context.WithCancel(context.Background())
		app, err := fingerproxy.VerifNewApp(ctx, []string{"-forward-url", sc.be.URL}, proxyTLSConfig())
		if err != nil {
			cancel()
			sc.be.Close()
			return nil, err
		}
		sc.tweak(app)
		ln, err := net.Listen("tcp", "127.0.0.1:0")
		if err != nil {
			cancel()
			sc.be.Close()
			return nil, err
		}
		sc.addr = ln.Addr().String()
		sc.ln = wrap(ln)
		sc.cancel = cancel
		return sc, nil
	}
	px, err := rig.StartProxy(sc.be.URL, rig.ProxyOpts{TLSConfig: proxyTLSConfig(), Listener: wrap, Tweak: sc.tweak})
	if err != nil {
		sc.be.Close()
		return nil, err
	}
	sc.addr, sc.ln, sc.cancel = px.Addr, px.Ln, px.Cancel
	sc.collect(px.Done)
	if sp.Mode == "early" {
		// cancellation before (or while) Serve reaches its accept loop
		for i := 0; i < sp.EarlyYields; i++ {
			runtime.Gosched()
		}
		sc.cancel()
		sc.earlyCancelAt = time.Now()
	}
	return sc, nil
}

func (sc *scen) tag(kind string, i int) string {
	return fmt.Sprintf("s%d-%d-%s-%d", sc.spec.Seed, sc.spec.ID, kind, i)
}

func (sc *scen) dial(alpn string) (*rig.Session, error) {
	s, err := rig.Dial(sc.addr, []string{alpn}, nil, nil)
	if err != nil {
		return nil, err
	}
	sc.mu.Lock()
	sc.sessions = append(sc.sessions, s)
	sc.dialed++
	sc.mu.Unlock()
	return s, nil
}

func (sc *scen) rawDial() (net.Conn, error) {
	c, err := net.DialTimeout("tcp", sc.addr, 10*time.Second)
	if err != nil {
		return nil, err
	}
	sc.mu.Lock()
	sc.raws = append(sc.raws, c)
	sc.dialed++
	sc.mu.Unlock()
	return c, nil
}

// parallel runs f(0..n-1) concurrently and returns the first error.
func parallel(n int, f func(i int) error) error {
	errs := make(chan error, n)
	for i := 0; i < n; i++ {
		go func(i int) { errs <- f(i) }(i)
	}
	var first error
	for i := 0; i < n; i++ {
		if err := <-errs; err != nil && first == nil {
			first = err
		}
	}
	return first
}

func (sc *scen) ready(tracked bool) error {
	s, err := sc.dial("http/1.1")
	if err != nil {
		return fmt.Errorf("ready probe dial: %w", err)
	}
	defer s.Close()
	tag := sc.tag("ready", 0)
	r, err := s.Do("GET", "/ready", host, [][2]string{{rig.TagHeader, tag}, {"Connection", "close"}}, nil, 15*time.Second)
	if err != nil {
		return fmt.Errorf("ready probe: %w", err)
	}
	if r.Status != 200 || len(sc.be.Records(tag)) != 1 {
		return fmt.Errorf("ready probe: status %d, backend records %d", r.Status, len(sc.be.Records(tag)))
	}
	// the probe's client leaves first: whether the server also ends a "Connection: close" exchange by
	// itself is not this property's business, and a server that does not must reach the scenarios
	s.Close()
	if tracked && !waitUntil(10*time.Second, func() bool { return sc.st.total() == 0 }) {
		return fmt.Errorf("ready probe connection still tracked by net/http")
	}
	return nil
}

func (sc *scen) startExchange(proto, kind string, i int, detached bool) (*exchange, error) {
	alpn := "http/1.1"
	if proto == "h2" {
		alpn = "h2"
	}
	s, err := sc.dial(alpn)
	if err != nil {
		return nil, err
	}
	if s.Proto != alpn {
		return nil, fmt.Errorf("negotiated %q, wanted %q", s.Proto, alpn)
	}
	e := &exchange{tag: sc.tag(kind, i), proto: proto, detached: detached, sess: s, g: &gate{ch: make(chan struct{})}, done: make(chan struct{})}
	sc.mu.Lock()
	sc.gates[e.tag] = e.g
	sc.mu.Unlock()
	hdr := [][2]string{{strings.ToLower(rig.TagHeader), e.tag}}
	if detached {
		hdr = append(hdr, [2]string{strings.ToLower(detachHeader), "1"})
	}
	go func() {
		e.resp, e.err = s.Do("GET", "/gated/"+kind, host, hdr, nil, 60*time.Second)
		e.endAt = time.Now()
		if proto == "h1" && s.TLS != nil {
			e.w = watch("after-exchange", s.TLS)
		}
		close(e.done)
	}()
	if _, ok := sc.be.Wait(e.tag, 15*time.Second); !ok {
		return nil, fmt.Errorf("gated request %s did not reach the backend", e.tag)
	}
	return e, nil
}

type setupState struct {
	idleH1  []*rig.Session
	newH1   []*rig.Session
	idleH2  []*rig.Session
	gH1     []*exchange
	gH1Ctx  []*exchange
	gH2     []*exchange
	gH2Ctx  []*exchange
	stalled []net.Conn
}

func (sc *scen) setup(hello []byte) (*setupState, error) {
	sp := sc.spec
	ss := &setupState{}
	var mu sync.Mutex
	completed := func(alpn, kind string, n int, dst *[]*rig.Session) error {
		return parallel(n, func(i int) error {
			s, err := sc.dial(alpn)
			if err != nil {
				return err
			}
			tag := sc.tag(kind, i)
			r, err := s.Do("GET", "/"+kind, host, [][2]string{{strings.ToLower(rig.TagHeader), tag}}, nil, 15*time.Second)
			if err != nil {
				return fmt.Errorf("%s request: %w", kind, err)
			}
			if r.Status != 200 {
				return fmt.Errorf("%s request: status %d", kind, r.Status)
			}
			mu.Lock()
			*dst = append(*dst, s)
			mu.Unlock()
			return nil
		})
	}
	if err := completed("http/1.1", "idleh1", sp.IdleH1, &ss.idleH1); err != nil {
		return nil, err
	}
	if !waitUntil(10*time.Second, func() bool { return sc.st.count(http.StateIdle) == sp.IdleH1 }) {
		return nil, fmt.Errorf("idle fence: net/http reports %d idle connections, want %d", sc.st.count(http.StateIdle), sp.IdleH1)
	}
	gated := func(proto, kind string, n int, detached bool, dst *[]*exchange) error {
		return parallel(n, func(i int) error {
			e, err := sc.startExchange(proto, kind, i, detached)
			if err != nil {
				return err
			}
			mu.Lock()
			*dst = append(*dst, e)
			mu.Unlock()
			return nil
		})
	}
	if err := gated("h1", "gh1d", sp.GatedH1, true, &ss.gH1); err != nil {
		return nil, err
	}
	if err := gated("h1", "gh1c", sp.GatedH1Ctx, false, &ss.gH1Ctx); err != nil {
		return nil, err
	}
	if err := completed("h2", "idleh2", sp.IdleH2, &ss.idleH2); err != nil {
		return nil, err
	}
	if err := gated("h2", "gh2d", sp.GatedH2, true, &ss.gH2); err != nil {
		return nil, err
	}
	if err := gated("h2", "gh2c", sp.GatedH2Ctx, false, &ss.gH2Ctx); err != nil {
		return nil, err
	}
	// handshaked, no complete request: every second one has sent part of a request head
	if err := parallel(sp.NewH1, func(i int) error {
		s, err := sc.dial("http/1.1")
		if err != nil {
			return err
		}
		if i%2 == 1 {
			if _, err := io.WriteString(s.TLS, "GET /partial HTTP/1.1\r\nHost: "+host+"\r\n"); err != nil {
				return err
			}
		}
		mu.Lock()
		ss.newH1 = append(ss.newH1, s)
		mu.Unlock()
		return nil
	}); err != nil {
		return nil, err
	}
	if !waitUntil(10*time.Second, func() bool { return sc.st.count(http.StateNew) == sp.NewH1 }) {
		return nil, fmt.Errorf("StateNew fence: net/http reports %d new connections, want %d", sc.st.count(http.StateNew), sp.NewH1)
	}
	if err := parallel(sp.Stalled0+sp.StalledHalf, func(i int) error {
		c, err := sc.rawDial()
		if err != nil {
			return err
		}
		if i >= sp.Stalled0 {
			if _, err := c.Write(hello[:len(hello)/2]); err != nil {
				return err
			}
		}
		mu.Lock()
		ss.stalled = append(ss.stalled, c)
		mu.Unlock()
		return nil
	}); err != nil {
		return nil, err
	}
	sc.mu.Lock()
	want := sc.dialed
	sc.mu.Unlock()
	if !waitUntil(10*time.Second, func() bool { return sc.acct.Accepted() >= want }) {
		return nil, fmt.Errorf("accept fence: %d accepted, %d dialed", sc.acct.Accepted(), want)
	}
	return ss, nil
}

// launchAttempt starts one new connection attempt (TCP, TLS, one request).
func (sc *scen) launchAttempt(phase string, i int, judged bool, delay time.Duration, start <-chan struct{}) {
	proto := "h1"
	if i%2 == 1 {
		proto = "h2"
	}
	a := &attempt{tag: sc.tag("att"+phase, i), proto: proto, phase: phase, judged: judged}
	sc.attMu.Lock()
	sc.attempts = append(sc.attempts, a)
	sc.attMu.Unlock()
	sc.attWG.Add(1)
	go func() {
		defer sc.attWG.Done()
		if start != nil {
			<-start
		}
		if delay > 0 {
			time.Sleep(delay)
		}
		a.started = time.Now()
		d := net.Dialer{Timeout: 3 * time.Second}
		raw, err := d.Dial("tcp", sc.addr)
		if err != nil {
			if errors.Is(err, syscall.ECONNREFUSED) {
				a.result = "refused"
			} else {
				a.result = "dial-error: " + errKind(err)
			}
			return
		}
		defer raw.Close()
		alpn := "http/1.1"
		if proto == "h2" {
			alpn = "h2"
		}
		c := tls.Client(raw, &tls.Config{InsecureSkipVerify: true, ServerName: host, NextProtos: []string{alpn}})
		raw.SetDeadline(time.Now().Add(2500 * time.Millisecond))
		if err := c.Handshake(); err != nil {
			a.result = "handshake-failed"
			return
		}
		raw.SetDeadline(time.Time{})
		s, err := rig.NewSession(c, c.ConnectionState().NegotiatedProtocol, nil)
		if err != nil {
			a.result = "no-response"
			return
		}
		r, err := s.Do("GET", "/attempt/"+phase, host, [][2]string{{strings.ToLower(rig.TagHeader), a.tag}}, nil, 2*time.Second)
		if err != nil {
			a.result = "no-response"
			return
		}
		a.result, a.status = "response", r.Status
	}()
}

// closeInner closes the inner HTTP/1.1 server from outside. net/http's Close
// waits for the server's Serve call to return; if the proxy's listener does
// not honour Close that never happens, so the call gets a watchdog (the
// scenario then goes on and the oracle sees that Serve does not return).
func (sc *scen) closeInner() {
	done := make(chan struct{})
	go func() { sc.hs.Close(); close(done) }()
	select {
	case <-done:
	case <-time.After(3 * time.Second):
		sc.out.add("inner_http_server_close_did_not_return_in_3s", 1)
	}
}

func (sc *scen) doCancel() {
	o := sc.out
	switch sc.spec.Mode {
	case "ctx", "before-serve":
		sc.cancel()
		o.add("cancels", 1)
		o.add("cancels_by_context", 1)
	case "ctx-twice":
		var wg sync.WaitGroup
		wg.Add(1)
		go func() { defer wg.Done(); sc.cancel() }()
		sc.cancel()
		wg.Wait()
		o.add("cancels", 2)
		o.add("cancels_by_context", 2)
	case "ctx-then-httpclose":
		sc.cancel()
		sc.closeInner()
		o.add("cancels", 2)
		o.add("cancels_by_context", 1)
		o.add("cancels_by_inner_http_server_close", 1)
	case "httpclose":
		sc.closeInner()
		o.add("cancels", 1)
		o.add("cancels_by_inner_http_server_close", 1)
	case "httpclose-then-ctx":
		sc.closeInner()
		sc.cancel()
		o.add("cancels", 2)
		o.add("cancels_by_context", 1)
		o.add("cancels_by_inner_http_server_close", 1)
	}
}

var helloOnce sync.Once
var helloBytes []byte

// clientHello returns one ClientHello record as crypto/tls writes it.
func clientHello() []byte {
	helloOnce.Do(func() {
		c1, c2 := net.Pipe()
		go tls.Client(c1, &tls.Config{InsecureSkipVerify: true, ServerName: host, NextProtos: []string{"h2", "http/1.1"}}).Handshake()
		hdr := make([]byte, 5)
		c2.SetDeadline(time.Now().Add(10 * time.Second))
		if _, err := io.ReadFull(c2, hdr); err == nil {
			body := make([]byte, int(hdr[3])<<8|int(hdr[4]))
			if _, err := io.ReadFull(c2, body); err == nil {
				helloBytes = append(hdr, body...)
			}
		}
		c2.Close()
		c1.Close()
		if len(helloBytes) < 50 {
			panic("could not capture a ClientHello")
		}
	})
	return helloBytes
}

func (sc *scen) run() (out *outcome) {
	o := sc.out
	defer func() { sc.cleanup(); out = o }()
	sp := sc.spec
	rng := rand.New(rand.NewSource(sp.Seed))
	bound := time.Duration(sp.boundMs()) * time.Millisecond
	hello := clientHello()

	ss := &setupState{}
	if sp.preConnect() {
		if err := sc.ready(true); err != nil {
			o.setupErr = err.Error()
			return
		}
		var err error
		if ss, err = sc.setup(hello); err != nil {
			o.setupErr = err.Error()
			return
		}
	}

	// ---- the cancellation, with new connections racing
	for i := 0; i < sp.AttPre; i++ {
		sc.launchAttempt("pre", i, false, 0, nil)
	}
	during := make(chan struct{})
	for i := 0; i < sp.AttDuring; i++ {
		sc.launchAttempt("during", i, false, time.Duration(rng.Intn(300))*time.Microsecond, during)
	}
	for i := 0; i < sp.HandoverH1; i++ {
		// HTTP/1.1 clients whose handshakes complete around the cancel instant (not judged as attempts:
		// they are there to have hand-overs to the HTTP/1.1 server queued when the context is cancelled)
		sc.launchAttempt("handover", 2*i, false, 0, nil)
	}
	if sp.HandoverH1 > 0 {
		// let the handshakes complete: with the slow hook all but the first are now queued for hand-over
		time.Sleep(time.Duration(25+2*sp.HandoverH1) * time.Millisecond)
	}
	if sp.AttPre > 0 {
		time.Sleep(time.Duration(rng.Intn(1500)) * time.Microsecond)
	}
	close(during)
	var tCancel time.Time
	if sp.Mode == "early" {
		tCancel = sc.earlyCancelAt
		o.add("cancels", 1)
		o.add("cancels_by_context", 1)
		if sc.hasReturned() {
			o.add("early_cancel_returned_before_scenario_ran", 1)
		}
	} else {
		sc.doCancel()
		tCancel = time.Now()
	}
	t0 := tCancel

	// connections attempted after the cancellation: judged when the server
	// context is known to be cancelled at dial time; the rest after Serve returned
	nNow := 0
	if sp.ctxCancelled() {
		nNow = (sp.AttPost + 1) / 2
	}
	for i := 0; i < nNow; i++ {
		var d time.Duration
		if i > 0 {
			d = time.Duration(rng.Intn(sp.HoldMs*1000+2000)) * time.Microsecond
		}
		sc.launchAttempt("post", i, true, d, nil)
	}

	if sp.Mode == "before-serve" {
		time.Sleep(time.Duration(rng.Intn(3000)) * time.Microsecond)
		done := make(chan error, 1)
		sc.collect(done)
		go func() { done <- sc.app.Server.Serve(sc.ln) }()
	}

	// watch the connections the statement says get closed
	var watchers []*watcher
	for _, s := range ss.idleH1 {
		watchers = append(watchers, watch("idle keep-alive", s.TLS))
	}
	for _, s := range ss.newH1 {
		watchers = append(watchers, watch("handshaked-silent", s.TLS))
	}

	// exchanges through the unmodified handler end on their own (their request
	// context derives from the server context); Serve may wait for them
	for _, e := range ss.gH1Ctx {
		select {
		case <-e.done:
		case <-time.After(10 * time.Second):
			e.g.open()
			<-e.done
			o.add("h1_gated_outlived_cancel_by_10s", 1)
		}
		if e.endAt.After(t0) {
			t0 = e.endAt
		}
		if e.err != nil {
			o.add("h1_gated_ended_with_error", 1)
		} else {
			o.add(fmt.Sprintf("h1_gated_ended_with_status_%d", e.resp.Status), 1)
		}
	}

	// exchanges whose handler ignores the context stay in flight until released
	if len(ss.gH1) > 0 {
		time.Sleep(time.Duration(sp.HoldMs) * time.Millisecond)
		order := rng.Perm(len(ss.gH1))
		for n, idx := range order {
			e := ss.gH1[idx]
			o.add("done_empty_before_release_checks", 1)
			if sc.hasReturned() {
				o.fail("returned-while-h1-exchange-in-flight", false, "Serve returned (%v) %.0f ms after cancel while %d gated HTTP/1.1 exchange(s) were still held at the backend",
					sc.retErr, sc.retAt.Sub(tCancel).Seconds()*1000, len(order)-n)
			}
			select {
			case <-e.done:
				o.fail("h1-exchange-ended-before-release", false, "gated HTTP/1.1 exchange %s ended before its gate was released: resp=%v err=%v", e.tag, e.resp, e.err)
			default:
			}
			e.g.open()
			if sp.Stagger && n < len(order)-1 {
				select {
				case <-e.done:
				case <-time.After(20 * time.Second):
				}
				time.Sleep(time.Duration(rng.Intn(20)) * time.Millisecond)
			}
		}
		t0 = time.Now()
		for _, e := range ss.gH1 {
			select {
			case <-e.done:
			case <-time.After(30 * time.Second):
				o.fail("h1-exchange-not-completed", false, "gated HTTP/1.1 exchange %s: no response 30 s after release", e.tag)
				continue
			}
			if e.err != nil || e.resp.Status != 200 || string(e.resp.Body) != "released:"+e.tag {
				o.fail("h1-exchange-not-completed", false, "gated HTTP/1.1 exchange %s in flight at cancel did not complete after release: resp=%+v err=%v", e.tag, e.resp, e.err)
			} else {
				o.add("h1_gated_detached_completed_after_release", 1)
			}
			if e.endAt.After(t0) {
				t0 = e.endAt
			}
		}
	}

	// ---- (1) Serve returns http.ErrServerClosed within the bound
	select {
	case <-sc.returned:
	case <-time.After(time.Until(t0.Add(bound))):
	}
	select {
	case <-sc.returned: // looked at alone: both cases above may have been ready
	default:
		late := "never (waited 6 s more)"
		select {
		case <-sc.returned:
			late = fmt.Sprintf("only after %.0f ms", sc.retAt.Sub(t0).Seconds()*1000)
		case <-time.After(6 * time.Second):
		}
		o.fail("serve-not-returned-in-bound", true, "Serve did not return within %v of the later of cancel / last HTTP/1.1 exchange end; returned %s; net/http states: new=%d active=%d idle=%d",
			bound, late, sc.st.count(http.StateNew), sc.st.count(http.StateActive), sc.st.count(http.StateIdle))
	}
	if sc.hasReturned() {
		o.returned = true
		o.latencyMs = sc.retAt.Sub(t0).Seconds() * 1000
		if o.latencyMs < 0 {
			o.latencyMs = 0
		}
		if errors.Is(sc.retErr, http.ErrServerClosed) {
			o.add("serve_returned_server_closed", 1)
		} else {
			o.fail("wrong-return-value", false, "Serve returned %v (%T), want http.ErrServerClosed", sc.retErr, sc.retErr)
		}
		open := 0
		for _, s := range append(append([]*rig.Session{}, ss.idleH2...), sessionsOf(ss.gH2)...) {
			if s.Peer != nil && !s.Peer.Ended() {
				open++
			}
		}
		o.add("h2_connections_still_open_when_serve_returned", int64(open))

		// ---- (2) the listening socket is closed
		c, err := net.DialTimeout("tcp", sc.addr, 3*time.Second)
		for try := 0; try < 3 && err != nil && !errors.Is(err, syscall.ECONNREFUSED); try++ {
			// e.g. a reset from a socket that was closing: ask again
			o.add("listener_probe_error: "+errKind(err), 1)
			time.Sleep(10 * time.Millisecond)
			c, err = net.DialTimeout("tcp", sc.addr, 3*time.Second)
		}
		switch {
		case err != nil && errors.Is(err, syscall.ECONNREFUSED):
			o.add("listener_refused_after_return", 1)
		case err != nil:
			o.add("listener_probe_undecided", 1)
		default:
			c.Close()
			// somebody listens on the port: the proxy's own socket, or a reused port?
			acc := make(chan error, 1)
			go func() {
				ac, err := sc.ln.Accept()
				if err == nil {
					ac.Close()
				}
				acc <- err
			}()
			select {
			case err := <-acc:
				if err == nil {
					o.fail("listener-open-after-return", false, "Serve returned %v but the listening socket still accepts connections", sc.retErr)
				} else {
					o.add("port_reused_by_someone_else", 1)
				}
			case <-time.After(2 * time.Second):
				o.fail("listener-open-after-return", false, "Serve returned %v but the listening socket is still open (Accept blocks, a TCP connect succeeds)", sc.retErr)
			}
		}
		for i := nNow; i < sp.AttPost; i++ {
			sc.launchAttempt("postreturn", i, true, 0, nil)
		}
		if sp.Mode == "ctx-twice" {
			sc.cancel() // once more, after everything is over
			o.add("cancels", 1)
			o.add("cancels_by_context", 1)
		}
	}

	// ---- (3) idle HTTP/1.1 connections are closed by the proxy
	for _, e := range append(append([]*exchange{}, ss.gH1...), ss.gH1Ctx...) {
		select {
		case <-e.done:
			if e.w != nil && e.err == nil {
				watchers = append(watchers, e.w)
			}
		default:
		}
	}
	deadline := t0.Add(bound)
	for _, w := range watchers {
		select {
		case <-w.done:
		case <-time.After(time.Until(deadline)):
		}
		select {
		case <-w.done:
			if w.closed {
				o.add("h1_idle_observed_closed", 1)
				o.add("h1_closed_"+strings.ReplaceAll(w.kind, " ", "_"), 1)
				continue
			}
		default:
		}
		o.fail("idle-h1-not-closed", true, "%s HTTP/1.1 connection still open %v after the later of cancel / last exchange end (Serve returned: %v)", w.kind, bound, sc.hasReturned())
	}

	// ---- (6) HTTP/2 is not waited for: release what is still held and count
	for _, e := range append(append([]*exchange{}, ss.gH2...), ss.gH2Ctx...) {
		select {
		case <-e.done:
			if e.err == nil {
				o.add(fmt.Sprintf("h2_gated_ended_before_release_status_%d", e.resp.Status), 1)
			} else {
				o.add("h2_gated_ended_before_release_error", 1)
			}
		default:
			if sc.hasReturned() {
				o.add("h2_exchanges_in_flight_when_serve_returned", 1)
			}
			e.g.open()
			select {
			case <-e.done:
				if e.err == nil && e.resp.Status == 200 {
					o.add("h2_gated_completed_after_serve_returned", 1)
				}
			case <-time.After(10 * time.Second):
			}
		}
	}
	closedStalled := 0
	for _, c := range sc.acct.Conns() {
		if c.Closed() {
			closedStalled++
		}
	}
	o.add("accepted_connections", int64(sc.acct.Accepted()))
	o.add("accepted_connections_closed_by_proxy_at_end", int64(closedStalled))

	// ---- (4) nothing attempted after the cancellation reaches the backend
	sc.attWG.Wait()
	sc.attMu.Lock()
	defer sc.attMu.Unlock()
	for _, a := range sc.attempts {
		recs := len(sc.be.Records(a.tag))
		if !a.judged {
			o.add("racing_attempts", 1)
			if recs > 0 {
				o.add("racing_attempts_served", 1)
			}
			continue
		}
		o.add("post_cancel_attempts", 1)
		switch {
		case a.result == "refused":
			o.add("post_cancel_refused", 1)
		case strings.HasPrefix(a.result, "dial-error"):
			o.add("post_cancel_dial_error", 1)
			o.add("post_cancel_"+a.result, 1)
		default:
			o.add("post_cancel_attempts_while_listener_open", 1)
			if recs == 0 {
				o.add("post_cancel_connected_not_served", 1)
				o.add("post_cancel_connected_"+strings.ReplaceAll(a.result, "-", "_"), 1)
			}
		}
		if a.result == "response" && recs == 0 {
			// an HTTP response came back on a connection that was attempted after the cancellation:
			// the proxy completed the handshake and answered, i.e. it served the connection (even if
			// the answer is its own 502/504)
			o.fail("post-cancel-connection-answered", false, "%s connection whose dial started %.1f ms after the cancel returned completed its handshake and got an HTTP response (status %d) from the proxy",
				a.proto, a.started.Sub(tCancel).Seconds()*1000, a.status)
		}
		if recs > 0 {
			o.fail("post-cancel-connection-served", false, "%s connection whose dial started %.1f ms after the cancel returned was served: request %s reached the backend (client saw: %s %d)",
				a.proto, a.started.Sub(tCancel).Seconds()*1000, a.tag, a.result, a.status)
		}
	}
	return
}

// errKind strips addresses from a dial error.
func errKind(err error) string {
	var se syscall.Errno
	if errors.As(err, &se) {
		return se.Error()
	}
	var ne net.Error
	if errors.As(err, &ne) && ne.Timeout() {
		return "timeout"
	}
	return "other"
}

func sessionsOf(es []*exchange) []*rig.Session {
	var out []*rig.Session
	for _, e := range es {
		out = append(out, e.sess)
	}
	return out
}

func (sc *scen) cleanup() {
	sc.mu.Lock()
	for _, g := range sc.gates {
		g.open()
	}
	sess, raws := sc.sessions, sc.raws
	sc.mu.Unlock()
	sc.attWG.Wait()
	for _, s := range sess {
		s.Close()
	}
	for _, c := range raws {
		c.Close()
	}
	sc.cancel()
	if sc.spec.Mode == "before-serve" {
		select {
		case <-sc.returned:
		default:
			// Serve may never have been started (setup failure)
			sc.ln.Close()
		}
	}
	select {
	case <-sc.returned:
	case <-time.After(3 * time.Second):
		// a proxy that does not stop: take it down so that later batches are not disturbed
		go sc.hs.Close()
		sc.ln.Close()
		select {
		case <-sc.returned:
		case <-time.After(5 * time.Second):
		}
	}
	sc.be.Close()
}
