//go:build verif

package main

import (
	"context"
	"crypto/tls"
	"fmt"
	"net"
	"net/http"
	"sync"
	"sync/atomic"
	"time"

	"github.com/wi1dcard/fingerproxy/pkg/proxyserver"

	"verif/internal/rig"
	"verif/internal/verdict"
)

// postCancelStorm: many servers whose context is cancelled BEFORE Serve is called, each raced by eight
// HTTP/2 clients that start dialling after the cancel. The listener is open while Serve winds down, so some
// of these connections are accepted; none of them may be answered. A cancelled handshake context does not
// guarantee that by itself (it interrupts only a handshake that is still waiting for I/O - defect D23), and
// the window is a few scheduler quanta, hence the repetition. Added after a 1-in-250 sighting in a sweep.
func postCancelStorm(run *verdict.Run) {
	cert := rig.Certs()
	var dials, hsok, answered int64
	var first atomic.Value
	rounds := run.Pick(3000, 24000)
	// 48 servers at a time: the interrupt of a cancelled handshake context is a goroutine that has to be
	// scheduled; it is late only when the processors are busy
	var pool sync.WaitGroup
	sem := make(chan struct{}, 48)
	for round := 0; round < rounds; round++ {
		pool.Add(1)
		sem <- struct{}{}
		go func(round int) {
			defer pool.Done()
			defer func() { <-sem }()
			stormRound(round, cert, &dials, &hsok, &answered, &first)
		}(round)
	}
	pool.Wait()
	run.Eval(int(dials))
	run.Distinct("post-cancel-storm")
	run.Add("storm_servers_cancelled_before_serve", int64(rounds))
	run.Add("storm_dials_after_cancel", dials)
	run.Add("storm_client_handshakes_completed_after_cancel", hsok)
	if answered > 0 {
		run.Violation("post-cancel-connection-answered", map[string]any{"mode": "before-serve storm", "rounds": rounds, "dials": dials, "answered": answered},
			"%d of %d connections dialled after the context was cancelled were answered; first: %s", answered, dials, first.Load())
	}
}

func stormRound(round int, cert *rig.CertSet, pdials, phsok, panswered *int64, first *atomic.Value) {
	{
		ctx, cancel := context.WithCancel(context.Background())
		srv := proxyserver.NewServer(ctx, http.HandlerFunc(func(w http.ResponseWriter, r *http.Request) { w.WriteHeader(204) }),
			&tls.Config{Certificates: []tls.Certificate{cert.RSA}, NextProtos: []string{"h2", "http/1.1"}})
		srv.TLSHandshakeTimeout = 5 * time.Second
		ln, err := net.Listen("tcp", "127.0.0.1:0")
		if err != nil {
			cancel()
			return
		}
		cancel()
		cancelled := time.Now()
		var wg sync.WaitGroup
		for k := 0; k < 8; k++ {
			wg.Add(1)
			go func(k int) {
				defer wg.Done()
				atomic.AddInt64(pdials, 1)
				started := time.Since(cancelled)
				s, err := rig.Dial(ln.Addr().String(), []string{"h2"}, nil, nil)
				if err != nil {
					return
				}
				defer s.Close()
				atomic.AddInt64(phsok, 1)
				if r, err := s.Do("GET", "/post-cancel", "front.example", nil, nil, 2*time.Second); err == nil && r != nil {
					if atomic.AddInt64(panswered, 1) == 1 {
						first.Store(fmt.Sprintf("round %d client %d: dial started %v after the context was cancelled (Serve not yet called); the HTTP/2 request was answered with status %d", round, k, started, r.Status))
					}
				}
			}(k)
		}
		done := make(chan error, 1)
		go func() { done <- srv.Serve(ln) }()
		wg.Wait()
		select {
		case <-done:
		case <-time.After(10 * time.Second):
		}
		ln.Close()
	}
}
