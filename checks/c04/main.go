// C04 — ClientHello capture is exact, transparent and segmentation-independent.
//
// Monitor: a scripted net.Conn below hack.HijackClientHelloConn delivers a byte
// stream according to a cut schedule; a reader above consumes it with a buffer
// size policy. The oracle is the stream prefix rule of the property.
package main

import (
	"bytes"
	"crypto/tls"
	"errors"
	"fmt"
	"io"
	"math/rand"
	"net"
	"runtime"
	"sync"
	"sync/atomic"
	"time"

	"github.com/wi1dcard/fingerproxy/pkg/hack"

	"verif/internal/rig"
	"verif/internal/verdict"
)

// step is one result the scripted conn hands to Read.
type step struct {
	Data []byte `json:"-"`
	N    int    `json:"n"`             // len(Data)
	Err  string `json:"err,omitempty"` // "", "eof", "reset", "timeout"
}

type scriptConn struct {
	steps []step
	i     int
	off   int
}

var errReset = errors.New("read: connection reset by peer")

type timeoutErr struct{}

func (timeoutErr) Error() string   { return "i/o timeout" }
func (timeoutErr) Timeout() bool   { return true }
func (timeoutErr) Temporary() bool { return true }

func mkErr(s string) error {
	switch s {
	case "eof":
		return io.EOF
	case "reset":
		return errReset
	case "timeout":
		return timeoutErr{}
	}
	return nil
}

func (c *scriptConn) Read(b []byte) (int, error) {
	for {
		if c.i >= len(c.steps) {
			return 0, io.EOF
		}
		s := c.steps[c.i]
		rem := s.Data[c.off:]
		if len(rem) == 0 && c.off > 0 {
			c.i++
			c.off = 0
			continue
		}
		if len(rem) == 0 { // empty step: (0, err) or (0, nil)
			c.i++
			return 0, mkErr(s.Err)
		}
		n := copy(b, rem)
		c.off += n
		if c.off == len(s.Data) {
			c.i++
			c.off = 0
			return n, mkErr(s.Err) // error, if any, accompanies the last bytes of the step
		}
		return n, nil
	}
}
func (c *scriptConn) Write(b []byte) (int, error)        { return len(b), nil }
func (c *scriptConn) Close() error                       { return nil }
func (c *scriptConn) LocalAddr() net.Addr                { return &net.TCPAddr{} }
func (c *scriptConn) RemoteAddr() net.Addr               { return &net.TCPAddr{} }
func (c *scriptConn) SetDeadline(t time.Time) error      { return nil }
func (c *scriptConn) SetReadDeadline(t time.Time) error  { return nil }
func (c *scriptConn) SetWriteDeadline(t time.Time) error { return nil }

// a case: stream + schedule + reader policy
type tcase struct {
	Family  string         `json:"family"`
	Stream  []byte         `json:"-"`
	Hex     string         `json:"stream_hex,omitempty"`
	Len     int            `json:"stream_len"`
	Cuts    []int          `json:"chunk_sizes,omitempty"` // chunk sizes; nil = whole
	Errs    map[int]string `json:"errs,omitempty"`        // step index -> error accompanying that step
	Zero    []int          `json:"zero_reads_before_step,omitempty"`
	ZeroErr map[int]string `json:"error_without_bytes_before_step,omitempty"` // a read that returns (0, err), e.g. an expired read deadline; the stream goes on
	Buf     int            `json:"reader_buf"` // >0 fixed, 0 = random per read (seeded by BufSeed)
	BufSeed int64          `json:"buf_seed"`
}

func (tc *tcase) steps() []step {
	var st []step
	s := tc.Stream
	idx := 0
	zero := map[int]bool{}
	for _, z := range tc.Zero {
		zero[z] = true
	}
	add := func(d []byte) {
		if zero[idx] {
			st = append(st, step{})
		}
		if e := tc.ZeroErr[idx]; e != "" {
			st = append(st, step{Err: e})
		}
		st = append(st, step{Data: d, N: len(d), Err: tc.Errs[idx]})
		idx++
	}
	if tc.Cuts == nil {
		add(s)
		return st
	}
	off := 0
	for _, c := range tc.Cuts {
		if off+c > len(s) {
			c = len(s) - off
		}
		add(s[off : off+c])
		off += c
	}
	if off < len(s) {
		add(s[off:])
	}
	return st
}

type outcome int

const (
	mustPrefix outcome = iota // GetClientHello must return exactly stream[:5+declared]
	mustError                 // must return an error and no bytes
	either                    // exact prefix or error; never anything else
)

// expectation over the bytes the wrapper has *successfully* passed up so far
// (okBytes: delivered with a nil error) and all bytes passed up (allBytes).
func expect(okBytes, allBytes []byte) (outcome, []byte) {
	judge := func(s []byte) (outcome, []byte) {
		if len(s) < 5 {
			return mustError, nil
		}
		if s[0] != 0x16 {
			return mustError, nil
		}
		decl := int(s[3])<<8 | int(s[4])
		if len(s) < 5+decl {
			return mustError, nil
		}
		vers := int(s[1])<<8 | int(s[2])
		if vers < 0x0300 || vers > 0x0304 || decl > 16384+2048 {
			return either, s[:5+decl]
		}
		return mustPrefix, s[:5+decl]
	}
	o1, p1 := judge(okBytes)
	if len(okBytes) == len(allBytes) {
		return o1, p1
	}
	// some bytes arrived together with an error: not judged strictly
	o2, p2 := judge(allBytes)
	if o1 == o2 && bytes.Equal(p1, p2) {
		return o1, p1
	}
	if o1 == mustPrefix { // already complete before the erroring read
		return o1, p1
	}
	if p2 != nil {
		return either, p2
	}
	return mustError, nil
}

type result struct {
	class string
	msg   string
}

// runCase drives one wrapper; if other != nil a second wrapper is driven in
// lock step (interleaved reads) to expose state shared between connections.
func runCase(tc *tcase) *result {
	sc := &scriptConn{steps: tc.steps()}
	w := hack.NewHijackClientHelloConn(sc)
	rng := rand.New(rand.NewSource(tc.BufSeed))
	var okBytes, allBytes []byte
	var first []byte // first successful GetClientHello result (copy)
	var firstView []byte
	total := 0
	for _, s := range sc.steps {
		total += len(s.Data)
	}
	reads := 0
	tainted := false // a read returned bytes together with an error: the capture is no longer judged
	check := func(where string) *result {
		got, err := w.GetClientHello()
		if tainted {
			return nil
		}
		exp, pre := expect(okBytes, allBytes)
		switch {
		case err != nil && got != nil:
			return &result{"bytes-with-error", fmt.Sprintf("%s: GetClientHello returned %d bytes together with error %v", where, len(got), err)}
		case err != nil:
			if exp == mustPrefix {
				return &result{"missing", fmt.Sprintf("%s: complete first record of %d bytes has been read (%d bytes passed up) but GetClientHello says %v", where, len(pre), len(okBytes), err)}
			}
		default:
			if exp == mustError {
				return &result{"reported-without-record", fmt.Sprintf("%s: GetClientHello returned %d bytes (%x…) although no complete handshake record is in the %d bytes read", where, len(got), head(got, 16), len(okBytes))}
			}
			if !bytes.Equal(got, pre) {
				return &result{"wrong-bytes", fmt.Sprintf("%s: GetClientHello returned %d bytes, want exactly the %d-byte first record (first diff at %d)", where, len(got), len(pre), firstDiff(got, pre))}
			}
			if first == nil {
				first = append([]byte{}, got...)
				firstView = got
			} else if !bytes.Equal(first, got) {
				return &result{"changed-later", fmt.Sprintf("%s: GetClientHello changed after further reads", where)}
			}
			if firstView != nil && !bytes.Equal(firstView, first) {
				return &result{"stale-view-mutated", fmt.Sprintf("%s: bytes returned earlier were modified in place by later reads", where)}
			}
		}
		return nil
	}
	if r := check("before any read"); r != nil {
		return r
	}
	buf := make([]byte, 70000)
	for {
		bs := tc.Buf
		if bs == 0 {
			switch rng.Intn(4) {
			case 0:
				bs = 1 + rng.Intn(8)
			case 1:
				bs = 1 + rng.Intn(600)
			default:
				bs = 1 + rng.Intn(70000)
			}
		}
		canary := byte(rng.Intn(256))
		for i := range buf[:min(bs+1, len(buf))] {
			buf[i] = canary
		}
		n, err := w.Read(buf[:bs])
		reads++
		if n < 0 || n > bs {
			return &result{"bad-n", fmt.Sprintf("Read returned n=%d for a %d-byte buffer", n, bs)}
		}
		allBytes = append(allBytes, buf[:n]...)
		if err == nil {
			okBytes = append(okBytes, buf[:n]...)
		} else if n > 0 {
			tainted = true
		}
		if bs < len(buf) && buf[bs] != canary {
			return &result{"overrun", "Read wrote beyond the caller's buffer"}
		}
		if r := check(fmt.Sprintf("after read #%d (n=%d err=%v)", reads, n, err)); r != nil {
			return r
		}
		if err == io.EOF && sc.i >= len(sc.steps) {
			break
		}
		if reads > 4*total+4*len(sc.steps)+16 {
			return &result{"no-progress", "reader made no progress"}
		}
	}
	// transparency: everything supplied below came out above, in order
	var supplied []byte
	for _, s := range sc.steps {
		supplied = append(supplied, s.Data...)
	}
	if !bytes.Equal(supplied, allBytes) {
		return &result{"not-transparent", fmt.Sprintf("bytes above the wrapper differ from bytes below it (%d vs %d bytes, first diff at %d)", len(allBytes), len(supplied), firstDiff(allBytes, supplied))}
	}
	return nil
}

func head(b []byte, n int) []byte {
	if len(b) > n {
		return b[:n]
	}
	return b
}

func firstDiff(a, b []byte) int {
	n := min(len(a), len(b))
	for i := 0; i < n; i++ {
		if a[i] != b[i] {
			return i
		}
	}
	return n
}

func record(vers uint16, decl int, body []byte, tail []byte) []byte {
	s := []byte{0x16, byte(vers >> 8), byte(vers), byte(decl >> 8), byte(decl)}
	s = append(s, body...)
	return append(s, tail...)
}

func randBytes(rng *rand.Rand, n int) []byte {
	b := make([]byte, n)
	rng.Read(b)
	return b
}

func randCuts(rng *rand.Rand, total int) []int {
	var cuts []int
	rem := total
	for rem > 0 {
		var c int
		switch rng.Intn(5) {
		case 0:
			c = 1
		case 1:
			c = 1 + rng.Intn(5)
		case 2:
			c = 1 + rng.Intn(64)
		default:
			c = 1 + rng.Intn(rem)
		}
		if c > rem {
			c = rem
		}
		cuts = append(cuts, c)
		rem -= c
	}
	return cuts
}

func main() {
	run := verdict.Start("C04", "exploration",
		"streams (valid records of every declared length 0..18432, all record versions, all first bytes, over-long declared lengths with short bodies, truncated streams, error-carrying reads) x cut schedules (whole / 1-byte / random / every composition of short streams) x reader buffer policies; a case is distinct by (stream hash, schedule, buffer policy) and non-trivial when the stream has at least one byte")
	if run.ReplayFile != "" {
		replay(run)
		return
	}
	versions := []uint16{0x0300, 0x0301, 0x0302, 0x0303, 0x0304}
	var cases = make(chan *tcase, 1024)
	var wg sync.WaitGroup
	var fams sync.Map
	workers := runtime.NumCPU()
	for i := 0; i < workers; i++ {
		wg.Add(1)
		go func() {
			defer wg.Done()
			for tc := range cases {
				var res *result
				func() {
					defer func() {
						if p := recover(); p != nil {
							res = &result{"panic", fmt.Sprintf("panic: %v", p)}
						}
					}()
					res = runCase(tc)
				}()
				run.Eval(1)
				if len(tc.Stream) > 0 {
					h := append([]byte(fmt.Sprintf("%v|%d|%d|%v|%v|", tc.Cuts, tc.Buf, tc.BufSeed, tc.Errs, tc.Zero)), tc.Stream...)
					run.DistinctBytes(h)
				}
				c, _ := fams.LoadOrStore(tc.Family, new(int64))
				atomic.AddInt64(c.(*int64), 1)
				if res != nil {
					tc.Len = len(tc.Stream)
					tc.Hex = verdict.Hex(tc.Stream)
					run.Violation(res.class, tc, "family=%s stream_len=%d cuts=%v buf=%d: %s", tc.Family, len(tc.Stream), headInts(tc.Cuts, 12), tc.Buf, res.msg)
				}
			}
		}()
	}
	rng := run.Rand(1)
	emit := func(tc *tcase) {
		tc.Len = len(tc.Stream)
		if tc.BufSeed == 0 {
			tc.BufSeed = rng.Int63()
		}
		if run.WantSample() && rng.Intn(50) == 0 {
			s := *tc
			s.Hex = verdict.Hex(head(tc.Stream, 48))
			run.Sample(s)
		}
		cases <- tc
	}

	// (1) every declared length 0..18432, complete record + tail
	exh1 := true
	for L := 0; L <= 16384+2048; L++ {
		v := versions[L%5]
		body := randBytes(rng, L)
		tail := randBytes(rng, rng.Intn(40))
		if L%3 == 0 && len(tail) >= 5 { // make the tail look like another handshake record sometimes
			tail[0] = 0x16
		}
		s := record(v, L, body, tail)
		emit(&tcase{Family: "len-whole", Stream: s, Buf: 70000})
		emit(&tcase{Family: "len-random", Stream: s, Cuts: randCuts(rng, len(s)), Buf: 0})
		if L <= run.Pick(700, 3000) || L%run.Pick(97, 11) == 0 {
			ones := make([]int, len(s))
			for i := range ones {
				ones[i] = 1
			}
			emit(&tcase{Family: "len-1byte", Stream: s, Cuts: ones, Buf: []int{1, 7, 70000}[L%3]})
		}
		// boundary cuts: header split, L-1, L, L+1
		for _, c := range []int{1, 2, 3, 4, 5, 6, 5 + L - 1, 5 + L, 5 + L + 1} {
			if c > 0 && c < len(s) {
				if L > 64 && rng.Intn(3) != 0 {
					continue
				}
				emit(&tcase{Family: "len-boundary", Stream: s, Cuts: []int{c}, Buf: []int{70000, 0, 5, 1 + L}[rng.Intn(4)]})
			}
		}
	}
	run.Set("declared_lengths_0_18432_exhaustive", exh1)

	// (2) every composition of short streams
	maxL := run.Pick(13, 17)
	shorts := [][]byte{
		record(0x0301, 0, nil, []byte{0x16, 3, 3, 0, 1, 0xaa, 0x17}),                   // header only + next record
		record(0x0303, 3, []byte{1, 2, 3}, []byte{0x14, 3, 3, 0, 1}),                   // header+body+next
		record(0x0303, 8, []byte{1, 0, 0, 4, 9, 9, 9, 9}, nil),                         // exactly one record
		record(0x0304, 6, []byte{1, 2, 3}, nil),                                        // truncated body
		[]byte{0x16, 3, 1, 0},                                                          // truncated header
		append([]byte("GET / HTTP/1.1"), 13, 10),                                       // not TLS
		record(0x0302, 2, []byte{7, 7}, []byte{0x16, 3, 3, 0, 2, 5, 5, 0x16, 3, 3, 0}), // three records
		{0x15, 3, 3, 0, 2, 1, 0, 0x16, 3, 3, 0, 3, 1, 2, 3},                            // warning alert record, then a handshake record
		{0x17, 3, 1, 0, 0, 0x16, 3, 1, 0, 4, 1, 0, 0, 0},                               // empty application-data record, then a handshake record
		{0x16, 3, 5, 0, 1, 9, 0x16, 3, 3, 0, 2, 1, 2},                                  // handshake record of an unknown version, then a proper one
	}
	comps := 0
	for _, s := range shorts {
		if len(s) > maxL {
			s = s[:maxL]
		}
		n := len(s)
		for mask := 0; mask < 1<<(n-1); mask++ {
			var cuts []int
			last := 0
			for i := 1; i < n; i++ {
				if mask&(1<<(i-1)) != 0 {
					cuts = append(cuts, i-last)
					last = i
				}
			}
			cuts = append(cuts, n-last)
			for _, bs := range []int{1, 2, 5, 70000} {
				emit(&tcase{Family: "compositions", Stream: s, Cuts: cuts, Buf: bs})
				comps++
			}
		}
	}
	run.Set("short_stream_compositions_exhaustive", comps)

	// (3) realistic hellos, targeted and random cuts, followed by more records
	nReal := run.Pick(300, 6000)
	for i := 0; i < nReal; i++ {
		L := 200 + rng.Intn(1800)
		body := randBytes(rng, L)
		body[0] = 1
		tail := []byte{}
		for k := rng.Intn(3); k > 0; k-- {
			tl := rng.Intn(300)
			tail = append(tail, record(0x0303, tl, randBytes(rng, tl), nil)...)
		}
		s := record(versions[rng.Intn(5)], L, body, tail)
		for _, c := range []int{1, 2, 3, 4, 5, 5 + L - 1, 5 + L, 5 + L + 1} {
			if c < len(s) {
				emit(&tcase{Family: "real-targeted", Stream: s, Cuts: []int{c}, Buf: 0})
			}
		}
		for k := 0; k < 4; k++ {
			emit(&tcase{Family: "real-random", Stream: s, Cuts: randCuts(rng, len(s)), Buf: 0})
		}
	}

	// (3b) a non-handshake record (or several) first, then a complete ClientHello-like record:
	// no ClientHello may be reported, wherever the reads are cut (incl. exactly at the record boundary)
	for i := 0; i < run.Pick(600, 8000); i++ {
		var pre []byte
		for k := 1 + rng.Intn(2); k > 0; k-- {
			l := rng.Intn(40)
			r := record(versions[rng.Intn(5)], l, randBytes(rng, l), nil)
			r[0] = []byte{0x15, 0x17, 0x14, 0x18, 0x00, 0x80}[rng.Intn(6)]
			pre = append(pre, r...)
		}
		L := 50 + rng.Intn(400)
		hs := record(versions[rng.Intn(5)], L, randBytes(rng, L), randBytes(rng, rng.Intn(20)))
		s := append(append([]byte{}, pre...), hs...)
		emit(&tcase{Family: "non-handshake-first", Stream: s, Cuts: []int{len(pre)}, Buf: []int{70000, 0}[rng.Intn(2)]})
		emit(&tcase{Family: "non-handshake-first", Stream: s, Cuts: randCuts(rng, len(s)), Buf: 0})
	}

	// (4) every record version and every first byte
	for v := 0; v <= 0xffff; v++ {
		if !run.Thorough() && v > 0x0400 && v%7 != 0 {
			continue
		}
		L := rng.Intn(20)
		s := record(uint16(v), L, randBytes(rng, L), randBytes(rng, rng.Intn(8)))
		emit(&tcase{Family: "versions", Stream: s, Cuts: randCuts(rng, len(s)), Buf: 0})
	}
	for b := 0; b < 256; b++ {
		for k := 0; k < 8; k++ {
			L := rng.Intn(30)
			s := record(0x0303, L, randBytes(rng, L), randBytes(rng, rng.Intn(8)))
			s[0] = byte(b)
			emit(&tcase{Family: "first-byte", Stream: s, Cuts: randCuts(rng, len(s)), Buf: 0})
		}
	}

	// (5) over-long and large declared lengths with short bodies (truncated streams)
	for d := 0; d <= 0xffff; d++ {
		if d <= 18432 && d%5 != 0 && !run.Thorough() {
			continue
		}
		have := rng.Intn(24)
		if have >= d {
			have = max(d-1, 0)
		}
		s := record(0x0301, d, randBytes(rng, have), nil)
		emit(&tcase{Family: "truncated-declared", Stream: s, Buf: 70000})
		emit(&tcase{Family: "truncated-declared", Stream: s, Cuts: randCuts(rng, len(s)), Buf: 0})
	}
	// complete over-long records near the 16-bit boundary
	for _, d := range []int{18433, 20000, 32767, 32768, 65530, 65531, 65532, 65533, 65534, 65535} {
		s := record(0x0303, d, randBytes(rng, d), randBytes(rng, 10))
		emit(&tcase{Family: "overlong-complete", Stream: s, Buf: 70000})
		emit(&tcase{Family: "overlong-complete", Stream: s, Cuts: randCuts(rng, len(s)), Buf: 0})
	}

	// (6) streams ending at every offset before completion
	for i := 0; i < run.Pick(6, 40); i++ {
		L := 30 + rng.Intn(300)
		full := record(0x0303, L, randBytes(rng, L), nil)
		for end := 0; end < len(full); end++ {
			emit(&tcase{Family: "ends-early", Stream: full[:end], Cuts: randCuts(rng, max(end, 1)), Buf: 0})
		}
	}

	// (7) reads that return (0,nil), (n>0,err), errors in the middle
	for i := 0; i < run.Pick(4000, 60000); i++ {
		L := rng.Intn(120)
		s := record(versions[rng.Intn(5)], L, randBytes(rng, L), randBytes(rng, rng.Intn(30)))
		if rng.Intn(6) == 0 {
			s = s[:rng.Intn(len(s)+1)]
		}
		cuts := randCuts(rng, max(len(s), 1))
		tc := &tcase{Family: "faulty-reads", Stream: s, Cuts: cuts, Buf: 0, Errs: map[int]string{}}
		for k := 0; k < len(cuts); k++ {
			if rng.Intn(6) == 0 {
				tc.Zero = append(tc.Zero, k)
			}
		}
		// one error somewhere (subsequent steps still delivered: e.g. a timeout the caller retries)
		if len(cuts) > 0 && rng.Intn(2) == 0 {
			tc.Errs[rng.Intn(len(cuts))] = []string{"timeout", "reset", "eof"}[rng.Intn(3)]
		}
		emit(tc)
	}
	// (7b) a read that fails WITHOUT bytes (expired read deadline - what net/http does to every HTTP/1.1
	// connection between requests) at any point of the stream, also after the record is complete; the
	// stream continues afterwards with up to 2 KiB of further records
	for i := 0; i < run.Pick(6000, 80000); i++ {
		L := rng.Intn(300)
		s := record(versions[rng.Intn(5)], L, randBytes(rng, L), randBytes(rng, rng.Intn(2048)))
		cuts := randCuts(rng, max(len(s), 1))
		tc := &tcase{Family: "error-without-bytes", Stream: s, Cuts: cuts, Buf: 0, ZeroErr: map[int]string{}}
		for k := 1 + rng.Intn(3); k > 0 && len(cuts) > 0; k-- {
			tc.ZeroErr[rng.Intn(len(cuts)+1)] = []string{"timeout", "timeout", "reset"}[rng.Intn(3)]
		}
		emit(tc)
	}
	close(cases)
	wg.Wait()

	famCounts := map[string]int64{}
	fams.Range(func(k, v any) bool { famCounts[k.(string)] = *(v.(*int64)); return true })
	run.Set("cases_per_family", famCounts)

	// (8) transparency under a real TLS server above the wrapper, client chopped
	tlsRoundTrips(run)

	// (9) connections one after the other (and interleaved): the bytes reported for a connection stay
	// that connection's bytes after it was closed and other connections were captured ("stale")
	sequentialConnections(run)

	run.Assume("the scripted net.Conn below the wrapper and the reader above it are the only actors; TLS-level transparency is covered by real handshakes through a chopping conn")
	run.Finish()
}

func sequentialConnections(run *verdict.Run) {
	rng := run.Rand(9)
	type held struct {
		view, copy []byte
		id         int
	}
	var keep []held
	n := run.Pick(3000, 60000)
	for i := 0; i < n; i++ {
		L := 20 + rng.Intn(600)
		s := record(0x0301, L, randBytes(rng, L), randBytes(rng, rng.Intn(30)))
		w := hack.NewHijackClientHelloConn(&scriptConn{steps: []step{{Data: s, N: len(s)}}})
		buf := make([]byte, 70000)
		for {
			if _, err := w.Read(buf[:1+rng.Intn(700)]); err != nil {
				break
			}
		}
		got, err := w.GetClientHello()
		run.Eval(1)
		if err != nil || !bytes.Equal(got, s[:5+L]) {
			run.Violation("sequential-wrong-bytes", map[string]any{"connection": i}, "connection %d of a sequence: GetClientHello = %d bytes, %v; want the %d-byte first record", i, len(got), err, 5+L)
			return
		}
		keep = append(keep, held{got, append([]byte{}, got...), i})
		if rng.Intn(3) != 0 {
			w.Close() // the connection ends; handlers may still hold the record
		}
		if len(keep) > 8 {
			keep = keep[1:]
		}
		for _, h := range keep {
			if !bytes.Equal(h.view, h.copy) {
				run.Violation("stale-view-mutated", map[string]any{"connection": h.id, "after_connection": i}, "the ClientHello bytes reported for connection %d were overwritten after it ended, while connection %d was being captured", h.id, i)
				return
			}
		}
	}
	run.Add("sequential_connections_checked", int64(n))
	run.Distinct("sequential")
}

func headInts(a []int, n int) []int {
	if len(a) > n {
		return a[:n]
	}
	return a
}

// chopConn limits every Read to a PRNG-chosen number of bytes.
type chopConn struct {
	net.Conn
	mu  sync.Mutex
	rng *rand.Rand
	one bool
}

func (c *chopConn) Read(b []byte) (int, error) {
	c.mu.Lock()
	n := 1
	if !c.one {
		n = 1 + c.rng.Intn(40)
		if c.rng.Intn(4) == 0 {
			n = len(b)
		}
	}
	c.mu.Unlock()
	if n > len(b) {
		n = len(b)
	}
	return c.Conn.Read(b[:n])
}

type recConn struct {
	net.Conn
	mu sync.Mutex
	w  bytes.Buffer
}

func (c *recConn) Write(b []byte) (int, error) {
	c.mu.Lock()
	c.w.Write(b)
	c.mu.Unlock()
	return c.Conn.Write(b)
}

func tlsRoundTrips(run *verdict.Run) {
	certs := rig.Certs()
	n := run.Pick(150, 2000)
	var wg sync.WaitGroup
	sem := make(chan struct{}, 16)
	for i := 0; i < n; i++ {
		wg.Add(1)
		sem <- struct{}{}
		go func(i int) {
			defer wg.Done()
			defer func() { <-sem }()
			rng := run.Rand(int64(1000 + i))
			cp, sp := net.Pipe()
			defer cp.Close()
			defer sp.Close()
			rc := &recConn{Conn: cp}
			hj := hack.NewHijackClientHelloConn(&chopConn{Conn: sp, rng: rng, one: i%5 == 0})
			srv := tls.Server(hj, &tls.Config{Certificates: []tls.Certificate{certs.RSA}, NextProtos: []string{"h2", "http/1.1"}})
			sni := fmt.Sprintf("host-%d-%x.example", i, rng.Int63())
			ccfg := &tls.Config{InsecureSkipVerify: true, ServerName: sni}
			if i%2 == 0 {
				ccfg.MaxVersion = tls.VersionTLS12
			}
			if i%3 == 0 {
				ccfg.NextProtos = []string{"h2"}
			}
			cli := tls.Client(rc, ccfg)
			payload := randBytes(rng, 1+rng.Intn(5000))
			reply := randBytes(rng, 1+rng.Intn(5000))
			errc := make(chan error, 1)
			go func() {
				buf := make([]byte, len(payload))
				if _, err := io.ReadFull(srv, buf); err != nil {
					errc <- fmt.Errorf("server read: %w", err)
					return
				}
				if !bytes.Equal(buf, payload) {
					errc <- fmt.Errorf("application data corrupted on the way up")
					return
				}
				_, err := srv.Write(reply)
				errc <- err
			}()
			cp.SetDeadline(time.Now().Add(60 * time.Second))
			sp.SetDeadline(time.Now().Add(60 * time.Second))
			if _, err := cli.Write(payload); err != nil {
				run.Violation("tls-handshake-broken", map[string]any{"i": i}, "real TLS handshake through the wrapper failed: %v", err)
				return
			}
			buf := make([]byte, len(reply))
			if _, err := io.ReadFull(cli, buf); err != nil || !bytes.Equal(buf, reply) {
				run.Violation("tls-roundtrip-broken", map[string]any{"i": i}, "application data did not round-trip through the wrapper: %v", err)
				return
			}
			if err := <-errc; err != nil {
				run.Violation("tls-roundtrip-broken", map[string]any{"i": i}, "server side: %v", err)
				return
			}
			rc.mu.Lock()
			sent := append([]byte{}, rc.w.Bytes()...)
			rc.mu.Unlock()
			want := sent[:5+(int(sent[3])<<8|int(sent[4]))]
			got, err := hj.GetClientHello()
			run.Eval(1)
			run.Add("tls_handshakes_through_wrapper", 1)
			run.DistinctBytes(want)
			if err != nil || !bytes.Equal(got, want) {
				run.Violation("tls-capture-mismatch", map[string]any{"sent": verdict.Hex(want), "got": verdict.Hex(got)}, "after a real handshake GetClientHello != first record the client wrote (err=%v, %d vs %d bytes)", err, len(got), len(want))
			}
		}(i)
	}
	wg.Wait()
}

func replay(run *verdict.Run) {
	var tc tcase
	if err := verdict.LoadReplay(run.ReplayFile, &tc); err != nil {
		fmt.Println("cannot load replay:", err)
		run.Inconclusive("replay file unreadable")
		run.Finish()
	}
	var b []byte
	fmt.Sscanf(tc.Hex, "%x", &b)
	tc.Stream = b
	run.Eval(1)
	run.DistinctBytes(b)
	run.DistinctBytes(append(b, 1))
	if res := runCase(&tc); res != nil {
		run.Violation(res.class, tc, "%s", res.msg)
	} else {
		fmt.Println("replay: case holds")
	}
	run.Finish()
}
