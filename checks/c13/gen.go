package main

// The frame alphabet (every type in valid form and with each listed defect),
// the exhaustive (stream state x variant x load) enumeration, and the random /
// legal-only sequence generators.

import (
	"encoding/binary"
	"fmt"
	"math/rand"
	"strconv"
	"time"

	"golang.org/x/net/http2/hpack"

	"verif/internal/h2peer"
)

const (
	fES   = 0x1  // END_STREAM
	fEH   = 0x4  // END_HEADERS
	fPAD  = 0x8  // PADDED
	fPRIO = 0x20 // PRIORITY
)

func u32(v uint32) []byte { b := make([]byte, 4); binary.BigEndian.PutUint32(b, v); return b }

func setting(id uint16, val uint32) []byte {
	b := make([]byte, 6)
	binary.BigEndian.PutUint16(b, id)
	binary.BigEndian.PutUint32(b[2:], val)
	return b
}

func cat(bs ...[]byte) []byte {
	var out []byte
	for _, b := range bs {
		out = append(out, b...)
	}
	return out
}

func hf(n, v string) hpack.HeaderField { return hpack.HeaderField{Name: n, Value: v} }

// reqFields: a well-formed request; every scripted request carries x-sid.
func reqFields(sid uint32, method string, cl int, mode string) []hpack.HeaderField {
	f := []hpack.HeaderField{hf(":method", method), hf(":scheme", "https"), hf(":authority", "c13.test"), hf(":path", "/s/"+strconv.Itoa(int(sid)))}
	if cl >= 0 {
		f = append(f, hf("content-length", strconv.Itoa(cl)))
	}
	if mode != "" {
		f = append(f, hf("x-mode", mode))
	}
	return append(f, hf("x-sid", strconv.Itoa(int(sid))))
}

func block(fields []hpack.HeaderField) []byte { return h2peer.LiteralBlock(fields) }

func getES(sid uint32) []byte {
	return h2peer.RawFrame(1, fES|fEH, sid, block(reqFields(sid, "GET", -1, "")))
}

func postOpen(sid uint32, cl int, mode string) []byte {
	return h2peer.RawFrame(1, fEH, sid, block(reqFields(sid, "POST", cl, mode)))
}

func xsid(sid uint32) hpack.HeaderField { return hf("x-sid", strconv.Itoa(int(sid))) }

type variant struct {
	name  string
	build func(T uint32) [][]byte
}

func one(f []byte) [][]byte { return [][]byte{f} }

func malformed(name string, fields func(T uint32) []hpack.HeaderField) variant {
	return variant{"req-" + name, func(T uint32) [][]byte {
		return one(h2peer.RawFrame(1, fES|fEH, T, block(append(fields(T), xsid(T)))))
	}}
}

func zeros(n int) []byte { return make([]byte, n) }

var variants = []variant{
	// ---- HEADERS
	{"headers-valid-es", func(T uint32) [][]byte { return one(getES(T)) }},
	{"headers-valid-open", func(T uint32) [][]byte { return one(postOpen(T, -1, "")) }},
	{"headers-cont-split", func(T uint32) [][]byte {
		b := block(reqFields(T, "GET", -1, ""))
		return [][]byte{h2peer.RawFrame(1, fES, T, b[:5]), h2peer.RawFrame(9, 0, T, b[5:11]), h2peer.RawFrame(9, fEH, T, b[11:])}
	}},
	{"headers-padded-prio", func(T uint32) [][]byte {
		b := block(reqFields(T, "GET", -1, ""))
		return one(h2peer.RawFrame(1, fES|fEH|fPAD|fPRIO, T, cat([]byte{7}, u32(0), []byte{200}, b, zeros(7))))
	}},
	{"headers-connect", func(T uint32) [][]byte {
		return one(h2peer.RawFrame(1, fEH, T, block([]hpack.HeaderField{hf(":method", "CONNECT"), hf(":authority", "c13.test:443"), xsid(T)})))
	}},
	{"headers-stream0", func(T uint32) [][]byte {
		return one(h2peer.RawFrame(1, fES|fEH, 0, block(reqFields(T, "GET", -1, ""))))
	}},
	{"headers-even-id", func(T uint32) [][]byte { return one(getES(T + 1)) }},
	{"headers-lower-id", func(T uint32) [][]byte { return one(getES(1)) }},
	{"headers-pad-too-long", func(T uint32) [][]byte {
		b := block(reqFields(T, "GET", -1, ""))
		return one(h2peer.RawFrame(1, fES|fEH|fPAD, T, cat([]byte{byte(len(b) + 1)}, b)))
	}},
	{"headers-padded-empty", func(T uint32) [][]byte { return one(h2peer.RawFrame(1, fES|fEH|fPAD, T, nil)) }},
	{"headers-prio-short", func(T uint32) [][]byte { return one(h2peer.RawFrame(1, fES|fEH|fPRIO, T, []byte{0, 0, 0})) }},
	{"headers-self-dependency", func(T uint32) [][]byte {
		return one(h2peer.RawFrame(1, fES|fEH|fPRIO, T, cat(u32(T), []byte{16}, block(reqFields(T, "GET", -1, "")))))
	}},
	{"headers-no-eh-then-ping", func(T uint32) [][]byte {
		b := block(reqFields(T, "GET", -1, ""))
		return [][]byte{h2peer.RawFrame(1, fES, T, b[:9]), h2peer.RawFrame(6, 0, 0, []byte("c13ping!"))}
	}},
	{"headers-no-eh-then-cont-other-stream", func(T uint32) [][]byte {
		b := block(reqFields(T, "GET", -1, ""))
		return [][]byte{h2peer.RawFrame(1, fES, T, b[:9]), h2peer.RawFrame(9, fEH, T+2, b[9:])}
	}},
	{"headers-no-eh-then-data", func(T uint32) [][]byte {
		b := block(reqFields(T, "POST", -1, ""))
		return [][]byte{h2peer.RawFrame(1, 0, T, b[:9]), h2peer.RawFrame(0, 0, T, []byte("abc"))}
	}},
	{"headers-no-eh-then-headers", func(T uint32) [][]byte {
		b := block(reqFields(T, "GET", -1, ""))
		return [][]byte{h2peer.RawFrame(1, fES, T, b[:9]), getES(T + 2)}
	}},
	{"headers-oversize", func(T uint32) [][]byte {
		return one(h2peer.RawFrame(1, fES|fEH|fPAD, T, cat([]byte{255}, block(reqFields(T, "GET", -1, "")), zeros(16385))))
	}},
	malformed("missing-method", func(T uint32) []hpack.HeaderField {
		return []hpack.HeaderField{hf(":scheme", "https"), hf(":authority", "c13.test"), hf(":path", "/")}
	}),
	malformed("missing-path", func(T uint32) []hpack.HeaderField {
		return []hpack.HeaderField{hf(":method", "GET"), hf(":scheme", "https"), hf(":authority", "c13.test")}
	}),
	malformed("empty-path", func(T uint32) []hpack.HeaderField {
		return []hpack.HeaderField{hf(":method", "GET"), hf(":scheme", "https"), hf(":authority", "c13.test"), hf(":path", "")}
	}),
	malformed("path-not-origin-form", func(T uint32) []hpack.HeaderField {
		return []hpack.HeaderField{hf(":method", "GET"), hf(":scheme", "https"), hf(":authority", "c13.test"), hf(":path", "no-slash")}
	}),
	malformed("missing-scheme", func(T uint32) []hpack.HeaderField {
		return []hpack.HeaderField{hf(":method", "GET"), hf(":authority", "c13.test"), hf(":path", "/")}
	}),
	malformed("duplicate-pseudo", func(T uint32) []hpack.HeaderField {
		return []hpack.HeaderField{hf(":method", "GET"), hf(":method", "GET"), hf(":scheme", "https"), hf(":authority", "c13.test"), hf(":path", "/")}
	}),
	malformed("pseudo-after-regular", func(T uint32) []hpack.HeaderField {
		return []hpack.HeaderField{hf(":method", "GET"), hf(":scheme", "https"), hf("accept", "*/*"), hf(":path", "/"), hf(":authority", "c13.test")}
	}),
	malformed("response-pseudo", func(T uint32) []hpack.HeaderField {
		return []hpack.HeaderField{hf(":method", "GET"), hf(":scheme", "https"), hf(":authority", "c13.test"), hf(":path", "/"), hf(":status", "200")}
	}),
	malformed("unknown-pseudo", func(T uint32) []hpack.HeaderField {
		return []hpack.HeaderField{hf(":method", "GET"), hf(":scheme", "https"), hf(":authority", "c13.test"), hf(":path", "/"), hf(":foo", "bar")}
	}),
	malformed("uppercase-name", func(T uint32) []hpack.HeaderField {
		return []hpack.HeaderField{hf(":method", "GET"), hf(":scheme", "https"), hf(":authority", "c13.test"), hf(":path", "/"), hf("X-Upper", "1")}
	}),
	malformed("connection-header", func(T uint32) []hpack.HeaderField {
		return []hpack.HeaderField{hf(":method", "GET"), hf(":scheme", "https"), hf(":authority", "c13.test"), hf(":path", "/"), hf("connection", "close")}
	}),
	malformed("transfer-encoding", func(T uint32) []hpack.HeaderField {
		return []hpack.HeaderField{hf(":method", "GET"), hf(":scheme", "https"), hf(":authority", "c13.test"), hf(":path", "/"), hf("transfer-encoding", "chunked")}
	}),
	malformed("te-gzip", func(T uint32) []hpack.HeaderField {
		return []hpack.HeaderField{hf(":method", "GET"), hf(":scheme", "https"), hf(":authority", "c13.test"), hf(":path", "/"), hf("te", "gzip")}
	}),
	malformed("value-with-lf", func(T uint32) []hpack.HeaderField {
		return []hpack.HeaderField{hf(":method", "GET"), hf(":scheme", "https"), hf(":authority", "c13.test"), hf(":path", "/"), hf("x-bad", "a\nb")}
	}),
	malformed("connect-with-path", func(T uint32) []hpack.HeaderField {
		return []hpack.HeaderField{hf(":method", "CONNECT"), hf(":authority", "c13.test:443"), hf(":path", "/")}
	}),
	{"req-te-trailers-valid", func(T uint32) [][]byte {
		return one(h2peer.RawFrame(1, fES|fEH, T, block(append(reqFields(T, "GET", -1, ""), hf("te", "trailers")))))
	}},
	{"hpack-index-0", func(T uint32) [][]byte { return one(h2peer.RawFrame(1, fES|fEH, T, []byte{0x80})) }},
	{"hpack-index-out-of-range", func(T uint32) [][]byte { return one(h2peer.RawFrame(1, fES|fEH, T, []byte{0xff, 0x80, 0x01})) }},
	{"hpack-truncated-literal", func(T uint32) [][]byte {
		return one(h2peer.RawFrame(1, fES|fEH, T, cat(block(reqFields(T, "GET", -1, "")), []byte{0x00, 0x05, 'a', 'b'})))
	}},
	{"hpack-table-size-update-too-big", func(T uint32) [][]byte {
		return one(h2peer.RawFrame(1, fES|fEH, T, cat([]byte{0x3f, 0xe1, 0xff, 0x03}, block(reqFields(T, "GET", -1, "")))))
	}},
	{"trailers-valid", func(T uint32) [][]byte {
		return one(h2peer.RawFrame(1, fES|fEH, T, block([]hpack.HeaderField{hf("x-trailer", "1"), xsid(T)})))
	}},
	{"trailers-no-end-stream", func(T uint32) [][]byte {
		return one(h2peer.RawFrame(1, fEH, T, block([]hpack.HeaderField{hf("x-trailer", "1"), xsid(T)})))
	}},
	{"trailers-with-pseudo", func(T uint32) [][]byte {
		return one(h2peer.RawFrame(1, fES|fEH, T, block([]hpack.HeaderField{hf(":path", "/"), hf("x-trailer", "1"), xsid(T)})))
	}},
	// ---- DATA
	{"data-valid", func(T uint32) [][]byte { return one(h2peer.RawFrame(0, 0, T, []byte("abc"))) }},
	{"data-end-stream", func(T uint32) [][]byte { return one(h2peer.RawFrame(0, fES, T, []byte("abcde"))) }},
	{"data-empty-end-stream", func(T uint32) [][]byte { return one(h2peer.RawFrame(0, fES, T, nil)) }},
	{"data-padded", func(T uint32) [][]byte {
		return one(h2peer.RawFrame(0, fPAD, T, cat([]byte{4}, []byte("ab"), zeros(4))))
	}},
	{"data-padding-only", func(T uint32) [][]byte { return one(h2peer.RawFrame(0, fPAD, T, cat([]byte{3}, zeros(3)))) }},
	{"data-stream0", func(T uint32) [][]byte { return one(h2peer.RawFrame(0, 0, 0, []byte("abc"))) }},
	{"data-pad-too-long", func(T uint32) [][]byte { return one(h2peer.RawFrame(0, fPAD, T, cat([]byte{5}, []byte("abcd")))) }},
	{"data-padded-empty", func(T uint32) [][]byte { return one(h2peer.RawFrame(0, fPAD, T, nil)) }},
	{"data-exceeds-content-length", func(T uint32) [][]byte { return one(h2peer.RawFrame(0, 0, T, []byte("0123456789"))) }},
	{"data-oversize", func(T uint32) [][]byte { return one(h2peer.RawFrame(0, 0, T, zeros(16385))) }},
	// ---- frames on an even (server-initiated, never promised) id BELOW the highest client id: still idle (5.1.1
	// speaks of streams the endpoint itself could have opened), so anything but PRIORITY is a connection error
	{"data-even-id-below-highest", func(T uint32) [][]byte { return one(h2peer.RawFrame(0, 0, T-1, []byte("abc"))) }},
	{"rst-even-id-below-highest", func(T uint32) [][]byte { return one(h2peer.RawFrame(3, 0, T-1, u32(8))) }},
	{"window-update-even-id-below-highest", func(T uint32) [][]byte { return one(h2peer.RawFrame(8, 0, T-1, u32(100))) }},
	{"priority-even-id-below-highest", func(T uint32) [][]byte { return one(h2peer.RawFrame(2, 0, T-1, cat(u32(0), []byte{10}))) }},
	// ---- RST_STREAM
	{"rst-valid", func(T uint32) [][]byte { return one(h2peer.RawFrame(3, 0, T, u32(8))) }},
	{"rst-stream0", func(T uint32) [][]byte { return one(h2peer.RawFrame(3, 0, 0, u32(8))) }},
	{"rst-len3", func(T uint32) [][]byte { return one(h2peer.RawFrame(3, 0, T, []byte{0, 0, 8})) }},
	{"rst-len5", func(T uint32) [][]byte { return one(h2peer.RawFrame(3, 0, T, []byte{0, 0, 0, 8, 0})) }},
	// ---- PRIORITY
	{"priority-valid", func(T uint32) [][]byte { return one(h2peer.RawFrame(2, 0, T, cat(u32(0), []byte{10}))) }},
	{"priority-exclusive-on-other", func(T uint32) [][]byte { return one(h2peer.RawFrame(2, 0, T, cat(u32(0x80000003), []byte{255}))) }},
	{"priority-stream0", func(T uint32) [][]byte { return one(h2peer.RawFrame(2, 0, 0, cat(u32(3), []byte{10}))) }},
	{"priority-len4", func(T uint32) [][]byte { return one(h2peer.RawFrame(2, 0, T, u32(0))) }},
	{"priority-len6", func(T uint32) [][]byte { return one(h2peer.RawFrame(2, 0, T, cat(u32(0), []byte{1, 2}))) }},
	{"priority-self-dependency", func(T uint32) [][]byte { return one(h2peer.RawFrame(2, 0, T, cat(u32(T), []byte{10}))) }},
	// PRIORITY frames that draw (or may draw) a stream error on an idle id ABOVE the ids the script uses next: they
	// open no stream and must not move the boundary between idle and closed ids (after seeded change C13-M) - the
	// follow-up request and the closing request use lower / the same ids
	{"priority-self-dependency-on-higher-idle-id", func(T uint32) [][]byte {
		return one(h2peer.RawFrame(2, 0, T+6, cat(u32(T+6), []byte{10})))
	}},
	{"priority-self-dependency-on-higher-even-idle-id", func(T uint32) [][]byte {
		return one(h2peer.RawFrame(2, 0, T+5, cat(u32(T+5), []byte{10})))
	}},
	{"priority-len4-on-higher-idle-id", func(T uint32) [][]byte { return one(h2peer.RawFrame(2, 0, T+6, u32(0))) }},
	{"priority-valid-on-higher-idle-id", func(T uint32) [][]byte { return one(h2peer.RawFrame(2, 0, T+6, cat(u32(T), []byte{10}))) }},
	// ---- WINDOW_UPDATE
	{"window-update-valid", func(T uint32) [][]byte { return one(h2peer.RawFrame(8, 0, T, u32(100))) }},
	{"window-update-conn-valid", func(T uint32) [][]byte { return one(h2peer.RawFrame(8, 0, 0, u32(100))) }},
	{"window-update-reserved-bit", func(T uint32) [][]byte { return one(h2peer.RawFrame(8, 0, T, u32(0x80000064))) }},
	{"window-update-zero", func(T uint32) [][]byte { return one(h2peer.RawFrame(8, 0, T, u32(0))) }},
	{"window-update-conn-zero", func(T uint32) [][]byte { return one(h2peer.RawFrame(8, 0, 0, u32(0))) }},
	{"window-update-overflow", func(T uint32) [][]byte { return one(h2peer.RawFrame(8, 0, T, u32(0x7fffffff))) }},
	{"window-update-conn-overflow", func(T uint32) [][]byte { return one(h2peer.RawFrame(8, 0, 0, u32(0x7fffffff))) }},
	{"window-update-len3", func(T uint32) [][]byte { return one(h2peer.RawFrame(8, 0, T, []byte{0, 0, 100})) }},
	{"window-update-len5", func(T uint32) [][]byte { return one(h2peer.RawFrame(8, 0, T, []byte{0, 0, 0, 100, 0})) }},
	// ---- SETTINGS
	{"settings-empty", func(T uint32) [][]byte { return one(h2peer.RawFrame(4, 0, 0, nil)) }},
	{"settings-valid", func(T uint32) [][]byte {
		return one(h2peer.RawFrame(4, 0, 0, cat(setting(1, 8192), setting(2, 0), setting(3, 50), setting(4, 100000), setting(5, 32768), setting(6, 65536))))
	}},
	{"settings-unknown-id", func(T uint32) [][]byte {
		return one(h2peer.RawFrame(4, 0, 0, cat(setting(0x99, 7), setting(0xf000, 0xffffffff))))
	}},
	{"settings-on-stream", func(T uint32) [][]byte { return one(h2peer.RawFrame(4, 0, T, setting(3, 50))) }},
	{"settings-len5", func(T uint32) [][]byte { return one(h2peer.RawFrame(4, 0, 0, []byte{0, 3, 0, 0, 0})) }},
	{"settings-ack-with-payload", func(T uint32) [][]byte { return one(h2peer.RawFrame(4, 1, 0, setting(3, 50))) }},
	{"settings-ack-unsolicited", func(T uint32) [][]byte { return one(h2peer.RawFrame(4, 1, 0, nil)) }},
	{"settings-enable-push-2", func(T uint32) [][]byte { return one(h2peer.RawFrame(4, 0, 0, setting(2, 2))) }},
	{"settings-initial-window-too-big", func(T uint32) [][]byte { return one(h2peer.RawFrame(4, 0, 0, setting(4, 0x80000000))) }},
	{"settings-max-frame-size-low", func(T uint32) [][]byte { return one(h2peer.RawFrame(4, 0, 0, setting(5, 16383))) }},
	{"settings-max-frame-size-high", func(T uint32) [][]byte { return one(h2peer.RawFrame(4, 0, 0, setting(5, 1<<24))) }},
	{"settings-duplicate-id", func(T uint32) [][]byte { return one(h2peer.RawFrame(4, 0, 0, cat(setting(3, 50), setting(3, 60)))) }},
	{"settings-window-change-overflows-stream", func(T uint32) [][]byte {
		return [][]byte{h2peer.RawFrame(8, 0, T, u32(0x7fffffff-65535)), h2peer.RawFrame(4, 0, 0, setting(4, 65536))}
	}},
	// ---- PING
	{"ping-valid", func(T uint32) [][]byte { return one(h2peer.RawFrame(6, 0, 0, []byte("c13ping!"))) }},
	{"ping-ack", func(T uint32) [][]byte { return one(h2peer.RawFrame(6, 1, 0, []byte("c13pong!"))) }},
	{"ping-on-stream", func(T uint32) [][]byte { return one(h2peer.RawFrame(6, 0, T, []byte("c13ping!"))) }},
	{"ping-len7", func(T uint32) [][]byte { return one(h2peer.RawFrame(6, 0, 0, []byte("c13ping"))) }},
	{"ping-len9", func(T uint32) [][]byte { return one(h2peer.RawFrame(6, 0, 0, []byte("c13ping!!"))) }},
	// ---- GOAWAY
	{"goaway-valid", func(T uint32) [][]byte { return one(h2peer.RawFrame(7, 0, 0, cat(u32(0), u32(0), []byte("bye")))) }},
	{"goaway-on-stream", func(T uint32) [][]byte { return one(h2peer.RawFrame(7, 0, T, cat(u32(0), u32(0)))) }},
	{"goaway-len4", func(T uint32) [][]byte { return one(h2peer.RawFrame(7, 0, 0, u32(0))) }},
	// ---- PUSH_PROMISE
	{"push-promise", func(T uint32) [][]byte {
		return one(h2peer.RawFrame(5, fEH, T, cat(u32(2), block(reqFields(2, "GET", -1, "")))))
	}},
	{"push-promise-stream0", func(T uint32) [][]byte {
		return one(h2peer.RawFrame(5, fEH, 0, cat(u32(2), block(reqFields(2, "GET", -1, "")))))
	}},
	// ---- CONTINUATION
	{"continuation-alone", func(T uint32) [][]byte { return one(h2peer.RawFrame(9, fEH, T, block(reqFields(T, "GET", -1, "")))) }},
	{"continuation-stream0", func(T uint32) [][]byte { return one(h2peer.RawFrame(9, fEH, 0, nil)) }},
	// ---- unknown / extension frame types
	{"unknown-type-stream0", func(T uint32) [][]byte { return one(h2peer.RawFrame(0xfa, 0xff, 0, []byte("whatever"))) }},
	{"unknown-type-on-stream", func(T uint32) [][]byte { return one(h2peer.RawFrame(0x0c, 0x05, T, []byte{1, 2, 3})) }},
	{"altsvc-on-stream", func(T uint32) [][]byte {
		return one(h2peer.RawFrame(0x0a, 0, T, cat([]byte{0, 0}, []byte(`h2=":443"`))))
	}},
	{"priority-update-frame", func(T uint32) [][]byte { return one(h2peer.RawFrame(0x10, 0, 0, cat(u32(T), []byte("u=1")))) }},
	{"unknown-type-oversize", func(T uint32) [][]byte { return one(h2peer.RawFrame(0xfa, 0, T, zeros(16385))) }},
}

// the seven states of the property text, plus the one the calibration showed to
// matter: a stream "opened" by a HEADERS block the server rejected as malformed
var states = []string{"idle", "open", "half-closed-remote", "half-closed-remote-short-body", "half-closed-remote-short-body-trailers", "closed-end-stream", "closed-client-rst", "closed-server-rst", "reset-in-flight", "rejected-malformed-headers", ceState, lateEndState}

// lateEndState (added after seeded change C13-K): the request declared content-length 5 and has delivered its 5
// bytes WITHOUT END_STREAM; the handler has answered and returned. The unchanged server resets such a stream
// with RST_STREAM(NO_ERROR) (then: closed by the server); a server that does not is in half-closed (local),
// where the client's END_STREAM - by an empty DATA frame or by trailers - is legal and must not draw an error.
const lateEndState = "response-finished-declared-body-complete-no-end-stream"

// ceState: a frame that must draw a connection error (and nothing else) has been
// sent while the client is not reading and the server's frame writer is blocked,
// so the GOAWAY is still queued when the frames after it arrive; the target
// stream is idle (above the offending frame's id). Nothing sent after the
// offending frame may be served (5.4.1), the GOAWAY must carry the code of the
// offending frame, and the connection ends.
const ceState = "conn-error-in-flight"

// frames for which the reference allows a connection error and nothing else and
// which the server can only find out about after it has read the whole frame
type ceFrame struct {
	name  string
	build func(X uint32) []byte
}

var connErrFrames = []ceFrame{
	{"data-on-idle-stream", func(X uint32) []byte { return h2peer.RawFrame(0, 0, X, []byte("abc")) }},
	{"rst-stream-on-idle-stream", func(X uint32) []byte { return h2peer.RawFrame(3, 0, X, u32(8)) }},
	{"window-update-on-idle-stream", func(X uint32) []byte { return h2peer.RawFrame(8, 0, X, u32(100)) }},
	{"settings-enable-push-2", func(X uint32) []byte { return h2peer.RawFrame(4, 0, 0, setting(2, 2)) }},
	{"push-promise-from-client", func(X uint32) []byte {
		return h2peer.RawFrame(5, fEH, X, cat(u32(2), block(reqFields(2, "GET", -1, ""))))
	}},
	{"window-update-connection-overflow", func(X uint32) []byte { return h2peer.RawFrame(8, 0, 0, u32(0x7fffffff)) }},
	{"data-on-idle-stream-end-stream", func(X uint32) []byte { return h2peer.RawFrame(0, fES, X, nil) }},
}

// connErrorInFlight: reads held, writer made busy, then frame k of connErrFrames
// on the idle id X - all without a fence. It returns false (and sends nothing
// after the hold) when the reference does not classify the frame as "connection
// error and nothing else" in the current state.
func (c *conn) connErrorInFlight(k int, X uint32) bool {
	ce := connErrFrames[k%len(connErrFrames)]
	f := ce.build(X)
	if typ := f[3]; typ == 1 || typ == 9 {
		panic("connErrFrames must not carry a header block the reference would decode twice")
	}
	if v := c.ref.Expect(f); v.Kind != "CE" || v.Default() != h2peer.OutConnErr || v.AllowOK {
		return false
	}
	c.exec(Step{Op: "hold", Label: ceState})
	s := frameStep("busy-writer", h2peer.RawFrame(6, 0, 0, []byte("c13hold!")))
	s.NoFence = true
	c.exec(s)
	s = frameStep("draw-connection-error:"+ce.name, f)
	s.NoFence = true
	c.exec(s)
	return true
}

// behindConnError: (after connErrorInFlight and whatever else the script sent)
// a well-formed request on a fresh id, a barrier, and the reads are released.
func (c *conn) behindConnError(p uint32) {
	s := frameStep("request-behind-connection-error", getES(p))
	s.NoFence = true
	c.exec(s)
	s = frameStep("barrier", barrier())
	s.NoFence = true
	c.exec(s)
	c.exec(Step{Op: "unhold"})
}

func barrier() []byte { return h2peer.RawFrame(0xbb, 0, 0, []byte("barrier")) }

var defaultSettings = cat(setting(3, 100), setting(4, 65535))

// witness of one script
type witness struct {
	Kind    string   `json:"kind"` // cell | random | legal | special
	Limit   uint32   `json:"limit"`
	State   string   `json:"state,omitempty"`
	Variant string   `json:"variant,omitempty"`
	Others  int      `json:"others,omitempty"`
	Seed    int64    `json:"script_seed,omitempty"`
	Steps   []Step   `json:"steps"`
	Trace   []string `json:"trace"`
}

// runCell: one (stream state, frame variant, load) cell of the product.
func runCell(limit uint32, state string, vr variant, others int, st *stats) *conn {
	c := newConn(limit, false, st)
	next := uint32(3) // stream 1 is never opened: it is the implicitly closed lower id
	fresh := func() uint32 { id := next; next += 2; return id }
	c.start(defaultSettings)
	if !c.over() {
		w := fresh()
		c.exec(frameStep("warm-up", getES(w)))
		c.exec(Step{Op: "release", SID: w})
	}
	for i := 0; i < others && !c.over(); i++ {
		c.exec(frameStep("other-stream", getES(fresh())))
	}
	ceArmed := false
	if state == ceState && !c.over() {
		// the offending frame names an idle id below the target
		ceArmed = c.connErrorInFlight(len(vr.name)+others, fresh())
		if !ceArmed {
			c.inconclusive("rig", "reference does not classify the frame chosen to draw a connection error as CE")
		}
	}
	T := fresh()
	if !c.over() {
		switch state {
		case "idle", ceState:
		case "open":
			c.exec(frameStep("open", postOpen(T, 5, "")))
		case "half-closed-remote":
			c.exec(frameStep("open+end-stream", getES(T)))
		case "half-closed-remote-short-body": // END_STREAM before the declared content-length: tolerated or a stream error
			c.exec(frameStep("open", postOpen(T, 5, "")))
			c.exec(frameStep("short-body-end-stream", h2peer.RawFrame(0, fES, T, []byte("ab"))))
		case "half-closed-remote-short-body-trailers":
			c.exec(frameStep("open", postOpen(T, 5, "")))
			c.exec(frameStep("short-body-trailers", h2peer.RawFrame(1, fES|fEH, T, block([]hpack.HeaderField{hf("x-trailer", "t")}))))
		case "closed-end-stream":
			c.exec(frameStep("open+end-stream", getES(T)))
			c.exec(Step{Op: "release", SID: T})
		case "closed-client-rst":
			c.exec(frameStep("open", postOpen(T, 5, "")))
			c.exec(frameStep("client-rst", h2peer.RawFrame(3, 0, T, u32(8))))
		case lateEndState:
			c.exec(frameStep("open", postOpen(T, 5, "")))
			c.exec(frameStep("whole-declared-body-no-end-stream", h2peer.RawFrame(0, 0, T, []byte("abcde"))))
			c.exec(Step{Op: "release", SID: T})
		case "closed-server-rst":
			c.exec(frameStep("open", postOpen(T, 5, "")))
			c.exec(frameStep("draw-stream-error", h2peer.RawFrame(8, 0, T, u32(0))))
		case "rejected-malformed-headers":
			c.exec(frameStep("malformed-open", h2peer.RawFrame(1, fEH, T, block(append(reqFields(T, "POST", 5, "")[:4], hf("X-Upper", "1"), xsid(T))))))
		case "reset-in-flight":
			c.exec(frameStep("open", postOpen(T, 5, "")))
			c.exec(Step{Op: "hold"})
			s := frameStep("busy-writer", h2peer.RawFrame(6, 0, 0, []byte("c13hold!")))
			s.NoFence = true
			c.exec(s)
			s = frameStep("draw-stream-error", h2peer.RawFrame(8, 0, T, u32(0)))
			s.NoFence = true
			c.exec(s)
		}
	}
	if !c.over() {
		x := frameStep(vr.name, vr.build(T)...)
		if state == "reset-in-flight" {
			x.NoFence = true
			c.exec(x)
			b := frameStep("barrier", barrier())
			b.NoFence = true
			c.exec(b)
			c.exec(Step{Op: "unhold"})
		} else if ceArmed {
			x.NoFence = true
			c.exec(x)
			if T+2 >= next {
				next = T + 4
			}
			c.behindConnError(fresh())
		} else {
			c.exec(x)
		}
	}
	if T+2 >= next {
		next = T + 4 // variants may have used T+1, T+2
	}
	if !c.over() {
		// a well-formed request afterwards: served iff the reference says so
		p := fresh()
		c.exec(frameStep("follow-up", getES(p)))
		c.exec(Step{Op: "release", SID: p})
	}
	p := fresh()
	c.finish(p, getES(p))
	return c
}

// runFirst: the variant is the very first frame after the client preface (3.4:
// that must be a SETTINGS frame).
func runFirst(limit uint32, vr variant, st *stats) *conn {
	c := newConn(limit, false, st)
	if err := c.write([]byte(h2peer.ClientPreface)); err != nil {
		c.inconclusive("rig", "preface write: %v", err)
	}
	c.exec(frameStep(vr.name, vr.build(3)...))
	if !c.over() {
		c.limitCheck()
		c.exec(frameStep("follow-up", getES(9)))
		c.exec(Step{Op: "release", SID: 9})
	}
	c.finish(11, getES(11))
	return c
}

// ---- random and legal-only sequences

type gen struct {
	rng    *rand.Rand
	c      *conn
	next   uint32
	budget int // DATA octets still sendable without touching flow-control limits
	legal  bool
	reads  map[uint32]bool // streams whose handler reads the body before it waits on its gate
}

func (g *gen) fresh() uint32 {
	if g.rng.Intn(6) == 0 {
		g.next += 2 // skip an id: it becomes implicitly closed
	}
	id := g.next
	g.next += 2
	return id
}

func pick(rng *rand.Rand, ids []uint32) (uint32, bool) {
	if len(ids) == 0 {
		return 0, false
	}
	return ids[rng.Intn(len(ids))], true
}

func (g *gen) anyKnownOrIdle() uint32 {
	r := g.rng
	all := g.c.ref.IDs(func(*h2peer.RefStream) bool { return true })
	switch x := r.Intn(10); {
	case x < 6 && len(all) > 0:
		return all[r.Intn(len(all))]
	case x < 8:
		return g.next + uint32(2*r.Intn(3)) // idle
	default:
		if g.next > 3 {
			return uint32(1 + 2*r.Intn(int(g.next/2))) // any odd id below next, maybe implicitly closed
		}
		return g.next
	}
}

// newRequest builds a well-formed request in one of several wire shapes.
func (g *gen) newRequest(sid uint32) Step {
	r := g.rng
	method, cl, mode := "GET", -1, ""
	flags := uint8(fES)
	if r.Intn(2) == 0 {
		method, flags = "POST", 0
		if r.Intn(2) == 0 {
			cl = r.Intn(300)
		}
		if r.Intn(3) == 0 {
			mode = "read"
		}
	}
	if mode == "read" {
		g.reads[sid] = true
	}
	fields := reqFields(sid, method, cl, mode)
	if r.Intn(4) == 0 {
		fields = append(fields[:len(fields)-1], hf("te", "trailers"), hf("accept", "*/*"), fields[len(fields)-1])
	}
	b := block(fields)
	label := "request-" + method
	switch r.Intn(5) {
	case 0: // split over CONTINUATION frames
		n := 1 + r.Intn(3)
		var fr [][]byte
		cut := 0
		for i := 0; i < n; i++ {
			nx := cut + r.Intn(len(b)-cut+1)
			if i == 0 {
				fr = append(fr, h2peer.RawFrame(1, flags, sid, b[cut:nx]))
			} else {
				fr = append(fr, h2peer.RawFrame(9, 0, sid, b[cut:nx]))
			}
			cut = nx
		}
		fr = append(fr, h2peer.RawFrame(9, fEH, sid, b[cut:]))
		return frameStep(label+"-continuation", fr...)
	case 1: // padded + priority
		pad := r.Intn(20)
		dep := uint32(0)
		if r.Intn(2) == 0 {
			dep = uint32(r.Intn(int(sid))) &^ 0 // any other id below
			if dep == sid {
				dep = 0
			}
		}
		return frameStep(label+"-padded-priority", h2peer.RawFrame(1, flags|fEH|fPAD|fPRIO, sid, cat([]byte{byte(pad)}, u32(dep), []byte{byte(r.Intn(256))}, b, zeros(pad))))
	}
	return frameStep(label, h2peer.RawFrame(1, flags|fEH, sid, b))
}

func (g *gen) unreleasedActive(all bool) []uint32 {
	c := g.c
	c.mu.Lock()
	defer c.mu.Unlock()
	var ids []uint32
	for _, sid := range c.ref.IDs(func(s *h2peer.RefStream) bool { return s.State.Active() }) {
		if h := c.hs[sid]; h != nil && h.nStarted > 0 && !h.released {
			if g.reads[sid] && c.ref.Streams[sid].State == h2peer.StOpen && !all {
				continue // it answers only after the request body has ended
			}
			ids = append(ids, sid)
		}
	}
	return ids
}

// endBody finishes the request body of an open stream (legal frame).
func (g *gen) endBody(sid uint32) Step {
	s := g.c.ref.Streams[sid]
	n := 0
	if s.ContentLength >= 0 {
		n = int(s.ContentLength - s.BodyBytes)
	}
	g.budget -= n
	return frameStep("data-end-body", h2peer.RawFrame(0, fES, sid, zeros(n)))
}

// step returns the next step; ok=false when there is nothing sensible to do.
func (g *gen) step() (Step, bool) {
	r, ref := g.rng, g.c.ref
	open := ref.IDs(func(s *h2peer.RefStream) bool { return s.State == h2peer.StOpen })
	active := ref.IDs(func(s *h2peer.RefStream) bool { return s.State.Active() })
	closed := ref.IDs(func(s *h2peer.RefStream) bool { return !s.State.Active() })
	for tries := 0; tries < 30; tries++ {
		x := r.Intn(100)
		if !g.legal && x >= 86 {
			// an illegal (or oddly placed) frame on some stream
			vr := variants[r.Intn(len(variants))]
			T := g.anyKnownOrIdle()
			fr := vr.build(T)
			n := 0
			for _, f := range fr {
				if f[3] == 0 {
					n += len(f) - 9
				}
			}
			if n > g.budget {
				continue
			}
			g.budget -= n
			if T+2 >= g.next {
				g.next = T + 4
			}
			return frameStep("x:"+vr.name, fr...), true
		}
		switch {
		case x < 24: // new request
			if uint32(len(active)) >= ref.Limit && (g.legal || r.Intn(5) != 0) {
				continue
			}
			if ref.ServerGoAway || ref.ClientGoAway {
				continue
			}
			return g.newRequest(g.fresh()), true
		case x < 38: // request body
			sid, ok := pick(r, open)
			if !ok {
				continue
			}
			s := ref.Streams[sid]
			n := r.Intn(200)
			end := r.Intn(3) == 0
			if s.ContentLength >= 0 {
				rem := int(s.ContentLength - s.BodyBytes)
				if n >= rem {
					n, end = rem, true
				} else if end && (g.legal || r.Intn(3) != 0) {
					n = rem
				} // else: END_STREAM before content-length octets (malformed; the server may tolerate it)
			}
			pad := -1
			if r.Intn(3) == 0 {
				pad = r.Intn(30)
			}
			size := n
			if pad >= 0 {
				size += 1 + pad
			}
			if size > g.budget {
				continue
			}
			g.budget -= size
			fl := uint8(0)
			if end {
				fl |= fES
			}
			payload := make([]byte, n)
			for i := range payload {
				payload[i] = byte('a' + i%26)
			}
			if pad >= 0 {
				return frameStep("data-padded", h2peer.RawFrame(0, fl|fPAD, sid, cat([]byte{byte(pad)}, payload, zeros(pad)))), true
			}
			return frameStep("data", h2peer.RawFrame(0, fl, sid, payload)), true
		case x < 42: // trailers
			sid, ok := pick(r, open)
			if !ok {
				continue
			}
			if s := ref.Streams[sid]; s.ContentLength >= 0 && s.BodyBytes != s.ContentLength && (g.legal || r.Intn(3) != 0) {
				continue
			}
			b := block([]hpack.HeaderField{hf("x-trailer", "t"), hf("x-checksum", "0")})
			if r.Intn(2) == 0 {
				k := r.Intn(len(b))
				return frameStep("trailers-continuation", h2peer.RawFrame(1, fES, sid, b[:k]), h2peer.RawFrame(9, fEH, sid, b[k:])), true
			}
			return frameStep("trailers", h2peer.RawFrame(1, fES|fEH, sid, b)), true
		case x < 58: // let a handler answer
			sid, ok := pick(r, g.unreleasedActive(false))
			if !ok {
				continue
			}
			return Step{Op: "release", SID: sid, Label: "release"}, true
		case x < 62: // client cancels
			sid, ok := pick(r, active)
			if !ok {
				continue
			}
			return frameStep("rst-active", h2peer.RawFrame(3, 0, sid, u32(uint32([]int{8, 0, 5, 2}[r.Intn(4)])))), true
		case x < 67: // window update
			var sid uint32
			switch r.Intn(3) {
			case 0:
			case 1:
				sid, _ = pick(r, active)
			default:
				sid, _ = pick(r, closed)
			}
			return frameStep("window-update", h2peer.RawFrame(8, 0, sid, u32(uint32(1+r.Intn(1000))))), true
		case x < 71: // priority on anything (idle, active, closed)
			sid := g.anyKnownOrIdle()
			dep := uint32(r.Intn(int(g.next) + 4))
			if dep == sid {
				dep = 0
			}
			if r.Intn(3) == 0 {
				dep |= 0x80000000
			}
			return frameStep("priority", h2peer.RawFrame(2, 0, sid, cat(u32(dep), []byte{byte(r.Intn(256))}))), true
		case x < 74: // RST_STREAM on a closed stream
			sid, ok := pick(r, closed)
			if !ok {
				continue
			}
			return frameStep("rst-closed", h2peer.RawFrame(3, 0, sid, u32(8))), true
		case x < 78: // settings change
			var p []byte
			used := map[int]bool{}
			for i, n := 0, r.Intn(4); i < n; i++ {
				k := r.Intn(7)
				if used[k] {
					continue
				}
				used[k] = true
				switch k {
				case 0:
					// never below 4096: a shrink followed by a grow makes the server's encoder emit two
					// table-size updates, which the harness's own x/net v0.19.0 decoder rejects (D6 is
					// present in that release); HPACK table behaviour is C18's business
					p = append(p, setting(1, []uint32{4096, 8192, 65536}[r.Intn(3)])...)
				case 1:
					p = append(p, setting(2, uint32(r.Intn(2)))...)
				case 2:
					p = append(p, setting(3, uint32(r.Intn(1000)))...)
				case 3:
					p = append(p, setting(4, []uint32{65535, 70000, 100000, 1 << 20, 65535}[r.Intn(5)])...)
				case 4:
					p = append(p, setting(5, []uint32{16384, 20000, 1 << 20, 1<<24 - 1}[r.Intn(4)])...)
				case 5:
					p = append(p, setting(6, []uint32{16384, 1 << 20, 0xffffffff}[r.Intn(3)])...)
				case 6:
					p = append(p, setting(uint16(0x20+r.Intn(100)), r.Uint32())...)
				}
			}
			return frameStep("settings", h2peer.RawFrame(4, 0, 0, p)), true
		case x < 81:
			d := make([]byte, 8)
			r.Read(d)
			d[0] = 0x13
			fl := uint8(0)
			if r.Intn(4) == 0 {
				fl = 1
			}
			return frameStep("ping", h2peer.RawFrame(6, fl, 0, d)), true
		case x < 85: // unknown / extension frame: must be ignored wherever it shows up
			t := uint8(0x0a + r.Intn(0xf6))
			sid := uint32(0)
			if r.Intn(2) == 0 {
				sid = g.anyKnownOrIdle()
				if r.Intn(4) == 0 {
					sid++
				}
			}
			return frameStep("unknown-frame", h2peer.RawFrame(t, uint8(r.Intn(256)), sid, zeros(r.Intn(40)))), true
		case x < 86:
			if g.legal {
				continue // a legal script ends with GOAWAY (see runSequence)
			}
			return frameStep("goaway", h2peer.RawFrame(7, 0, 0, cat(u32(0), u32(uint32(r.Intn(3))), []byte("x")))), true
		}
	}
	return Step{}, false
}

func runSequence(limit uint32, legal bool, seed int64, st *stats) *conn {
	rng := rand.New(rand.NewSource(seed))
	c := newConn(limit, legal, st)
	g := &gen{rng: rng, c: c, next: 1, budget: 50000, legal: legal, reads: map[uint32]bool{}}
	if rng.Intn(3) == 0 {
		g.next = 3
	}
	var s0 []byte
	switch rng.Intn(3) {
	case 0:
	case 1:
		s0 = defaultSettings
	default:
		s0 = cat(setting(1, 4096), setting(4, 1<<20), setting(0x33, 1))
	}
	c.start(s0)
	n := 5 + rng.Intn(36)
	for i := 0; i < n && !c.over(); i++ {
		s, ok := g.step()
		if !ok {
			break
		}
		c.exec(s)
	}
	if !legal && !c.over() && rng.Intn(6) == 0 && !c.ref.InBlock() && !c.sawGrace && !c.ref.ClientGoAway && !c.ref.ServerGoAway {
		// the script ends in a connection error whose GOAWAY is held back by a blocked
		// write, with more frames (among them a new request) right behind it
		if c.connErrorInFlight(rng.Intn(len(connErrFrames)), g.fresh()) {
			for i, n := 0, rng.Intn(3); i < n && !c.over() && !c.broken; i++ {
				if s, ok := g.step(); ok && s.Op == "frames" {
					s.NoFence = true
					c.exec(s)
				}
			}
			c.behindConnError(g.fresh())
		}
	}
	// wind down: every handler still gated answers; then (legal scripts) a client GOAWAY
	for !c.over() {
		ids := g.unreleasedActive(true)
		if len(ids) == 0 {
			break
		}
		if g.reads[ids[0]] && c.ref.Streams[ids[0]].State == h2peer.StOpen {
			c.exec(g.endBody(ids[0]))
			if c.over() || c.ref.Streams[ids[0]].State == h2peer.StOpen {
				break
			}
		}
		c.exec(Step{Op: "release", SID: ids[0], Label: "release"})
	}
	if !c.over() && (legal && rng.Intn(2) == 0) {
		c.exec(frameStep("goaway-final", h2peer.RawFrame(7, 0, 0, cat(u32(0), u32(0)))))
	}
	p := g.fresh()
	c.finish(p, getES(p))
	return c
}

func (w witness) String() string { return fmt.Sprintf("%s %s %s", w.Kind, w.State, w.Variant) }

// runQueued: the connection is filled to the limit, the client resets z >= 2 of its streams (their handlers
// keep running: "zombies") and opens z new ones, which the server accepts and queues. The zombies then return
// ONE AT A TIME: each return may start exactly one queued handler - the handlers running at any time never
// exceed the advertised limit (observed in the handler itself). Added after seeded change C13-J.
func runQueued(limit uint32, seed int64, st *stats) *conn {
	rng := rand.New(rand.NewSource(seed))
	c := newConn(limit, false, st)
	c.manualZombies = true
	c.start(defaultSettings)
	next := uint32(1)
	fresh := func() uint32 { id := next; next += 2; return id }
	var ids []uint32
	for i := 0; i < int(limit) && !c.over(); i++ {
		id := fresh()
		ids = append(ids, id)
		c.exec(frameStep("fill-to-the-limit", getES(id)))
	}
	z := 2
	if limit > 2 {
		z += rng.Intn(int(limit) - 1)
	}
	for i := 0; i < z && !c.over(); i++ {
		c.exec(frameStep("client-rst", h2peer.RawFrame(3, 0, ids[i], u32(8))))
	}
	var queued []uint32
	for i := 0; i < z && !c.over(); i++ {
		id := fresh()
		queued = append(queued, id)
		c.exec(frameStep("request-queued-behind-zombies", getES(id)))
	}
	startedOf := func() int {
		c.mu.Lock()
		defer c.mu.Unlock()
		n := 0
		for _, id := range queued {
			if h := c.hs[id]; h != nil && h.nStarted > 0 {
				n++
			}
		}
		return n
	}
	for i := 0; i < z && !c.over(); i++ {
		c.exec(Step{Op: "release", SID: ids[i]})
		// the zombie's return reaches the serve loop a moment later: wait for the queued handler it frees
		for dl := time.Now().Add(watchdog); startedOf() < i+1 && time.Now().Before(dl); {
			time.Sleep(200 * time.Microsecond)
		}
		c.exec(frameStep("fence-after-a-zombie-returned", h2peer.RawFrame(6, 0, 0, []byte("c13queue"))))
		st.zombieReturns++
	}
	for _, id := range append(ids[z:], queued...) {
		if !c.over() {
			c.exec(Step{Op: "release", SID: id})
		}
	}
	p := fresh()
	c.finish(p, getES(p))
	return c
}

// runSlotReuse: with the connection at its limit, the stream whose response ends with a DATA frame that
// leaves through the server's asynchronous writer is released, and the moment its END_STREAM has arrived
// the client - legally - opens the next stream, without any round trip in between. Added after seeded
// change C13-I; the window on the server side is small, so the script repeats it many times.
func runSlotReuse(limit uint32, seed int64, st *stats) *conn {
	c := newConnOn(limit, true, st, true) // a legal script: no error reaction may appear at all; over loopback TCP
	c.bigMode = map[uint32]bool{}
	c.start(defaultSettings)
	if !c.over() { // 30 responses of 4 KiB do not fit the initial connection window
		c.exec(frameStep("connection-window", h2peer.RawFrame(8, 0, 0, []byte{0x3f, 0, 0, 0})))
	}
	next := uint32(3)
	fresh := func() uint32 {
		id := next
		next += 2
		if id%6 == 1 { // (ids whose body is big by rule of the handler are skipped: the mode header decides here)
			id = next
			next += 2
		}
		return id
	}
	var holders []uint32
	for i := 0; i < int(limit)-1 && !c.over(); i++ {
		id := fresh()
		holders = append(holders, id)
		c.exec(frameStep("holder", getES(id)))
	}
	big := func(id uint32) []byte {
		c.bigMode[id] = true
		return h2peer.RawFrame(1, fES|fEH, id, block(append(reqFields(id, "GET", -1, "big"), xsid(id))))
	}
	cur := fresh()
	if !c.over() {
		c.exec(frameStep("request-big-response", big(cur)))
	}
	for round := 0; round < 30 && !c.over(); round++ {
		c.exec(Step{Op: "release", SID: cur, NoFence: true}) // returns when END_STREAM of cur has arrived
		nxt := fresh()
		c.slotSID = nxt
		c.exec(frameStep("request-right-behind-end-stream", big(nxt)))
		c.slotSID = 0
		st.slotReuse++
		cur = nxt
	}
	for _, id := range append(holders, cur) {
		if !c.over() {
			c.exec(Step{Op: "release", SID: id})
		}
	}
	p := fresh()
	c.finish(p, getES(p))
	return c
}
