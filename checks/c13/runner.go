package main

// The rig and the monitors: one scripted connection against the fork's
// ServeConn over net.Pipe, a recorder+gate handler, and the judgement of every
// fence group against the reference state machine (internal/h2peer/refsm.go).

import (
	"bytes"
	"encoding/hex"
	"fmt"
	"io"
	"log"
	"net"
	"net/http"
	"strconv"
	"strings"
	"sync"
	"sync/atomic"
	"time"

	fork "github.com/wi1dcard/fingerproxy/pkg/http2"
	"golang.org/x/net/http2"

	"verif/internal/h2peer"
)

const (
	watchdog    = 20 * time.Second      // generous: fires only when something is stuck (inconclusive)
	probeGrace  = 25 * time.Millisecond // write grace towards a server that may have stopped reading after GOAWAY
	heldGrace   = 300 * time.Millisecond
	deadGrace   = 40 * time.Millisecond
	silentGrace = 200 * time.Millisecond
)

type Step struct {
	Op      string   `json:"op"` // frames | release | hold | unhold
	Label   string   `json:"label,omitempty"`
	Frames  []string `json:"frames,omitempty"` // hex, one entry per frame
	SID     uint32   `json:"sid,omitempty"`    // release
	NoFence bool     `json:"no_fence,omitempty"`

	raw [][]byte
}

func (s *Step) frames() [][]byte {
	if s.raw == nil {
		for _, h := range s.Frames {
			b, _ := hex.DecodeString(h)
			s.raw = append(s.raw, b)
		}
	}
	return s.raw
}

func frameStep(label string, frames ...[]byte) Step {
	s := Step{Op: "frames", Label: label, raw: frames}
	for _, f := range frames {
		if len(f) > 600 {
			// keep witnesses small: long payloads are all-zero filler after the first bytes
		}
		s.Frames = append(s.Frames, hex.EncodeToString(f))
	}
	return s
}

type failure struct {
	kind  string // violation | inconclusive
	class string
	msg   string
}

type startRec struct {
	SID uint32
	Seq int64
}

type hstate struct {
	gate     chan struct{}
	started  chan struct{}
	exited   chan struct{}
	nStarted int
	released bool
}

type pend struct {
	v       *h2peer.Verdict
	assumed bool
	label   string
}

type stats struct {
	zombieReturns       int64
	slotReuse           int64
	frames              map[string]int64
	kinds               map[string]int64
	rst                 map[string]int64
	goaway              map[string]int64
	fences              int64
	starts              int64
	responses           int64
	resp4xx             int64
	settingsAck         int64
	pingAck             int64
	benignRST           int64
	probes              int64
	probesSent          int64
	holds               int64
	queuedStart         int64
	superseded          int64
	srvReturned         int64
	srvLingering        int64
	silentDead          int64
	fenceBeforeSettings int64
	ceHolds             int64 // conn-error-in-flight constructions (reads held, writer busy, connection error drawn without a fence)
	ceBehind            int64 // well-formed requests delivered behind a connection error whose GOAWAY was still queued
	ceFramesBehind      int64 // all frames delivered behind such an error
	lastCoversBehind    int64 // error GOAWAYs whose last-stream-id reaches an id first used behind the offending frame (observation, not judged)
	holdLeaks           int64 // constructions in which the busy-writer PING ACK got through before the reads were released
}

func newStats() *stats {
	return &stats{frames: map[string]int64{}, kinds: map[string]int64{}, rst: map[string]int64{}, goaway: map[string]int64{}}
}

type conn struct {
	limit uint32
	legal bool // legal-only script: no error reaction may appear at all

	peer    *h2peer.Peer
	hc      *h2peer.HoldConn
	ref     *h2peer.Ref
	clock   int64
	srvDone chan struct{}
	done    chan struct{}

	wmu        sync.Mutex
	goawaySeen bool
	watchDone  chan struct{}

	mu        sync.Mutex
	hs        map[uint32]*hstate
	starts    []startRec
	running   int
	overLimit string
	slotSID   uint32 // runSlotReuse: the stream just opened right behind an END_STREAM with the connection at its limit
	// manualZombies: handlers of reset streams are released by the script, one at a time
	manualZombies bool
	bigMode       map[uint32]bool // streams requested with x-mode: big (their body is not compared here)
	// noFenceRelease: the next request is to follow the END_STREAM of the released response at once: the
	// events so far are fed to the reference without a PING round trip
	noFenceRelease bool
	checkedSt      int
	maxStarted     uint32

	cursor     int
	pending    []pend
	respStatus map[uint32]string
	respEnded  map[uint32]bool
	srvReset   map[uint32]bool
	graceOK    bool // the client sent GOAWAY: a graceful GOAWAY may come
	sawGrace   bool
	dead       bool // GOAWAY with error code seen
	eof        bool
	held       bool
	followUp   bool
	broken     bool // a write failed while reads were held
	groupTag   string
	afterRej   map[uint32]bool // ids on which a HEADERS/CONTINUATION frame was sent while the id was used up only by rejected blocks (D20)
	groupFrom  int
	silent     bool // fell silent after its graceful GOAWAY (taken as connection error)

	// "no request is served after a connection error", also inside one unfenced group:
	deadBy       string          // the frame that (by the reference) killed the connection, and how it was sent
	afterDead    map[uint32]bool // ids on which a HEADERS frame was sent after that frame
	heldReqs     int64           // such requests written successfully since the reads were held
	heldFrames   int64
	holdPingData [8]byte
	holdHasPing  bool

	steps []Step
	trace []string
	fail  *failure
	st    *stats
}

var discardLog = log.New(io.Discard, "", 0)

// tagSlotReuse is the known-finding class D24 (KNOWN_FINDINGS.txt).
const tagSlotReuse = "stream-opened-right-behind-END_STREAM-at-the-limit-refused"

// tcpPair returns the two ends of a loopback TCP connection (a kernel socket: a write returns when the
// bytes are in the send buffer, not when the peer has read them - see runSlotReuse).
var tcpMu sync.Mutex
var tcpLn net.Listener

func tcpPair() (cli, srv net.Conn, err error) {
	tcpMu.Lock()
	defer tcpMu.Unlock()
	if tcpLn == nil {
		if tcpLn, err = net.Listen("tcp", "127.0.0.1:0"); err != nil {
			return nil, nil, err
		}
	}
	if cli, err = net.Dial("tcp", tcpLn.Addr().String()); err != nil {
		return nil, nil, err
	}
	if srv, err = tcpLn.Accept(); err != nil {
		cli.Close()
		return nil, nil, err
	}
	return cli, srv, nil
}

func newConn(limit uint32, legal bool, st *stats) *conn { return newConnOn(limit, legal, st, false) }

func newConnOn(limit uint32, legal bool, st *stats, tcp bool) *conn {
	c := &conn{limit: limit, legal: legal, st: st, hs: map[uint32]*hstate{}, respStatus: map[uint32]string{}, respEnded: map[uint32]bool{},
		srvReset: map[uint32]bool{}, srvDone: make(chan struct{}), done: make(chan struct{}), watchDone: make(chan struct{})}
	cli, srv := net.Pipe()
	if tcp {
		var err error
		if cli, srv, err = tcpPair(); err != nil {
			cli, srv = net.Pipe()
			c.inconclusive("rig", "loopback TCP pair: %v", err)
		}
	}
	c.hc = h2peer.NewHoldConn(cli)
	c.ref = h2peer.NewRef()
	s := &fork.Server{MaxConcurrentStreams: limit, MaxReadFrameSize: 16384}
	go func() {
		s.ServeConn(srv, &fork.ServeConnOpts{Handler: c, BaseConfig: &http.Server{ErrorLog: discardLog}})
		close(c.srvDone)
	}()
	c.peer = h2peer.New(c.hc, &c.clock)
	go func() {
		// abort writes that block because the server stopped reading after a connection error
		c.peer.WaitFor(0, time.Hour, func(e h2peer.Event) bool {
			return e.EOF || (e.Is(http2.FrameGoAway) && e.ErrCode != http2.ErrCodeNo)
		})
		c.wmu.Lock()
		c.goawaySeen = true
		c.hc.SetWriteDeadline(time.Now())
		c.wmu.Unlock()
		close(c.watchDone)
	}()
	return c
}

func (c *conn) h(sid uint32) *hstate {
	h := c.hs[sid]
	if h == nil {
		h = &hstate{gate: make(chan struct{}), started: make(chan struct{}), exited: make(chan struct{})}
		c.hs[sid] = h
	}
	return h
}

var bigBody = bytes.Repeat([]byte("b"), 4200)

// ServeHTTP is the user handler: recorder + gate.
func (c *conn) ServeHTTP(w http.ResponseWriter, r *http.Request) {
	sid64, _ := strconv.ParseUint(r.Header.Get("X-Sid"), 10, 32)
	sid := uint32(sid64)
	c.mu.Lock()
	c.running++
	if uint32(c.running) > c.limit && c.overLimit == "" {
		c.overLimit = fmt.Sprintf("%d handlers running at the start of the handler for stream %d, advertised limit %d", c.running, sid, c.limit)
	}
	c.starts = append(c.starts, startRec{sid, atomic.AddInt64(&c.clock, 1)})
	h := c.h(sid)
	h.nStarted++
	first := h.nStarted == 1
	c.mu.Unlock()
	if first {
		close(h.started)
	}
	defer func() {
		c.mu.Lock()
		c.running--
		c.mu.Unlock()
		if first {
			close(h.exited)
		}
	}()
	if r.Header.Get("X-Mode") == "read" {
		io.Copy(io.Discard, r.Body)
	}
	select {
	case <-h.gate:
	case <-c.done:
		return
	}
	w.Header().Set("X-Resp", strconv.Itoa(int(sid)))
	w.WriteHeader(200)
	if r.Header.Get("X-Mode") == "big" { // (only the unscheduled slot-reuse scripts ask for it, see main.go)
		// a final DATA frame that does not fit the server's 4 KiB write buffer leaves through its asynchronous
		// writer: the stream is closed a moment after the client has seen END_STREAM
		w.Write(bigBody[:4086+int(sid/6)%11])
		return
	}
	w.Write([]byte("ok"))
}

func (c *conn) logf(format string, args ...any) {
	if len(c.trace) < 400 {
		c.trace = append(c.trace, fmt.Sprintf(format, args...))
	}
}

func (c *conn) violate(class, format string, args ...any) {
	if c.fail == nil {

		c.fail = &failure{"violation", class, fmt.Sprintf(format, args...)}
		c.logf("VIOLATION[%s] %s", class, c.fail.msg)
	}
}

func (c *conn) inconclusive(class, format string, args ...any) {
	if c.fail == nil {
		c.fail = &failure{"inconclusive", class, fmt.Sprintf(format, args...)}
		c.logf("INCONCLUSIVE[%s] %s", class, c.fail.msg)
	}
}

func (c *conn) over() bool { return c.fail != nil || c.dead || c.eof }

func (c *conn) armWrite() {
	c.wmu.Lock()
	if c.goawaySeen {
		c.hc.SetWriteDeadline(time.Now().Add(probeGrace))
	} else if c.sawGrace {
		// after its graceful GOAWAY the server signals a connection error by silence only
		// (see fenceAndJudge); a framing error also stops its reader: blocked write
		c.hc.SetWriteDeadline(time.Now().Add(silentGrace))
	} else if c.held {
		// reads are held, so a GOAWAY cannot be seen: a write that blocks means the
		// server stopped reading (terminal framing error); found out by a short deadline
		c.hc.SetWriteDeadline(time.Now().Add(heldGrace))
	} else {
		c.hc.SetWriteDeadline(time.Now().Add(watchdog))
	}
	c.wmu.Unlock()
}

func (c *conn) write(b []byte) error {
	c.armWrite()
	return c.peer.WriteRaw(b)
}

func frameTypeName(b []byte) string {
	names := []string{"DATA", "HEADERS", "PRIORITY", "RST_STREAM", "SETTINGS", "PUSH_PROMISE", "PING", "GOAWAY", "WINDOW_UPDATE", "CONTINUATION"}
	if int(b[3]) < len(names) {
		return names[b[3]]
	}
	return "UNKNOWN"
}

// start: preface + SETTINGS, acknowledge the server's SETTINGS.
func (c *conn) start(settings []byte) {
	if err := c.write([]byte(h2peer.ClientPreface)); err != nil {
		c.inconclusive("rig", "preface write: %v", err)
		return
	}
	c.exec(frameStep("client-settings", h2peer.RawFrame(4, 0, 0, settings)))
	if c.over() {
		return
	}
	if c.ref.ServerSettings == 0 {
		// the server's SETTINGS is its first frame; it precedes the ACK of ours
		c.inconclusive("rig", "no server SETTINGS before the first fence")
		return
	}
	c.limitCheck()
	c.exec(frameStep("ack-server-settings", h2peer.RawFrame(4, 1, 0, nil)))
}

func (c *conn) limitCheck() {
	if c.ref.Limit != c.limit {
		c.violate("advertised-limit", "server advertised SETTINGS_MAX_CONCURRENT_STREAMS=%d, configured %d", c.ref.Limit, c.limit)
	}
}

// exec runs one step and (unless NoFence) fences and judges.
func (c *conn) exec(s Step) {
	if c.fail != nil {
		return
	}
	c.steps = append(c.steps, s)
	switch s.Op {
	case "hold":
		c.hc.Hold()
		c.held = true
		if s.Label == ceState {
			c.st.ceHolds++
		} else {
			c.st.holds++
		}
		c.heldReqs, c.heldFrames, c.holdHasPing = 0, 0, false
		c.logf("hold reads")
		return
	case "unhold":
		// was the writer busy all the time? Then the ACK of the busy-writer PING is still
		// stuck in the server's blocked write and cannot be in the log yet.
		leak := false
		if c.holdHasPing {
			for _, e := range c.peer.Events()[c.cursor:] {
				if e.Is(http2.FramePing) && e.Flags&http2.FlagPingAck != 0 && e.PingData == c.holdPingData {
					leak = true
				}
			}
		}
		if leak {
			c.st.holdLeaks++
			c.logf("(the busy-writer PING ACK arrived while reads were held: the writer was not blocked)")
		} else {
			c.st.ceBehind += c.heldReqs
			c.st.ceFramesBehind += c.heldFrames
		}
		c.hc.Release()
		c.held = false
		c.logf("release reads")
		if c.broken {
			// a write blocked while reads were held: the server must have ended the connection
			idx, ok := c.peer.WaitFor(c.cursor, watchdog, func(e h2peer.Event) bool {
				return e.EOF || (e.Is(http2.FrameGoAway) && e.ErrCode != http2.ErrCodeNo)
			})
			if !ok {
				c.inconclusive("watchdog", "a write blocked for %v while reads were held, but the server neither sent GOAWAY nor closed", heldGrace)
				return
			}
			c.judge(idx)
			return
		}
		c.fenceAndJudge()
		return
	case "release":
		c.noFenceRelease = s.NoFence
		c.release(s.SID)
		c.noFenceRelease = false
		return
	}
	if c.broken {
		return
	}
	frames := s.frames()
	for i, f := range frames {
		v := c.ref.Expect(f)
		c.st.frames[frameTypeName(f)]++
		c.st.kinds[v.Kind]++
		p := pend{v: v, label: s.Label}
		last := i == len(frames)-1
		if !last || s.NoFence || v.Kind == "PENDING" {
			c.ref.Commit(v, v.Default())
			p.assumed = true
			if c.ref.Dead && v.Kind != "DEAD" {
				// must draw a connection error and nothing else: from here on no request may be
				// served, although the GOAWAY cannot have been observed yet
				c.noteDead(v, true)
			}
		}
		if c.held && s.Label == "busy-writer" && v.AckPing {
			c.holdPingData, c.holdHasPing = v.PingData, true
		}
		afterDead := v.Kind == "DEAD"
		if afterDead && v.Type == 1 {
			if c.afterDead == nil {
				c.afterDead = map[uint32]bool{}
			}
			// (value: the id was idle, i.e. this HEADERS frame is a new request)
			c.afterDead[v.SID] = c.afterDead[v.SID] || (v.SID != 0 && c.ref.StateOf(v.SID) == h2peer.StIdle)
		}
		c.pending = append(c.pending, p)
		if v.Tag != "" && c.groupTag == "" {
			c.groupTag = v.Tag
		}
		if v.Tag == h2peer.TagAfterRejected && (v.Type == 1 || v.Type == 9) {
			if c.afterRej == nil {
				c.afterRej = map[uint32]bool{}
			}
			c.afterRej[v.SID] = true
		}
		c.logf("> %s [%s]  expect %s", v.Desc, s.Label, v)
		if v.Graceful {
			c.graceOK = true
		}
		if err := c.write(f); err != nil {
			c.logf("  write: %v", err)
			if c.held {
				c.broken = true // settled when reads are released
				break
			}
			if c.sawGrace && !c.peer.Ended() && c.pendingAllowsConnErr() {
				select {
				case <-c.watchDone:
				default:
					c.st.silentDead++
					c.silent = true
					c.logf("< (write blocked for %v after the server's graceful GOAWAY: it stopped reading; taken as a connection error without a second GOAWAY)", silentGrace)
					c.judge(c.peer.Len() - 1)
					return
				}
			}
			if !c.goawayOrEOFSoon() {
				c.inconclusive("rig", "write of %s failed: %v", v.Desc, err)
				return
			}
			break
		}
		if afterDead && c.held {
			c.heldFrames++
			if s.Label == "request-behind-connection-error" && v.Type == 1 {
				c.heldReqs++
			}
		}
	}
	if n := len(c.pending); s.NoFence || c.held || (n > 0 && c.pending[n-1].v.Kind == "PENDING") {
		return // (a fence inside a header block would itself be a protocol error)
	}
	c.fenceAndJudge()
}

func (c *conn) goawayOrEOFSoon() bool {
	select {
	case <-c.watchDone:
		return true
	case <-time.After(watchdog):
		return false
	}
}

func (c *conn) fenceAndJudge() {
	if c.fail != nil {
		return
	}
	c.armWrite()
	wd := watchdog
	if c.sawGrace && c.pendingAllowsConnErr() {
		// Upstream never writes a second GOAWAY: a connection error after its graceful
		// GOAWAY(NO_ERROR) only makes it fall silent and close a second later (5.4.1
		// says SHOULD send GOAWAY, MUST close). Do not sit that out.
		wd = silentGrace
	}
	idx, res := c.peer.FenceOrGoAway(c.cursor, wd)
	c.st.fences++
	if (res == h2peer.FenceTimeout || res == h2peer.FenceWriteErr) && wd == silentGrace && !c.peer.Ended() {
		c.st.silentDead++
		c.silent = true
		c.logf("< (no PING ACK within %v after the server's graceful GOAWAY: taken as a connection error without a second GOAWAY)", silentGrace)
		c.judge(c.peer.Len() - 1)
		return
	}
	switch res {
	case h2peer.FenceTimeout, h2peer.FenceWriteErr:
		if c.peer.Ended() {
			idx = c.peer.Len() - 1
			break
		}
		// a write error with a GOAWAY in the log is the normal end
		if j, ok := c.peer.WaitFor(c.cursor, time.Millisecond, func(e h2peer.Event) bool {
			return e.EOF || (e.Is(http2.FrameGoAway) && e.ErrCode != http2.ErrCodeNo)
		}); ok {
			idx = j
			break
		}
		c.inconclusive("watchdog", "fence: %v after %v", res, wd)
		return
	}
	c.judge(idx)
}

type reaction struct {
	kind h2peer.Outcome // OutStreamErr | OutConnErr
	sid  uint32
	code http2.ErrCode
	last uint32
	ev   string

	anyCode bool // the server ended the connection without naming a code
}

func (r reaction) String() string { return r.ev }

// judge consumes the event log up to index upto and settles the pending verdicts.
func (c *conn) judge(upto int) {
	evs := c.peer.Events()
	if upto >= len(evs) {
		upto = len(evs) - 1
	}
	var reacts []reaction
	var newResp []uint32
	settingsAcks := 0
	pingAcks := map[[8]byte]int{}
	from := c.cursor
	c.groupFrom = from
	fed := false
	feed := func() {
		// The reference sees the server's frames after the verdicts of this group are
		// settled: a response may belong to a stream that exists in the reference only
		// once its HEADERS verdict is committed (4xx written before the PING ACK).
		if !fed {
			fed = true
			for i := from; i <= upto; i++ {
				c.ref.Server(evs[i])
			}
		}
	}
	defer feed()
	for i := c.cursor; i <= upto; i++ {
		e := evs[i]
		if e.EOF {
			c.eof = true
			c.logf("< EOF (%s)", e.ReadErr)
			continue
		}
		switch e.Type {
		case http2.FrameSettings:
			if e.Ack() {
				settingsAcks++
				c.st.settingsAck++
			}
		case http2.FramePing:
			if e.Flags&http2.FlagPingAck != 0 {
				if !h2peer.IsFencePing(e) {
					pingAcks[e.PingData]++
					c.st.pingAck++
				}
			} else {
				c.violate("server-ping", "server sent a PING although no read-idle timeout is configured: %v", e)
			}
			continue
		case http2.FrameHeaders, http2.FrameContinuation:
			if e.Headers != nil && c.respStatus[e.StreamID] == "" {
				for _, h := range e.Headers {
					if h.Name == ":status" {
						c.respStatus[e.StreamID] = h.Value
						newResp = append(newResp, e.StreamID)
					}
				}
			}
			if e.Type == http2.FrameHeaders && e.EndStream() {
				c.respEnded[e.StreamID] = true
			}
		case http2.FrameData:
			if e.EndStream() {
				c.respEnded[e.StreamID] = true
			}
		case http2.FrameRSTStream:
			c.st.rst[e.ErrCode.String()]++
			if e.ErrCode == http2.ErrCodeNo && c.respEnded[e.StreamID] {
				// 8.1: after a complete response the server may ask the client to stop
				// sending the request with RST_STREAM(NO_ERROR): not an error reaction.
				c.st.benignRST++
				c.srvReset[e.StreamID] = true
				c.logf("< %v (after complete response: benign)", e)
				continue
			}
			c.srvReset[e.StreamID] = true
			reacts = append(reacts, reaction{kind: h2peer.OutStreamErr, sid: e.StreamID, code: e.ErrCode, ev: e.String()})
		case http2.FrameGoAway:
			c.st.goaway[e.ErrCode.String()]++
			c.mu.Lock()
			ms := c.maxStarted
			for _, s := range c.starts {
				if s.SID > ms {
					ms = s.SID
				}
			}
			c.mu.Unlock()
			for sid, fresh := range c.afterDead {
				if fresh && e.ErrCode != http2.ErrCodeNo && e.LastStreamID >= sid {
					c.st.lastCoversBehind++
					c.logf("(GOAWAY last-stream-id %d reaches stream %d, first used behind the offending frame)", e.LastStreamID, sid)
					break
				}
			}
			if e.LastStreamID < ms {
				c.violate("goaway-last-stream-id", "GOAWAY last-stream-id %d is below stream %d whose handler was started (%v)", e.LastStreamID, ms, e)
			}
			if e.ErrCode == http2.ErrCodeNo {
				if !c.graceOK {
					c.violate("goaway-without-cause", "GOAWAY(NO_ERROR) although the client sent no GOAWAY and nothing asked for a shutdown: %v", e)
				}
				c.sawGrace = true
			} else {
				c.dead = true
				reacts = append(reacts, reaction{kind: h2peer.OutConnErr, code: e.ErrCode, last: e.LastStreamID, ev: e.String()})
			}
		}
		if !(e.Is(http2.FramePing)) {
			if e.HeadersErr != "" {
				c.logf("< %v  [HPACK decode error in the harness peer: %s; fragment %x]", e, e.HeadersErr, e.Data)
			} else {
				c.logf("< %v", e)
			}
		}
	}
	c.cursor = upto + 1
	if (c.silent || (c.eof && c.sawGrace)) && !c.dead && c.pendingAllowsConnErr() {
		// connection error signalled by closing only (after a GOAWAY was already sent)
		c.dead = true
		reacts = append(reacts, reaction{kind: h2peer.OutConnErr, anyCode: true, ev: "connection error without a second GOAWAY (server silent / closed after its GOAWAY(NO_ERROR))"})
	}
	if c.eof && c.sawGrace && !c.dead {
		// the server said GOAWAY(NO_ERROR) after ours and closed once no stream was
		// left (upstream: one second later): a regular end, nothing left to judge
		c.pending = c.pending[:0]
		c.checkStarts()
		return
	}

	// settle pending verdicts in order
	j := 0
	needSettingsAck := 0
	var needPing [][8]byte
	var startWait []uint32
	for pi, p := range c.pending {
		v := p.v
		var out h2peer.Outcome
		matched := false
		if j < len(reacts) {
			r := reacts[j]
			if v.Allows(r.kind, r.sid, r.code) || (r.anyCode && len(v.ConnErr) > 0) {
				out, matched = r.kind, true
				j++
			}
		}
		if !matched {
			switch {
			case v.AllowOK:
				out = h2peer.OutOK
			case p.assumed && (hasConnErr(reacts[j:]) || c.eof):
				// sent without a fence in between (reads held): the RST_STREAM this frame
				// earned was still queued when a later frame of the group killed the
				// connection; a connection error supersedes it.
				out = v.Default()
				c.st.superseded++
			case v.Allow4xx && !c.dead && !c.eof:
				if !c.await4xx(v.StreamErrSID) {
					return
				}
				out = h2peer.Out4xx
			default:
				got := "no reaction"
				if j < len(reacts) {
					got = reacts[j].String()
				} else if c.eof {
					got = "connection closed without GOAWAY"
				}
				cls := "missing-error"
				if j < len(reacts) {
					cls = "wrong-error"
				} else if c.eof {
					cls = "closed-without-goaway"
				}
				cls += ":" + frameName(v) + ":" + slug(v.Why)
				switch {
				case v.Tag == h2peer.TagAfterRejected && j < len(reacts) && reacts[j].kind == h2peer.OutConnErr && reacts[j].code == http2.ErrCodeProtocol:
					cls = v.Tag // D20 (b): the server takes the id for idle
				case v.Tag == h2peer.TagAfterRejected && j >= len(reacts) && !c.eof && (v.Type == 1 || v.Type == 9):
					cls = v.Tag // D20 (a): the server accepts a HEADERS block on the used-up id
				case v.Tag == "frame-shorter-than-its-flags-require" && c.eof:
					cls = v.Tag
				}
				c.violate(cls, "frame %s [%s] must draw %s; observed: %s", v.Desc, p.label, v, got)
				return
			}
		}
		if c.legal && out != h2peer.OutOK {
			c.violate("error-on-legal:"+frameName(v), "legal script: frame %s [%s] drew %v", v.Desc, p.label, out)
			return
		}
		if p.assumed {
			if out != v.Default() && out != h2peer.OutConnErr {
				for _, q := range c.pending[pi+1:] {
					if q.v.SID == v.SID && q.v.Kind != "DEAD" {
						c.inconclusive("ref-desync", "frame %s [%s]: reference assumed %v before it could observe, server chose %v (allowed); a later frame of the same group on the same stream was judged on the assumption", v.Desc, p.label, v.Default(), out)
						return
					}
				}
				c.ref.Recommit(v, out)
			}
			if out == h2peer.OutConnErr {
				c.ref.Dead = true
			}
		} else {
			c.ref.Commit(v, out)
		}
		if out == h2peer.OutConnErr {
			c.noteDead(v, p.assumed)
			break // 5.4.1: nothing after a connection error is judged (only: no handler starts)
		}
		if out == h2peer.OutOK {
			if v.AckSettings {
				needSettingsAck++
			}
			if v.AckPing {
				needPing = append(needPing, v.PingData)
			}
			if v.StartSID != 0 {
				startWait = append(startWait, v.StartSID)
			}
		}
	}
	c.pending = c.pending[:0]
	feed()
	if c.fail != nil {
		return
	}
	for _, sid := range newResp {
		rs := c.ref.Streams[sid]
		switch {
		case rs != nil && (rs.MayStart || rs.Auto4xx):
		case rs != nil && rs.Rejected:
			// D20 (a): the server acts on a HEADERS block on the used-up id (answers it itself)
			c.violate(h2peer.TagAfterRejected, "response (status %s) on stream %d: the server acted on a HEADERS block on an id the client had used up with a rejected malformed block", c.respStatus[sid], sid)
			return
		default:
			c.violate("response-without-request:"+c.ref.StateOf(sid).String(), "response (status %s) on stream %d, on which the reference has no request the server may act on (state %v)", c.respStatus[sid], sid, c.ref.StateOf(sid))
			return
		}
	}
	if c.followUp {
		c.followUp = false
		defer func() {
			if c.fail == nil && !c.dead && !c.eof {
				c.fenceAndJudge()
			}
		}()
	}
	if j < len(reacts) && !c.ref.SawSettings && reacts[j].kind == h2peer.OutConnErr && reacts[j].code == http2.ErrCodeProtocol {
		// The first frame drew only a stream error, so the connection still waits for
		// SETTINGS (3.4) - and the next frame it saw was our own fence PING.
		c.st.fenceBeforeSettings++
		j++
	}
	if j < len(reacts) {
		r := reacts[j]
		cls := "unexpected-error:" + c.lastLabelKind()
		if c.groupTag == h2peer.TagAfterRejected && r.kind == h2peer.OutConnErr && r.code == http2.ErrCodeProtocol {
			cls = c.groupTag // D20 (b)
		}
		if rs := c.ref.Streams[r.sid]; r.kind == h2peer.OutStreamErr && (r.code == http2.ErrCodeProtocol || r.code == http2.ErrCodeRefusedStream) &&
			rs != nil && rs.MayStart && len(c.afterRej) > 0 && uint32(c.ref.ActiveCount()+len(c.afterRej)) >= c.ref.Limit {
			// (the reference has already seen this RST_STREAM, so the refused stream itself is no longer among
			// the active ones: ">=" - with ">" the class was missed whenever the handler on the used-up id had
			// not been logged yet, seen at seed 4 on a loaded machine)
			// D20 (a), seen from the side: the server opened a stream for a HEADERS block on the
			// used-up id (e.g. to answer it with a 400 of its own), still counts it against the
			// concurrency limit and therefore refuses a request the reference has room for. When
			// that 400 reaches the log before the fence ACK the same script is classed by the
			// response itself (above); under load it may come later.
			cls = h2peer.TagAfterRejected
		}
		if c.slotSID != 0 && r.sid == c.slotSID && r.kind == h2peer.OutStreamErr && (r.code == http2.ErrCodeProtocol || r.code == http2.ErrCodeRefusedStream) {
			// D24: the stream the client opened at the limit right behind the END_STREAM of another one
			cls = tagSlotReuse
		}
		c.violate(cls, "reaction %s is not explained by any frame sent (all frames of this group were judged; reference allowed none of them to draw it) [reference: %d active, limit %d, stream %d known=%v, ids used up by rejected blocks and reused: %v]",
			r, c.ref.ActiveCount(), c.ref.Limit, r.sid, c.ref.Streams[r.sid] != nil, c.afterRej)
		return
	}
	if c.legal && len(reacts) > 0 {
		c.violate("error-on-legal", "legal script drew %v", reacts)
		return
	}
	if !c.dead && !c.eof {
		if settingsAcks < needSettingsAck {
			c.violate("settings-not-acked", "%d SETTINGS frame(s) accepted in this group but only %d SETTINGS ACK(s) before the fence", needSettingsAck, settingsAcks)
			return
		}
	}
	for _, d := range needPing {
		if pingAcks[d] > 0 {
			pingAcks[d]--
		} else if !c.dead && !c.eof {
			c.violate("ping-not-acked", "PING %x accepted but no ACK with that payload before the fence", d)
			return
		}
	}
	for d, n := range pingAcks {
		if n > 0 {
			// 6.7: "An endpoint MUST NOT respond to PING frames containing [the ACK] flag"
			c.violate("ping-ack-unsolicited", "the server sent PING ACK %x which answers no PING of this group", d)
			return
		}
	}
	if settingsAcks > needSettingsAck {
		c.violate("settings-ack-unsolicited", "%d SETTINGS ACK(s) but only %d SETTINGS frame(s) to acknowledge", settingsAcks, needSettingsAck)
		return
	}
	if c.eof && !c.dead && !c.sawGrace {
		c.violate("closed-without-goaway:"+c.lastLabelKind(), "the server closed the connection without GOAWAY and none of the frames sent allows a connection error")
		return
	}
	for _, sid := range startWait {
		if c.dead || c.eof {
			break
		}
		c.awaitStart(sid)
	}
	c.checkStarts()
	if c.fail == nil {
		c.groupTag = ""
	}
}

func (c *conn) pendingAllowsConnErr() bool {
	for _, p := range c.pending {
		if len(p.v.ConnErr) > 0 {
			return true
		}
	}
	return false
}

func hasConnErr(rs []reaction) bool {
	for _, r := range rs {
		if r.kind == h2peer.OutConnErr {
			return true
		}
	}
	return false
}

func frameName(v *h2peer.Verdict) string {
	return strings.SplitN(v.Desc, " ", 2)[0]
}

func slug(s string) string {
	if i := strings.IndexAny(s, ";:("); i > 0 {
		s = s[:i]
	}
	s = strings.TrimSpace(s)
	s = strings.Map(func(r rune) rune {
		if r == ' ' {
			return '-'
		}
		return r
	}, s)
	if len(s) > 60 {
		s = s[:60]
	}
	return s
}

func (c *conn) lastLabelKind() string {
	if n := len(c.steps); n > 0 {
		return c.steps[n-1].Label
	}
	return "?"
}

// zombies: handlers still running for streams that are no longer active.
func (c *conn) releaseZombies() {
	c.mu.Lock()
	var zs []*hstate
	for sid, h := range c.hs {
		if h.nStarted > 0 && !h.released {
			if st := c.ref.StateOf(sid); !st.Active() {
				h.released = true
				zs = append(zs, h)
			}
		}
	}
	c.mu.Unlock()
	for _, h := range zs {
		close(h.gate)
	}
	for _, h := range zs {
		select {
		case <-h.exited:
		case <-time.After(watchdog):
			c.inconclusive("watchdog", "handler of a reset stream did not return after its gate was released")
		}
	}
}

func (c *conn) awaitStart(sid uint32) {
	c.mu.Lock()
	h := c.h(sid)
	full := uint32(c.running) >= c.limit
	c.mu.Unlock()
	if full {
		select {
		case <-h.started:
		default:
			// all handler slots are taken by handlers of streams that are already closed
			// (reset): the server queues the new handler until one returns.
			c.st.queuedStart++
			if c.manualZombies {
				return // the script lets the zombies return one by one itself
			}
			c.releaseZombies()
		}
	}
	select {
	case <-h.started:
	case <-time.After(watchdog):
		if st := c.ref.StateOf(sid); st.Active() {
			// A verdict only where nothing else can explain it: fewer handlers are running than the advertised limit
			// (the harness counts them itself), the server still answers a PING, and the handler has not started after
			// that round trip either. (Before seeded change C13-L's second look this was always INCONCLUSIVE - and swallowed a
			// handler counter that had wrapped: every later request was queued for ever.)
			c.mu.Lock()
			running := c.running
			c.mu.Unlock()
			if uint32(running) < c.limit && !c.held {
				if _, res := c.peer.FenceOrGoAway(c.cursor, watchdog); res == h2peer.FenceAck {
					select {
					case <-h.started:
						return
					default:
					}
					c.violate("handler-never-started", "stream %d was accepted (no error, the server answers PING) and %d of %d handler slots are in use, but no handler has started for it within %v", sid, running, c.limit, watchdog)
					return
				}
			}
			c.inconclusive("watchdog", "handler for stream %d (accepted, no error) did not start within %v", sid, watchdog)
		}
	}
}

// await4xx waits for a complete response on sid; it must be a 4xx produced without the user handler.
func (c *conn) await4xx(sid uint32) bool {
	c.mu.Lock()
	full := uint32(c.running) >= c.limit
	c.mu.Unlock()
	if full {
		c.releaseZombies()
	}
	// only what came after this group was sent counts (the id may have drawn an
	// RST_STREAM earlier, e.g. WINDOW_UPDATE with increment 0 while it was idle)
	from := c.groupFrom
	end, ok := c.peer.WaitFor(from, watchdog, func(e h2peer.Event) bool {
		if e.EOF || e.StreamID != sid {
			return false
		}
		return e.Is(http2.FrameRSTStream) || ((e.Is(http2.FrameData) || e.Is(http2.FrameHeaders)) && e.EndStream())
	})
	if !ok {
		c.mu.Lock()
		started := c.hs[sid] != nil && c.hs[sid].nStarted > 0
		c.mu.Unlock()
		if started {
			c.violate("handler-not-allowed:malformed-request", "malformed request on stream %d reached the user handler", sid)
		} else {
			c.violate("missing-error:malformed-request", "malformed request on stream %d drew neither RST_STREAM/GOAWAY nor a 4xx response within %v", sid, watchdog)
		}
		return false
	}
	var r h2peer.Response
	for _, e := range c.peer.Events()[from : end+1] {
		if e.EOF || e.StreamID != sid {
			continue
		}
		switch {
		case e.Is(http2.FrameRSTStream):
			r.Reset, r.ResetCode = true, e.ErrCode
		case e.Is(http2.FrameHeaders) || e.Is(http2.FrameContinuation):
			for _, h := range e.Headers {
				if h.Name == ":status" && r.Status == "" {
					r.Status = h.Value
				}
			}
			r.Ended = r.Ended || (e.Is(http2.FrameHeaders) && e.EndStream())
		case e.Is(http2.FrameData):
			r.Ended = r.Ended || e.EndStream()
		}
	}
	c.st.resp4xx++
	c.mu.Lock()
	started := c.hs[sid] != nil && c.hs[sid].nStarted > 0
	c.mu.Unlock()
	if started {
		c.violate("handler-not-allowed:malformed-request", "malformed request on stream %d reached the user handler", sid)
		return false
	}
	if r.Reset && !r.Ended {
		// an RST_STREAM that came after the fence (cannot happen with an ordered control queue)
		c.violate("late-reset", "RST_STREAM(%v) on stream %d arrived after the PING ACK that fenced its cause", r.ResetCode, sid)
		return false
	}
	if len(r.Status) != 3 || r.Status[0] != '4' {
		c.violate("wrong-error:malformed-request", "malformed request on stream %d was answered with status %q (no handler ran); allowed: RST_STREAM(PROTOCOL_ERROR) or a 4xx", sid, r.Status)
		return false
	}
	c.followUp = true // the response frames are fed to the reference by a fence after this group
	return true
}

// noteDead remembers the input situation in which the connection died (by the
// reference): which frame, and whether the frames after it were sent before its
// GOAWAY could be seen.
func (c *conn) noteDead(v *h2peer.Verdict, unfenced bool) {
	if c.deadBy != "" {
		return
	}
	c.deadBy = frameName(v) + ":" + slug(v.Why)
	switch {
	case c.held:
		c.deadBy += ":goaway-queued-behind-blocked-write"
	case unfenced:
		c.deadBy += ":same-unfenced-group"
	}
}

// checkStarts applies the global handler monitors to the start log.
func (c *conn) checkStarts() {
	c.mu.Lock()
	defer c.mu.Unlock()
	if c.overLimit != "" {
		c.violate("handlers-over-limit", "%s", c.overLimit)
	}
	for i := c.checkedSt; i < len(c.starts); i++ {
		s := c.starts[i]
		c.st.starts++
		if s.SID == 0 {
			c.violate("handler-not-allowed:unidentified", "a handler started for a request without the x-sid field every scripted request carries")
			continue
		}
		if s.SID%2 == 0 {
			c.violate("handler-even-id", "handler started for even stream id %d", s.SID)
		}
		rs := c.ref.Streams[s.SID]
		d20 := (rs == nil || !rs.MayStart) && (c.afterRej[s.SID] || (s.SID%2 == 1 && s.SID > c.ref.MaxAcceptedID && s.SID <= c.ref.MaxClientID))
		if s.SID <= c.maxStarted {
			// (a handler on an id used up by a rejected block - D20 (a) - may be logged after the handler of a later
			// stream on a loaded machine: that is the known class, not a second finding)
			if !d20 {
				c.violate("handler-ids-not-increasing", "handler started for stream %d after a handler for stream %d", s.SID, c.maxStarted)
			}
		} else {
			c.maxStarted = s.SID
		}
		if rs == nil || !rs.MayStart {
			st := c.ref.StateOf(s.SID)
			cls := "handler-not-allowed:" + st.String()
			if c.afterRej[s.SID] || (s.SID%2 == 1 && s.SID > c.ref.MaxAcceptedID && s.SID <= c.ref.MaxClientID) {
				cls = h2peer.TagAfterRejected // D20 (a)
			}
			if _, behind := c.afterDead[s.SID]; behind && c.deadBy != "" {
				// the request was sent after a frame that must draw (only) a connection error
				c.violate("request-served-after-connection-error:"+c.deadBy, "handler started for stream %d, whose HEADERS frame was sent after the frame that must draw a connection error (%s); 5.4.1: no further request may be served on that connection", s.SID, c.deadBy)
				continue
			}
			c.violate(cls, "handler started for stream %d, for which the reference allows none (reference stream state: %v; dead=%v graceful-goaway=%v last=%d)", s.SID, st, c.ref.Dead, c.ref.ServerGoAway, c.ref.ServerLast)
		}
	}
	c.checkedSt = len(c.starts)
}

// release opens the gate of a handler and waits for the end of the response.
func (c *conn) release(sid uint32) {
	c.mu.Lock()
	h := c.hs[sid]
	if h == nil || h.nStarted == 0 || h.released {
		c.mu.Unlock()
		return
	}
	h.released = true
	c.mu.Unlock()
	active := c.ref.StateOf(sid).Active()
	c.logf("release handler %d (stream %v)", sid, c.ref.StateOf(sid))
	close(h.gate)
	if active {
		_, ok := c.peer.WaitFor(c.cursor, watchdog, func(e h2peer.Event) bool {
			if e.EOF {
				return true
			}
			if e.Is(http2.FrameGoAway) && e.ErrCode != http2.ErrCodeNo {
				return true
			}
			if e.StreamID != sid {
				return false
			}
			return e.Is(http2.FrameRSTStream) || ((e.Is(http2.FrameData) || e.Is(http2.FrameHeaders)) && e.EndStream())
		})
		if !ok && !c.peer.Ended() {
			c.inconclusive("watchdog", "no end of response on stream %d within %v after its handler was released", sid, watchdog)
			return
		}
	}
	select {
	case <-h.exited:
	case <-time.After(watchdog):
		c.inconclusive("watchdog", "handler %d did not return after release", sid)
		return
	}
	if c.held {
		return
	}
	if c.noFenceRelease {
		c.judge(c.peer.Len() - 1)
		return
	}
	c.fenceAndJudge()
	if c.fail == nil && active && !c.dead && !c.eof {
		r := c.peer.Response(sid)
		if r.Ended {
			c.st.responses++
			want := []byte("ok")
			if c.bigMode[sid] {
				want = r.Body // not compared for the experimental scripts
			}
			if r.Status != "200" || !bytes.Equal(r.Body, want) {
				c.violate("response-corrupt", "stream %d: released handler wrote 200 and a %d-byte body, client received status %q and %d bytes", sid, len(want), r.Status, len(r.Body))
			}
		}
	}
}

// finish ends the script: after a connection error one more well-formed request
// is sent (it must not be served); then everything is released and torn down.
func (c *conn) finish(probeSID uint32, probe []byte) {
	if c.held {
		c.hc.Release()
		c.held = false
	}
	if c.fail == nil && !c.dead && !c.eof {
		if c.ref.InBlock() {
			// never leave a block open at the end: nothing to judge, just close
		} else {
			c.fenceAndJudge()
		}
	}
	if c.dead && !c.eof && c.fail == nil && probe != nil {
		if c.silent {
			c.wmu.Lock()
			c.goawaySeen = true
			c.wmu.Unlock()
		} else {
			<-c.watchDone
		}
		c.st.probes++
		v := c.ref.Expect(probe)
		if v.StartSID != 0 {
			c.inconclusive("rig", "reference would allow a handler after a connection error")
		}
		c.logf("> probe request on stream %d after GOAWAY", probeSID)
		if err := c.write(probe); err == nil {
			c.st.probesSent++
		}
	}
	close(c.done)
	c.mu.Lock()
	for _, h := range c.hs {
		if !h.released {
			h.released = true
			close(h.gate)
		}
	}
	c.mu.Unlock()
	c.hc.Close()
	lingering := false
	if c.dead {
		// After a connection error found by its frame reader the server no longer reads,
		// so it notices our close only when its own one-second GOAWAY timer fires. No
		// frame is processed any more, hence no handler can start: do not sit that out.
		select {
		case <-c.srvDone:
			c.st.srvReturned++
		case <-time.After(deadGrace):
			c.st.srvLingering++
			lingering = true
		}
	} else {
		select {
		case <-c.srvDone:
			c.st.srvReturned++
		case <-time.After(watchdog):
			c.inconclusive("watchdog", "ServeConn did not return within %v after the client closed", watchdog)
		}
	}
	<-c.watchDone
	// handlers that started have returned (conn gone, gates open); give the log its final state
	c.mu.Lock()
	var hs []*hstate
	for _, h := range c.hs {
		if h.nStarted > 0 {
			hs = append(hs, h)
		}
	}
	c.mu.Unlock()
	for _, h := range hs {
		if lingering {
			break // handlers blocked in Body.Read return when the server's own timer closes the connection
		}
		select {
		case <-h.exited:
		case <-time.After(watchdog):
			c.inconclusive("watchdog", "a handler did not return after the connection was closed")
		}
	}
	if c.fail == nil || c.fail.kind != "violation" {
		save := c.fail
		c.fail = nil
		c.checkStarts()
		if c.fail == nil {
			c.fail = save
		}
	}
	// late GOAWAY frames (after the last judge) still have to cover every started handler
	evs := c.peer.Events()
	for i := c.cursor; i < len(evs); i++ {
		if e := evs[i]; e.Is(http2.FrameGoAway) && e.LastStreamID < c.maxStarted && c.fail == nil {
			c.violate("goaway-last-stream-id", "GOAWAY last-stream-id %d is below stream %d whose handler was started (%v)", e.LastStreamID, c.maxStarted, e)
		}
	}
}
