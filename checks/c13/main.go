// C13 — the HTTP/2 server obeys the stream state machine for any frame sequence.
//
// Rig: the fork's Server.ServeConn on one end of net.Pipe, the raw-frame peer
// (independent x/net v0.19.0 Framer) on the other; the user handler records
// its start in the same logical clock as the peer's event log and then waits
// on a per-stream gate the script controls. After every step the script fences
// with PING; every RST_STREAM / GOAWAY / SETTINGS ACK caused by earlier frames
// precedes the ACK. Every client frame is first classified by the reference
// state machine (internal/h2peer/refsm.go), which returns the set of reactions
// RFC 7540/9113 allow; the observed reaction must be in the set.
package main

import (
	"fmt"
	"os"
	"runtime"
	"sort"
	"sync"
	"time"

	"verif/internal/verdict"
)

type job struct {
	kind    string
	limit   uint32
	state   string
	vr      int
	others  int
	seed    int64
	special string
}

func (j job) run(st *stats) (*conn, witness) {
	var c *conn
	w := witness{Kind: j.kind, Limit: j.limit}
	switch j.kind {
	case "cell":
		w.State, w.Variant, w.Others = j.state, variants[j.vr].name, j.others
		c = runCell(j.limit, j.state, variants[j.vr], j.others, st)
	case "first":
		w.State, w.Variant = "first-frame-after-preface", variants[j.vr].name
		c = runFirst(j.limit, variants[j.vr], st)
	case "random":
		w.Seed = j.seed
		c = runSequence(j.limit, false, j.seed, st)
	case "legal":
		w.Seed = j.seed
		c = runSequence(j.limit, true, j.seed, st)
	case "queued":
		w.Seed = j.seed
		c = runQueued(j.limit, j.seed, st)
	case "slot-reuse":
		w.Seed = j.seed
		c = runSlotReuse(j.limit, j.seed, st)
	}
	w.Steps, w.Trace = c.steps, c.trace
	return c, w
}

// replay re-executes the recorded steps of a witness.
func replay(w witness, st *stats) *conn {
	c := newConn(w.Limit, w.Kind == "legal", st)
	c.manualZombies = w.Kind == "queued"
	c.bigMode = map[uint32]bool{}
	if err := c.write([]byte("PRI * HTTP/2.0\r\n\r\nSM\r\n\r\n")); err != nil {
		c.inconclusive("rig", "preface: %v", err)
	}
	var maxSID uint32
	for _, s := range w.Steps {
		if c.over() {
			break
		}
		for _, f := range s.frames() {
			if len(f) >= 9 {
				if id := (uint32(f[5])<<24 | uint32(f[6])<<16 | uint32(f[7])<<8 | uint32(f[8])) & 0x7fffffff; id > maxSID {
					maxSID = id
				}
			}
		}
		c.exec(Step{Op: s.Op, Label: s.Label, Frames: s.Frames, SID: s.SID, NoFence: s.NoFence})
		if s.Label == "client-settings" && !c.over() {
			c.limitCheck()
		}
	}
	p := maxSID | 1
	p += 2
	c.finish(p, getES(p))
	return c
}

func merge(dst, src *stats) {
	dst.zombieReturns += src.zombieReturns
	dst.slotReuse += src.slotReuse
	for k, v := range src.frames {
		dst.frames[k] += v
	}
	for k, v := range src.kinds {
		dst.kinds[k] += v
	}
	for k, v := range src.rst {
		dst.rst[k] += v
	}
	for k, v := range src.goaway {
		dst.goaway[k] += v
	}
	dst.fences += src.fences
	dst.starts += src.starts
	dst.responses += src.responses
	dst.resp4xx += src.resp4xx
	dst.settingsAck += src.settingsAck
	dst.pingAck += src.pingAck
	dst.benignRST += src.benignRST
	dst.probes += src.probes
	dst.probesSent += src.probesSent
	dst.holds += src.holds
	dst.queuedStart += src.queuedStart
	dst.superseded += src.superseded
	dst.srvReturned += src.srvReturned
	dst.srvLingering += src.srvLingering
	dst.silentDead += src.silentDead
	dst.fenceBeforeSettings += src.fenceBeforeSettings
	dst.ceHolds += src.ceHolds
	dst.ceBehind += src.ceBehind
	dst.ceFramesBehind += src.ceFramesBehind
	dst.holdLeaks += src.holdLeaks
	dst.lastCoversBehind += src.lastCoversBehind
}

func main() {
	run := verdict.Start("C13", "exploration",
		"(a) complete product {idle, open, half-closed-remote, closed-by-END_STREAM, closed-by-client-RST, closed-by-server-RST, reset-in-flight, conn-error-in-flight (reads held, writer blocked, a frame that must draw a connection error, then the variant and a new request before the GOAWAY can leave)} x every frame variant (each type valid + each listed defect) x load {0, limit-1, limit other streams}; plus every variant as the first frame after the preface; (b) random sequences of <= 40 steps over the same alphabet biased towards legality, one in six ending in such a conn-error-in-flight group; (c) legal-only sequences. Distinct by (kind, limit, state, variant, load) or (kind, seed); non-trivial when at least one frame was judged against the reference after the preface")
	if run.ReplayFile != "" {
		var w witness
		if err := verdict.LoadReplay(run.ReplayFile, &w); err != nil {
			run.Inconclusive("replay unreadable: %v", err)
			run.Finish()
		}
		run.Eval(1)
		run.Distinct("replay")
		st := newStats()
		c := replay(w, st)
		w.Steps, w.Trace = c.steps, c.trace
		for _, l := range c.trace {
			fmt.Println("  " + l)
		}
		switch {
		case c.fail == nil:
			fmt.Println("replay: script holds")
		case c.fail.kind == "violation":
			run.Violation(c.fail.class, w, "%s", c.fail.msg)
		default:
			run.Inconclusive("%s: %s", c.fail.class, c.fail.msg)
		}
		run.Finish()
	}

	var jobs []job
	limits := []uint32{3, 4, 5}
	// (a) the complete product, both tiers
	cells := 0
	for si, state := range states {
		for vi := range variants {
			limit := limits[(si+vi)%len(limits)]
			loads := []int{0, int(limit) - 1}
			if state == "idle" || state == "closed-end-stream" || state == "closed-client-rst" || state == "closed-server-rst" || state == "rejected-malformed-headers" || state == lateEndState {
				loads = append(loads, int(limit)) // the target is not active: the limit is already reached without it
			}
			for _, o := range loads {
				jobs = append(jobs, job{kind: "cell", limit: limit, state: state, vr: vi, others: o})
				cells++
			}
		}
	}
	for vi := range variants {
		jobs = append(jobs, job{kind: "first", limit: limits[vi%3], vr: vi})
	}
	seeds := run.Rand(13)
	for i, n := 0, run.Pick(3000, 100000); i < n; i++ {
		jobs = append(jobs, job{kind: "random", limit: limits[i%3], seed: seeds.Int63()})
	}
	for i, n := 0, run.Pick(1000, 30000); i < n; i++ {
		jobs = append(jobs, job{kind: "legal", limit: limits[i%3], seed: seeds.Int63()})
	}
	for i, n := 0, run.Pick(60, 1500); i < n; i++ {
		jobs = append(jobs, job{kind: "queued", limit: limits[i%3], seed: seeds.Int63()})
	}
	// "slot-reuse" scripts (runSlotReuse), over loopback TCP: with the connection at its limit the client opens
	// the next stream the moment it has read END_STREAM of another one. The unchanged server refuses such a
	// stream now and then (D24, known finding: the result of the asynchronous write of the final DATA frame has
	// not reached the serve loop when the next HEADERS is processed - over a kernel socket in about 0.4 % of the
	// attempts under the race detector, over the synchronous pipe in about 1 %). Only that reaction on that
	// stream is the known class; anything else in these legal scripts is a violation.
	for i, n := 0, run.Pick(100, 1000); i < n; i++ {
		jobs = append(jobs, job{kind: "slot-reuse", limit: limits[i%3], seed: seeds.Int63()})
	}

	if sd := os.Getenv("VERIF_C13_SCRIPT"); sd != "" { // debugging aid: "<random|legal> <limit> <seed>": run one script, print its trace
		var j job
		fmt.Sscanf(sd, "%s %d %d", &j.kind, &j.limit, &j.seed)
		c, _ := j.run(newStats())
		for _, l := range c.trace {
			fmt.Printf("[trace] %.400s\n", l)
		}
		run.Inconclusive("VERIF_C13_SCRIPT: single script, fail=%v", c.fail)
		run.Finish()
	}
	if only := os.Getenv("VERIF_C13_ONLY"); only != "" { // debugging aid: cell | random | legal
		var sel []job
		for _, j := range jobs {
			if j.kind == only {
				sel = append(sel, j)
			}
		}
		jobs = sel
		run.Inconclusive("VERIF_C13_ONLY=%s: partial run", only)
	}
	total := newStats()
	var mu sync.Mutex
	cellSeen := map[string]bool{}
	perKind := map[string]int64{}
	durBy := map[string]time.Duration{}
	incClasses := map[string]int{}
	var incFirst []string
	ch := make(chan job, 64)
	var wg sync.WaitGroup
	workers := 16
	if n := runtime.NumCPU(); n > workers {
		workers = n
	}
	for i := 0; i < workers; i++ {
		wg.Add(1)
		go func() {
			defer wg.Done()
			for j := range ch {
				st := newStats()
				t0 := time.Now()
				c, w := j.run(st)
				if d := time.Since(t0); d > 5*time.Second {
					last := ""
					if n := len(c.trace); n > 0 {
						last = c.trace[n-1]
					}
					run.Logf("slow script (%v): %s state=%s variant=%s others=%d seed=%d fail=%v last=%.200s", d.Round(time.Millisecond), j.kind, j.state, w.Variant, j.others, j.seed, c.fail, last)
				}
				if c.fail != nil && c.fail.kind == "inconclusive" {
					// re-run once in isolation from this worker's point of view (fresh connection)
					st2 := newStats()
					c2, w2 := j.run(st2)
					if c2.fail == nil || c2.fail.kind == "violation" {
						c, w, st = c2, w2, st2
					}
				}
				run.Eval(1)
				key := fmt.Sprintf("%s|%d|%s|%d|%d|%d", j.kind, j.limit, j.state, j.vr, j.others, j.seed)
				if len(c.steps) >= 1 {
					run.Distinct(key)
				}
				mu.Lock()
				merge(total, st)
				perKind[j.kind]++
				durBy[j.kind+" "+j.state] += time.Since(t0)
				if j.kind == "cell" && (c.fail == nil || c.fail.kind == "violation") {
					cellSeen[j.state+" x "+variants[j.vr].name] = true
				}
				if c.fail != nil && c.fail.kind == "inconclusive" {
					incClasses[c.fail.class]++
					if len(incFirst) < 3 {
						incFirst = append(incFirst, fmt.Sprintf("%s: %s (%s %s %s seed %d)", c.fail.class, c.fail.msg, j.kind, j.state, w.Variant, j.seed))
					}
				}
				mu.Unlock()
				if c.fail != nil && c.fail.kind == "violation" {
					run.Violation(c.fail.class, w, "%s | script: %s limit=%d state=%s variant=%s others=%d seed=%d", c.fail.msg, j.kind, j.limit, j.state, w.Variant, j.others, j.seed)
				} else if c.fail == nil && run.WantSample() && (j.kind != "cell" || j.vr%17 == 3) {
					tr := c.trace
					if len(tr) > 24 {
						tr = tr[:24]
					}
					run.Sample(map[string]any{"kind": j.kind, "limit": j.limit, "state": j.state, "variant": w.Variant, "seed": j.seed, "trace_head": tr})
				}
			}
		}()
	}
	for _, j := range jobs {
		ch <- j
	}
	close(ch)
	wg.Wait()

	for k, v := range perKind {
		run.Add("scripts_"+k, v)
	}
	if os.Getenv("VERIF_C13_TIMING") != "" {
		for k, v := range durBy {
			run.Logf("time spent in %-28s %v", k, v.Round(time.Millisecond))
		}
	}
	for k, v := range total.frames {
		run.Add("frames_sent_"+k, v)
	}
	for k, v := range total.kinds {
		run.Add("reference_verdict_"+k, v)
	}
	for k, v := range total.rst {
		run.Add("rst_stream_"+k, v)
	}
	for k, v := range total.goaway {
		run.Add("goaway_"+k, v)
	}
	run.Add("fences", total.fences)
	run.Add("handler_starts", total.starts)
	run.Add("responses_200", total.responses)
	run.Add("responses_4xx_without_handler", total.resp4xx)
	run.Add("settings_acks", total.settingsAck)
	run.Add("ping_acks_nonfence", total.pingAck)
	run.Add("rst_no_error_after_response", total.benignRST)
	run.Add("probes_after_goaway", total.probes)
	run.Add("probes_after_goaway_delivered", total.probesSent)
	run.Add("reset_in_flight_constructions", total.holds)
	run.Add("conn_error_in_flight_constructions", total.ceHolds)
	run.Add("requests_delivered_behind_queued_error_goaway", total.ceBehind)
	run.Add("frames_delivered_behind_queued_error_goaway", total.ceFramesBehind)
	run.Add("held_constructions_where_writer_was_not_blocked", total.holdLeaks)
	run.Add("error_goaway_last_id_reaches_a_request_sent_behind_the_error", total.lastCoversBehind)
	run.Add("handler_starts_queued_behind_zombies", total.queuedStart)
	run.Add("zombie_handlers_returned_one_at_a_time", total.zombieReturns)
	run.Add("streams_opened_right_behind_an_end_stream_at_the_limit", total.slotReuse)
	run.Add("rst_superseded_by_goaway", total.superseded)
	run.Add("serveconn_returned_after_close", total.srvReturned)
	run.Add("serveconn_left_to_its_goaway_timer", total.srvLingering)
	run.Add("connection_errors_after_graceful_goaway_signalled_by_silence", total.silentDead)
	run.Add("fence_ping_was_first_frame_the_server_accepted", total.fenceBeforeSettings)
	run.Add("cells_total", int64(len(states)*len(variants)))
	run.Add("cells_covered", int64(len(cellSeen)))
	var missing []string
	for _, s := range states {
		for _, v := range variants {
			if !cellSeen[s+" x "+v.name] {
				missing = append(missing, s+" x "+v.name)
			}
		}
	}
	sort.Strings(missing)
	if len(missing) > 0 {
		run.Set("cells_not_decided", missing)
	}
	run.Set("frame_variants", len(variants))
	run.Set("stream_states", states)
	run.SetExhaustive(false)
	for cls, n := range incClasses {
		run.Inconclusive("%d script(s) inconclusive, class %s; first: %v", n, cls, incFirst)
	}
	run.Require("cells_covered", int64(len(states)*len(variants)))
	run.Require("handler_starts", 1000)
	run.Require("fences", 10000)
	run.Require("probes_after_goaway_delivered", 50)
	run.Require("reference_verdict_CE", 300)
	run.Require("requests_delivered_behind_queued_error_goaway", 100)
	run.Require("reference_verdict_E", 300)
	run.Require("reference_verdict_IGN", 100)
	run.Assume("x/net v0.19.0 Framer and HPACK decoder (module cache) are the independent codec the peer and the reference rest on")
	run.Assume("request bodies stay far below the flow-control windows (C12 judges flow control); a content-length that is larger than the body sent is not judged")
	run.Assume("a handler start is negative-checked at every fence and after ServeConn returned; a start that would be logged later than that is not seen")
	run.Finish()
}
