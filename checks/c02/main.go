//go:build verif

// C02 — JA4 header equals the JA4 of the ClientHello; order/GREASE invariant.
package main

import "verif/internal/fpcheck"

func main() { fpcheck.Main("C02") }
