// C20 — write schedulers lose nothing, keep order and respect windows.
//
// Monitor: every operation applied to the real scheduler (through the verif
// export hook of pkg/http2) is mirrored on a list-based reference; every Pop is
// judged against it, and the priority tree / round-robin ring is walked after
// every operation.
package main

import (
	"bytes"
	"encoding/json"
	"fmt"
	"math/rand"
	"runtime"
	"sort"
	"sync"

	"github.com/wi1dcard/fingerproxy/pkg/http2"

	"verif/internal/verdict"
)

type op struct {
	Op     string `json:"op"`
	ID     uint32 `json:"id,omitempty"`
	Dep    uint32 `json:"dep,omitempty"`
	Excl   bool   `json:"excl,omitempty"`
	Weight uint8  `json:"weight,omitempty"`
	N      int32  `json:"n,omitempty"`   // bytes / window delta / frame size
	End    bool   `json:"end,omitempty"` // END_STREAM on data/headers
	Pusher uint32 `json:"pusher,omitempty"`
	Tag    uint64 `json:"tag,omitempty"`
}

type config struct {
	Sched     string `json:"sched"` // rr, random, prio
	NilCfg    bool   `json:"nil_cfg,omitempty"`
	MaxClosed int    `json:"max_closed"`
	MaxIdle   int    `json:"max_idle"`
	Throttle  bool   `json:"throttle,omitempty"`
}

func (c config) new() http2.WriteScheduler {
	switch c.Sched {
	case "rr":
		return http2.VerifNewRoundRobin()
	case "random":
		return http2.NewRandomWriteScheduler()
	}
	if c.NilCfg {
		return http2.NewPriorityWriteScheduler(nil)
	}
	return http2.NewPriorityWriteScheduler(&http2.PriorityWriteSchedulerConfig{
		MaxClosedNodesInTree: c.MaxClosed, MaxIdleNodesInTree: c.MaxIdle, ThrottleOutOfOrderWrites: c.Throttle})
}

type item struct {
	tag  uint64
	kind string // data, headers, control, rst
	data []byte // remaining
	end  bool
	sid  uint32
}

type rstream struct {
	vs    *http2.VerifStream
	open  bool
	fifo  []*item
	win   int64
	ever  bool
}

type world struct {
	cfg      config
	ws       http2.WriteScheduler
	conn     *http2.VerifConn
	connWin  int64
	maxFrame int32
	streams  map[uint32]*rstream
	control  []*item
	popped   map[uint64]int // whole-frame completions per tag
	pushed   map[uint64]*item
	discarded map[uint64]bool
	stats    *stats
}

type stats struct {
	pops, popsFalse, splits, controlPops, dataBytes, walks, adjusts, selfDeps, cyc int64
}

type failure struct {
	class string
	msg   string
	at    int
}

func payload(tag uint64, n int) []byte {
	b := make([]byte, n)
	x := tag*2654435761 + 12345
	for i := range b {
		x = x*6364136223846793005 + 1442695040888963407
		b[i] = byte(x >> 33)
	}
	return b
}

func newWorld(cfg config, st *stats) *world {
	w := &world{cfg: cfg, ws: cfg.new(), streams: map[uint32]*rstream{}, popped: map[uint64]int{}, pushed: map[uint64]*item{}, discarded: map[uint64]bool{}, stats: st}
	w.maxFrame = 16384
	w.connWin = 65535
	w.conn = http2.VerifNewConn(65535, 16384)
	return w
}

func (w *world) apply(o op) (f *failure) {
	defer func() {
		if p := recover(); p != nil {
			f = &failure{class: "panic", msg: fmt.Sprintf("panic in %s: %v", o.Op, p)}
		}
	}()
	switch o.Op {
	case "open":
		s := w.streams[o.ID]
		if s == nil {
			s = &rstream{}
			w.streams[o.ID] = s
		}
		s.vs = w.conn.NewStream(o.ID, o.N)
		s.win = int64(o.N)
		s.open, s.ever = true, true
		w.ws.OpenStream(o.ID, http2.OpenStreamOptions{PusherID: o.Pusher})
	case "close":
		s := w.streams[o.ID]
		for _, it := range s.fifo {
			w.discarded[it.tag] = true
		}
		s.fifo = nil
		s.open = false
		w.ws.CloseStream(o.ID)
	case "adjust":
		w.stats.adjusts++
		if o.ID == o.Dep {
			w.stats.selfDeps++
		}
		w.ws.AdjustStream(o.ID, http2.PriorityParam{StreamDep: o.Dep, Exclusive: o.Excl, Weight: o.Weight})
	case "data":
		s := w.streams[o.ID]
		it := &item{tag: o.Tag, kind: "data", data: payload(o.Tag, int(o.N)), end: o.End, sid: o.ID}
		s.fifo = append(s.fifo, it)
		w.pushed[o.Tag] = it
		w.ws.Push(http2.VerifData(s.vs, append([]byte{}, it.data...), o.End))
	case "headers":
		s := w.streams[o.ID]
		it := &item{tag: o.Tag, kind: "headers", end: o.End, sid: o.ID}
		s.fifo = append(s.fifo, it)
		w.pushed[o.Tag] = it
		w.ws.Push(http2.VerifHeaders(s.vs, int(o.Tag), o.End))
	case "control":
		it := &item{tag: o.Tag, kind: "control"}
		w.control = append(w.control, it)
		w.pushed[o.Tag] = it
		w.ws.Push(http2.VerifControl(o.Tag))
	case "rst":
		it := &item{tag: o.Tag, kind: "rst", sid: o.ID}
		w.control = append(w.control, it)
		w.pushed[o.Tag] = it
		w.ws.Push(http2.VerifRST(o.ID, uint32(o.Tag)))
	case "swin":
		s := w.streams[o.ID]
		if s.vs.AddWindow(o.N) {
			s.win += int64(o.N)
		}
	case "cwin":
		if w.conn.AddWindow(o.N) {
			w.connWin += int64(o.N)
		}
	case "maxframe":
		w.conn.SetMaxFrameSize(o.N)
		w.maxFrame = o.N
	case "pop":
		return w.pop()
	case "drain":
		bound := len(w.control) + 10
		for _, s := range w.streams {
			for _, it := range s.fifo {
				bound += len(it.data) + 1
			}
		}
		for i := 0; i < bound; i++ {
			before := w.stats.popsFalse
			if f := w.pop(); f != nil {
				return f
			}
			if w.stats.popsFalse != before {
				return nil
			}
		}
		return &failure{class: "drain-endless", msg: fmt.Sprintf("drain did not report an empty scheduler after %d pops (more than queued bytes + frames)", bound)}
	}
	return nil
}

func (w *world) sendable(s *rstream) bool {
	if !s.open || len(s.fifo) == 0 {
		return false
	}
	h := s.fifo[0]
	if h.kind != "data" || len(h.data) == 0 {
		return true
	}
	return min(s.win, w.connWin, int64(w.maxFrame)) > 0
}

func (w *world) pop() *failure {
	wr, ok := w.ws.Pop()
	w.stats.pops++
	if !ok {
		w.stats.popsFalse++
		if len(w.control) > 0 {
			return &failure{class: "false-with-control-queued", msg: fmt.Sprintf("Pop reported nothing while %d control frame(s) are queued", len(w.control))}
		}
		ids := w.sortedIDs()
		for _, id := range ids {
			if s := w.streams[id]; w.sendable(s) {
				h := s.fifo[0]
				return &failure{class: "false-while-sendable", msg: fmt.Sprintf("Pop reported nothing while stream %d (open) has a sendable %s frame queued (tag %d, %d bytes; stream window %d, conn window %d, max frame %d)", id, h.kind, h.tag, len(h.data), s.win, w.connWin, w.maxFrame)}
			}
		}
		return nil
	}
	d := http2.VerifDescribe(wr)
	if d.IsControl {
		w.stats.controlPops++
		// must be queued in the control list; non-RST control frames come out FIFO
		idx := -1
		for i, it := range w.control {
			if it.kind == d.Kind && it.tag == d.Tag && (d.Kind != "rst" || it.sid == d.StreamID) {
				idx = i
				break
			}
		}
		if idx < 0 {
			return &failure{class: "unknown-control", msg: fmt.Sprintf("Pop returned a control frame (%s tag %d stream %d) that is not queued (never pushed, or popped twice)", d.Kind, d.Tag, d.StreamID)}
		}
		if d.Kind == "control" {
			for i := 0; i < idx; i++ {
				if w.control[i].kind == "control" {
					return &failure{class: "control-order", msg: fmt.Sprintf("control frame tag %d popped before earlier control frame tag %d", d.Tag, w.control[i].tag)}
				}
			}
		}
		w.popped[d.Tag]++
		w.control = append(w.control[:idx], w.control[idx+1:]...)
		return nil
	}
	if len(w.control) > 0 {
		return &failure{class: "data-before-control", msg: fmt.Sprintf("stream frame (stream %d %s) popped while %d control frame(s) are queued", d.StreamID, d.Kind, len(w.control))}
	}
	s := w.streams[d.StreamID]
	if s == nil || !s.open {
		return &failure{class: "frame-of-closed-stream", msg: fmt.Sprintf("Pop returned a %s frame of stream %d which is not open", d.Kind, d.StreamID)}
	}
	if len(s.fifo) == 0 {
		return &failure{class: "duplicate-or-unknown", msg: fmt.Sprintf("Pop returned a %s frame of stream %d whose queue is empty in the reference (popped twice?)", d.Kind, d.StreamID)}
	}
	h := s.fifo[0]
	if h.kind != d.Kind {
		return &failure{class: "stream-order", msg: fmt.Sprintf("stream %d: popped %s but the oldest queued frame is %s (tag %d)", d.StreamID, d.Kind, h.kind, h.tag)}
	}
	if d.Kind == "headers" {
		if h.tag != d.Tag {
			return &failure{class: "stream-order", msg: fmt.Sprintf("stream %d: popped HEADERS tag %d, oldest queued is tag %d", d.StreamID, d.Tag, h.tag)}
		}
		w.popped[h.tag]++
		s.fifo = s.fifo[1:]
		return nil
	}
	// data
	n := len(d.Data)
	if n > len(h.data) || !bytes.Equal(d.Data, h.data[:n]) {
		return &failure{class: "data-content", msg: fmt.Sprintf("stream %d: popped %d DATA bytes that are not the next bytes of the oldest queued DATA frame (tag %d, %d remaining)", d.StreamID, n, h.tag, len(h.data))}
	}
	limit := min(s.win, w.connWin, int64(w.maxFrame))
	if len(h.data) > 0 {
		if n == 0 {
			return &failure{class: "empty-piece", msg: fmt.Sprintf("stream %d: popped an empty piece of a non-empty DATA frame", d.StreamID)}
		}
		if int64(n) > limit {
			return &failure{class: "window-exceeded", msg: fmt.Sprintf("stream %d: popped %d DATA bytes but min(stream window %d, conn window %d, max frame %d) = %d", d.StreamID, n, s.win, w.connWin, w.maxFrame, limit)}
		}
	}
	s.win -= int64(n)
	w.connWin -= int64(n)
	w.stats.dataBytes += int64(n)
	if int64(s.vs.Window()) != s.win || int64(w.conn.Window()) != w.connWin {
		return &failure{class: "window-accounting", msg: fmt.Sprintf("stream %d: after popping %d bytes windows are stream=%d conn=%d, reference says stream=%d conn=%d", d.StreamID, n, s.vs.Window(), w.conn.Window(), s.win, w.connWin)}
	}
	if n == len(h.data) {
		if d.EndStream != h.end {
			return &failure{class: "end-stream-flag", msg: fmt.Sprintf("stream %d: final piece has END_STREAM=%v, pushed frame had %v", d.StreamID, d.EndStream, h.end)}
		}
		w.popped[h.tag]++
		s.fifo = s.fifo[1:]
	} else {
		w.stats.splits++
		if d.EndStream {
			return &failure{class: "end-stream-flag", msg: fmt.Sprintf("stream %d: intermediate piece carries END_STREAM", d.StreamID)}
		}
		h.data = h.data[n:]
	}
	return nil
}

func (w *world) sortedIDs() []uint32 {
	ids := make([]uint32, 0, len(w.streams))
	for id := range w.streams {
		ids = append(ids, id)
	}
	sort.Slice(ids, func(i, j int) bool { return ids[i] < ids[j] })
	return ids
}

// structure walks the scheduler's internal structure.
func (w *world) structure() *failure {
	w.stats.walks++
	if nodes, problems, ok := http2.VerifWalkPriority(w.ws); ok {
		if len(problems) > 0 {
			return &failure{class: "tree-broken", msg: fmt.Sprintf("priority tree: %v", problems)}
		}
		byID := map[uint32]http2.VerifNode{}
		for _, n := range nodes {
			byID[n.ID] = n
		}
		if _, ok := byID[0]; !ok {
			return &failure{class: "tree-broken", msg: "root missing from walk"}
		}
		for id, s := range w.streams {
			n, present := byID[id]
			if s.open {
				if !present {
					return &failure{class: "open-stream-not-in-tree", msg: fmt.Sprintf("open stream %d has no node reachable from stream 0", id)}
				}
				if n.State != 0 {
					return &failure{class: "open-stream-state", msg: fmt.Sprintf("open stream %d has node state %d", id, n.State)}
				}
				if n.QLen != len(s.fifo) {
					return &failure{class: "queue-length", msg: fmt.Sprintf("stream %d: node queue has %d frames, reference %d", id, n.QLen, len(s.fifo))}
				}
			} else if present && s.ever && n.State == 0 {
				return &failure{class: "closed-stream-state", msg: fmt.Sprintf("closed stream %d still has an open node", id)}
			}
		}
	}
	if ring, problems, ok := http2.VerifWalkRoundRobin(w.ws); ok {
		if len(problems) > 0 {
			return &failure{class: "ring-broken", msg: fmt.Sprintf("round-robin ring: %v", problems)}
		}
		in := map[uint32]bool{}
		for _, id := range ring {
			in[id] = true
		}
		for id, s := range w.streams {
			if s.open != in[id] {
				return &failure{class: "ring-membership", msg: fmt.Sprintf("stream %d open=%v but in ring=%v", id, s.open, in[id])}
			}
		}
	}
	return nil
}

// finish grants window, drains and checks exactly-once.
func (w *world) finish() *failure {
	if f := w.apply(op{Op: "maxframe", N: 1 << 20}); f != nil {
		return f
	}
	if f := w.apply(op{Op: "cwin", N: int32(int64(1<<30) - w.connWin)}); f != nil {
		return f
	}
	for _, id := range w.sortedIDs() {
		if s := w.streams[id]; s.open {
			if f := w.apply(op{Op: "swin", ID: id, N: int32(int64(1<<30) - s.win)}); f != nil {
				return f
			}
		}
	}
	if f := w.apply(op{Op: "drain"}); f != nil {
		f.msg = "final drain: " + f.msg
		return f
	}
	for tag, it := range w.pushed {
		switch {
		case w.discarded[tag]:
			if w.popped[tag] > 1 {
				return &failure{class: "popped-twice", msg: fmt.Sprintf("frame tag %d popped %d times", tag, w.popped[tag])}
			}
		case w.popped[tag] != 1:
			return &failure{class: "lost-or-duplicated", msg: fmt.Sprintf("%s frame tag %d on stream %d was popped %d times (stream never closed)", it.kind, tag, it.sid, w.popped[tag])}
		}
	}
	return nil
}

// gen produces the next operation given the reference state (so that the
// interface's preconditions hold).
type gen struct {
	rng    *rand.Rand
	nextID uint32 // next fresh odd id region
	tag    uint64
	small  bool // small id space => many interactions
}

func (g *gen) next(w *world) op {
	r := g.rng
	open := []uint32{}
	for _, id := range w.sortedIDs() {
		if w.streams[id].open {
			open = append(open, id)
		}
	}
	anyID := func() uint32 {
		switch r.Intn(6) {
		case 0:
			return 0
		case 1, 2:
			if len(open) > 0 {
				return open[r.Intn(len(open))]
			}
		case 3:
			ids := w.sortedIDs()
			if len(ids) > 0 {
				return ids[r.Intn(len(ids))]
			}
		}
		return uint32(1 + r.Intn(int(g.nextID)+40))
	}
	for {
		switch x := r.Intn(100); {
		case x < 12: // open
			var id uint32
			for tries := 0; tries < 20; tries++ {
				if r.Intn(3) == 0 {
					id = uint32(1 + r.Intn(int(g.nextID)+30))
				} else {
					g.nextID += uint32(1 + r.Intn(3))
					id = g.nextID
				}
				if s := w.streams[id]; id != 0 && (s == nil || !s.ever) {
					break
				}
				id = 0
			}
			if id == 0 || len(open) > 40 {
				continue
			}
			o := op{Op: "open", ID: id, N: []int32{0, 1, 100, 16384, 65535, 1 << 20}[r.Intn(6)]}
			if id%2 == 0 && len(open) > 0 {
				o.Pusher = open[r.Intn(len(open))]
			}
			return o
		case x < 19: // close
			if len(open) == 0 {
				continue
			}
			return op{Op: "close", ID: open[r.Intn(len(open))]}
		case x < 37: // adjust
			id := anyID()
			if id == 0 {
				continue
			}
			dep := anyID()
			if r.Intn(10) == 0 {
				dep = id
			}
			return op{Op: "adjust", ID: id, Dep: dep, Excl: r.Intn(3) == 0, Weight: uint8(r.Intn(256))}
		case x < 55: // data
			if len(open) == 0 {
				continue
			}
			g.tag++
			n := []int{0, 1, 5, 100, 1000, 16383, 16384, 16385, 40000, 100000}[r.Intn(10)]
			if r.Intn(3) == 0 {
				n = r.Intn(3000)
			}
			return op{Op: "data", ID: open[r.Intn(len(open))], N: int32(n), End: r.Intn(4) == 0, Tag: g.tag}
		case x < 61:
			if len(open) == 0 {
				continue
			}
			g.tag++
			return op{Op: "headers", ID: open[r.Intn(len(open))], Tag: g.tag, End: r.Intn(4) == 0}
		case x < 66:
			g.tag++
			return op{Op: "control", Tag: g.tag}
		case x < 70:
			g.tag++
			id := anyID()
			if id == 0 {
				id = 1
			}
			return op{Op: "rst", ID: id, Tag: g.tag}
		case x < 76: // stream window
			if len(open) == 0 {
				continue
			}
			id := open[r.Intn(len(open))]
			n := []int32{1, 2, 100, 16384, 65535, -1, -100, -70000, 1 << 24}[r.Intn(9)]
			if int64(n)+w.streams[id].win > 1<<30 || int64(n)+w.streams[id].win < -(1<<30) {
				continue
			}
			return op{Op: "swin", ID: id, N: n}
		case x < 80:
			n := []int32{1, 2, 100, 16384, 65535, -1, -100, -70000, 1 << 24}[r.Intn(9)]
			if int64(n)+w.connWin > 1<<30 || int64(n)+w.connWin < -(1<<30) {
				continue
			}
			return op{Op: "cwin", N: n}
		case x < 82:
			return op{Op: "maxframe", N: []int32{1, 7, 1000, 16384, 16385, 65536, 1<<24 - 1}[r.Intn(7)]}
		case x < 96:
			return op{Op: "pop"}
		default:
			return op{Op: "drain"}
		}
	}
}

func runSequence(cfg config, seed int64, nops int, st *stats) ([]op, *failure) {
	w := newWorld(cfg, st)
	g := &gen{rng: rand.New(rand.NewSource(seed)), nextID: 1}
	var ops []op
	for i := 0; i < nops; i++ {
		o := g.next(w)
		ops = append(ops, o)
		if f := w.apply(o); f != nil {
			f.at = i
			return ops, f
		}
		if f := w.structure(); f != nil {
			f.at = i
			f.msg = fmt.Sprintf("after %s: %s", o.Op, f.msg)
			return ops, f
		}
	}
	if f := w.finish(); f != nil {
		f.at = len(ops)
		return ops, f
	}
	return ops, nil
}

func replayOps(cfg config, ops []op, st *stats) *failure {
	w := newWorld(cfg, st)
	for i, o := range ops {
		if f := w.apply(o); f != nil {
			f.at = i
			return f
		}
		if f := w.structure(); f != nil {
			f.at = i
			return f
		}
	}
	return w.finish()
}

type witness struct {
	Config config `json:"config"`
	Seed   int64  `json:"seq_seed"`
	Ops    []op   `json:"ops"`
	At     int    `json:"failed_at_op"`
}

func configs() []config {
	cs := []config{{Sched: "rr"}, {Sched: "random"}, {Sched: "prio", NilCfg: true, MaxClosed: 10, MaxIdle: 10}}
	for _, mc := range []int{0, 1, 10} {
		for _, mi := range []int{0, 1, 2, 10} {
			for _, th := range []bool{false, true} {
				cs = append(cs, config{Sched: "prio", MaxClosed: mc, MaxIdle: mi, Throttle: th})
			}
		}
	}
	return cs
}

func main() {
	run := verdict.Start("C20", "exploration",
		"random operation sequences (open/close/adjust incl. self-, circular, exclusive dependencies on open/idle/closed ids, push DATA/HEADERS/control/RST, window grants and revocations, max-frame changes, pop, drain) respecting the WriteScheduler preconditions, per scheduler configuration; distinct by (configuration, operation sequence); non-trivial when the sequence popped at least one frame")
	if run.ReplayFile != "" {
		var wt witness
		if err := verdict.LoadReplay(run.ReplayFile, &wt); err != nil {
			run.Inconclusive("replay unreadable: %v", err)
			run.Finish()
		}
		run.Eval(1)
		run.Distinct("replay")
		run.Distinct("replay2")
		if f := replayOps(wt.Config, wt.Ops, &stats{}); f != nil {
			wt.At = f.at
			run.Violation(f.class, wt, "%s (op #%d)", f.msg, f.at)
		} else {
			fmt.Println("replay: sequence holds")
		}
		run.Finish()
	}
	cfgs := configs()
	perCfg := run.Pick(400, 4000)
	nops := run.Pick(220, 300)
	type job struct {
		cfg  config
		seed int64
	}
	jobs := make(chan job, 256)
	var wg sync.WaitGroup
	var mu sync.Mutex
	total := &stats{}
	perCfgCount := map[string]int{}
	for i := 0; i < runtime.NumCPU(); i++ {
		wg.Add(1)
		go func() {
			defer wg.Done()
			for j := range jobs {
				st := &stats{}
				ops, f := runSequence(j.cfg, j.seed, nops, st)
				run.Eval(1)
				if st.pops-st.popsFalse > 0 {
					run.Distinct(fmt.Sprintf("%v|%d", j.cfg, j.seed))
				}
				mu.Lock()
				total.pops += st.pops
				total.popsFalse += st.popsFalse
				total.splits += st.splits
				total.controlPops += st.controlPops
				total.dataBytes += st.dataBytes
				total.walks += st.walks
				total.adjusts += st.adjusts
				total.selfDeps += st.selfDeps
				b, _ := json.Marshal(j.cfg)
				perCfgCount[string(b)]++
				mu.Unlock()
				if f != nil {
					run.Violation(classFor(j.cfg, f), witness{Config: j.cfg, Seed: j.seed, Ops: ops, At: f.at}, "%+v seq_seed=%d op#%d: %s", j.cfg, j.seed, f.at, f.msg)
				} else if run.WantSample() && j.seed%97 == 0 {
					run.Sample(map[string]any{"config": j.cfg, "first_ops": ops[:min(14, len(ops))], "ops": len(ops)})
				}
			}
		}()
	}
	seedRng := run.Rand(20)
	for _, c := range cfgs {
		for k := 0; k < perCfg; k++ {
			jobs <- job{c, seedRng.Int63()}
		}
	}
	close(jobs)
	wg.Wait()
	run.Add("pops", total.pops)
	run.Add("pops_returning_false", total.popsFalse)
	run.Add("data_frames_split", total.splits)
	run.Add("control_frames_popped", total.controlPops)
	run.Add("data_bytes_popped", total.dataBytes)
	run.Add("structure_walks", total.walks)
	run.Add("adjust_ops", total.adjusts)
	run.Add("self_dependencies", total.selfDeps)
	run.Set("sequences_per_configuration", perCfgCount)
	run.Set("ops_per_sequence", nops)
	run.Require("pops", 1000)
	run.Require("data_frames_split", 100)
	run.Assume("operation sequences respect the documented WriteScheduler preconditions (no double open, no close of a non-open stream, DATA/HEADERS only on open streams, no reuse of a closed id)")
	run.Finish()
}

func classFor(c config, f *failure) string { return c.Sched + ":" + f.class }
