// C18 — HPACK codec round-trips and decodes exactly per RFC 7541.
//
// Monitors: (A) encoder -> fragmenter -> decoder round trip with table
// equality and size invariants observed through the verif export hook;
// (B) decoder vs the RFC 7541 reference decoder (internal/ref) on valid,
// mutated, grammar-generated and random blocks, under every/random
// fragmentation; (C) Huffman both directions; (D) byte-for-byte differential
// against golang.org/x/net/http2/hpack v0.19.0 from the module cache.
package main

import (
	"bytes"
	"encoding/hex"
	"fmt"
	"math/rand"
	"os"
	"os/exec"
	"runtime"
	"strings"
	"sync"

	lh "github.com/wi1dcard/fingerproxy/pkg/http2/hpack"
	xh "golang.org/x/net/http2/hpack"

	"verif/internal/ref"
	"verif/internal/verdict"
)

// ---------- adapters over the two hpack packages ----------

type decoder interface {
	Write([]byte) (int, error)
	Close() error
	SetAllowed(uint32)
	SetMax(uint32)
	Table() (ents []ref.HF, size, max, allowed uint32, problems []string, ok bool)
}

type localDec struct {
	d   *lh.Decoder
	out *[]ref.HF
}

func newLocalDec(max uint32) (*localDec, *[]ref.HF) {
	out := &[]ref.HF{}
	d := lh.NewDecoder(max, func(f lh.HeaderField) {
		*out = append(*out, ref.HF{Name: f.Name, Value: f.Value, Sensitive: f.Sensitive})
	})
	return &localDec{d, out}, out
}
func (l *localDec) Write(b []byte) (int, error) { return l.d.Write(b) }
func (l *localDec) Close() error                { return l.d.Close() }
func (l *localDec) SetAllowed(v uint32)         { l.d.SetAllowedMaxDynamicTableSize(v) }
func (l *localDec) SetMax(v uint32)             { l.d.SetMaxDynamicTableSize(v) }
func (l *localDec) Table() ([]ref.HF, uint32, uint32, uint32, []string, bool) {
	v := l.d.VerifTable()
	var e []ref.HF
	for _, f := range v.Entries {
		e = append(e, ref.HF{Name: f.Name, Value: f.Value})
	}
	return e, v.Size, v.MaxSize, v.AllowedMaxSize, v.Problems, true
}

type xDec struct {
	d   *xh.Decoder
	out *[]ref.HF
}

func newXDec(max uint32) (*xDec, *[]ref.HF) {
	out := &[]ref.HF{}
	d := xh.NewDecoder(max, func(f xh.HeaderField) {
		*out = append(*out, ref.HF{Name: f.Name, Value: f.Value, Sensitive: f.Sensitive})
	})
	return &xDec{d, out}, out
}
func (l *xDec) Write(b []byte) (int, error) { return l.d.Write(b) }
func (l *xDec) Close() error                { return l.d.Close() }
func (l *xDec) SetAllowed(v uint32)         { l.d.SetAllowedMaxDynamicTableSize(v) }
func (l *xDec) SetMax(v uint32)             { l.d.SetMaxDynamicTableSize(v) }
func (l *xDec) Table() ([]ref.HF, uint32, uint32, uint32, []string, bool) {
	return nil, 0, 0, 0, nil, false
}

// decodeFragments feeds block in the given fragment sizes (nil = whole).
func decodeFragments(d decoder, out *[]ref.HF, block []byte, cuts []int) (fields []ref.HF, err error, panicked any) {
	defer func() {
		if p := recover(); p != nil {
			panicked = p
		}
		fields = append([]ref.HF{}, (*out)...)
	}()
	*out = (*out)[:0]
	off := 0
	feed := func(b []byte) bool {
		_, e := d.Write(b)
		if e != nil {
			err = e
			return false
		}
		return true
	}
	if cuts == nil {
		if !feed(block) {
			return
		}
	} else {
		for _, c := range cuts {
			if off+c > len(block) {
				c = len(block) - off
			}
			if !feed(block[off : off+c]) {
				return
			}
			off += c
		}
		if off < len(block) && !feed(block[off:]) {
			return
		}
	}
	err = d.Close()
	return
}

// ---------- generators ----------

var commonNames = []string{":method", ":path", ":authority", ":status", "cookie", "accept", "user-agent", "x-a", "x-verif", "content-type", "", "set-cookie", "X-UPPER"}

func randString(r *rand.Rand, maxLen int) string {
	var n int
	switch r.Intn(8) {
	case 0:
		n = 0
	case 1:
		n = r.Intn(maxLen + 1)
	default:
		n = r.Intn(24)
	}
	b := make([]byte, n)
	switch r.Intn(3) {
	case 0:
		r.Read(b)
	case 1:
		for i := range b {
			b[i] = "abcdefghijklmnopqrstuvwxyz0123456789-/=; "[r.Intn(41)]
		}
	default:
		for i := range b {
			b[i] = byte(r.Intn(128))
		}
	}
	return string(b)
}

func randField(r *rand.Rand, pool []ref.HF, maxLen int) ref.HF {
	if len(pool) > 0 && r.Intn(3) == 0 {
		f := pool[r.Intn(len(pool))]
		if r.Intn(3) == 0 {
			f.Value = randString(r, maxLen)
		}
		return f
	}
	var f ref.HF
	if r.Intn(2) == 0 {
		f.Name = commonNames[r.Intn(len(commonNames))]
	} else {
		f.Name = randString(r, maxLen)
	}
	f.Value = randString(r, maxLen)
	f.Sensitive = r.Intn(6) == 0
	return f
}

func randCuts(r *rand.Rand, total int) []int {
	if total == 0 || r.Intn(4) == 0 {
		return nil
	}
	var cuts []int
	rem := total
	for rem > 0 {
		c := 1 + r.Intn(rem)
		if r.Intn(3) == 0 {
			c = 1 + r.Intn(3)
		}
		if r.Intn(12) == 0 {
			c = 0 // empty fragment
		}
		if c > rem {
			c = rem
		}
		cuts = append(cuts, c)
		rem -= c
	}
	return cuts
}

func appendInt(dst []byte, first byte, n uint, v uint64, extraZeros int) []byte {
	mask := uint64(1)<<n - 1
	if v < mask {
		return append(dst, first|byte(v))
	}
	dst = append(dst, first|byte(mask))
	v -= mask
	for v >= 128 {
		dst = append(dst, byte(v&127)|128)
		v >>= 7
	}
	if extraZeros > 0 {
		dst = append(dst, byte(v)|128)
		for i := 0; i < extraZeros-1; i++ {
			dst = append(dst, 128)
		}
		return append(dst, 0)
	}
	return append(dst, byte(v))
}

func appendStr(r *rand.Rand, dst []byte, s string) []byte {
	if r.Intn(2) == 0 {
		dst = appendInt(dst, 0, 7, uint64(len(s)), pickZeros(r))
		return append(dst, s...)
	}
	enc := ref.HuffmanEncode([]byte(s), 0, true)
	switch r.Intn(30) {
	case 0: // zero padding (invalid unless no padding needed)
		enc = ref.HuffmanEncode([]byte(s), 0, false)
	case 1: // a full byte of padding (invalid)
		enc = append(enc, 0xff)
	case 2: // EOS inside
		enc = append(enc, 0xff, 0xff, 0xff, 0xff)
	}
	dst = appendInt(dst, 128, 7, uint64(len(enc)), pickZeros(r))
	return append(dst, enc...)
}

func pickZeros(r *rand.Rand) int {
	if r.Intn(25) == 0 {
		return 1 + r.Intn(11)
	}
	return 0
}

// grammarBlock builds a block from the five representations, mostly valid.
func grammarBlock(r *rand.Rand, dynLen int, allowed uint32) []byte {
	var b []byte
	n := 1 + r.Intn(8)
	// leading size updates
	for k := r.Intn(8); k >= 6; k-- {
		v := uint64(r.Intn(int(allowed) + 1))
		if r.Intn(8) == 0 {
			v = uint64(allowed) + uint64(r.Intn(3))
		}
		b = appendInt(b, 0x20, 5, v, pickZeros(r))
	}
	for i := 0; i < n; i++ {
		pickIdx := func() uint64 {
			switch r.Intn(10) {
			case 0:
				return 0
			case 1:
				return uint64(ref.StaticLen + dynLen + 1 + r.Intn(3)) // just outside
			case 2:
				return uint64(ref.StaticLen + dynLen) // last valid (or 61)
			case 3:
				return uint64(r.Intn(1 << 20))
			case 4, 5:
				if dynLen > 0 {
					return uint64(ref.StaticLen + 1 + r.Intn(dynLen))
				}
			}
			return uint64(1 + r.Intn(ref.StaticLen))
		}
		switch r.Intn(12) {
		case 0, 1, 2:
			idx := pickIdx()
			if idx == 0 && r.Intn(4) != 0 {
				idx = 2
			}
			b = appendInt(b, 0x80, 7, idx, pickZeros(r))
		case 3, 4, 5, 6:
			idx := pickIdx()
			if r.Intn(2) == 0 {
				idx = 0
			}
			b = appendInt(b, 0x40, 6, idx, pickZeros(r))
			if idx == 0 {
				b = appendStr(r, b, randString(r, 300))
			}
			b = appendStr(r, b, randString(r, 300))
		case 7, 8:
			idx := pickIdx()
			if r.Intn(2) == 0 {
				idx = 0
			}
			b = appendInt(b, 0x00, 4, idx, pickZeros(r))
			if idx == 0 {
				b = appendStr(r, b, randString(r, 300))
			}
			b = appendStr(r, b, randString(r, 300))
		case 9, 10:
			idx := pickIdx()
			if r.Intn(2) == 0 {
				idx = 0
			}
			b = appendInt(b, 0x10, 4, idx, pickZeros(r))
			if idx == 0 {
				b = appendStr(r, b, randString(r, 300))
			}
			b = appendStr(r, b, randString(r, 300))
		case 11:
			if r.Intn(3) == 0 { // mid-block size update
				b = appendInt(b, 0x20, 5, uint64(r.Intn(int(allowed)+1)), 0)
			}
		}
	}
	if r.Intn(10) == 0 && len(b) > 0 {
		b = b[:r.Intn(len(b))] // truncated
	}
	return b
}

func mutate(r *rand.Rand, b []byte) []byte {
	b = append([]byte{}, b...)
	if len(b) == 0 {
		return []byte{byte(r.Intn(256))}
	}
	switch r.Intn(5) {
	case 0:
		b[r.Intn(len(b))] ^= 1 << uint(r.Intn(8))
	case 1:
		b = b[:r.Intn(len(b))]
	case 2:
		i := r.Intn(len(b))
		b = append(b[:i], append([]byte{byte(r.Intn(256))}, b[i:]...)...)
	case 3:
		i, j := r.Intn(len(b)), r.Intn(len(b))
		if i > j {
			i, j = j, i
		}
		b = append(b[:i], b[j:]...)
	case 4:
		b[r.Intn(len(b))] = byte(r.Intn(256))
	}
	return b
}

// ---------- case execution ----------

type dcase struct {
	Family string   `json:"family"`
	Max    uint32   `json:"decoder_max_table_size"`
	Blocks []string `json:"blocks_hex"` // prefix blocks then the judged block(s)
	Cuts   []int    `json:"fragment_sizes_of_last_block,omitempty"`
	blocks [][]byte
}

func fieldsEq(a, b []ref.HF) bool {
	if len(a) != len(b) {
		return false
	}
	for i := range a {
		if a[i] != b[i] {
			return false
		}
	}
	return true
}

func showFields(f []ref.HF) string {
	var sb strings.Builder
	for i, x := range f {
		if i > 5 {
			fmt.Fprintf(&sb, " …(%d fields)", len(f))
			break
		}
		fmt.Fprintf(&sb, " {%q:%q s=%v}", trunc(x.Name), trunc(x.Value), x.Sensitive)
	}
	return sb.String()
}

func trunc(s string) string {
	if len(s) > 24 {
		return s[:24] + "…"
	}
	return s
}

type fail struct{ class, msg string }

// judge runs all blocks through the reference, the local decoder (several
// fragmentations of every block) and the x/net decoder.
func judge(tc *dcase, r *rand.Rand, run *verdict.Run, d6fixedLocal bool) *fail {
	rd := ref.NewDecoder(tc.Max)
	// the primary local decoder (whole blocks) carries state from block to block
	for bi, block := range tc.blocks {
		// snapshot the reference by replay: we need fresh decoders with the same
		// table for alternative fragmentations => rebuild by replaying earlier blocks
		res := rd.DecodeBlock(block)
		run.Add("ref_verdict_"+[]string{"accept", "reject", "impl_defined"}[res.Verdict], 1)
		cutsList := [][]int{nil}
		if bi == len(tc.blocks)-1 && tc.Cuts != nil {
			cutsList = append(cutsList, tc.Cuts)
		}
		for k := 0; k < 2; k++ {
			cutsList = append(cutsList, randCuts(r, len(block)))
		}
		if len(block) <= 9 && len(block) > 1 { // every composition
			n := len(block)
			for mask := 0; mask < 1<<(n-1); mask++ {
				var cuts []int
				last := 0
				for i := 1; i < n; i++ {
					if mask&(1<<(i-1)) != 0 {
						cuts = append(cuts, i-last)
						last = i
					}
				}
				cutsList = append(cutsList, append(cuts, n-last))
			}
			run.Add("blocks_with_every_fragmentation", 1)
		} else if len(block) <= 40 {
			for i := 1; i < len(block); i++ {
				cutsList = append(cutsList, []int{i})
			}
			run.Add("blocks_with_every_single_cut", 1)
		}
		var firstFields []ref.HF
		var firstErr error
		for ci, cuts := range cutsList {
			ld, out := newLocalDec(tc.Max)
			// replay earlier blocks whole to rebuild the table
			for _, pb := range tc.blocks[:bi] {
				if _, e, p := decodeFragments(ld, out, pb, nil); p != nil || e != nil {
					return &fail{"replay-diverged", fmt.Sprintf("block %d failed on replay: %v %v", bi, e, p)}
				}
			}
			fields, err, p := decodeFragments(ld, out, block, cuts)
			run.Add("local_decodes", 1)
			if p != nil {
				return &fail{"panic", fmt.Sprintf("decoder panicked on block %d (%x) cuts=%v: %v", bi, head(block), cuts, p)}
			}
			switch res.Verdict {
			case ref.Accept:
				if err != nil {
					cl := "rejected-valid-block"
					if res.SecondUpdateNonEmpty {
						cl = "rejected-second-size-update"
					}
					return &fail{cl, fmt.Sprintf("block %d (%x) is well-formed per RFC 7541 (reference accepts, %d fields) but the decoder returned %v (cuts=%v)", bi, head(block), len(res.Fields), err, cuts)}
				}
				if !fieldsEq(fields, res.Fields) {
					return &fail{"wrong-fields", fmt.Sprintf("block %d (%x): decoder emitted%s, RFC 7541 says%s (cuts=%v)", bi, head(block), showFields(fields), showFields(res.Fields), cuts)}
				}
			case ref.Reject:
				if err == nil {
					return &fail{"accepted-invalid-block", fmt.Sprintf("block %d (%x) must be rejected (%s) but the decoder accepted it with %d fields (cuts=%v)", bi, head(block), res.Why, len(fields), cuts)}
				}
			}
			if ci == 0 {
				firstFields, firstErr = fields, err
			} else if (firstErr == nil) != (err == nil) || !fieldsEq(firstFields, fields) {
				return &fail{"fragmentation-dependent", fmt.Sprintf("block %d (%x): whole => (%d fields, err=%v), cuts %v => (%d fields, err=%v)", bi, head(block), len(firstFields), firstErr, cuts, len(fields), err)}
			}
			// table invariants
			ents, size, max, allowed, problems, _ := ld.Table()
			var sum uint32
			for _, e := range ents {
				sum += uint32(len(e.Name) + len(e.Value) + 32)
			}
			if sum != size || size > max || max > allowed || len(problems) > 0 {
				return &fail{"table-invariant", fmt.Sprintf("after block %d: Σentries=%d size=%d max=%d allowed=%d problems=%v", bi, sum, size, max, allowed, problems)}
			}
			if res.Verdict == ref.Accept {
				rents, rsize, rmax := rd.Table()
				if !fieldsEq(ents, rents) || size != rsize || max != rmax {
					return &fail{"table-differs-from-reference", fmt.Sprintf("after block %d: decoder table has %d entries/%d bytes/max %d, reference %d/%d/%d", bi, len(ents), size, max, len(rents), rsize, rmax)}
				}
			}
		}
		// differential with x/net v0.19.0
		xd, xout := newXDec(tc.Max)
		okReplay := true
		for _, pb := range tc.blocks[:bi] {
			if _, e, p := decodeFragments(xd, xout, pb, nil); p != nil || e != nil {
				okReplay = false // x/net rejects an earlier block (D6 class): skip the differential
			}
		}
		if okReplay {
			xf, xe, xp := decodeFragments(xd, xout, block, nil)
			run.Add("xnet_differential_decodes", 1)
			if xp == nil && ((xe == nil) != (firstErr == nil) || !fieldsEq(xf, firstFields)) {
				if (res.SecondUpdateNonEmpty || leadingSizeUpdates(block) >= 2) && xe != nil {
					run.Add("xnet_diff_whitelisted_double_size_update", 1)
				} else {
					return &fail{"differs-from-xnet", fmt.Sprintf("block %d (%x): local copy => (%d fields, err=%v), golang.org/x/net v0.19.0 => (%d fields, err=%v)", bi, head(block), len(firstFields), firstErr, len(xf), xe)}
				}
			}
		}
		if res.Verdict != ref.Accept {
			break // state after a rejected / implementation-defined block is not comparable
		}
	}
	return nil
}

// leadingSizeUpdates counts, purely syntactically, the dynamic-table-size-update
// representations (001xxxxx + varint continuation) at the start of a block.
func leadingSizeUpdates(b []byte) int {
	n, i := 0, 0
	for i < len(b) && b[i]&0xe0 == 0x20 {
		n++
		if b[i]&0x1f == 0x1f {
			i++
			for i < len(b) && b[i]&0x80 != 0 {
				i++
			}
		}
		i++
	}
	return n
}

func head(b []byte) []byte {
	if len(b) > 48 {
		return b[:48]
	}
	return b
}

// ---------- round trip (A) ----------

type rtOp struct {
	Op    string  `json:"op"` // field, enc_max, limit, dec_allowed, block
	Field *ref.HF `json:"field,omitempty"`
	V     uint32  `json:"v,omitempty"`
}

func roundTrip(ops []rtOp, r *rand.Rand, run *verdict.Run) *fail {
	var lbuf, xbuf bytes.Buffer
	le, xe := lh.NewEncoder(&lbuf), xh.NewEncoder(&xbuf)
	ld, lout := newLocalDec(4096)
	rd := ref.NewDecoder(4096)
	var pending []ref.HF
	limitShrank := false // input class: the encoder's limit was lowered below its current table size since the last block
	for i, o := range ops {
		switch o.Op {
		case "field":
			f := *o.Field
			pending = append(pending, f)
			if err := le.WriteField(lh.HeaderField{Name: f.Name, Value: f.Value, Sensitive: f.Sensitive}); err != nil {
				return &fail{"encoder-error", fmt.Sprintf("op %d: WriteField: %v", i, err)}
			}
			xe.WriteField(xh.HeaderField{Name: f.Name, Value: f.Value, Sensitive: f.Sensitive})
		case "enc_max":
			le.SetMaxDynamicTableSize(o.V)
			xe.SetMaxDynamicTableSize(o.V)
		case "limit":
			if o.V < le.MaxDynamicTableSize() {
				limitShrank = true
			}
			le.SetMaxDynamicTableSizeLimit(o.V)
			xe.SetMaxDynamicTableSizeLimit(o.V)
		case "dec_allowed":
			ld.SetAllowed(o.V)
			rd.SetAllowedMax(o.V)
		case "block":
			block := append([]byte{}, lbuf.Bytes()...)
			lbuf.Reset()
			if !bytes.Equal(block, xbuf.Bytes()) && limitShrank {
				// golang.org/x/net v0.19.0 does not announce a shrink caused by SetMaxDynamicTableSizeLimit
				// when the size is raised again before the next block (fixed locally, see KNOWN_FINDINGS.txt)
				run.Add("xnet_encoder_diff_whitelisted_limit_shrink", 1)
			} else if !bytes.Equal(block, xbuf.Bytes()) {
				return &fail{"encoder-differs-from-xnet", fmt.Sprintf("op %d: encoder output %x differs from golang.org/x/net v0.19.0 %x", i, head(block), head(xbuf.Bytes()))}
			}
			xbuf.Reset()
			res := rd.DecodeBlock(block)
			fields, err, p := decodeFragments(ld, lout, block, randCuts(r, len(block)))
			run.Add("roundtrip_blocks", 1)
			if res.LeadingUpdates >= 2 {
				run.Add("roundtrip_blocks_with_two_size_updates", 1)
			}
			if p != nil {
				return &fail{"panic", fmt.Sprintf("op %d: decoder panicked: %v", i, p)}
			}
			if err != nil {
				cl := "roundtrip-decode-error"
				if res.SecondUpdateNonEmpty {
					cl = "rejected-second-size-update"
				}
				return &fail{cl, fmt.Sprintf("op %d: decoding the encoder's own output %x failed: %v", i, head(block), err)}
			}
			if !fieldsEq(fields, pending) {
				return &fail{"roundtrip-fields", fmt.Sprintf("op %d: encoded%s decoded%s", i, showFields(pending), showFields(fields))}
			}
			if res.Verdict != ref.Accept || !fieldsEq(res.Fields, pending) {
				return &fail{"encoder-output-not-rfc", fmt.Sprintf("op %d: the reference decoder does not read the encoder's output %x as the input fields (%v %s): got%s", i, head(block), res.Verdict, res.Why, showFields(res.Fields))}
			}
			pending = pending[:0]
			limitShrank = false
			ev, dv := le.VerifTable(), ld.d.VerifTable()
			if len(ev.Problems) > 0 || len(dv.Problems) > 0 {
				return &fail{"table-lookup-maps", fmt.Sprintf("op %d: %v %v", i, ev.Problems, dv.Problems)}
			}
			if ev.Size != dv.Size || len(ev.Entries) != len(dv.Entries) {
				return &fail{"tables-differ", fmt.Sprintf("op %d: encoder table %d entries/%d bytes, decoder table %d entries/%d bytes", i, len(ev.Entries), ev.Size, len(dv.Entries), dv.Size)}
			}
			for k := range ev.Entries {
				if ev.Entries[k].Name != dv.Entries[k].Name || ev.Entries[k].Value != dv.Entries[k].Value {
					return &fail{"tables-differ", fmt.Sprintf("op %d: entry %d differs", i, k)}
				}
			}
			var sum uint32
			for _, e := range dv.Entries {
				sum += e.Size()
			}
			if sum != dv.Size || dv.Size > dv.MaxSize || dv.MaxSize > dv.AllowedMaxSize || ev.Size > ev.MaxSize || ev.MaxSize > le.VerifMaxSizeLimit() {
				return &fail{"table-invariant", fmt.Sprintf("op %d: decoder Σ=%d size=%d max=%d allowed=%d; encoder size=%d max=%d limit=%d", i, sum, dv.Size, dv.MaxSize, dv.AllowedMaxSize, ev.Size, ev.MaxSize, le.VerifMaxSizeLimit())}
			}
		}
	}
	return nil
}

func genRoundTrip(r *rand.Rand) []rtOp {
	var ops []rtOp
	decAllowed := uint32(4096)
	var pool []ref.HF
	nblocks := 2 + r.Intn(8)
	sizes := []uint32{0, 1, 31, 32, 33, 50, 64, 100, 256, 1000, 4096, 4097, 8192, 65536}
	for b := 0; b < nblocks; b++ {
		// table size schedule between blocks
		for k := r.Intn(4); k > 0; k-- {
			switch r.Intn(5) {
			case 0: // the decoder's side announces a new SETTINGS_HEADER_TABLE_SIZE
				decAllowed = sizes[r.Intn(len(sizes))]
				ops = append(ops, rtOp{Op: "dec_allowed", V: decAllowed})
				// the encoder learns it and must not exceed it
				ops = append(ops, rtOp{Op: "enc_max", V: decAllowed})
			case 1:
				v := sizes[r.Intn(len(sizes))]
				ops = append(ops, rtOp{Op: "limit", V: v})
			default:
				v := sizes[r.Intn(len(sizes))]
				if v > decAllowed {
					v = decAllowed
				}
				ops = append(ops, rtOp{Op: "enc_max", V: v})
			}
		}
		for k := r.Intn(12); k >= 0; k-- {
			maxLen := 40
			if r.Intn(10) == 0 {
				maxLen = 5000
			}
			f := randField(r, pool, maxLen)
			pool = append(pool, f)
			ops = append(ops, rtOp{Op: "field", Field: &f})
		}
		ops = append(ops, rtOp{Op: "block"})
	}
	return ops
}

// encodeValid produces a valid block with the x/net encoder (independent of the local copy).
func encodeValid(r *rand.Rand, nblocks int, max uint32) [][]byte {
	var buf bytes.Buffer
	e := xh.NewEncoder(&buf)
	if max != 4096 {
		e.SetMaxDynamicTableSizeLimit(max)
		e.SetMaxDynamicTableSize(max)
	}
	var pool []ref.HF
	var out [][]byte
	for b := 0; b < nblocks; b++ {
		if r.Intn(4) == 0 {
			e.SetMaxDynamicTableSize(uint32(r.Intn(int(max) + 1)))
		}
		for k := r.Intn(10); k >= 0; k-- {
			f := randField(r, pool, 60)
			pool = append(pool, f)
			e.WriteField(xh.HeaderField{Name: f.Name, Value: f.Value, Sensitive: f.Sensitive})
		}
		out = append(out, append([]byte{}, buf.Bytes()...))
		buf.Reset()
	}
	return out
}

// ---------- calibration of the reference ----------

func calibrate(run *verdict.Run) bool {
	ok := true
	vec := []struct {
		hex  string
		want []ref.HF
	}{
		{"828684418cf1e3c2e5f23a6ba0ab90f4ff", []ref.HF{{Name: ":method", Value: "GET"}, {Name: ":scheme", Value: "http"}, {Name: ":path", Value: "/"}, {Name: ":authority", Value: "www.example.com"}}},
		{"828684be5886a8eb10649cbf", []ref.HF{{Name: ":method", Value: "GET"}, {Name: ":scheme", Value: "http"}, {Name: ":path", Value: "/"}, {Name: ":authority", Value: "www.example.com"}, {Name: "cache-control", Value: "no-cache"}}},
		{"828785bf408825a849e95ba97d7f8925a849e95bb8e8b4bf", []ref.HF{{Name: ":method", Value: "GET"}, {Name: ":scheme", Value: "https"}, {Name: ":path", Value: "/index.html"}, {Name: ":authority", Value: "www.example.com"}, {Name: "custom-key", Value: "custom-value"}}},
	}
	rd := ref.NewDecoder(4096)
	for i, v := range vec {
		b, _ := hex.DecodeString(v.hex)
		res := rd.DecodeBlock(b)
		if res.Verdict != ref.Accept || !fieldsEq(res.Fields, v.want) {
			run.Inconclusive("reference decoder fails RFC 7541 C.4.%d: %v %s %v", i+1, res.Verdict, res.Why, res.Fields)
			ok = false
		}
	}
	// reference vs the independent x/net decoder on generated valid blocks
	r := run.Rand(99)
	for i := 0; i < 2000 && ok; i++ {
		max := []uint32{0, 64, 256, 4096}[r.Intn(4)]
		blocks := encodeValid(r, 3, max)
		rd := ref.NewDecoder(max)
		xd, xout := newXDec(max)
		for _, b := range blocks {
			res := rd.DecodeBlock(b)
			xf, xe, _ := decodeFragments(xd, xout, b, nil)
			if res.SecondUpdateNonEmpty {
				break
			}
			if xe != nil || res.Verdict != ref.Accept || !fieldsEq(res.Fields, xf) {
				run.Inconclusive("reference decoder disagrees with x/net v0.19.0 on a block its encoder produced: %x (%v %s)", b, res.Verdict, res.Why)
				ok = false
				break
			}
		}
	}
	run.Set("reference_calibrated", ok)
	return ok
}

// coldStart is run in a fresh child process: its very first uses of the package's decoder happen
// on 16 goroutines at the same instant (lazily built package state must be ready for all of them).
func coldStart() {
	blocks := [][]byte{}
	var want [][]ref.HF
	for i := 0; i < 16; i++ {
		var b []byte
		var fs []ref.HF
		for k := 0; k < 6; k++ {
			name := fmt.Sprintf("x-cold-%d-%d", i, k)
			val := strings.Repeat(string(rune('a'+(i+k)%26)), 5+k*7) + "/Zz;="
			b = append(b, 0x00)
			b = append(b, byte(0x80|len(ref.HuffmanEncode([]byte(name), 0, true))))
			b = append(b, ref.HuffmanEncode([]byte(name), 0, true)...)
			b = append(b, byte(0x80|len(ref.HuffmanEncode([]byte(val), 0, true))))
			b = append(b, ref.HuffmanEncode([]byte(val), 0, true)...)
			fs = append(fs, ref.HF{Name: name, Value: val})
		}
		blocks = append(blocks, b)
		want = append(want, fs)
	}
	start := make(chan struct{})
	var wg sync.WaitGroup
	bad := make(chan string, 32)
	for i := range blocks {
		wg.Add(1)
		go func(i int) {
			defer wg.Done()
			ld, out := newLocalDec(4096)
			<-start
			fields, err, p := decodeFragments(ld, out, blocks[i], nil)
			if p != nil || err != nil || !fieldsEq(fields, want[i]) {
				bad <- fmt.Sprintf("goroutine %d: first decode of a valid Huffman-coded block %x failed: err=%v panic=%v fields=%d", i, head(blocks[i]), err, p, len(fields))
			}
		}(i)
	}
	close(start)
	wg.Wait()
	select {
	case m := <-bad:
		fmt.Println("COLD-FAIL " + m)
		os.Exit(1)
	default:
		fmt.Println("COLD-OK")
		os.Exit(0)
	}
}

func main() {
	if os.Getenv("VERIF_C18_COLD") == "1" {
		coldStart()
	}
	run := verdict.Start("C18", "exploration",
		"(A) encoder->decoder round trips over random header lists and table-size schedules; (B) decoder vs RFC 7541 reference on valid (independent encoder), mutated, grammar-generated and random blocks preceded by table-filling blocks, each decoded whole, with random cuts, with every single cut (<=40 bytes) and every composition (<=9 bytes); (C) Huffman both directions; (D) differential with golang.org/x/net/http2/hpack v0.19.0. Distinct by block bytes + table prefix; non-trivial when the judged block is non-empty")
	if !calibrate(run) {
		run.Finish()
	}
	if run.ReplayFile != "" {
		replay(run)
		return
	}
	var wg sync.WaitGroup
	type job struct {
		kind string
		seed int64
	}
	jobs := make(chan job, 256)
	for w := 0; w < runtime.NumCPU(); w++ {
		wg.Add(1)
		go func() {
			defer wg.Done()
			for j := range jobs {
				r := rand.New(rand.NewSource(j.seed))
				switch j.kind {
				case "strlimit":
					strLimitCase(r, run)
				case "rt":
					ops := genRoundTrip(r)
					run.Eval(1)
					run.Distinct(fmt.Sprintf("rt%d", j.seed))
					if f := roundTrip(ops, r, run); f != nil {
						run.Violation(f.class, map[string]any{"kind": "roundtrip", "ops": ops}, "round trip seq_seed=%d: %s", j.seed, f.msg)
					} else if run.WantSample() && j.seed%211 == 0 {
						run.Sample(map[string]any{"kind": "roundtrip", "first_ops": ops[:min(6, len(ops))]})
					}
				default:
					tc := genDecCase(j.kind, r)
					run.Eval(1)
					if len(tc.blocks[len(tc.blocks)-1]) > 0 {
						run.DistinctBytes(bytes.Join(tc.blocks, []byte{0xff, 0x00}))
					}
					run.Add("cases_"+j.kind, 1)
					if f := judge(tc, r, run, true); f != nil {
						run.Violation(f.class, tc, "%s max=%d: %s", tc.Family, tc.Max, f.msg)
					} else if run.WantSample() && j.seed%311 == 0 {
						run.Sample(tc)
					}
				}
			}
		}()
	}
	sr := run.Rand(18)
	nrt := run.Pick(30000, 600000)
	for i := 0; i < nrt; i++ {
		jobs <- job{"rt", sr.Int63()}
	}
	for _, k := range []struct {
		kind string
		n    int
	}{{"valid", run.Pick(15000, 300000)}, {"mutated", run.Pick(50000, 1200000)}, {"grammar", run.Pick(80000, 2000000)}, {"random", run.Pick(20000, 500000)}} {
		for i := 0; i < k.n; i++ {
			jobs <- job{k.kind, sr.Int63()}
		}
	}
	for i := run.Pick(6000, 120000); i > 0; i-- {
		jobs <- job{"strlimit", sr.Int63()}
	}
	close(jobs)
	wg.Wait()
	huffman(run)
	// cold starts: fresh processes whose first decodes run concurrently
	nc := run.Pick(48, 600)
	var cwg sync.WaitGroup
	csem := make(chan struct{}, 6)
	for i := 0; i < nc; i++ {
		cwg.Add(1)
		csem <- struct{}{}
		go func(i int) {
			defer cwg.Done()
			defer func() { <-csem }()
			cmd := exec.Command(os.Args[0])
			cmd.Env = append(os.Environ(), "VERIF_C18_COLD=1")
			out, err := cmd.CombinedOutput()
			run.Eval(1)
			run.Add("cold_start_processes", 1)
			if err != nil || !strings.Contains(string(out), "COLD-OK") {
				msg := strings.TrimSpace(string(out))
				if len(msg) > 400 {
					msg = msg[:400]
				}
				run.Violation("cold-start-concurrent-first-decodes", map[string]any{"process": i, "output": msg}, "fresh process #%d, 16 goroutines decoding their first block at once: %s (err %v)", i, msg, err)
			}
		}(i)
	}
	cwg.Wait()
	run.Require("cold_start_processes", 40)
	run.Require("string_limit_blocks_within_limit", 500)
	run.Require("string_limit_blocks_beyond_limit", 500)
	run.Require("ref_verdict_accept", 1000)
	run.Require("ref_verdict_reject", 1000)
	run.Require("roundtrip_blocks_with_two_size_updates", 10)
	run.Assume("reference decoder = internal/ref/hpack.go (static table typed from RFC 7541 App. A; Huffman table derived from golang.org/x/net v0.19.0's encoder), calibrated at start-up against RFC 7541 C.4 and x/net v0.19.0")
	run.Assume("size updates after the first field, more than two leading size updates, and integers beyond 2^56 are implementation-defined: either outcome accepted")
	run.Finish()
}

func genDecCase(kind string, r *rand.Rand) *dcase {
	max := []uint32{0, 32, 64, 100, 256, 4096, 4096, 4096, 65536}[r.Intn(9)]
	tc := &dcase{Family: kind, Max: max}
	np := r.Intn(3)
	pre := encodeValid(r, np+1, max)
	dynGuess := 0
	for _, b := range pre[:np] {
		tc.blocks = append(tc.blocks, b)
		dynGuess += 3
	}
	var last []byte
	switch kind {
	case "valid":
		last = pre[np]
	case "mutated":
		last = mutate(r, pre[np])
		if r.Intn(3) == 0 {
			last = mutate(r, last)
		}
	case "grammar":
		last = grammarBlock(r, dynGuess, max)
	default:
		last = make([]byte, r.Intn(40))
		r.Read(last)
	}
	tc.blocks = append(tc.blocks, last)
	tc.Cuts = randCuts(r, len(last))
	for _, b := range tc.blocks {
		tc.Blocks = append(tc.Blocks, hex.EncodeToString(b))
	}
	return tc
}

func huffman(run *verdict.Run) {
	r := run.Rand(77)
	check := func(s []byte) {
		enc := lh.AppendHuffmanString(nil, string(s))
		want := ref.HuffmanEncode(s, 0, true)
		run.Eval(1)
		run.Add("huffman_strings", 1)
		if !bytes.Equal(enc, want) {
			run.Violation("huffman-encode", map[string]any{"s": hex.EncodeToString(s)}, "AppendHuffmanString(%x) = %x, RFC 7541 App. B gives %x", head(s), head(enc), head(want))
			return
		}
		if uint64(len(enc)) != lh.HuffmanEncodeLength(string(s)) {
			run.Violation("huffman-length", map[string]any{"s": hex.EncodeToString(s)}, "HuffmanEncodeLength(%x) = %d, encoded length %d", head(s), lh.HuffmanEncodeLength(string(s)), len(enc))
		}
		dec, err := lh.HuffmanDecodeToString(enc)
		if err != nil || dec != string(s) {
			run.Violation("huffman-roundtrip", map[string]any{"s": hex.EncodeToString(s)}, "HuffmanDecode(HuffmanEncode(%x)) = %x, %v", head(s), head([]byte(dec)), err)
		}
	}
	for b := 0; b < 256; b++ {
		check([]byte{byte(b)})
		run.Distinct(fmt.Sprintf("huff1-%d", b))
	}
	n := run.Pick(60000, 1500000)
	for i := 0; i < n; i++ {
		s := make([]byte, r.Intn(60))
		r.Read(s)
		check(s)
	}
	// arbitrary bytes as Huffman input: accept/reject and output per the reference
	for i := 0; i < n; i++ {
		b := make([]byte, r.Intn(12))
		r.Read(b)
		if r.Intn(2) == 0 { // valid code + chosen padding
			s := make([]byte, r.Intn(8))
			r.Read(s)
			b = ref.HuffmanEncode(s, 0, r.Intn(4) != 0)
			if r.Intn(6) == 0 {
				b = append(b, 0xff)
			}
		}
		want, why := ref.HuffmanDecode(b)
		got, err := lh.HuffmanDecodeToString(b)
		run.Eval(1)
		run.Add("huffman_decoder_inputs", 1)
		if why != "" && err == nil {
			run.Violation("huffman-accepts-invalid", map[string]any{"b": hex.EncodeToString(b)}, "HuffmanDecode(%x) accepted (%q) but RFC 7541 §5.2 requires an error: %s", b, got, why)
		} else if why == "" && (err != nil || got != string(want)) {
			run.Violation("huffman-decode", map[string]any{"b": hex.EncodeToString(b)}, "HuffmanDecode(%x) = %q, %v; RFC gives %q", b, got, err, want)
		}
	}
}

func replay(run *verdict.Run) {
	var w struct {
		Kind string `json:"kind"`
		Ops  []rtOp `json:"ops"`
		dcase
	}
	if err := verdict.LoadReplay(run.ReplayFile, &w); err != nil {
		run.Inconclusive("replay unreadable: %v", err)
		run.Finish()
	}
	r := rand.New(rand.NewSource(1))
	run.Eval(1)
	run.Distinct("a")
	run.Distinct("b")
	if w.Kind == "roundtrip" {
		if f := roundTrip(w.Ops, r, run); f != nil {
			run.Violation(f.class, w, "%s", f.msg)
		}
	} else {
		for _, h := range w.Blocks {
			b, _ := hex.DecodeString(h)
			w.dcase.blocks = append(w.dcase.blocks, b)
		}
		if f := judge(&w.dcase, r, run, true); f != nil {
			run.Violation(f.class, w.dcase, "%s", f.msg)
		}
	}
	run.Finish()
}
