package main

import (
	"fmt"
	"math/rand"

	lh "github.com/wi1dcard/fingerproxy/pkg/http2/hpack"

	"verif/internal/ref"
	"verif/internal/verdict"
)

// (E) decoders with a string-length limit (SetMaxStringLength, which the HTTP/2 server always sets):
// the result must not depend on how the block is cut, a block whose strings all respect the limit
// must decode to exactly the fields that were encoded (an over-long string may be refused, but then
// however the block is cut). Added after seeded change C18-F (round 3).

type slCase struct {
	Limit  int      `json:"max_string_length"`
	Fields []ref.HF `json:"fields"`
	Block  string   `json:"block_hex"`
	Cuts   []int    `json:"fragment_sizes,omitempty"`
}

func slDecode(limit int, block []byte, cuts []int) (fields []ref.HF, err error, panicked any) {
	out := &[]ref.HF{}
	d := lh.NewDecoder(4096, func(f lh.HeaderField) {
		*out = append(*out, ref.HF{Name: f.Name, Value: f.Value, Sensitive: f.Sensitive})
	})
	d.SetMaxStringLength(limit)
	return decodeFragments(&localDec{d, out}, out, block, cuts)
}

func strLimitCase(r *rand.Rand, run *verdict.Run) {
	limit := []int{8, 16, 50, 100, 300, 1000}[r.Intn(6)]
	around := func() int {
		switch r.Intn(6) {
		case 0:
			return limit
		case 1:
			return limit - 1 - r.Intn(3)
		case 2:
			return limit + 1 + r.Intn(3)
		case 3:
			return limit / 2
		}
		return r.Intn(limit + 1)
	}
	letters := "abcdefghijklmnopqrstuvwxyz0123456789-"
	mk := func(n int) string {
		b := make([]byte, max(n, 0))
		for i := range b {
			b[i] = letters[r.Intn(len(letters))]
		}
		return string(b)
	}
	var fields []ref.HF
	var block []byte
	within := true
	for k := 1 + r.Intn(3); k > 0; k-- {
		name, val := mk(max(around(), 1)), mk(around())
		idxName := r.Intn(3) == 0
		first := []byte{0x40, 0x00, 0x10}[r.Intn(3)] // incremental indexing / without indexing / never indexed
		nbits := uint(6)
		if first != 0x40 {
			nbits = 4
		}
		if idxName {
			name = ":path" // static index 4
			block = appendInt(block, first, nbits, 4, 0)
		} else {
			block = appendInt(block, first, nbits, 0, 0)
			block = slAppendStr(r, block, name)
			if len(name) > limit {
				within = false
			}
		}
		block = slAppendStr(r, block, val)
		if len(val) > limit {
			within = false
		}
		fields = append(fields, ref.HF{Name: name, Value: val, Sensitive: first == 0x10})
	}
	tc := &slCase{Limit: limit, Fields: fields, Block: fmt.Sprintf("%x", block)}
	run.Eval(1)
	run.Add("cases_string_limit", 1)
	run.DistinctBytes(append([]byte{byte(limit), byte(limit >> 8)}, block...))
	wf, werr, wp := slDecode(limit, block, nil)
	if wp != nil {
		run.Violation("panic", tc, "string limit %d: decoding the whole block panicked: %v", limit, wp)
		return
	}
	if within {
		run.Add("string_limit_blocks_within_limit", 1)
		if werr != nil || !fieldsEq(wf, fields) {
			run.Violation("string-limit-rejects-legal-block", tc, "string limit %d, every string within it: whole block => (%d fields, err=%v), want the %d encoded fields", limit, len(wf), werr, len(fields))
			return
		}
	} else {
		run.Add("string_limit_blocks_beyond_limit", 1)
		if werr == nil {
			// whether and how an over-long string is refused is the implementation's business (the
			// property does not speak about it); only its independence of the cutting is judged below
			run.Add("string_limit_over_long_string_accepted", 1)
		}
	}
	// every single cut, byte by byte, and a few random cuttings
	var cutSets [][]int
	for c := 1; c < len(block); c++ {
		cutSets = append(cutSets, []int{c})
	}
	ones := make([]int, len(block))
	for i := range ones {
		ones[i] = 1
	}
	cutSets = append(cutSets, ones)
	for i := 0; i < 4; i++ {
		cutSets = append(cutSets, randCuts(r, len(block)))
	}
	for _, cuts := range cutSets {
		f, err, p := slDecode(limit, block, cuts)
		run.Add("string_limit_fragmentations", 1)
		if p != nil {
			tc.Cuts = cuts
			run.Violation("panic", tc, "string limit %d: panic with fragment sizes %v: %v", limit, head2(cuts), p)
			return
		}
		if (err == nil) != (werr == nil) || (werr == nil && !fieldsEq(f, wf)) {
			tc.Cuts = cuts
			run.Violation("fragmentation-dependent-under-string-limit", tc, "string limit %d: whole block => (%d fields, err=%v), fragment sizes %v => (%d fields, err=%v)", limit, len(wf), werr, head2(cuts), len(f), err)
			return
		}
	}
}

func head2(c []int) []int {
	if len(c) > 12 {
		return c[:12]
	}
	return c
}

// slAppendStr: plain or (valid) Huffman string literal
func slAppendStr(r *rand.Rand, dst []byte, s string) []byte {
	if r.Intn(2) == 0 {
		dst = appendInt(dst, 0, 7, uint64(len(s)), 0)
		return append(dst, s...)
	}
	enc := ref.HuffmanEncode([]byte(s), 0, true)
	dst = appendInt(dst, 128, 7, uint64(len(enc)), 0)
	return append(dst, enc...)
}
