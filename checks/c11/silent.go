//go:build verif

package main

import (
	"fmt"
	"net"
	"strings"
	"sync"
	"time"

	"verif/internal/rig"
)

// errorsThenStay (added after seeded change C11-K): the client's first bytes make the handshake fail at once (plain HTTP,
// an HTTP/2 prior-knowledge preface, bytes that are no TLS record) and the client then STAYS connected, silent.
// "Closed once an error occurs in the handshake": the proxy must close the connection by itself.
func (e *env) errorsThenStay() {
	run := e.run
	firsts := map[string]string{
		"plain-http-request":      "GET / HTTP/1.1\r\nHost: front.example\r\nUser-Agent: curl/8\r\n\r\n",
		"plain-http-post":         "POST /upload HTTP/1.1\r\nHost: front.example\r\nContent-Length: 100000\r\n\r\npart-of-the-body",
		"h2-prior-knowledge":      "PRI * HTTP/2.0\r\n\r\nSM\r\n\r\n\x00\x00\x00\x04\x00\x00\x00\x00\x00",
		"not-a-tls-record":        "\x80\x2e\x01\x00\x02\x00\x15\x00\x00\x00\x10 some more bytes that are not TLS",
		"oversized-record-header": "\x16\x03\x01\xff\xff",
	}
	var wg sync.WaitGroup
	for name, first := range firsts {
		for rep := 0; rep < run.Pick(2, 6); rep++ {
			wg.Add(1)
			go func(name, first string, rep int) {
				defer wg.Done()
				sc := scen{Kind: "handshake-error-then-stay", Step: name, Env: e.name}
				dialAt := time.Now()
				c, err := dialTCP(e.px.Addr)
				if err != nil {
					return
				}
				defer c.Close()
				c.Write([]byte(first))
				sent := time.Now()
				ac := e.find(c.LocalAddr(), dialAt, W)
				run.Eval(1)
				run.Add("scenarios_handshake_error_then_stay", 1)
				run.Distinct(fmt.Sprintf("%+v|%d", sc, rep))
				if ac == nil {
					run.Add("timeout_conn_not_matched", 1)
					return
				}
				select {
				case <-ac.Done:
					run.Add("closed_by_the_proxy_after_a_handshake_error", 1)
				case <-time.After(time.Until(sent.Add(W + e.th))):
					run.Violation("not-closed-after-handshake-error", sc, "client sent %q as its first bytes and stayed connected; %v later the proxy has not closed the connection (handshake timeout %v)", name, time.Since(sent).Round(time.Millisecond), e.th)
				}
			}(name, first, rep)
		}
	}
	wg.Wait()
	e.settle("after handshake errors with the client staying")
}

// leavesWhileBackendSilent (added after seeded change C11-L): a complete request is forwarded, the backend stays silent (long
// poll, hung upstream), and the client leaves (close_notify + FIN, or RST). The connection must be closed and every
// goroutine serving it must end while the backend is STILL silent.
func (e *env) leavesWhileBackendSilent(gate chan struct{}) {
	run := e.run
	var wg sync.WaitGroup
	for _, proto := range []string{"http/1.1", "h2"} {
		for rep := 0; rep < run.Pick(4, 12); rep++ {
			wg.Add(1)
			go func(proto string, rep int) {
				defer wg.Done()
				sc := scen{Kind: "leave-while-backend-silent", Proto: proto, RST: rep%2 == 1, Env: e.name}
				dialAt := time.Now()
				s, err := rig.Dial(e.px.Addr, []string{proto}, nil, nil)
				if err != nil {
					return
				}
				tag := fmt.Sprintf("C11-silent-%s-%s-%d", e.name, proto, rep)
				hn := rig.TagHeader
				if proto == "h2" {
					hn = strings.ToLower(hn)
				}
				method, body := "GET", []byte(nil)
				if rep%4 >= 2 {
					method, body = "POST", []byte("a small body")
				}
				go s.Do(method, "/silent/poll", "front.example", [][2]string{{hn, tag}}, body, 60*time.Second)
				if _, ok := e.be.Wait(tag, 10*time.Second); !ok {
					run.Add("silent_backend_request_never_arrived", 1)
					s.Close()
					return
				}
				local := s.Rec.Conn.LocalAddr()
				if sc.RST {
					if tc, ok := s.Rec.Conn.(*net.TCPConn); ok {
						tc.SetLinger(0)
					}
					s.Rec.Conn.Close()
				} else {
					s.TLS.Close()
				}
				left := time.Now()
				ac := e.find(local, dialAt, W)
				run.Eval(1)
				run.Add("scenarios_leave_while_backend_silent", 1)
				run.Distinct(fmt.Sprintf("%+v|%d", sc, rep))
				if ac == nil {
					run.Add("timeout_conn_not_matched", 1)
					return
				}
				select {
				case <-ac.Done:
				case <-time.After(2 * W):
					run.Violation("not-closed-after-client-left", sc, "%s client left (rst=%v) while the backend was silent; %v later the proxy has not closed the connection", proto, sc.RST, time.Since(left).Round(time.Millisecond))
				}
			}(proto, rep)
		}
	}
	wg.Wait()
	// the census is taken while the backend is still silent
	e.settle("after clients left while the backend stayed silent")
}

// acceptedDuringDrain (added after seeded change C11-N): an HTTP/1.1 exchange is in flight, the server context is cancelled, and
// while the HTTP/1.1 side drains (the listening socket is still open) new clients connect and say nothing. Every
// connection the proxy accepts in that window must be closed by the proxy. Ends this environment's proxy.
func (e *env) acceptedDuringDrain(gate chan struct{}) {
	run := e.run
	s, err := rig.Dial(e.px.Addr, []string{"http/1.1"}, nil, nil)
	if err != nil {
		run.Add("dial_failed", 1)
		return
	}
	tag := "C11-drain-" + e.name
	go s.Do("GET", "/drain", "front.example", [][2]string{{rig.TagHeader, tag}, {"X-Verif-Detach", "1"}}, nil, 60*time.Second)
	if _, ok := e.be.Wait(tag, 10*time.Second); !ok {
		run.Add("silent_backend_request_never_arrived", 1)
		s.Close()
		return
	}
	e.px.Cancel()
	time.Sleep(30 * time.Millisecond)
	var wg sync.WaitGroup
	for k := 0; k < run.Pick(4, 12); k++ {
		wg.Add(1)
		go func(k int) {
			defer wg.Done()
			time.Sleep(time.Duration(k*15) * time.Millisecond)
			sc := scen{Kind: "accepted-during-shutdown", Step: fmt.Sprintf("client %d, silent", k), Env: e.name}
			dialAt := time.Now()
			c, err := dialTCP(e.px.Addr)
			if err != nil {
				run.Add("late_clients_refused", 1) // the listening socket is gone already: nothing was accepted
				return
			}
			defer c.Close()
			if k%2 == 1 {
				stallAt(c, "after-clienthello", nil)
			}
			ac := e.find(c.LocalAddr(), dialAt, time.Second)
			if ac == nil {
				run.Add("late_clients_never_accepted", 1)
				return
			}
			run.Eval(1)
			run.Add("connections_accepted_during_shutdown", 1)
			run.Distinct(fmt.Sprintf("%+v", sc))
			select {
			case <-ac.Done:
			case <-time.After(W):
				run.Violation("not-closed-when-accepted-during-shutdown", sc, "a connection accepted %v after the server context was cancelled (an HTTP/1.1 exchange was still draining) has not been closed by the proxy %v later", ac.AcceptAt.Sub(dialAt).Round(time.Millisecond), W)
			}
		}(k)
	}
	wg.Wait()
	close(gate) // the backend answers, the in-flight exchange completes, the drain can finish
	time.Sleep(50 * time.Millisecond)
	s.Close()
}
