//go:build verif

// C11 — every connection's resources are released; stalled and idle clients are cut.
//
// Observed at: the accounting listener (Close() per accepted conn) and a
// goroutine census of proxy goroutines, after client aborts at every byte
// offset of an HTTP/1.1 and an HTTP/2 session, silent stalls at every protocol
// step, injected I/O errors, for several settings of the timeouts.
package main

import (
	"context"
	"crypto/tls"
	"fmt"
	"golang.org/x/net/http2"
	"io"
	"net"
	"net/http"
	"os"
	"sort"
	"strings"
	"sync"
	"sync/atomic"
	"time"

	"golang.org/x/net/http2/hpack"

	fingerproxy "github.com/wi1dcard/fingerproxy"

	"verif/internal/h2peer"
	"verif/internal/hello"
	"verif/internal/rig"
	"verif/internal/verdict"
)

var markers = []string{"fingerproxy/pkg/proxyserver", "fingerproxy/pkg/http2.(*serverConn)", "fingerproxy/pkg/hack"}

type env struct {
	run  *verdict.Run
	be   *rig.Backend
	px   *rig.Proxy
	acct *rig.AcctListener
	th   time.Duration // handshake timeout
	ti   time.Duration // idle timeout
	name string
	base int // baseline census
}

func newEnv(run *verdict.Run, be *rig.Backend, th, ti time.Duration, faults func(int, net.Conn) *rig.FaultPlan) *env {
	e := &env{run: run, be: be, th: th, ti: ti, name: fmt.Sprintf("handshake=%v idle=%v", th, ti)}
	px, err := rig.StartProxy(be.URL, rig.ProxyOpts{
		Args: []string{"-timeout-tls-handshake=" + th.String(), "-timeout-http-idle=" + ti.String(), "-timeout-http-read=30s", "-timeout-http-write=30s"},
		Listener: func(l net.Listener) net.Listener {
			e.acct = rig.NewAcctListener(l)
			e.acct.PlanFor = faults
			return e.acct
		},
		// "a handler that ignores its context" for requests that ask for it (as in C17): such an exchange
		// keeps the HTTP/1.1 side draining after the server context is cancelled
		Tweak: func(app *fingerproxy.VerifApp) {
			next := app.Server.HTTPServer.Handler
			app.Server.HTTPServer.Handler = http.HandlerFunc(func(w http.ResponseWriter, r *http.Request) {
				if r.Header.Get("X-Verif-Detach") != "" {
					r = r.WithContext(context.WithoutCancel(r.Context()))
				}
				next.ServeHTTP(w, r)
			})
		},
	})
	if err != nil {
		run.Inconclusive("start proxy: %v", err)
		run.Finish()
	}
	e.px = px
	time.Sleep(20 * time.Millisecond)
	e.base, _ = rig.Census(markers...)
	return e
}

// find the accounting record of the connection whose peer is local.
// since is a time before the client dialled: a source port may have been used by an earlier,
// finished connection, whose record must not be taken for this one.
func (e *env) find(local net.Addr, since time.Time, timeout time.Duration) *rig.AcctConn {
	deadline := time.Now().Add(timeout)
	for {
		cs := e.acct.Conns()
		for i := len(cs) - 1; i >= 0; i-- {
			if c := cs[i]; !c.AcceptAt.Before(since) && c.Conn.RemoteAddr().String() == local.String() {
				return c
			}
		}
		if time.Now().After(deadline) {
			return nil
		}
		time.Sleep(time.Millisecond)
	}
}

// cutConn closes the socket (FIN or RST) as soon as limit bytes have been written.
type cutConn struct {
	net.Conn
	limit   int64
	written int64
	rst     bool
	cut     int32
	CutAt   time.Time
}

func (c *cutConn) Write(b []byte) (int, error) {
	rem := c.limit - atomic.LoadInt64(&c.written)
	if rem <= 0 {
		c.doCut()
		return 0, io.ErrClosedPipe
	}
	if int64(len(b)) <= rem {
		n, err := c.Conn.Write(b)
		if atomic.AddInt64(&c.written, int64(n)) >= c.limit {
			c.doCut()
		}
		return n, err
	}
	n, _ := c.Conn.Write(b[:rem])
	atomic.AddInt64(&c.written, int64(n))
	c.doCut()
	return n, io.ErrClosedPipe
}

func (c *cutConn) doCut() {
	if atomic.CompareAndSwapInt32(&c.cut, 0, 1) {
		if c.rst {
			if tc, ok := c.Conn.(*net.TCPConn); ok {
				tc.SetLinger(0)
			}
		}
		c.CutAt = time.Now()
		c.Conn.Close()
	}
}

// session drives a complete client session over conn (already TCP-connected):
// handshake + two requests, protocol by ALPN. Errors are expected when cut.
func session(conn net.Conn, proto, tagBase string) {
	tc := tls.Client(conn, &tls.Config{InsecureSkipVerify: true, ServerName: "front.example", NextProtos: []string{proto}})
	conn.SetDeadline(time.Now().Add(20 * time.Second))
	if err := tc.Handshake(); err != nil {
		return
	}
	s, err := rig.NewSession(tc, tc.ConnectionState().NegotiatedProtocol, nil)
	if err != nil {
		return
	}
	for q := 0; q < 2; q++ {
		hn := rig.TagHeader
		if proto == "h2" {
			hn = "x-verif-tag"
		}
		if _, err := s.Do("POST", "/c11", "front.example", [][2]string{{hn, fmt.Sprintf("%s-%d", tagBase, q)}}, []byte("hello-body-0123456789"), 10*time.Second); err != nil {
			return
		}
	}
}

type scen struct {
	Kind   string `json:"kind"`
	Proto  string `json:"protocol,omitempty"`
	Offset int    `json:"client_byte_offset,omitempty"`
	RST    bool   `json:"rst,omitempty"`
	Step   string `json:"stall_step,omitempty"`
	Op     int    `json:"io_op,omitempty"`
	Fault  string `json:"fault,omitempty"`
	Env    string `json:"timeouts"`
}

const W = 5 * time.Second

func main() {
	run := verdict.Start("C11", "fault_enumeration",
		"client abort (FIN and RST) after every 8th (quick) / every (thorough) byte offset of a complete HTTP/1.1 and HTTP/2 client session; silent stalls at every protocol step followed by client close; stalled handshakes and idle connections left to the proxy's timers for each timeout setting; an I/O error (reset, timeout, eof, short write, deadline error) at every server-side I/O operation index of both sessions; oracle = Close() on the accepted conn and proxy goroutine census back to baseline within 5 s, timeouts within [0.8 T, T + max(3 s, 3 T)]; distinct by scenario tuple")
	be := rig.NewBackend(nil)
	defer be.Close()

	grid := [][2]time.Duration{{400 * time.Millisecond, 300 * time.Millisecond}}
	if run.Thorough() {
		grid = [][2]time.Duration{{150 * time.Millisecond, 900 * time.Millisecond}, {400 * time.Millisecond, 300 * time.Millisecond}, {900 * time.Millisecond, 150 * time.Millisecond}}
	}
	if n := os.Getenv("VERIF_C11_REPEAT_TIMEOUTS"); n != "" { // debugging aid: only the timer scenarios, repeated; never a pass
		reps := 1
		fmt.Sscan(n, &reps)
		e := newEnv(run, be, 400*time.Millisecond, 300*time.Millisecond, nil)
		for i := 0; i < reps; i++ {
			e.timeouts()
		}
		run.Inconclusive("debug mode VERIF_C11_REPEAT_TIMEOUTS")
		run.Finish()
	}
	// every proxy is composed before any traffic flows: VerifNewApp rewrites package-level settings that
	// request handlers read, and a handler that outlives its connection (client reset the stream and
	// left) has no synchronisation edge to this goroutine - the race detector would blame /repo for it
	silentGate := make(chan struct{})
	drainGate := make(chan struct{})
	be.PlanFor = func(r *http.Request, tag string) *rig.Plan {
		if strings.HasPrefix(r.URL.Path, "/drain") {
			return &rig.Plan{Status: 200, Gate: drainGate, Chunks: [][]byte{[]byte("drained")}}
		}
		if strings.HasPrefix(r.URL.Path, "/silent") {
			return &rig.Plan{Status: 200, Gate: silentGate, Chunks: [][]byte{[]byte("late")}}
		}
		return nil
	}
	var envs []*env
	for _, g := range grid {
		envs = append(envs, newEnv(run, be, g[0], g[1], nil))
	}
	fe := newFaultEnv(run, be)
	for gi, e := range envs {
		e.base, _ = rig.Census(markers...)
		e.timeouts()
		if gi == 0 {
			e.aborts()
			e.stallsThenClose()
			e.leavesAfterActions()
			e.errorsThenStay()
			e.leavesWhileBackendSilent(silentGate)
		}
		e.settle("end of environment " + e.name)
		if gi == 0 {
			e.acceptedDuringDrain(drainGate)
			e.settle("after connections accepted during shutdown")
		}
		e.px.Stop()
	}
	close(silentGate)
	fe.e.base, _ = rig.Census(markers...)
	faults(run, be, fe)
	run.Require("scenarios_handshake_error_then_stay", 8)
	run.Require("scenarios_leave_while_backend_silent", 6)
	run.Require("scenarios_abort", 50)
	run.Require("scenarios_fault", 50)
	run.Require("timeouts_judged", 6)
	run.Assume("bounded-progress restatement: 'eventually closed' = Close() observed on the accepted connection and proxy goroutines back to baseline within 5 s of the trigger (observed latencies are milliseconds); a miss is re-checked after another 5 s before it is reported")
	run.Finish()
}

// settle waits for every accepted connection to be closed and for the census to return to baseline.
func (e *env) settle(where string) {
	if !e.acct.WaitAllClosed(W) {
		if !e.acct.WaitAllClosed(W) {
			open := e.acct.Open()
			e.run.Violation("conn-never-closed", map[string]any{"where": where, "open": len(open), "env": e.name}, "%s: %d accepted connection(s) were never closed by the proxy (first: index %d, %d I/O ops)", where, len(open), open[0].Index, open[0].Ops())
			return
		}
	}
	deadline := time.Now().Add(2 * W)
	for {
		n, stacks := rig.Census(markers...)
		if n <= e.base {
			return
		}
		if time.Now().After(deadline) {
			s := ""
			if len(stacks) > 0 {
				s = stacks[len(stacks)-1]
				if len(s) > 700 {
					s = s[:700]
				}
			}
			e.run.Violation("goroutine-leak", map[string]any{"where": where, "baseline": e.base, "now": n, "env": e.name, "stack": s}, "%s: %d proxy goroutines remain (baseline %d) although every connection is closed; one of them: %s", where, n, e.base, s)
			return
		}
		time.Sleep(5 * time.Millisecond)
	}
}

func dialTCP(addr string) (*net.TCPConn, error) {
	c, err := net.DialTimeout("tcp", addr, 10*time.Second)
	if err != nil {
		return nil, err
	}
	return c.(*net.TCPConn), nil
}

// aborts: cut the client stream after k bytes, for k over the whole session.
func (e *env) aborts() {
	run := e.run
	for _, proto := range []string{"http/1.1", "h2"} {
		// reference run: how many bytes does the client write in a full session?
		c, err := dialTCP(e.px.Addr)
		if err != nil {
			run.Inconclusive("dial: %v", err)
			return
		}
		cc := &cutConn{Conn: c, limit: 1 << 40}
		session(cc, proto, fmt.Sprintf("C11-ref-%s", proto))
		L := int(atomic.LoadInt64(&cc.written))
		c.Close()
		run.Set("client_session_bytes_"+proto, L)
		if L < 300 {
			run.Inconclusive("reference session for %s wrote only %d bytes", proto, L)
			return
		}
		step := run.Pick(8, 1)
		var wg sync.WaitGroup
		sem := make(chan struct{}, 32)
		var lat []time.Duration
		var lmu sync.Mutex
		for k := 0; k <= L+step; k += step {
			for _, rst := range []bool{false, true} {
				if !run.Thorough() && (k/step)%2 == 0 == rst {
					continue
				}
				wg.Add(1)
				sem <- struct{}{}
				go func(k int, rst bool) {
					defer wg.Done()
					defer func() { <-sem }()
					sc := scen{Kind: "abort", Proto: proto, Offset: k, RST: rst, Env: e.name}
					dialAt := time.Now()
					c, err := dialTCP(e.px.Addr)
					if err != nil {
						return
					}
					local := c.LocalAddr()
					cc := &cutConn{Conn: c, limit: int64(k), rst: rst}
					if k == 0 {
						cc.doCut()
					} else {
						session(cc, proto, fmt.Sprintf("C11-ab-%s-%d-%v", proto, k, rst))
						cc.doCut()
					}
					ac := e.find(local, dialAt, W)
					run.Eval(1)
					run.Add("scenarios_abort", 1)
					run.Distinct(fmt.Sprintf("%+v", sc))
					if ac == nil {
						run.Add("abort_conn_not_matched", 1)
						return
					}
					select {
					case <-ac.Done:
						lmu.Lock()
						lat = append(lat, ac.ClosedAt.Sub(cc.CutAt))
						lmu.Unlock()
					case <-time.After(W):
						select {
						case <-ac.Done:
						case <-time.After(W):
							run.Violation("not-closed-after-client-abort", sc, "client aborted (%s) after %d bytes of a %s session; the proxy had not closed the connection %v later", map[bool]string{false: "FIN", true: "RST"}[rst], k, proto, 2*W)
						}
					}
				}(k, rst)
			}
		}
		wg.Wait()
		e.settle("after aborts " + proto)
		if len(lat) > 0 {
			sort.Slice(lat, func(i, j int) bool { return lat[i] < lat[j] })
			run.Set("abort_close_latency_ms_median_"+proto, float64(lat[len(lat)/2].Microseconds())/1000)
			run.Set("abort_close_latency_ms_max_"+proto, float64(lat[len(lat)-1].Microseconds())/1000)
		}
	}
}

// stallsThenClose: the client stops at a protocol step, stays silent for a while, then closes.
func (e *env) stallsThenClose() {
	run := e.run
	certs := rig.Certs()
	_ = certs
	steps := []string{"before-any-byte", "mid-clienthello", "after-clienthello", "after-handshake-h1", "mid-request-line-h1", "after-handshake-h2", "mid-preface-h2", "after-preface-h2", "after-settings-h2", "mid-headers-h2", "mid-body-h1", "mid-body-h2"}
	var wg sync.WaitGroup
	for _, stepName := range steps {
		for rep := 0; rep < run.Pick(3, 12); rep++ {
			wg.Add(1)
			go func(stepName string, rep int) {
				defer wg.Done()
				sc := scen{Kind: "stall-then-close", Step: stepName, RST: rep%2 == 1, Env: e.name}
				dialAt := time.Now()
				c, err := dialTCP(e.px.Addr)
				if err != nil {
					return
				}
				local := c.LocalAddr()
				stallAt(c, stepName, run.Rand(int64(rep)))
				time.Sleep(time.Duration(20+10*rep) * time.Millisecond)
				if sc.RST {
					c.SetLinger(0)
				}
				cut := time.Now()
				c.Close()
				ac := e.find(local, dialAt, W)
				run.Eval(1)
				run.Add("scenarios_stall_then_close", 1)
				run.Distinct(fmt.Sprintf("%+v", sc))
				if ac == nil {
					return
				}
				select {
				case <-ac.Done:
				case <-time.After(2 * W):
					run.Violation("not-closed-after-stalled-client-left", sc, "client stalled at %q and closed; the proxy had not closed the connection %v later", stepName, time.Since(cut))
				}
			}(stepName, rep)
		}
	}
	wg.Wait()
	e.settle("after stalls")
}

// leavesAfterActions: an HTTP/2 client does a PRNG-composed sequence of legal and refused actions after a
// served request and then leaves (FIN or RST): the connection must be closed and every goroutine end.
func (e *env) leavesAfterActions() {
	run := e.run
	all := []string{"get", "refused-self-dependent-headers", "malformed-headers", "client-reset-stream", "ping", "priority-frame", "window-update", "window-update", "settings", "overlapping-requests"}
	mr := run.Rand(1102)
	var wg sync.WaitGroup
	nseq := run.Pick(16, 120)
	nburst := run.Pick(24, 200)
	for i := 0; i < nseq+nburst; i++ {
		var seq []string
		for k := 1 + mr.Intn(5); k > 0; k-- {
			seq = append(seq, all[mr.Intn(len(all))])
		}
		if i >= nseq {
			seq = []string{"burst"}
		}
		wg.Add(1)
		go func(i int, seq []string) {
			defer wg.Done()
			sc := scen{Kind: "leave-after-actions", Proto: "h2", Step: strings.Join(seq, "+"), RST: i%2 == 1, Env: e.name}
			dialAt := time.Now()
			s, err := rig.Dial(e.px.Addr, []string{"h2"}, nil, nil)
			if err != nil {
				return
			}
			local := s.Rec.Conn.LocalAddr()
			if _, err := s.Do("GET", "/leave", "front.example", [][2]string{{"x-verif-tag", fmt.Sprintf("C11-leave-%d", i)}}, nil, 10*time.Second); err != nil {
				s.Close()
				return
			}
			for _, a := range seq {
				h2Act(s, a)
			}
			if seq[len(seq)-1] == "burst" {
				// leave while the handlers of the burst are finishing: wait for the first few responses only
				s.Peer.WaitFor(0, 5*time.Second, func(e h2peer.Event) bool { return e.Is(http2.FrameHeaders) && e.StreamID > 40 })
			} else {
				s.Peer.Fence(5 * time.Second)
			}
			if tc, ok := s.Rec.Conn.(*net.TCPConn); ok && sc.RST {
				tc.SetLinger(0)
			}
			cut := time.Now()
			s.Rec.Conn.Close()
			ac := e.find(local, dialAt, W)
			run.Eval(1)
			run.Add("scenarios_leave_after_actions", 1)
			run.Distinct(fmt.Sprintf("%+v", sc))
			if ac == nil {
				return
			}
			select {
			case <-ac.Done:
			case <-time.After(2 * W):
				run.Violation("not-closed-after-client-left", sc, "HTTP/2 client did %q and left; the proxy had not closed the connection %v later", sc.Step, time.Since(cut).Round(time.Millisecond))
			}
		}(i, seq)
	}
	wg.Wait()
	e.settle("after leave-after-actions")
}

// stallAt advances the client to the named protocol step.
func stallAt(c *net.TCPConn, step string, r interface{ Intn(int) int }) {
	h := &hello.Hello{LegacyVersion: 0x0303, Compression: []byte{0}, Random: make([]byte, 32), Ciphers: []uint16{0xc02f, 0x009c, 0x1301},
		Exts: []hello.Ext{hello.SupportedGroups(29, 23), hello.PointFormats(0), hello.SigAlgs(0x0804, 0x0401, 0x0403), hello.ALPN("h2", "http/1.1")}}
	rec := h.Record()
	switch step {
	case "before-any-byte":
		return
	case "mid-clienthello":
		c.Write(rec[:len(rec)/2])
		return
	case "after-clienthello":
		c.Write(rec)
		return
	}
	proto := "http/1.1"
	if len(step) > 2 && step[len(step)-2:] == "h2" {
		proto = "h2"
	}
	tc := tls.Client(c, &tls.Config{InsecureSkipVerify: true, ServerName: "front.example", NextProtos: []string{proto}})
	c.SetDeadline(time.Now().Add(10 * time.Second))
	if tc.Handshake() != nil {
		return
	}
	c.SetDeadline(time.Time{})
	switch step {
	case "after-handshake-h1", "after-handshake-h2":
	case "mid-request-line-h1":
		tc.Write([]byte("GET /stal"))
	case "mid-body-h1":
		tc.Write([]byte("POST /stall HTTP/1.1\r\nHost: front.example\r\nContent-Length: 1000\r\n\r\nonly-a-part"))
	case "mid-preface-h2":
		tc.Write([]byte("PRI * HTTP/2.0\r\n\r\nS"))
	case "after-preface-h2":
		tc.Write([]byte("PRI * HTTP/2.0\r\n\r\nSM\r\n\r\n"))
	case "after-settings-h2":
		tc.Write([]byte("PRI * HTTP/2.0\r\n\r\nSM\r\n\r\n\x00\x00\x00\x04\x00\x00\x00\x00\x00"))
	case "mid-headers-h2":
		tc.Write([]byte("PRI * HTTP/2.0\r\n\r\nSM\r\n\r\n\x00\x00\x00\x04\x00\x00\x00\x00\x00\x00\x00\x20\x01\x04\x00\x00\x00\x01\x82\x87"))
	case "mid-body-h2":
		// HEADERS (POST, no END_STREAM) then part of a DATA frame
		tc.Write([]byte("PRI * HTTP/2.0\r\n\r\nSM\r\n\r\n\x00\x00\x00\x04\x00\x00\x00\x00\x00"))
		tc.Write([]byte{0, 0, 4, 1, 4, 0, 0, 0, 1, 0x83, 0x87, 0x84, 0x41 & 0x0f})
		tc.Write([]byte{0, 0, 100, 0, 0, 0, 0, 0, 1, 'x', 'y'})
	}
}

// h2Act: one client action on an established HTTP/2 session (used as the last thing(s) a client does
// before it goes silent or leaves).
func h2Act(s *rig.Session, act string) {
	sid := s.TakeStreamID()
	// encoded only when it is sent: the encoder's dynamic table must stay in step with the server's
	block := func() []byte { return s.Peer.Encode(h2peer.GetFields("front.example", "/idle2")) }
	switch act {
	case "refused-self-dependent-headers": // PRIORITY flag, depends on itself: stream error, no stream is created
		pl := append([]byte{byte(sid >> 24), byte(sid >> 16), byte(sid >> 8), byte(sid), 16}, block()...)
		s.Peer.WriteRaw(h2peer.RawFrame(1, 0x25, sid, pl))
	case "malformed-headers": // upper-case field name: rejected by the frame reader
		bad := s.Peer.Encode(append(h2peer.GetFields("front.example", "/idle2"), hpack.HeaderField{Name: "X-Upper", Value: "1"}))
		s.Peer.WriteRaw(h2peer.RawFrame(1, 0x5, sid, bad))
	case "client-reset-stream":
		s.Peer.WriteRaw(h2peer.RawFrame(1, 0x4, sid, s.Peer.Encode([]hpack.HeaderField{{Name: ":method", Value: "POST"}, {Name: ":scheme", Value: "https"}, {Name: ":authority", Value: "front.example"}, {Name: ":path", Value: "/idle2"}})))
		s.Peer.WriteRaw(h2peer.RawFrame(3, 0, sid, []byte{0, 0, 0, 8}))
	case "ping":
		s.Peer.WriteRaw(h2peer.RawFrame(6, 0, 0, []byte("c11-ping")))
	case "priority-frame":
		s.Peer.WriteRaw(h2peer.RawFrame(2, 0, sid+20, []byte{0, 0, 0, 0, 9}))
	case "window-update":
		s.Peer.WriteRaw(h2peer.RawFrame(8, 0, 0, []byte{0, 0, 1, 0}))
	case "settings":
		s.Peer.WriteRaw(h2peer.RawFrame(4, 0, 0, []byte{0, 3, 0, 0, 0, 50}))
	case "get": // a plain served request
		s.Peer.WriteRaw(h2peer.RawFrame(1, 0x5, sid, block()))
		s.Peer.WaitResponse(sid, 10*time.Second)
	case "burst": // 240 quick requests (answered by the proxy itself) written back to back, nothing awaited
		var b []byte
		for k := 0; k < 240; k++ {
			if k > 0 {
				sid = s.TakeStreamID()
			}
			b = append(b, h2peer.RawFrame(1, 0x5, sid, s.Peer.Encode(h2peer.GetFields("front.example", "/burst", hpack.HeaderField{Name: "user-agent", Value: "kube-probe/1.30"})))...)
		}
		s.Peer.WriteRaw(b)
	case "overlapping-requests": // a second stream is opened (and answered) while the first is still open
		sid2 := s.TakeStreamID()
		post := s.Peer.Encode([]hpack.HeaderField{{Name: ":method", Value: "POST"}, {Name: ":scheme", Value: "https"}, {Name: ":authority", Value: "front.example"}, {Name: ":path", Value: "/idle3"}})
		s.Peer.WriteRaw(append(h2peer.RawFrame(1, 0x4, sid, post), h2peer.RawFrame(1, 0x5, sid2, s.Peer.Encode(h2peer.GetFields("front.example", "/idle4")))...))
		s.Peer.WaitResponse(sid2, 10*time.Second)
		s.Peer.WriteRaw(h2peer.RawFrame(0, 0x1, sid, []byte("body")))
		s.Peer.WaitResponse(sid, 10*time.Second)
	}
}

// timeouts: stalled handshakes must be cut at the handshake timeout; idle
// connections (after one served request) at the idle timeout, on both protocols.
func (e *env) timeouts() {
	run := e.run
	type obs struct {
		sc   scen
		T    time.Duration
		from time.Time
		lo   time.Time // earliest start of the timeout period (zero: same as from)
		ac   *rig.AcctConn
		c    net.Conn
	}
	var obsList []*obs
	var mu sync.Mutex
	var wg sync.WaitGroup
	add := func(o *obs) { mu.Lock(); obsList = append(obsList, o); mu.Unlock() }
	for _, step := range []string{"before-any-byte", "mid-clienthello", "after-clienthello"} {
		for rep := 0; rep < run.Pick(2, 5); rep++ {
			wg.Add(1)
			go func(step string) {
				defer wg.Done()
				dialAt := time.Now()
				c, err := dialTCP(e.px.Addr)
				if err != nil {
					return
				}
				from := time.Now()
				stallAt(c, step, nil)
				// "not too early" is measured from the moment before the dial: the server cannot have started its
				// handshake timer before the connection was asked for, whereas this goroutine may be scheduled late
				// after connect() has returned (312 ms of 400 ms measured from `from` on a loaded fresh sandbox)
				add(&obs{sc: scen{Kind: "handshake-timeout", Step: step, Env: e.name}, T: e.th, from: from, lo: dialAt, ac: e.find(c.LocalAddr(), dialAt, W), c: c})
			}(step)
		}
	}
	// a client that never goes silent but never finishes either: its ClientHello arrives one byte every T/5
	// (after seeded change C11-M, where the handshake budget had become a per-read inactivity timeout)
	for rep := 0; rep < run.Pick(3, 6); rep++ {
		wg.Add(1)
		go func(rep int) {
			defer wg.Done()
			dialAt := time.Now()
			c, err := dialTCP(e.px.Addr)
			if err != nil {
				return
			}
			from := time.Now()
			h := &hello.Hello{LegacyVersion: 0x0303, Compression: []byte{0}, Random: make([]byte, 32), SessionID: make([]byte, 32), Ciphers: []uint16{0xc02f, 0x009c, 0x1301, 0x1302, 0x1303, 0xc02b, 0xc030},
				Exts: []hello.Ext{hello.SupportedGroups(29, 23, 24), hello.PointFormats(0), hello.SigAlgs(0x0804, 0x0401, 0x0403, 0x0805, 0x0501), hello.ALPN("h2", "http/1.1")}}
			rec := h.Record()
			go func() {
				for i := range rec {
					if _, err := c.Write(rec[i : i+1]); err != nil {
						return
					}
					time.Sleep(e.th / 5)
				}
			}()
			run.Add("trickled_handshakes", 1)
			add(&obs{sc: scen{Kind: "handshake-timeout", Step: fmt.Sprintf("trickled-clienthello (%d bytes, one every %v)", len(rec), e.th/5), Env: e.name}, T: e.th, from: from, lo: dialAt, ac: e.find(c.LocalAddr(), dialAt, W), c: c})
		}(rep)
	}
	// HTTP/2 clients that finish the handshake and then stay silent before / inside / after the client
	// preface: the two fixed upstream timers (10 s preface, 2 s first SETTINGS) must cut them, and
	// everything serving them must end (the client never leaves by itself)
	for _, st := range []struct {
		step string
		T    time.Duration
	}{{"after-handshake-h2", 10 * time.Second}, {"mid-preface-h2", 10 * time.Second}, {"after-preface-h2", 2 * time.Second}} {
		for rep := 0; rep < run.Pick(2, 4); rep++ {
			wg.Add(1)
			go func(step string, T time.Duration) {
				defer wg.Done()
				dialAt := time.Now()
				c, err := dialTCP(e.px.Addr)
				if err != nil {
					return
				}
				stallAt(c, step, nil)
				add(&obs{sc: scen{Kind: "fixed-h2-timer", Step: step, Env: e.name}, T: T, from: time.Now(), ac: e.find(c.LocalAddr(), dialAt, W), c: c})
			}(st.step, st.T)
		}
	}

	// what the client does last before it goes silent (after at least one served request)
	lastActs := map[string][]string{
		"http/1.1": {"request"},
		"h2":       {"request", "request", "refused-self-dependent-headers", "malformed-headers", "client-reset-stream", "ping", "priority-frame", "window-update", "settings", "overlapping-requests", "window-update+window-update+settings", "settings+priority-frame+get"},
	}
	// plus PRNG-composed sequences of 2-5 actions (the same for every repetition of a run)
	all := []string{"get", "refused-self-dependent-headers", "malformed-headers", "client-reset-stream", "ping", "priority-frame", "window-update", "window-update", "settings", "overlapping-requests"}
	mr := run.Rand(1101)
	for i := 0; i < run.Pick(6, 30); i++ {
		var seq []string
		for k := 2 + mr.Intn(4); k > 0; k-- {
			seq = append(seq, all[mr.Intn(len(all))])
		}
		lastActs["h2"] = append(lastActs["h2"], strings.Join(seq, "+"))
	}
	for _, proto := range []string{"http/1.1", "h2"} {
		for rep := 0; rep < run.Pick(3, 6); rep++ {
			for _, act := range lastActs[proto] {
				wg.Add(1)
				go func(proto string, rep int, act string) {
					defer wg.Done()
					dialAt := time.Now()
					s, err := rig.Dial(e.px.Addr, []string{proto}, nil, nil)
					if err != nil {
						return
					}
					hn := rig.TagHeader
					if proto == "h2" {
						hn = "x-verif-tag"
					}
					var served time.Time
					for q := 0; q <= rep%2; q++ {
						// the idle period cannot start before the last served request was sent (stamped before the
						// request, not after the response: the server arms its timer when it has written the
						// response, which this goroutine may learn late on a loaded machine)
						served = time.Now()
						if _, err := s.Do("GET", "/idle", "front.example", [][2]string{{hn, fmt.Sprintf("C11-idle-%s-%d-%d-%s", proto, rep, q, act)}}, nil, 10*time.Second); err != nil {
							s.Close()
							return
						}
					}
					if proto == "h2" && act != "request" {
						for _, a := range strings.Split(act, "+") {
							h2Act(s, a)
						}
						s.Peer.Fence(10 * time.Second) // the server has reacted to everything sent so far
					}
					from := time.Now()
					add(&obs{sc: scen{Kind: "idle-timeout", Proto: proto, Step: "last client action: " + act, Env: e.name}, T: e.ti, from: from, lo: served, ac: e.find(s.Rec.Conn.LocalAddr(), dialAt, W), c: s.TLS})
				}(proto, rep, act)
			}
		}
	}
	wg.Wait()
	for _, o := range obsList {
		if o.ac == nil {
			run.Add("timeout_conn_not_matched", 1)
			continue
		}
		upper := o.T + max(3*time.Second, 3*o.T)
		run.Eval(1)
		run.Distinct(fmt.Sprintf("%+v", o.sc))
		// wait up to the bound, then look at Done alone: a select over an already closed Done and
		// an already expired timer picks either
		select {
		case <-o.ac.Done:
		case <-time.After(time.Until(o.from.Add(upper))):
		}
		select {
		case <-o.ac.Done:
			d := o.ac.ClosedAt.Sub(o.from)
			if !o.lo.IsZero() {
				d = o.ac.ClosedAt.Sub(o.lo) // "not too early" is measured from the last served request
			}
			run.Add("timeouts_judged", 1)
			if d < o.T*8/10 && o.sc.Kind != "fixed-h2-timer" { // the fixed upstream timers are upper bounds: the configured idle timer may cut earlier
				run.Violation("closed-too-early", o.sc, "%s (%s %s): closed after %v although the timeout is %v", o.sc.Kind, o.sc.Proto, o.sc.Step, d, o.T)
			}
			if run.WantSample() {
				run.Sample(map[string]any{"scenario": o.sc, "timeout_ms": o.T.Milliseconds(), "closed_after_ms": d.Milliseconds()})
			}
		default:
			cl := "handshake-timeout-not-enforced"
			if o.sc.Kind == "idle-timeout" {
				cl = "idle-timeout-not-enforced-" + o.sc.Proto
			}
			run.Violation(cl, o.sc, "%s (%s %s): the connection is still open %v after it stalled/went idle; the configured timeout is %v", o.sc.Kind, o.sc.Proto, o.sc.Step, time.Since(o.from).Round(time.Millisecond), o.T)
		}
		o.c.Close()
	}
}

// faults: an I/O error at every server-side operation index of both sessions.
type faultEnv struct {
	e     *env
	mu    sync.Mutex
	plans map[string]*rig.FaultPlan // by client address
}

func newFaultEnv(run *verdict.Run, be *rig.Backend) *faultEnv {
	fe := &faultEnv{plans: map[string]*rig.FaultPlan{}}
	fe.e = newEnv(run, be, 2*time.Second, 2*time.Second, func(i int, c net.Conn) *rig.FaultPlan {
		fe.mu.Lock()
		defer fe.mu.Unlock()
		return fe.plans[c.RemoteAddr().String()]
	})
	return fe
}

func faults(run *verdict.Run, be *rig.Backend, fe *faultEnv) {
	kinds := []string{"reset", "timeout", "eof", "short-write", "deadline-error"}
	planMu, plans, e := &fe.mu, fe.plans, fe.e
	defer e.px.Stop()
	for _, proto := range []string{"http/1.1", "h2"} {
		// reference: number of server-side I/O operations of a full session
		dialAt := time.Now()
		c, err := dialTCP(e.px.Addr)
		if err != nil {
			return
		}
		local := c.LocalAddr()
		session(c, proto, "C11-faultref-"+proto)
		c.Close()
		ac := e.find(local, dialAt, W)
		if ac == nil {
			run.Inconclusive("fault reference connection not found")
			return
		}
		<-ac.Done
		nops := ac.Ops()
		run.Set("server_io_operations_per_session_"+proto, nops)
		var wg sync.WaitGroup
		sem := make(chan struct{}, 32)
		for op := 1; op <= nops+2; op++ {
			for ki, kind := range kinds {
				if !run.Thorough() && (op+ki)%2 == 0 && kind != "reset" {
					continue
				}
				wg.Add(1)
				sem <- struct{}{}
				go func(op int, kind string) {
					defer wg.Done()
					defer func() { <-sem }()
					sc := scen{Kind: "io-fault", Proto: proto, Op: op, Fault: kind, Env: e.name}
					d := net.Dialer{Timeout: 10 * time.Second}
					// reserve the address first so that the plan is in place before Accept sees the conn
					planMu.Lock()
					dialAt := time.Now()
					c, err := d.Dial("tcp", e.px.Addr)
					if err != nil {
						planMu.Unlock()
						return
					}
					plans[c.LocalAddr().String()] = &rig.FaultPlan{Op: op, Kind: kind}
					planMu.Unlock()
					local := c.LocalAddr()
					done := make(chan struct{})
					go func() { session(c, proto, fmt.Sprintf("C11-f-%s-%d-%s", proto, op, kind)); close(done) }()
					ac := e.find(local, dialAt, W)
					run.Eval(1)
					run.Add("scenarios_fault", 1)
					run.Distinct(fmt.Sprintf("%+v", sc))
					if ac == nil {
						c.Close()
						return
					}
					// wait until the fault fired or the session ended normally
					select {
					case <-done:
					case <-time.After(15 * time.Second):
					}
					// A failed Read or Write is an error of the connection: the proxy must close it on its
					// own, the client keeps its socket open. A failed Set*Deadline call does not break the
					// byte stream (the server may carry on): there the client leaves and then the
					// connection must be closed.
					fatal := ac.Faulted() && kind != "deadline-error"
					if !ac.Faulted() {
						run.Add("fault_op_index_not_reached", 1)
					} else {
						run.Add("faults_fired", 1)
					}
					if !fatal {
						c.Close()
					}
					select {
					case <-ac.Done:
					case <-time.After(2 * W):
						run.Violation("not-closed-after-io-error", sc, "%s error injected at server I/O operation %d of a %s session (fired=%v, client still connected=%v): the proxy had not closed the connection %v later", kind, op, proto, ac.Faulted(), fatal, 2*W)
					}
					c.Close()
				}(op, kind)
			}
		}
		wg.Wait()
		e.settle("after I/O faults " + proto)
	}
}
