//go:build verif

// C15 — probe requests are answered locally; everything else is forwarded.
package main

import (
	"bufio"
	"crypto/tls"
	"fmt"
	"io"
	"math/rand"
	"net/http"
	"strconv"
	"strings"
	"sync"
	"time"

	"verif/internal/rig"
	"verif/internal/verdict"

	"golang.org/x/net/http2/hpack"
)

type tcase struct {
	Flag    bool        `json:"probe_support_enabled"`
	Proto   string      `json:"protocol"`
	Method  string      `json:"method"`
	Path    string      `json:"path"`
	Headers [][2]string `json:"headers"`
	Body    string      `json:"body,omitempty"`
	Family  string      `json:"family"`
}

// uaLines returns the User-Agent values in wire order (case-insensitive name).
func uaLines(h [][2]string) []string {
	var out []string
	for _, kv := range h {
		if strings.EqualFold(kv[0], "user-agent") {
			out = append(out, kv[1])
		}
	}
	return out
}

func main() {
	run := verdict.Start("C15", "exploration",
		"requests with User-Agent variants (absent, empty, exact prefix, no slash, leading blank, case variants, infix, suffix, needle in another header, two User-Agent lines, PRNG strings with the needle at random positions) x methods x paths x {HTTP/1.1 raw text, HTTP/2 raw frames} x probe support on/off; distinct by (flag, protocol, method, path, headers)")
	be := rig.NewBackend(nil)
	defer be.Close()
	be.PlanFor = func(r *http.Request, tag string) *rig.Plan {
		pl := &rig.Plan{Status: 299, Header: map[string][]string{"X-From-Backend": {tag}}, Chunks: [][]byte{[]byte("BACKEND-BODY:" + tag)}}
		if strings.HasPrefix(r.URL.Path, "/slow") {
			pl.Gate = make(chan struct{})
			go func(g chan struct{}) { time.Sleep(300 * time.Millisecond); close(g) }(pl.Gate)
		}
		return pl
	}
	on, err := rig.StartProxy(be.URL, rig.ProxyOpts{Args: []string{"-enable-kubernetes-probe=true"}})
	if err != nil {
		run.Inconclusive("start proxy: %v", err)
		run.Finish()
	}
	defer on.Stop()
	off, err := rig.StartProxy(be.URL, rig.ProxyOpts{Args: []string{"-enable-kubernetes-probe=false"}})
	if err != nil {
		run.Inconclusive("start proxy: %v", err)
		run.Finish()
	}
	defer off.Stop()
	// the default (no flag) must behave like "enabled"
	def, err := rig.StartProxy(be.URL, rig.ProxyOpts{})
	if err != nil {
		run.Inconclusive("start proxy: %v", err)
		run.Finish()
	}
	defer def.Stop()

	uas := [][][2]string{
		{},
		{{"User-Agent", ""}},
		{{"User-Agent", "kube-probe/"}},
		{{"User-Agent", "kube-probe/1.26"}},
		{{"User-Agent", "kube-probe/1.29.3+k3s1"}},
		{{"User-Agent", "kube-probe"}},
		{{"User-Agent", "kube-probe1.26"}},
		{{"User-Agent", "Kube-Probe/1"}},
		{{"User-Agent", "KUBE-PROBE/1"}},
		{{"User-Agent", "x kube-probe/1"}},
		{{"User-Agent", "curl/8 kube-probe/1"}},
		{{"User-Agent", "curl/8.1"}, {"X-Other", "kube-probe/1.26"}},
		{{"X-User-Agent", "kube-probe/1.26"}},
		{{"User-Agent", "kube-probe/1"}, {"User-Agent", "curl/8"}},
		{{"User-Agent", "curl/8"}, {"User-Agent", "kube-probe/1"}},
		{{"User-Agent", "kube-prob/1"}},
		{{"User-Agent", "kube-probe/\t"}},
		{{"User-Agent", "Mozilla/5.0 (compatible; kube-probe/1.0)"}},
		// another field name repeated around the User-Agent line (legal; an HTTP/2 encoder may emit that order)
		{{"X-Note", "first"}, {"User-Agent", "Mozilla/5.0"}, {"X-Note", "kube-probe/1.30"}},
		{{"Accept", "text/html"}, {"User-Agent", "kube-probe/1.30"}, {"Accept", "*/*"}},
		{{"X-A", "1"}, {"X-B", "2"}, {"X-A", "kube-probe/1"}, {"User-Agent", "curl/8"}, {"X-B", "kube-probe/2"}, {"X-A", "3"}},
		{{"Cookie", "a=kube-probe/1"}, {"User-Agent", "kube-probe/1.31"}, {"Cookie", "b=2"}, {"X-Z", "z"}, {"Cookie", "c=3"}},
	}
	var cases []tcase
	for _, flag := range []string{"on", "off", "default"} {
		for _, proto := range []string{"http/1.1", "h2"} {
			for ui, ua := range uas {
				for mi, m := range []string{"GET", "HEAD", "POST"} {
					if !run.Thorough() && mi > 0 && ui%3 != mi {
						continue
					}
					c := tcase{Flag: flag != "off", Proto: proto, Method: m, Path: []string{"/", "/healthz", "/a/b?x=1", "/kube-probe/"}[(ui+mi)%4], Headers: ua, Family: "list:" + flag}
					if m == "POST" {
						c.Body = "probe-body"
					}
					cases = append(cases, c)
				}
			}
		}
	}
	// probes that carry further request headers a generic content helper would react to (conditional and range
	// requests, content negotiation, connection options): the answer must still be 200 "OK" (after seeded change C15-K)
	extras := [][][2]string{
		{{"Range", "bytes=0-0"}}, {{"Range", "bytes=1-"}}, {{"Range", "bytes=7-"}}, {{"Range", "bytes=-1"}}, {{"Range", "bytes=0-0,1-1"}},
		{{"If-None-Match", "*"}}, {{"If-None-Match", `"v1"`}}, {{"If-Match", "*"}}, {{"If-Match", `"v1"`}},
		{{"If-Modified-Since", "Mon, 02 Jan 2006 15:04:05 GMT"}}, {{"If-Modified-Since", "Fri, 01 Jan 2100 00:00:00 GMT"}},
		{{"If-Unmodified-Since", "Mon, 02 Jan 2006 15:04:05 GMT"}}, {{"If-Range", `"v1"`}, {"Range", "bytes=0-0"}},
		{{"Accept-Encoding", "gzip"}}, {{"Accept", "application/json"}}, {{"Accept", "image/png;q=1, */*;q=0"}},
		{{"Cache-Control", "only-if-cached"}}, {{"Content-Type", "application/json"}}, {{"X-Forwarded-For", "1.2.3.4"}},
		{{"Authorization", "Bearer x"}}, {{"Cookie", "a=b"}}, {{"Origin", "https://o.example"}, {"Access-Control-Request-Method", "GET"}},
		// HTTP/1.1 only: Connection options, also ones that nominate the User-Agent field itself as hop-by-hop (after seeded change
		// C15-N, which removed Connection-nominated fields from the inbound request before the probe test)
		// (no "close" option: the cases of a batch share a keep-alive connection)
		{{"Connection", "keep-alive, User-Agent"}}, {{"Connection", "user-agent"}}, {{"Connection", "keep-alive, X-Whatever, USER-AGENT"}, {"X-Whatever", "1"}}, {{"Connection", "X-Whatever"}, {"X-Whatever", "kube-probe/9"}},
	}
	for _, flag := range []string{"on", "default"} {
		for _, proto := range []string{"http/1.1", "h2"} {
			for ei, ex := range extras {
				if proto == "h2" && ex[0][0] == "Connection" {
					continue // connection-specific fields are malformed in HTTP/2
				}
				for _, m := range []string{"GET", "HEAD", "POST", "OPTIONS"} {
					hs := [][2]string{{"User-Agent", "kube-probe/1.30"}}
					if ei%2 == 1 {
						hs = append(append([][2]string{}, ex...), hs...)
					} else {
						hs = append(hs, ex...)
					}
					c := tcase{Flag: true, Proto: proto, Method: m, Path: []string{"/", "/healthz", "/index.html"}[ei%3], Headers: hs, Family: "probe-with-extras:" + flag}
					if m == "POST" {
						c.Body = "probe-body"
					}
					cases = append(cases, c)
				}
			}
		}
	}
	rng := run.Rand(15)
	nr := run.Pick(4000, 60000)
	for i := 0; i < nr; i++ {
		var b []byte
		for k := rng.Intn(12); k > 0; k-- {
			b = append(b, "abcKUBEkube-/ probe1."[rng.Intn(21)])
		}
		s := string(b)
		switch rng.Intn(4) {
		case 0:
			s = "kube-probe/" + s
		case 1:
			s = s + "kube-probe/" + s
		case 2:
			s = strings.TrimLeft(s, " ") // HTTP/1.1 strips leading blanks anyway
		}
		s = strings.TrimSpace(s)
		flag := []string{"on", "off", "default"}[rng.Intn(3)]
		c := tcase{Flag: flag != "off", Proto: []string{"http/1.1", "h2"}[rng.Intn(2)], Method: []string{"GET", "HEAD", "POST", "PUT"}[rng.Intn(4)],
			Path: fmt.Sprintf("/r%d", rng.Intn(5)), Headers: [][2]string{{"User-Agent", s}}, Family: "random:" + flag}
		cases = append(cases, c)
	}

	proxies := map[string]*rig.Proxy{"on": on, "off": off, "default": def}
	var localMu sync.Mutex
	localTags := map[string]tcase{}
	var wg sync.WaitGroup
	sem := make(chan struct{}, 16)
	// group cases per (proxy, proto) connection batches of 20 to exercise keep-alive / multiplexing
	type key struct{ flag, proto string }
	groups := map[key][]int{}
	for i, c := range cases {
		k := key{strings.SplitN(c.Family, ":", 2)[1], c.Proto}
		groups[k] = append(groups[k], i)
	}
	for k, idxs := range groups {
		for off := 0; off < len(idxs); off += 20 {
			batch := idxs[off:min(off+20, len(idxs))]
			k := k
			wg.Add(1)
			sem <- struct{}{}
			go func() {
				defer wg.Done()
				defer func() { <-sem }()
				px := proxies[k.flag]
				var s *rig.Session
				for _, i := range batch {
					c := cases[i]
					if s == nil {
						var err error
						s, err = rig.Dial(px.Addr, []string{c.Proto}, nil, nil)
						if err != nil {
							run.Add("dial_failed", 1)
							return
						}
					}
					tag := fmt.Sprintf("C15-%d-%d", run.Seed, i)
					hs := append([][2]string{}, c.Headers...)
					if c.Proto == "h2" {
						for j := range hs {
							hs[j][0] = strings.ToLower(hs[j][0])
						}
						hs = append(hs, [2]string{strings.ToLower(rig.TagHeader), tag})
					} else {
						hs = append(hs, [2]string{rig.TagHeader, tag})
					}
					resp, err := s.Do(c.Method, c.Path, "front.example", hs, []byte(c.Body), 20*time.Second)
					run.Eval(1)
					run.Distinct(fmt.Sprintf("%v|%s|%s|%s|%v", c.Flag, c.Proto, c.Method, c.Path, c.Headers))
					if err != nil {
						run.Add("request_errors", 1)
						s.Close()
						s = nil
						run.Violation("request-failed", c, "request failed: %v", err)
						continue
					}
					atBackend := len(be.Records(tag))
					local := resp.Status == 200 && resp.Header.Get("X-From-Backend") == "" && (string(resp.Body) == "OK" || c.Method == "HEAD")
					fromBackend := resp.Status == 299 && resp.Header.Get("X-From-Backend") == tag && (string(resp.Body) == "BACKEND-BODY:"+tag || c.Method == "HEAD")
					uas := uaLines(c.Headers)
					// expectation
					var wantLocal, defined bool
					switch {
					case !c.Flag:
						wantLocal, defined = false, true
					case len(uas) == 0:
						wantLocal, defined = false, true
					case len(uas) == 1:
						wantLocal, defined = strings.HasPrefix(uas[0], "kube-probe/"), true
					default:
						all, none := true, true
						for _, u := range uas {
							if strings.HasPrefix(u, "kube-probe/") {
								none = false
							} else {
								all = false
							}
						}
						if all {
							wantLocal, defined = true, true
						} else if none {
							wantLocal, defined = false, true
						}
					}
					run.Add("requests_"+c.Proto, 1)
					if local {
						run.Add("answered_locally", 1)
						localMu.Lock()
						localTags[tag] = c
						localMu.Unlock()
					}
					if fromBackend {
						run.Add("forwarded", 1)
					}
					switch {
					case local && atBackend > 0:
						run.Violation("probe-also-forwarded", c, "answered locally (200 OK) but the request also reached the backend %d time(s)", atBackend)
					case !local && !fromBackend:
						run.Violation("neither-local-nor-backend", c, "client got status %d body %q: neither the local probe answer nor the backend's planned response", resp.Status, trunc(resp.Body))
					case fromBackend && atBackend != 1:
						run.Violation("forward-count", c, "client got the backend response but the backend saw the tag %d times", atBackend)
					case defined && wantLocal && !local:
						run.Violation("probe-forwarded", c, "probe support on and User-Agent %q begins with kube-probe/ but the request was forwarded", uas)
					case defined && !wantLocal && local:
						run.Violation("non-probe-answered-locally", c, "request with User-Agent %q (probe support %v) was answered locally", uas, c.Flag)
					}
					if !defined {
						run.Add("two_user_agent_lines_disagreeing_only_exactly_one_route_checked", 1)
					}
					if run.WantSample() && rand.Intn(60) == 0 {
						run.Sample(map[string]any{"case": c, "status": resp.Status, "at_backend": atBackend})
					}
				}
				if s != nil {
					s.Close()
				}
			}()
		}
	}
	wg.Wait()
	// clients that stop sending (half-close) or reset the stream while the backend has not answered yet:
	// whatever the client is told, a success the backend never produced is an answer made up locally
	for i := 0; i < run.Pick(24, 200); i++ {
		wg.Add(1)
		sem <- struct{}{}
		go func(i int) {
			defer wg.Done()
			defer func() { <-sem }()
			flag := []string{"on", "off", "default"}[i%3]
			ua := []string{"curl/8", "x kube-probe/1", "", "Mozilla/5.0"}[(i/3)%4]
			tag := fmt.Sprintf("C15-%d-halfclose-%d", run.Seed, i)
			c := tcase{Flag: flag != "off", Proto: "http/1.1", Method: []string{"GET", "POST"}[i%2], Path: "/slow/" + fmt.Sprint(i), Headers: [][2]string{{"User-Agent", ua}}, Family: "half-close:" + flag}
			tc, _, err := rig.StdDial(proxies[flag].Addr, &tls.Config{InsecureSkipVerify: true, NextProtos: []string{"http/1.1"}}, nil, nil)
			if err != nil {
				return
			}
			defer tc.Close()
			tc.SetDeadline(time.Now().Add(20 * time.Second))
			body := ""
			if c.Method == "POST" {
				body = "Content-Length: 4\r\n\r\nbody"
			} else {
				body = "\r\n"
			}
			fmt.Fprintf(tc, "%s %s HTTP/1.1\r\nHost: front.example\r\nUser-Agent: %s\r\n%s: %s\r\n%s", c.Method, c.Path, ua, rig.TagHeader, tag, body)
			be.Wait(tag, 5*time.Second) // the request is at the backend, which has not answered yet
			tc.CloseWrite()             // close_notify + FIN: the client has nothing more to say but keeps reading
			resp, rerr := http.ReadResponse(bufio.NewReader(tc), &http.Request{Method: c.Method})
			var rb []byte
			if rerr == nil {
				rb, _ = io.ReadAll(resp.Body)
			}
			run.Eval(1)
			run.Add("half_close_requests", 1)
			run.Distinct(fmt.Sprintf("halfclose|%s|%s|%s", flag, c.Method, ua))
			if rerr != nil {
				run.Add("half_close_no_response", 1)
				return
			}
			fromBackend := resp.StatusCode == 299 && resp.Header.Get("X-From-Backend") == tag
			switch {
			case fromBackend:
				run.Add("half_close_backend_response_delivered", 1)
			case resp.StatusCode >= 500:
				run.Add("half_close_gateway_error", 1)
			default:
				run.Violation("made-up-answer-for-forwarded-request", c, "the client half-closed after sending a non-probe request that reached the backend %d time(s); it was answered with status %d body %q, which the backend never produced", len(be.Records(tag)), resp.StatusCode, trunc(rb))
			}
		}(i)
	}
	wg.Wait()
	// probes whose request body is still open when the answer is due (added after seeded change C15-M, which read the body
	// first): a POST probe that has announced a body and has not sent it yet must be answered 200 "OK" at once
	for i := 0; i < run.Pick(12, 120); i++ {
		// (HTTP/2 only: net/http's HTTP/1.1 server reads a pending request body itself before it writes a response,
		// so an HTTP/1.1 client that withholds an announced body waits for its own bytes on the unchanged tree too)
		proto := "h2"
		px := []*rig.Proxy{on, def}[i%2]
		tag := fmt.Sprintf("C15-%d-openbody-%d", run.Seed, i)
		c := tcase{Flag: true, Proto: proto, Method: "POST", Path: "/healthz", Headers: [][2]string{{"User-Agent", "kube-probe/1.31"}}, Family: "open-body", Body: "(withheld until the answer has arrived)"}
		var status int
		var body []byte
		var rerr error
		if proto == "h2" {
			s, err := rig.Dial(px.Addr, []string{"h2"}, nil, nil)
			if err != nil {
				run.Add("dial_failed", 1)
				continue
			}
			id := s.TakeStreamID()
			f := []hpack.HeaderField{{Name: ":method", Value: "POST"}, {Name: ":scheme", Value: "https"}, {Name: ":authority", Value: "front.example"}, {Name: ":path", Value: "/healthz"},
				{Name: "user-agent", Value: "kube-probe/1.31"}, {Name: strings.ToLower(rig.TagHeader), Value: tag}}
			if i%4 == 0 {
				f = append(f, hpack.HeaderField{Name: "content-length", Value: "5"})
			}
			if err := s.Peer.Request(id, false, f...); err != nil {
				rerr = err
			} else if r, ok := s.Peer.WaitResponse(id, 5*time.Second); !ok {
				rerr = fmt.Errorf("no complete response within 5 s while the request body is open (reset=%v)", r.Reset)
			} else {
				status, _ = strconv.Atoi(r.Status)
				body = r.Body
			}
			s.Close()
		} else {
			tc, err := tls.Dial("tcp", px.Addr, &tls.Config{InsecureSkipVerify: true, ServerName: "front.example", NextProtos: []string{"http/1.1"}})
			if err != nil {
				run.Add("dial_failed", 1)
				continue
			}
			tc.SetDeadline(time.Now().Add(5 * time.Second))
			fmt.Fprintf(tc, "POST /healthz HTTP/1.1\r\nHost: front.example\r\nUser-Agent: kube-probe/1.31\r\n%s: %s\r\nContent-Length: 5\r\n\r\n", rig.TagHeader, tag)
			resp, err := http.ReadResponse(bufio.NewReader(tc), &http.Request{Method: "POST"})
			if err != nil {
				rerr = fmt.Errorf("no response within 5 s while the request body is open: %v", err)
			} else {
				status = resp.StatusCode
				body, _ = io.ReadAll(io.LimitReader(resp.Body, 2))
			}
			tc.Close()
		}
		run.Eval(1)
		run.Distinct(fmt.Sprintf("open-body|%s|%d", proto, i%4))
		run.Add("probes_with_open_request_body", 1)
		switch {
		case rerr != nil:
			run.Violation("probe-not-answered-while-its-body-is-open", c, "%s probe (POST, body announced, not sent yet): %v", proto, rerr)
		case status != 200 || string(body) != "OK":
			run.Violation("neither-local-nor-backend", c, "%s probe with an open request body got status %d body %q", proto, status, trunc(body))
		case len(be.Records(tag)) != 0:
			run.Violation("probe-also-forwarded", c, "%s probe with an open request body reached the backend", proto)
		}
	}
	// late sweep: a locally answered request must not show up at the backend later either
	for tag, c := range localTags {
		if n := len(be.Records(tag)); n > 0 {
			run.Violation("probe-also-forwarded", c, "answered locally (200 OK) but the request reached the backend %d time(s) afterwards", n)
		}
	}
	run.Add("late_sweep_local_tags_rechecked", int64(len(localTags)))
	run.Require("answered_locally", 20)
	run.Require("forwarded", 50)
	run.Assume("with two User-Agent lines that disagree the statement does not define the route: only 'exactly one of local/forwarded' is required")
	run.Finish()
}

func trunc(b []byte) string {
	if len(b) > 60 {
		return string(b[:60]) + "…"
	}
	return string(b)
}
