//go:build verif

// C06 — fingerprints are attributed to the right connection under concurrency.
package main

import (
	"fmt"
	"math"
	"math/rand"
	"net"
	"strings"
	"sync"
	"time"

	utls "github.com/refraction-networking/utls"
	"golang.org/x/net/http2/hpack"

	"verif/internal/h2fp"
	"verif/internal/hello"
	"verif/internal/ref"
	"verif/internal/rig"
	"verif/internal/verdict"
)

type expect struct {
	conn           int
	proto          string
	ja3            string
	ja4            string
	ja3KnownAbsent bool            // D9-class hello: the JA3 of this connection cannot be computed (known finding); absent is expected
	h2adm          map[string]bool // admissible HTTP/2 fingerprints (nil for http/1.1)
	h2any          []string        // first/last admissible (for messages)
}

func main() {
	run := verdict.Start("C06", "exploration",
		"rounds of N concurrent clients with pairwise different ClientHellos (utls specs with a unique extension id) and pairwise different HTTP/2 preambles (unique SETTINGS value and WINDOW_UPDATE), half h2 (multiplexed bursts) and half HTTP/1.1 (keep-alive), from 127.0.0.1-8, connecting, idling and disconnecting at PRNG-chosen points with chopped handshake delivery; every backend record (tag, JA3, JA4, HTTP2) must carry the fingerprints of the connection the tag's client used; plus a library-level rig in which a handler re-reads its connection's data after its client dropped the connection and other clients were served; distinct by (round, client, request)")
	be := rig.NewBackend(nil)
	defer be.Close()
	px, err := rig.StartProxy(be.URL, rig.ProxyOpts{ListenAddr: "127.0.0.1:0"})
	if err != nil {
		run.Inconclusive("start proxy: %v", err)
		run.Finish()
	}
	defer px.Stop()
	N := run.Pick(96, 200)
	rounds := run.Pick(12, 60)
	for round := 0; round < rounds; round++ {
		var mu sync.Mutex
		want := map[string]*expect{} // tag -> expectation
		byConn := map[int]*expect{}
		var wg sync.WaitGroup
		start := make(chan struct{})
		// Every fourth round runs next to *heavy neighbours*: two HTTP/2 connections that have sent 40 000 legal
		// PRIORITY frames each (and one request, which proves the server has taken them in) and stay open for
		// the whole round. What another connection holds must not change this connection's value (after seeded
		// change C06-K: a process-wide budget for recorded priority entries).
		var heavies []*h2fp.Conn
		if round%4 == 2 {
			for k := 0; k < 2; k++ {
				if hc := heavyNeighbour(run, px, round, k); hc != nil {
					heavies = append(heavies, hc)
				}
			}
			run.Add("rounds_next_to_heavy_neighbours", 1)
		}
		for ci := 0; ci < N; ci++ {
			wg.Add(1)
			go func(ci int) {
				defer wg.Done()
				<-start
				client(run, px, round, ci, &mu, want, byConn)
			}(ci)
		}
		close(start)
		wg.Wait()
		for _, hc := range heavies {
			hc.Close()
		}
		// judge this round
		allJA3 := map[string]int{}
		allJA4 := map[string]int{}
		for ci, e := range byConn {
			allJA3[e.ja3] = ci
			allJA4[e.ja4] = ci
		}
		run.Add("connections_with_distinct_ja3_in_round", int64(len(allJA3)))
		for tag, e := range want {
			recs := be.Records(tag)
			if len(recs) == 0 {
				run.Add("requests_not_forwarded", 1) // client gave up / connection cut: not judged
				continue
			}
			run.Eval(1)
			run.Add("requests_judged_"+e.proto, 1)
			run.Distinct(tag)
			rec := recs[0]
			w := map[string]any{"round": round, "client": e.conn, "protocol": e.proto, "tag": tag}
			if run.WantSample() {
				run.Sample(map[string]any{"round": round, "client": e.conn, "protocol": e.proto, "tag": tag, "backend_ja3": rec.Header.Get("X-Ja3-Fingerprint"), "backend_ja4": rec.Header.Get("X-Ja4-Fingerprint"), "backend_http2": rec.Header.Get("X-Http2-Fingerprint"), "expected_ja3": e.ja3, "expected_ja4": e.ja4})
			}
			check := func(name, wantv string, others map[string]int) {
				vals := rec.Header.Values(name)
				if len(vals) == 1 && vals[0] == wantv {
					return
				}
				if name == "X-Ja3-Fingerprint" && e.ja3KnownAbsent && len(vals) == 0 {
					run.Add("requests_on_connections_without_ja3", 1)
					return
				}
				cl := "wrong-" + strings.ToLower(name)
				msg := ""
				if len(vals) == 1 {
					if oc, ok := others[vals[0]]; ok && oc != e.conn {
						cl = "fingerprint-of-another-connection"
						msg = fmt.Sprintf(" — that is the value of client %d of the same round", oc)
					}
				}
				run.Violation(cl, w, "round %d client %d (%s) request %s: backend saw %s=%q, this connection's value is %q%s", round, e.conn, e.proto, tag, name, vals, wantv, msg)
			}
			check("X-Ja3-Fingerprint", e.ja3, allJA3)
			check("X-Ja4-Fingerprint", e.ja4, allJA4)
			vals := rec.Header.Values("X-Http2-Fingerprint")
			if e.proto == "h2" {
				if len(vals) != 1 || !e.h2adm[vals[0]] {
					cl := "wrong-x-http2-fingerprint"
					for oc, oe := range byConn {
						if oc != e.conn && len(vals) == 1 && oe.h2adm[vals[0]] {
							cl = "fingerprint-of-another-connection"
						}
					}
					run.Violation(cl, w, "round %d client %d request %s: backend saw X-HTTP2-Fingerprint=%q, admissible for this connection: %q", round, e.conn, tag, vals, e.h2any)
				}
			} else if len(vals) != 0 {
				run.Violation("h2-fingerprint-on-http1", w, "round %d client %d (http/1.1) request %s carries X-HTTP2-Fingerprint=%q", round, e.conn, tag, vals)
			}
		}
		run.Add("rounds", 1)
	}
	lateReads(run)
	run.Require("late_reads_judged", 20)
	run.Require("requests_judged_h2", 300)
	run.Require("requests_judged_http/1.1", 300)
	run.Assume("requests whose connection was cut by the client before the response are not judged; the expected values come from the bytes each client wrote (internal/hello references) and from its own frame history (internal/ref Akamai reference)")
	run.Finish()
}

// heavyNeighbour opens an HTTP/2 connection that sends 40 000 PRIORITY frames and one request, and leaves it open.
func heavyNeighbour(run *verdict.Run, px *rig.Proxy, round, k int) *h2fp.Conn {
	c, err := h2fp.Dial(px.Addr, nil, nil)
	if err != nil {
		run.Add("heavy_neighbour_failed", 1)
		return nil
	}
	c.Settings([][2]uint32{{3, 100}, {4, 65535}})
	for i := 0; i < 40000; i++ {
		if err := c.Priority(uint32(200001+2*(i%30000)), 0, i%2 == 0, uint8(i)); err != nil {
			run.Add("heavy_neighbour_failed", 1)
			c.Close()
			return nil
		}
	}
	sid := c.Next
	c.Next += 2
	f := h2fp.PseudoOrder(k, "front.example", "/c06-heavy", "GET")
	f = append(f, hpack.HeaderField{Name: strings.ToLower(rig.TagHeader), Value: fmt.Sprintf("C06-%d-%d-heavy-%d", run.Seed, round, k)})
	if _, err := c.Headers(sid, f, nil, 0, true, run.Rand(int64(round*7+k))); err != nil {
		run.Add("heavy_neighbour_failed", 1)
		c.Close()
		return nil
	}
	if _, ok := c.Peer.WaitResponse(sid, 60*time.Second); !ok {
		run.Add("heavy_neighbour_failed", 1)
		c.Close()
		return nil
	}
	run.Add("heavy_neighbour_priority_frames_taken_in", 40000)
	return c
}

func client(run *verdict.Run, px *rig.Proxy, round, ci int, mu *sync.Mutex, want map[string]*expect, byConn map[int]*expect) {
	r := run.Rand(int64(round*100000 + ci))
	time.Sleep(time.Duration(r.Intn(30)) * time.Millisecond)
	proto := []string{"h2", "http/1.1"}[ci%2]
	var spec *utls.ClientHelloSpec
	for attempt := 0; ; attempt++ {
		spec, _ = hello.CustomSpec(rand.New(rand.NewSource(r.Int63())), []string{proto})
		// a unique extension id makes JA3 and JA4 pairwise different
		spec.Extensions = append([]utls.TLSExtension{&utls.GenericExtension{Id: uint16(20000 + ci), Data: []byte{byte(round)}}}, spec.Extensions...)
		var chop func(int) int
		if r.Intn(3) == 0 {
			cr := rand.New(rand.NewSource(r.Int63()))
			var cm sync.Mutex
			chop = func(int) int { cm.Lock(); defer cm.Unlock(); return 1 + cr.Intn(40) }
		}
		local := &net.TCPAddr{IP: net.IPv4(127, 0, 0, byte(1+r.Intn(8)))}
		sni := fmt.Sprintf("c%d.example", ci)
		longSNI := ci%8 == 5
		if longSNI { // a 253-byte server name: crypto/tls accepts it, the JA3 parser does not (known finding D9)
			sni = strings.Repeat("a", 253-len(sni)-1) + "." + sni
		}
		uc, rc, err := rig.UTLSDial(px.Addr, spec, sni, chop, local)
		if err != nil {
			run.Add("handshake_retries", 1)
			if attempt > 6 {
				run.Add("clients_that_never_connected", 1)
				return
			}
			continue
		}
		rc.Chop = nil
		defer uc.Close()
		p, perr := hello.ParseStream(rc.Bytes())
		if perr != nil {
			run.Add("reference_parse_failed", 1)
			return
		}
		if uc.ConnectionState().NegotiatedProtocol != proto {
			run.Add("unexpected_protocol", 1)
			return
		}
		e := &expect{conn: ci, proto: proto, ja3: p.JA3(), ja4: p.JA4().Value}
		if cl := hello.Classify(rc.Bytes(), nil); cl.SNIListLenLoLtHi {
			e.ja3KnownAbsent = true
		}
		nreq := 5 + r.Intn(16)
		if proto == "h2" {
			c, err := h2fp.Wrap(uc)
			if err != nil {
				return
			}
			c.Settings([][2]uint32{{3, uint32(1000 + ci)}, {4, 1 << 20}})
			c.WindowUpdate(0, uint32(100000+ci))
			e.h2adm = map[string]bool{}
			type pend struct {
				sid uint32
				tag string
				lo  int
			}
			var tags []string
			for q := 0; q < nreq; {
				burst := 1 + r.Intn(5)
				var ps []pend
				for b := 0; b < burst && q < nreq; b, q = b+1, q+1 {
					tag := fmt.Sprintf("C06-%d-%d-%d-%d", run.Seed, round, ci, q)
					sid := c.Next
					c.Next += 2
					f := h2fp.PseudoOrder(ci, "front.example", "/c06", "GET")
					f = append(f, hpack.HeaderField{Name: strings.ToLower(rig.TagHeader), Value: tag})
					var pr *h2fp.Prio
					if r.Intn(3) == 0 {
						pr = &h2fp.Prio{Dep: 0, Excl: false, Weight: uint8(1 + ci%250)}
					}
					lo, err := c.Headers(sid, f, pr, 0, true, r)
					if err != nil {
						break
					}
					ps = append(ps, pend{sid, tag, lo})
					tags = append(tags, tag)
				}
				if r.Intn(6) == 0 {
					c.Priority(uint32(100001+2*r.Intn(1000)), 0, false, uint8(ci))
				}
				for _, pd := range ps {
					c.Peer.WaitResponse(pd.sid, 20*time.Second)
				}
				hi := c.Len()
				all := ref.AkamaiAll(c.History(), math.MaxUint64)
				for _, pd := range ps {
					for n := pd.lo; n <= hi; n++ {
						e.h2adm[all[n]] = true
					}
				}
				if len(e.h2any) == 0 && len(ps) > 0 {
					e.h2any = []string{all[ps[0].lo]}
				}
				if r.Intn(8) == 0 {
					time.Sleep(time.Duration(r.Intn(20)) * time.Millisecond) // idle
				}
				if r.Intn(25) == 0 {
					break // disconnect early
				}
			}
			mu.Lock()
			byConn[ci] = e
			for _, t := range tags {
				want[t] = e
			}
			mu.Unlock()
			return
		}
		s, err := rig.NewSession(uc, proto, rc)
		if err != nil {
			return
		}
		var tags []string
		for q := 0; q < nreq; q++ {
			tag := fmt.Sprintf("C06-%d-%d-%d-%d", run.Seed, round, ci, q)
			tags = append(tags, tag)
			if _, err := s.Do("GET", "/c06", "front.example", [][2]string{{rig.TagHeader, tag}}, nil, 20*time.Second); err != nil {
				break
			}
			if r.Intn(8) == 0 {
				time.Sleep(time.Duration(r.Intn(20)) * time.Millisecond)
			}
			if r.Intn(25) == 0 {
				break
			}
		}
		mu.Lock()
		byConn[ci] = e
		for _, t := range tags {
			want[t] = e
		}
		mu.Unlock()
		return
	}
}
