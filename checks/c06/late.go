//go:build verif

package main

import (
	"context"
	"crypto/sha256"
	"crypto/tls"
	"fmt"
	"io"
	"log"
	"math/rand"
	"net"
	"net/http"
	"strings"
	"sync"
	"time"

	utls "github.com/refraction-networking/utls"
	"github.com/wi1dcard/fingerproxy/pkg/fingerprint"
	"github.com/wi1dcard/fingerproxy/pkg/metadata"
	"github.com/wi1dcard/fingerproxy/pkg/proxyserver"
	"golang.org/x/net/http2/hpack"

	"verif/internal/h2fp"
	"verif/internal/hello"
	"verif/internal/rig"
	"verif/internal/verdict"
)

// lateReads: the connection's fingerprint data must stay that connection's data
// for as long as a handler can reach it — also after the client has gone and
// other clients have connected ("past or concurrent" connections). A handler
// composed with the public API reads the data when it starts and again after
// its client dropped the TCP connection and several other clients were served.
type lateResult struct {
	ja3a, ja3b, ja4a, ja4b string
	recA, recB             [32]byte
	errs                   string
}

func lateReads(run *verdict.Run) {
	var mu sync.Mutex
	entered := map[string]chan struct{}{}
	gates := map[string]chan struct{}{}
	results := map[string]chan lateResult{}
	handler := http.HandlerFunc(func(w http.ResponseWriter, r *http.Request) {
		tag := r.Header.Get(rig.TagHeader)
		md, ok := metadata.FromContext(r.Context())
		if !ok || strings.HasPrefix(tag, "quick") {
			io.WriteString(w, "ok")
			return
		}
		mu.Lock()
		e, g, res := entered[tag], gates[tag], results[tag]
		mu.Unlock()
		if e == nil {
			return
		}
		var lr lateResult
		var err error
		if lr.ja3a, err = fingerprint.JA3Fingerprint(md); err != nil {
			lr.errs += "first JA3: " + err.Error() + "; "
		}
		if lr.ja4a, err = fingerprint.JA4Fingerprint(md); err != nil {
			lr.errs += "first JA4: " + err.Error() + "; "
		}
		lr.recA = sha256.Sum256(md.ClientHelloRecord)
		close(e)
		select {
		case <-r.Context().Done(): // the client dropped the connection
		case <-time.After(10 * time.Second):
		}
		select {
		case <-g: // other clients have been served meanwhile
		case <-time.After(20 * time.Second):
		}
		if lr.ja3b, err = fingerprint.JA3Fingerprint(md); err != nil {
			lr.errs += "second JA3: " + err.Error() + "; "
		}
		if lr.ja4b, err = fingerprint.JA4Fingerprint(md); err != nil {
			lr.errs += "second JA4: " + err.Error() + "; "
		}
		lr.recB = sha256.Sum256(md.ClientHelloRecord)
		res <- lr
	})
	certs := rig.Certs()
	ctx, cancel := context.WithCancel(context.Background())
	defer cancel()
	srv := proxyserver.NewServer(ctx, handler, &tls.Config{Certificates: []tls.Certificate{certs.RSA}, NextProtos: []string{"h2", "http/1.1"}, MinVersion: tls.VersionTLS12})
	srv.ErrorLog = log.New(io.Discard, "", 0)
	srv.HTTPServer.ErrorLog = srv.ErrorLog
	ln, err := net.Listen("tcp", "127.0.0.1:0")
	if err != nil {
		run.Inconclusive("listen: %v", err)
		return
	}
	go srv.Serve(ln)
	addr := ln.Addr().String()

	dial := func(r *rand.Rand, id int, proto string) (*utls.UConn, *rig.RecConn) {
		for attempt := 0; attempt < 6; attempt++ {
			spec, _ := hello.CustomSpec(rand.New(rand.NewSource(r.Int63())), []string{proto})
			spec.Extensions = append([]utls.TLSExtension{&utls.GenericExtension{Id: uint16(30100 + id%19000), Data: []byte{byte(attempt)}}}, spec.Extensions...)
			uc, rc, err := rig.UTLSDial(addr, spec, "late.example", nil, nil)
			if err == nil {
				return uc, rc
			}
		}
		return nil, nil
	}
	n := run.Pick(40, 600)
	var wg sync.WaitGroup
	sem := make(chan struct{}, 6)
	for i := 0; i < n; i++ {
		wg.Add(1)
		sem <- struct{}{}
		go func(i int) {
			defer wg.Done()
			defer func() { <-sem }()
			r := run.Rand(int64(60000 + i))
			tag := fmt.Sprintf("late-%d-%d", run.Seed, i)
			e, g, res := make(chan struct{}), make(chan struct{}), make(chan lateResult, 1)
			mu.Lock()
			entered[tag], gates[tag], results[tag] = e, g, res
			mu.Unlock()
			defer func() {
				mu.Lock()
				delete(entered, tag)
				delete(gates, tag)
				delete(results, tag)
				mu.Unlock()
			}()
			ux, rcx := dial(r, i*10, "h2")
			if ux == nil {
				run.Add("late_dial_failed", 1)
				return
			}
			p, perr := hello.ParseStream(rcx.Bytes())
			if perr != nil {
				ux.Close()
				return
			}
			wantJA3, wantJA4 := p.JA3(), p.JA4().Value
			c, err := h2fp.Wrap(ux)
			if err != nil {
				return
			}
			c.Settings(nil)
			f := h2fp.PseudoOrder(0, "late.example", "/late", "GET")
			f = append(f, hpack.HeaderField{Name: strings.ToLower(rig.TagHeader), Value: tag})
			if _, err := c.Headers(1, f, nil, 0, true, r); err != nil {
				c.Close()
				return
			}
			select {
			case <-e:
			case <-time.After(15 * time.Second):
				c.Close()
				run.Add("late_handler_not_entered", 1)
				return
			}
			// X drops its TCP connection while its handler is still running
			if tc, ok := rcx.Conn.(*net.TCPConn); ok && r.Intn(2) == 0 {
				tc.SetLinger(0)
			}
			c.Close()
			// other clients with different hellos are served meanwhile
			for k := 0; k < 3+r.Intn(4); k++ {
				proto := []string{"h2", "http/1.1"}[r.Intn(2)]
				uy, rcy := dial(r, i*10+1+k, proto)
				if uy == nil {
					continue
				}
				s, err := rig.NewSession(uy, uy.ConnectionState().NegotiatedProtocol, rcy)
				if err == nil {
					hn := rig.TagHeader
					if proto == "h2" {
						hn = strings.ToLower(hn)
					}
					s.Do("GET", "/quick", "late.example", [][2]string{{hn, "quick"}}, nil, 10*time.Second)
					s.Close()
					run.Add("late_other_clients_served", 1)
				}
			}
			close(g)
			select {
			case lr := <-res:
				run.Eval(1)
				run.Add("late_reads_judged", 1)
				run.Distinct(tag)
				w := map[string]any{"tag": tag, "client_first_flight_hex": verdict.Hex(rcx.Bytes()), "first": []string{lr.ja3a, lr.ja4a}, "after_disconnect": []string{lr.ja3b, lr.ja4b}, "errors": lr.errs}
				switch {
				case lr.recA != lr.recB:
					run.Violation("connection-data-changed-after-disconnect", w, "the ClientHello record reachable from the handler's context changed after its client disconnected and other clients connected (JA3 %s -> %s, expected %s) %s", lr.ja3a, lr.ja3b, wantJA3, lr.errs)
				case lr.ja3a != wantJA3 || lr.ja3b != wantJA3 || lr.ja4a != wantJA4 || lr.ja4b != wantJA4:
					run.Violation("late-read-wrong-fingerprint", w, "handler read JA3 %s then %s (expected %s), JA4 %s then %s (expected %s) %s", lr.ja3a, lr.ja3b, wantJA3, lr.ja4a, lr.ja4b, wantJA4, lr.errs)
				}
			case <-time.After(30 * time.Second):
				run.Add("late_result_missing", 1)
			}
		}(i)
	}
	wg.Wait()
}
