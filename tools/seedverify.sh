#!/bin/bash
# usage: tools/seedverify.sh <seeded dir> [--suite]
# Confirms a seeded change in a scratch git worktree of /repo (outside /repo and /verif):
#  demonstration passes on the clean tree, patch applies, tree builds, demonstration fails with
#  the patch, and (with --suite) the existing test suite fails exactly the three network tests.
set -u
D=$(readlink -f "$1"); SUITE=${2:-}
export GOFLAGS=-mod=mod GOPROXY=off GOSUMDB=off GOTOOLCHAIN=local
WT=$(mktemp -d /tmp/verif-seedwt-XXXXXX); rmdir "$WT"
git -C /repo worktree add -q --detach "$WT" HEAD || exit 2
trap 'git -C /repo worktree remove --force "$WT" 2>/dev/null; rm -rf "$WT"' EXIT
cd "$WT"
demo=$(ls "$D"/demo_test.go "$D"/demo/main.go 2>/dev/null | head -1)
place=$(grep -m1 -oE 'place in [A-Za-z0-9_/.-]+' "$demo" | awk '{print $3}' | sed 's#/$##')
if grep -m1 -qE 'place in (the )?(worktree|repository|repo) root' "$demo"; then place="."; fi
if [ -n "$place" ] && [ -d "$place" ]; then
  cp "$demo" "$place/zz_seed_demo_test.go"; pkg="./$place/"
  # only run the demonstration's own tests
  names=$(grep -oE '^func (Test[A-Za-z0-9_]+)' "$demo" | awk '{print $2}' | paste -sd'|')
  run() { go test -tags seeddemo -vet=off -count=1 -run "^($names)\$" "$pkg" > "$1" 2>&1; }
else
  mkdir -p seedx/demo; cp "$demo" seedx/demo/; pkg="./seedx/demo/"
  run() { go test -tags seeddemo -vet=off -count=1 "$pkg" > "$1" 2>&1; }
fi
run /tmp/sv-clean.$$; c=$?
git apply "$D/patch.diff" || { echo "VERIFY $D: patch does not apply"; exit 2; }
go build ./... || { echo "VERIFY $D: does not build"; exit 2; }
run /tmp/sv-patched.$$; p=$?
res="demo clean=$([ $c = 0 ] && echo pass || echo FAIL) patched=$([ $p != 0 ] && echo fail || echo PASS)"
if [ "$SUITE" = "--suite" ]; then
  rm -f "$place/zz_seed_demo_test.go"; rm -rf seedx
  fails=$(go test -vet=off -count=1 ./... 2>&1 | grep -E '^--- FAIL' | awk '{print $3}' | sort | paste -sd,)
  res="$res suite-fails=[$fails]"
fi
echo "VERIFY $(basename $D): $res"
[ $c = 0 ] && [ $p != 0 ] || { tail -n 5 /tmp/sv-clean.$$ /tmp/sv-patched.$$; }
rm -f /tmp/sv-clean.$$ /tmp/sv-patched.$$
