#!/bin/bash
# usage: tools/seedall.sh [pattern]  — regression over the seeded changes: every seeded/<Cnn>-<x>/patch.diff
# is applied to a scratch copy of /repo and the property's quick check must report a VIOLATION.
cd "$(dirname "$0")/.."
pat=${1:-.}
caught=0; missed=0
for d in $(ls -d seeded/C*-* | grep -E "$pat"); do
  id=$(basename $d); id=${id%%-*}
  out=$(tools/seedcheck.sh $d $id quick 2>&1 | tail -n 1)
  case "$out" in *CAUGHT*) caught=$((caught+1));; *) missed=$((missed+1));; esac
  echo "$out" | cut -c1-220
done
echo "seedall: caught=$caught missed=$missed"
