#!/bin/bash
# usage: tools/seedingest.sh <Cnn> <round dir prefix e.g. /tmp/seed2-> <suffix for A> <suffix for B>
ID=$1; PRE=$2; SA=$3; SB=$4
cd /verif
for pair in "A:$SA" "B:$SB"; do
  x=${pair%%:*}; s=${pair##*:}
  [ -d "$PRE$ID/seeded/$x" ] || { echo "no $PRE$ID/seeded/$x"; continue; }
  rm -rf seeded/$ID-$s; cp -r "$PRE$ID/seeded/$x" seeded/$ID-$s
  tools/seedcheck.sh seeded/$ID-$s $ID | cut -c1-300
done
