#!/bin/bash
# usage: tools/seedmeta_from.sh <seeded dir> "<VERIFY line from tools/seedverify.sh --suite>"
# Like seedmeta.sh, but takes the (slow) confirmation result from an earlier run and only re-runs the quick check.
D=$(readlink -f "$1"); N=$(basename "$D"); ID=${N%%-*}; V=$2
C=$(/verif/tools/seedcheck.sh "$D" "$ID" quick 2>&1 | tail -1)
python3 - "$D" "$ID" "$V" "$C" <<'PY'
import sys, json, os, re
d, pid, v, c = sys.argv[1:5]
notes = open(os.path.join(d, "NOTES.md")).read().strip() if os.path.exists(os.path.join(d, "NOTES.md")) else ""
files = sorted(set(re.findall(r'^\+\+\+ b/(\S+)', open(os.path.join(d, "patch.diff")).read(), re.M)))
m = {
 "property": pid,
 "files_touched": files,
 "what_it_breaks_and_needs": notes[:1800],
 "author": "independent sub-agent given only the property text and a scratch git worktree of /repo (nothing from /verif)",
 "confirmed_by_me": {
   "how": "tools/seedverify.sh --suite in a scratch git worktree of /repo: demonstration run on the clean tree, patch applied with git apply, go build ./..., demonstration run again, then the whole existing suite (go test -vet=off -count=1 ./...)",
   "result": v,
   "expected": "demo clean=pass patched=fail; suite fails exactly TestAppendForwardHeader,TestInjectHeader,TestPreserveHost (network tests that always fail offline)",
 },
 "check_run": {"how": "tools/seedcheck.sh (patch applied to an rsync copy of /repo, ./check %s quick with VERIF_REPO pointing at the copy; /repo itself untouched)" % pid, "result": c[:600]},
 "caught": "CAUGHT" in c,
}
json.dump(m, open(os.path.join(d, "meta.json"), "w"), indent=1)
print(os.path.basename(d), "caught" if m["caught"] else "MISSED", "|", v)
PY
