#!/bin/bash
# usage: tools/sweep.sh [tier] seed...   — runs every registered check at each seed, reports anything that is not silent
cd "$(dirname "$0")/.."
TIER=quick; case "${1:-}" in quick|thorough) TIER=$1; shift;; esac
bad=0
for seed in "$@"; do
  for ID in $(jq -r '.checks[].property_id' MANIFEST.json); do
    t0=$(date +%s)
    out=$(VERIF_SEED=$seed VERIF_NO_EVIDENCE=1 ./check $ID $TIER 2>&1); rc=$?
    t1=$(date +%s)
    if [ $rc -ne 0 ] || echo "$out" | grep -q '^VIOLATION\|^INCONCLUSIVE'; then
      bad=$((bad+1)); echo "NOT-SILENT $ID seed=$seed rc=$rc $((t1-t0))s"; echo "$out" | grep -E '^(VIOLATION|INCONCLUSIVE|  detail)' | head -6 | cut -c1-400
    else
      echo "ok $ID seed=$seed $((t1-t0))s"
    fi
  done
done
echo "sweep done: $bad not silent"
