#!/usr/bin/env python3
"""Regenerates /verif/MANIFEST.json from the table below (one entry per built check)."""
import json, os, subprocess, sys
ROOT = os.path.dirname(os.path.dirname(os.path.abspath(__file__)))
props = [json.loads(l)["id"] for l in open(os.path.join(ROOT, "properties.jsonl"))]

# id -> (category, technique, level text, level note, design ref)
CHECKS = {
 "C10": ("fault_enumeration",
         "runtime monitor: process liveness + control client (both protocols) after each hostile case against the proxy running as a child process (journalled cases; I/O faults injected by a wrapping listener; panics injected through the public callbacks), race detector on in the child",
         "The proxy is composed through the real flag wiring in a child process (cmd/victim) so that a process-fatal panic ends one batch, not the monitor, and the journalled case is the witness. Enumerated: FIN/RST after every 8th (quick) / every (thorough) client byte of an HTTP/1.1 and an HTTP/2 session; reset/timeout/EOF/short-write/deadline errors at every server-side I/O operation index; a panic in GetConfigForClient, GetCertificate, VerifyConnection, the ConnState hook (each state), a header injector, IsProbeRequest and the request handler, on both protocols, with the round-robin, priority and random write schedulers; a silent stall at 10 protocol steps during which a control client must be served within 4 s. PRNG-driven: pre-handshake byte streams and post-handshake HTTP/2 / HTTP/1.1 byte streams (mutated transcripts, random frames, floods) in batches of 25 with bisection. After every case/batch the process must be alive and a fresh control client must be served on both protocols.",
         "trusted: cmd/victim (composition + injection points), rig.AcctListener fault injection; a panicking log writer is outside the statement's list of user-supplied code and not injected; liveness is judged by process state and by control requests, not by timing (except the 4 s bound of the stall class)",
         "DESIGN.md §4 C10"),
 "C11": ("fault_enumeration",
         "runtime monitor: per-connection Close() accounting on a wrapping listener + census of proxy goroutines, after client aborts at enumerated byte offsets, stalls at every protocol step, injected I/O errors at every server-side operation index, and timer windows for the handshake/idle timeouts (flag wiring through VerifNewApp), race detector on",
         "Fault points are enumerated: client FIN/RST after every 8th (quick) / every (thorough) byte of a complete HTTP/1.1 and HTTP/2 client session, a silent stall at 12 protocol steps followed by the client leaving, reset / timeout / EOF / short-write / deadline errors at every server-side I/O operation index of both sessions. After each group every accepted connection must have been Close()d and the number of proxy goroutines must be back at the baseline (bounded-progress restatement of 'eventually', 5 s bound, observed ~1 ms). Stalled handshakes and idle connections of both protocols must be cut within [0.8 T, T + max(3 s, 3 T)] of the configured timeout, for 1 (quick) / 3 (thorough) settings.",
         "trusted: rig.AcctListener (sees every Close), runtime.Stack based census with markers for proxyserver / forked http2 serverConn / hack frames; a failed Set*Deadline is not treated as fatal (the client then leaves); wall-clock bounds are generous and a miss is re-checked before being reported",
         "DESIGN.md §4 C11"),
 "C06": ("exploration",
         "runtime monitor: tag -> connection attribution at a recording backend under N concurrent clients with pairwise different ClientHellos and HTTP/2 preambles + race detector",
         "Rounds of 96-200 concurrent clients (utls specs made pairwise different by a unique extension id; unique SETTINGS value / WINDOW_UPDATE per h2 connection), half h2 with multiplexed bursts and half HTTP/1.1 keep-alive, from 127.0.0.1-8, with chopped handshake delivery, idle periods and early disconnects; every backend record must carry exactly the JA3/JA4 (references of the bytes that client wrote) and an admissible HTTP/2 fingerprint (reference of that client's frame history) of the connection the tagged request was sent on; a value that belongs to another connection of the round is reported as such. Race detector on. Held on the interleavings produced.",
         "trusted: internal/hello and internal/ref references, recording backend; requests cut by the client before a response are not judged",
         "DESIGN.md §4 C06"),
 "C03": ("exploration",
         "runtime monitor: Akamai-string reference over the client's exact frame history (raw-frame peer on the independent x/net v0.19.0 framer over real TLS) judged at a recording backend, for every priority-frame limit incl. the flag wiring and the library default, race detector on",
         "A scripted raw-frame client writes random legal histories (SETTINGS with known/unknown ids, SETTINGS ACK, WINDOW_UPDATEs, PRIORITY on idle/closed streams, HEADERS with/without priority, all 24 pseudo-header orders, CONTINUATION splits, 1-6 requests) and every request's X-HTTP2-Fingerprint at the backend must equal the reference string of an admissible history prefix; proxies are built through the real flag wiring with -max-h2-priority-frames 0,1,2,3,5,default and through library composition (unlimited). HTTP/1.1 connections must produce no HTTP/2 fingerprint. Held on the histories produced.",
         "trusted: internal/ref/akamai.go (the statement's S|WU|P|PS rule), the independent framer/HPACK encoder on the client side, the recording backend; only frame sequences the server accepts are generated",
         "DESIGN.md §4 C03"),
 "C07": ("exploration",
         "race detector + linearizability of fingerprint reads against the sequential client frame history (direct admissible-prefix check and porcupine v1.3.0, one history per connection)",
         "Up to 100 streams are kept open per connection (gated backend) while the same client keeps writing SETTINGS with distinct values, WINDOW_UPDATE, PRIORITY and further HEADERS; every request carries 13 independent fingerprint reads (default injector + 12 extra HTTP2 injectors). Each value must be the reference string of ONE history prefix between the request's own HEADERS and the frames started before the backend received it (shared logical clock), the reads of a connection must be linearizable (porcupine), and the race detector must stay silent. Held on the interleavings produced; a clean race-detector run is not race freedom.",
         "trusted: logical clock shared by client and backend, internal/ref/akamai.go, porcupine; a porcupine timeout is inconclusive, never a verdict",
         "DESIGN.md §4 C07"),
 "C19": ("exploration",
         "runtime monitor: write/read round trip of every Framer.Write* method + RFC 7540 reference frame parser + byte-level differential against golang.org/x/net/http2 v0.19.0 Framer, on generated, mutated, exhaustive (type x flags; HEADERS/CONTINUATION/other sequences of length <= 4) and random inputs",
         "Every Write* method is exercised with boundary and random parameters and read back by the fork and by the independent framer (and vice versa); reader inputs cover all 65536 (type, flags) headers, all frame-order sequences of length <= 4, lengths around every fixed-size rule, per-field mutations, random bytes and read limits at limit-1/limit/limit+1, with and without ReadMetaHeaders. Monitors: no panic, no frame above the read limit, error kind/code equal to the reference where RFC 7540 mandates one, agreement with x/net v0.19.0 except for input classes whitelisted after reading both sources. Held on the inputs produced.",
         "trusted: internal/ref/frame.go, x/net v0.19.0 as second opinion; rules that upstream deliberately leaves to the caller (self-dependency, setting value ranges, promised id 0) are counted, not judged; five whitelisted differential classes incl. the two local fixes D18/D19",
         "DESIGN.md §4 C19"),
 "C14": ("exploration",
         "runtime monitor: presented-leaf safety + bounded convergence over generated file-operation histories on the real filesystem with the real fsnotify watcher, concurrent handshakers stamped on one logical clock, race detector on",
         "Each history runs the real certwatcher (New + Start) behind the real defaultTLSConfig on a loopback TLS listener while four handshakers connect continuously; steps in the three supported styles (in-place truncate/partial/full write, rename-over, Kubernetes symlinked-directory swap) in either file order, with garbage / empty / mismatched intermediate states. Safety: every presented serial must belong to a pair whose exposing step began before the handshake ended; no handshake may fail. Convergence (bounded restatement of 'eventually'): after a valid final pair, new handshakes present it within 5 s (observed ~15 ms) and keep presenting it. Held on the histories produced.",
         "trusted: the content model in checks/c14 (what is on disk after each step), crypto/tls client; histories with an explicit deletion or a kept old directory are judged for safety only (not supported styles); the 5 s watchdog is the refutation of convergence and misses are re-run in isolation first",
         "DESIGN.md §4 C14"),
 "C05": ("exploration",
         "runtime monitor: nonce leak detector at a recording backend over the full matrix protocol x injector outcome x injector set x client header form, race detector on",
         "Every request carries unique nonces under every injected header name in one of ten forms (case variants, repeats, empty, padded, 8 KiB, trailers on HTTP/1.1); connections on which JA3 or JA4 cannot be computed are produced on purpose (D9/D13-class hellos), custom injectors returning value / empty / error are configured through fingerproxy.GetHeaderInjectors; the backend must see either exactly the proxy's value (recomputed by the JA3/JA4 references) or no header. The 180-cell matrix is enumerated completely in both tiers. Held on the requests sent.",
         "trusted: recording backend (net/http), raw HTTP/1.1 text and independent x/net v0.19.0 framer on the client side, internal/hello references for the expected JA3/JA4 values; the X-HTTP2-Fingerprint value itself is judged by C03",
         "DESIGN.md §4 C05"),
 "C09": ("exploration",
         "runtime monitor: forwarding-header oracle at a recording backend over real TCP from every local source address, both protocols, client-supplied forwarding headers with nonces, race detector on",
         "Requests are sent over real TCP (the path where HTTP/1.1 connections reach net/http wrapped in hack.TLSClientHelloConn) from 127.0.0.1-8, ::1 and the interface addresses; the backend record must show the TCP peer as last X-Forwarded-For element after the client's list, the client's Host as X-Forwarded-Host, https as X-Forwarded-Proto and none of the client's Forwarded/X-Forwarded-Host/-Proto nonces. The matrix is enumerated in quick, PRNG combinations added in thorough.",
         "trusted: recording backend, rig session (raw text / independent framer); peer address diversity limited to this machine's addresses",
         "DESIGN.md §4 C09"),
 "C15": ("exploration",
         "runtime monitor: exactly-one-route oracle (client-visible response x backend log, with a late sweep) over User-Agent variants, methods, protocols and the probe flag, race detector on",
         "Every request is tagged; the backend answers with a distinctive status/body so that a local 200 'OK' cannot be mistaken. For each request exactly one of (answered locally, reached the backend once) must hold and must be the one the prefix rule demands, for probe support on, off and default (flag wiring through VerifNewApp). Locally answered tags are re-checked at the end of the run.",
         "trusted: recording backend, rig session; two disagreeing User-Agent lines: only 'exactly one route' is judged",
         "DESIGN.md §4 C15"),
 "C01": ("exploration",
         "runtime monitor: JA3 reference computed from the bytes (independent parser) on crypto/tls-accepted forged hellos (shape grid exhaustive) + real utls/crypto-tls handshakes through the full stack judged at a recording backend, race detector on",
         "The real fingerprint function is run on every forged ClientHello that crypto/tls (configured like the proxy) accepts and compared with an independent reference computed from the same bytes; the complete GREASE/plain shape grid (length 0..3 per list) is enumerated, the rest is PRNG driven. Real handshakes with browser presets, random specs and crypto/tls clients, chopped into 1..7-byte TCP writes, on h2 and http/1.1 with several requests per connection, are judged at the backend against the reference of the bytes the client wrote. Held on the hellos produced.",
         "trusted: internal/hello (parser + JA3 reference, calibrated against the Salesforce example), crypto/tls as the domain predicate, utls only as byte sender; known classes D8 (hello spans records) and D9 (tlsx SNI length) are listed in KNOWN_FINDINGS.txt",
         "DESIGN.md §4 C01"),
 "C02": ("exploration",
         "runtime monitor: JA4 reference (calibrated against 145 FoxIO snapshot values) on crypto/tls-accepted forged hellos + metamorphic permutation/GREASE variants + real handshakes through the full stack judged at a recording backend, race detector on",
         "As C01 for JA4; additionally every accepted base hello gets 4 (quick) / 12 (thorough) variants with permuted cipher and extension lists and GREASE inserted/moved/replaced, which must all yield the base value, and every value must have the a_b_c form. Held on the hellos produced.",
         "trusted: internal/hello JA4 reference (calibrated at start-up against the FoxIO snapshots in pkg/ja4pcap/testdata), crypto/tls as the domain predicate; ALPN bytes >= 0x80 are outside the judged domain; known classes D8 and D13 (utls strict extension parsers) are listed in KNOWN_FINDINGS.txt",
         "DESIGN.md §4 C02"),
 "C04": ("exploration",
         "runtime monitor: stream-prefix oracle over scripted cut schedules (declared lengths exhaustive, short-stream compositions exhaustive) + real TLS handshakes through a chopping conn",
         "Every run drives the real hack.HijackClientHelloConn between a scripted net.Conn and a reader and compares GetClientHello()/the bytes passed up with the stream prefix the property defines, after every single read. All declared lengths 0..18432 and all cut patterns of short streams are enumerated; the rest is PRNG driven. Held on the executions produced, nothing more.",
         "trusted: the 60-line oracle in checks/c04 (expect()), crypto/tls as the layer above for the round-trip part; reads that return bytes together with an error are judged for transparency only",
         "DESIGN.md §4 C04"),
 "C18": ("exploration",
         "runtime monitor: RFC 7541 reference decoder + encoder/decoder table equality through the verif hook + every/random fragmentation + byte-for-byte differential against golang.org/x/net/http2/hpack v0.19.0",
         "The real encoder and decoder of pkg/http2/hpack are run on generated header-list sequences with table-size schedules, and on valid, mutated, grammar-generated and random blocks; every block is decoded whole, with random cuts, with every single cut (<=40 bytes) and every composition (<=9 bytes) and compared with an independent reference decoder; tables and size invariants are read through the hook after every block. Held on the inputs generated; not a proof.",
         "trusted: internal/ref/hpack.go (calibrated at start-up against RFC 7541 C.4 and x/net v0.19.0; Huffman table derived from x/net v0.19.0's encoder); outcomes the RFC leaves open (mid-block size update, >2 leading updates, integers beyond 2^56) are not judged",
         "DESIGN.md §4 C18"),
 "C20": ("exploration",
         "runtime monitor: list-based reference scheduler mirrored op by op + structural walk of the priority tree / round-robin ring through the verif hook after every operation",
         "Random operation sequences permitted by the WriteScheduler interface are applied to the real round-robin, random and priority schedulers (13 priority configurations); every Pop is judged against a FIFO reference (exactly-once, per-stream order, control first, window and frame-size limits, split pieces concatenate, 'nothing to write' only when nothing is sendable), the tree/ring is walked after every operation, and each sequence ends with a full drain. Held on the sequences generated.",
         "trusted: the reference in checks/c20 and the inspectors in pkg/http2/verif_export.go; sequences respect the documented preconditions of the interface",
         "DESIGN.md §4 C20"),
}
NA_REASON = "check not built yet in this phase (see DESIGN.md §7 build order); will be claimed once its monitor exists and is silent on the unchanged tree"

hook_commits = subprocess.run(["git", "-C", "/repo", "log", "--format=%h %s", "--grep", "^verif hook"], capture_output=True, text=True).stdout.strip().splitlines()

m = {
 "version": 1,
 "setup_cmd": "./setup.sh",
 "hooks": {
   "guard": "verif",
   "enable": "go build -tags verif (every check is built by ./check with `-tags verif`, race detector on for the concurrent checks) against /repo through the module replace in /verif/go.mod",
   "baseline_off_cmd": "cd /repo && GOFLAGS=-mod=mod GOPROXY=off GOSUMDB=off GOTOOLCHAIN=local go test -vet=off -count=1 -timeout 25m ./...",
   "source_commits": [c.split()[0] for c in hook_commits],
   "add_only": True,
 },
 "engines": [
   {"name": "check", "path": "check", "serves_properties": sorted(CHECKS), "kind_free_text": "driver: rebuilds checks/<id> from /repo's working tree with -tags verif (+ -race), runs it under a watchdog, converts race-detector reports into violations"},
 ],
 "checks": [],
 "not_applicable": [],
 "notes": "Technique family: runtime monitoring and sanitizers. See DESIGN.md. Known findings and fixed defects: KNOWN_FINDINGS.txt.",
}
for pid in props:
    if pid in CHECKS:
        cat, tech, text, note, ref = CHECKS[pid]
        m["checks"].append({
          "property_id": pid,
          "quick_cmd": f"./check {pid} quick",
          "thorough_cmd": f"./check {pid} thorough",
          "evidence_file": f"/verif/evidence/{pid}.json",
          "replay_cmd_template": f"./check {pid} --replay {{path}}",
          "engine": "check",
          "level_claimed": {"category": cat, "text": text, "design_ref": ref},
          "level_note": note,
          "technique": tech,
        })
    else:
        m["not_applicable"].append({"property_id": pid, "reason": NA_REASON})
json.dump(m, open(os.path.join(ROOT, "MANIFEST.json"), "w"), indent=1)
print("checks:", len(m["checks"]), "not_applicable:", len(m["not_applicable"]))
