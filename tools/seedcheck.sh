#!/bin/bash
# usage: tools/seedcheck.sh <dir with patch.diff> <Cnn> [quick|thorough]
# Applies a seeded change to a scratch copy of /repo (never to /repo itself),
# checks that it still compiles, and runs the property's check against the copy.
set -u
D=$(readlink -f "$1"); ID=$2; TIER=${3:-quick}
export GOFLAGS=-mod=mod GOPROXY=off GOSUMDB=off GOTOOLCHAIN=local
S=$(mktemp -d /tmp/verif-seed-XXXXXX)
trap 'rm -rf "$S"' EXIT
rsync -a --exclude .git --exclude e2e --exclude seeded /repo/ "$S/repo/"
if ! (cd "$S/repo" && patch -p1 -s < "$D/patch.diff"); then echo "SEED $D: PATCH-DOES-NOT-APPLY"; exit 2; fi
if ! (cd "$S/repo" && go build ./... 2> "$S/build.err"); then echo "SEED $D: DOES-NOT-COMPILE"; head -5 "$S/build.err"; exit 2; fi
cd /verif
OUT=$(VERIF_REPO="$S/repo" VERIF_NO_EVIDENCE=1 ./check "$ID" "$TIER" 2>&1)
if echo "$OUT" | grep -q "^VIOLATION property=$ID"; then
  echo "SEED $D: CAUGHT by $ID $TIER: $(echo "$OUT" | grep -m1 'detail\[' | cut -c1-260)"
  exit 0
fi
echo "SEED $D: MISSED by $ID $TIER: $(echo "$OUT" | tail -2 | tr '\n' ' ' | cut -c1-300)"
exit 1
