//go:build verif

// victim is the proxy in its own process, used by the C10 check: a
// process-fatal panic then ends one batch, not the monitor. It composes the
// server through the real flag wiring (fingerproxy.VerifNewApp) in front of an
// in-process recording backend and takes commands on stdin:
//
//	arm <json plan>   the next accepted connection gets the plan
//	disarm            no plan for the connections that follow (control client)
//	quit
package main

import (
	"bufio"
	"crypto/tls"
	"encoding/json"
	"fmt"
	"io"
	"net"
	"net/http"
	"os"
	"runtime"
	"strings"
	"sync"
	"time"

	fingerproxy "github.com/wi1dcard/fingerproxy"
	fp "github.com/wi1dcard/fingerproxy/pkg/fingerprint"
	"github.com/wi1dcard/fingerproxy/pkg/http2"
	"github.com/wi1dcard/fingerproxy/pkg/metadata"
	"github.com/wi1dcard/fingerproxy/pkg/reverseproxy"

	"verif/internal/rig"
)

type plan struct {
	Fault *rig.FaultPlan `json:"fault,omitempty"`
	Panic string         `json:"panic,omitempty"` // callback that panics for the armed connection
}

var (
	mu        sync.Mutex
	armed     *plan
	taken     bool          // the armed plan's connection has been accepted
	caseAddr  string        // remote address of the case connection
	caseDone  chan struct{} // closed when the case connection's Close() was called by the server
	closedCbs int           // ConnState(StateClosed) callbacks seen for the case connection
)

// shouldPanic reports whether the named callback must panic now.
func shouldPanic(name string) bool {
	mu.Lock()
	defer mu.Unlock()
	return armed != nil && taken && armed.Panic == name
}

func victimArgs() []string {
	if os.Getenv("VICTIM_TIMEOUTS") == "short" { // read/write timers that fire while a stream is still open
		return []string{"-verbose", "-timeout-tls-handshake=8s", "-timeout-http-idle=8s", "-timeout-http-read=700ms", "-timeout-http-write=900ms"}
	}
	return []string{"-verbose", "-timeout-tls-handshake=8s", "-timeout-http-idle=8s", "-timeout-http-read=8s"}
}

type panicWriter struct{ w io.Writer }

func (p panicWriter) Write(b []byte) (int, error) {
	if shouldPanic("log-writer") {
		panic("injected panic in the log writer")
	}
	return p.w.Write(b)
}

func main() {
	sched := os.Getenv("VICTIM_SCHEDULER") // "", "priority", "random"
	be := rig.NewBackend(nil)
	bigChunk := make([]byte, 256<<10)
	be.PlanFor = func(r *http.Request, tag string) *rig.Plan {
		if strings.HasPrefix(r.URL.Path, "/big") { // a 48 MiB download, used to stall the proxy's socket writes
			p := &rig.Plan{Status: 200}
			for i := 0; i < 192; i++ {
				p.Chunks = append(p.Chunks, bigChunk)
			}
			return p
		}
		return nil
	}
	fingerproxy.GetHeaderInjectors = func() []reverseproxy.HeaderInjector {
		inj := fingerproxy.DefaultHeaderInjectors()
		inj = append(inj, fp.NewFingerprintHeaderInjector("X-Victim-Injector", func(*metadata.Metadata) (string, error) {
			if shouldPanic("header-injector") {
				panic("injected panic in a header injector")
			}
			return "ok", nil
		}))
		return inj
	}
	px, err := rig.StartProxy(be.URL, rig.ProxyOpts{
		Args: victimArgs(),
		Listener: func(l net.Listener) net.Listener {
			al := rig.NewAcctListener(l)
			al.PlanFor = func(i int, c net.Conn) *rig.FaultPlan {
				mu.Lock()
				defer mu.Unlock()
				if armed != nil && !taken {
					taken = true
					caseAddr = c.RemoteAddr().String()
					if ac, ok := c.(*rig.AcctConn); ok {
						caseDone = ac.Done
					}
					return armed.Fault
				}
				return nil
			}
			return al
		},
		Tweak: func(app *fingerproxy.VerifApp) {
			cfg := app.TLSConfig
			getCert := cfg.GetCertificate
			cfg.GetCertificate = func(chi *tls.ClientHelloInfo) (*tls.Certificate, error) {
				if shouldPanic("GetCertificate") {
					panic("injected panic in GetCertificate")
				}
				return getCert(chi)
			}
			cfg.GetConfigForClient = func(chi *tls.ClientHelloInfo) (*tls.Config, error) {
				if shouldPanic("GetConfigForClient") {
					panic("injected panic in GetConfigForClient")
				}
				return nil, nil
			}
			cfg.VerifyConnection = func(cs tls.ConnectionState) error {
				if shouldPanic("VerifyConnection") {
					panic("injected panic in VerifyConnection")
				}
				return nil
			}
			app.Server.HTTPServer.ConnState = func(c net.Conn, st http.ConnState) {
				if st == http.StateClosed {
					mu.Lock()
					if c.RemoteAddr() != nil && c.RemoteAddr().String() == caseAddr {
						closedCbs++
					}
					mu.Unlock()
				}
				if shouldPanic("ConnState:" + st.String()) {
					panic("injected panic in the ConnState hook (" + st.String() + ")")
				}
			}
			inner := app.Server.HTTPServer.Handler
			if h, ok := inner.(*reverseproxy.HTTPHandler); ok {
				probe := h.IsProbeRequest
				h.IsProbeRequest = func(r *http.Request) bool {
					if shouldPanic("IsProbeRequest") {
						panic("injected panic in IsProbeRequest")
					}
					return probe != nil && probe(r)
				}
			}
			app.Server.HTTPServer.Handler = http.HandlerFunc(func(w http.ResponseWriter, r *http.Request) {
				if shouldPanic("handler") {
					panic("injected panic in the request handler")
				}
				inner.ServeHTTP(w, r)
			})
			switch sched {
			case "priority":
				app.Server.HTTP2Server.NewWriteScheduler = func() http2.WriteScheduler { return http2.NewPriorityWriteScheduler(nil) }
			case "random":
				app.Server.HTTP2Server.NewWriteScheduler = func() http2.WriteScheduler { return http2.NewRandomWriteScheduler() }
			}
		},
	})
	if err != nil {
		fmt.Println("error", err)
		os.Exit(3)
	}
	// verbose logs go through a writer that can be told to panic
	rig.Quiet(panicWriter{io.Discard})
	fmt.Printf("ready %s\n", px.Addr)
	sc := bufio.NewScanner(os.Stdin)
	sc.Buffer(make([]byte, 1<<20), 1<<20)
	for sc.Scan() {
		line := sc.Text()
		switch {
		case strings.HasPrefix(line, "arm "):
			var p plan
			if err := json.Unmarshal([]byte(line[4:]), &p); err != nil {
				fmt.Println("error", err)
				continue
			}
			mu.Lock()
			armed, taken, caseAddr, caseDone, closedCbs = &p, false, "", nil, 0
			mu.Unlock()
			fmt.Println("armed")
		case line == "disarm":
			// the plan stays armed until the server side has finished with the case connection
			// (its Close() was called and, for HTTP/1.1, the StateClosed callback has run)
			mu.Lock()
			done, was := caseDone, taken
			mu.Unlock()
			if was && done != nil {
				select {
				case <-done:
				case <-time.After(4 * time.Second):
				}
				for i := 0; i < 40; i++ {
					mu.Lock()
					n := closedCbs
					mu.Unlock()
					if n > 0 {
						break
					}
					time.Sleep(5 * time.Millisecond)
				}
			}
			mu.Lock()
			armed, taken, caseDone, closedCbs = nil, false, nil, 0
			mu.Unlock()
			fmt.Printf("disarmed %d\n", be.Count())
		case line == "census":
			// goroutines of the proxy (serving connections, HTTP/2 server loops, hand-over conns)
			n, stacks := rig.Census("fingerproxy/pkg/proxyserver", "fingerproxy/pkg/http2.(*serverConn)", "fingerproxy/pkg/hack")
			last := ""
			if len(stacks) > 0 {
				last = strings.ReplaceAll(stacks[len(stacks)-1], "\n", " | ")
			}
			fmt.Printf("census %d %s\n", n, last)
		case line == "heap":
			// live heap after a collection (what the process keeps, not what it has churned through)
			runtime.GC()
			var ms runtime.MemStats
			runtime.ReadMemStats(&ms)
			fmt.Printf("heap %d\n", ms.HeapInuse)
		case line == "quit":
			os.Exit(0)
		}
	}
	// parent went away
	os.Exit(0)
}
