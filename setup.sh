#!/bin/bash
# Builds everything the registered checks need from files on disk only (offline).
set -e
cd "$(dirname "$0")"
export GOFLAGS=-mod=mod GOPROXY=off GOSUMDB=off GOTOOLCHAIN=local
mkdir -p bin evidence replays
# warm the build cache: every registered check, with the flags ./check uses
for ID in $(jq -r '.checks[].property_id' MANIFEST.json); do
  id=$(echo "$ID" | tr 'A-Z' 'a-z')
  race="-race"
  case "$id" in c04|c18|c19|c20) race="" ;; esac
  [ -f "checks/$id/norace" ] && race=""
  go build $race -tags verif -o /dev/null "./checks/$id" || { echo "setup: build of $id failed"; exit 1; }
done
echo "setup ok"
