#!/bin/bash
# Builds everything the checks need from files on disk only (offline).
set -e
cd "$(dirname "$0")"
export GOFLAGS=-mod=mod GOPROXY=off GOSUMDB=off GOTOOLCHAIN=local
mkdir -p bin evidence replays
# warm the build cache: every check, with the flags ./check uses
for d in checks/*/; do
  id=$(basename "$d")
  race="-race"
  case "$id" in c04|c18|c19|c20) race="" ;; esac
  [ -f "$d/norace" ] && race=""
  go build $race -tags verif -o /dev/null "./$d" || { echo "setup: build of $id failed"; exit 1; }
done
echo "setup ok"
