#!/usr/bin/env python3
"""Mutation self-test of the monitors (DESIGN.md §2.9).

Each mutant is a small, realistic source change to a scratch copy of /repo that
still compiles; the quick check of the named property must report a VIOLATION.
usage: mutants.py [Cnn ...] [-k substring]
"""
import os, shutil, subprocess, sys, tempfile, json, time

M = []
def mut(prop, name, file, old, new, count=1):
    M.append(dict(prop=prop, name=name, file=file, old=old, new=new, count=count))

# ---- C04
mut("C04", "no-truncate", "pkg/hack/hajack_clienthello_conn.go",
    "		c.buf.Truncate(c.expectedLen)\n", "")
mut("C04", "off-by-one-len", "pkg/hack/hajack_clienthello_conn.go",
    "c.expectedLen = recordHeaderLen + handshakeLen", "c.expectedLen = recordHeaderLen + handshakeLen - 1")
mut("C04", "header-at-4", "pkg/hack/hajack_clienthello_conn.go",
    "if bufLen < 5 {", "if bufLen < 4 {")
mut("C04", "lt-vs-le", "pkg/hack/hajack_clienthello_conn.go",
    "	if bufLen < c.expectedLen {\n		return false\n	}", "	if bufLen <= c.expectedLen {\n		return false\n	}")
mut("C04", "uint16-again", "pkg/hack/hajack_clienthello_conn.go",
    "c.expectedLen = recordHeaderLen + handshakeLen", "c.expectedLen = int(uint16(recordHeaderLen + handshakeLen))")
mut("C04", "no-type-check", "pkg/hack/hajack_clienthello_conn.go",
    "if recType != recordTypeHandshake {", "if false {")
mut("C04", "read-modifies", "pkg/hack/hajack_clienthello_conn.go",
    "			c.hijackClientHello(b[:n])\n", "			c.hijackClientHello(b[:n])\n			if n > 6 && c.buf.Len() > 3000 {\n				b[6] ^= 1\n			}\n")
# ---- C20
mut("C20", "ignore-maxframe", "pkg/http2/writesched.go",
    "	if wr.stream.sc.maxFrameSize < allowed {\n		allowed = wr.stream.sc.maxFrameSize\n	}\n", "")
mut("C20", "undo-D7-fix", "pkg/http2/writesched_priority.go",
    "			if n == curr {\n", "			if false && n == curr {\n")
mut("C20", "rr-head-not-advanced-on-close", "pkg/http2/writesched_roundrobin.go",
    "		if ws.head == q {\n			ws.head = q.next\n		}\n", "")
mut("C20", "endstream-on-split", "pkg/http2/writesched.go",
    "				endStream: false,\n", "				endStream: wd.endStream,\n")
mut("C20", "rest-loses-a-byte", "pkg/http2/writesched.go",
    "				p:         wd.p[allowed:],", "				p:         wd.p[min(int(allowed)+1, len(wd.p)):],")
mut("C20", "control-after-data-random", "pkg/http2/writesched_random.go",
    "	if !ws.zero.empty() {\n		return ws.zero.shift(), true\n	}\n	// Iterate", "	if !ws.zero.empty() && len(ws.sq) == 0 {\n		return ws.zero.shift(), true\n	}\n	// Iterate")
mut("C20", "exclusive-cycle", "pkg/http2/writesched_priority.go",
    "			parent.setParent(n.parent)\n			break\n", "			break\n")
mut("C20", "closed-removal-drops-kids", "pkg/http2/writesched_priority.go",
    "	for n.kids != nil {\n		n.kids.setParent(n.parent)\n	}\n	n.setParent(nil)", "	n.setParent(nil)")
mut("C20", "prio-pop-skips-zero-window-sibling", "pkg/http2/writesched_priority.go",
    "		wr, ok = n.q.consume(limit)\n		if !ok {\n			return false\n		}", "		wr, ok = n.q.consume(limit)\n		if !ok {\n			return n.id%8 == 5\n		}")

# ---- C18
mut("C18", "undo-D6", "pkg/http2/hpack/hpack.go",
    "		if !isSizeUpdate {\n			d.firstField = false\n		}", "		_ = isSizeUpdate\n		d.firstField = false")
mut("C18", "undo-D15", "pkg/http2/hpack/encode.go",
    "		if v < e.minSize {\n			e.minSize = v\n		}\n		e.tableSizeUpdate = true\n		e.dynTab.setMaxSize(v)\n	}\n}\n\n// shouldIndex", "		e.tableSizeUpdate = true\n		e.dynTab.setMaxSize(v)\n	}\n}\n\n// shouldIndex")
mut("C18", "evict-ge", "pkg/http2/hpack/hpack.go",
    "for dt.size > dt.maxSize && n < dt.table.len() {", "for dt.size >= dt.maxSize && n < dt.table.len() {")
mut("C18", "index-off-by-one", "pkg/http2/hpack/hpack.go",
    "	if i > uint64(d.maxTableIndex()) {\n		return\n	}", "	if i > uint64(d.maxTableIndex())+1 {\n		return\n	}")
mut("C18", "sensitive-lost", "pkg/http2/hpack/hpack.go",
    "	hf.Sensitive = it.sensitive()\n", "	hf.Sensitive = it.sensitive() && len(hf.Value) < 20\n")
mut("C18", "size-update-unchecked", "pkg/http2/hpack/hpack.go",
    "	if size > uint64(d.dynTab.allowedMaxSize) {", "	if size > uint64(d.dynTab.allowedMaxSize)+4096 {")
mut("C18", "huffman-padding-unchecked", "pkg/http2/hpack/huffman.go",
    "	if mask := uint(1<<cbits - 1); cur&mask != mask {", "	if mask := uint(1<<cbits - 1); cbits < 3 && cur&mask != mask {")
mut("C18", "encoder-indexes-sensitive", "pkg/http2/hpack/encode.go",
    "	return !f.Sensitive && f.Size() <= e.dynTab.maxSize", "	return f.Size() <= e.dynTab.maxSize")
mut("C18", "encoder-index-too-big", "pkg/http2/hpack/encode.go",
    "	return !f.Sensitive && f.Size() <= e.dynTab.maxSize", "	return !f.Sensitive && f.Size() <= e.dynTab.maxSize+8")
mut("C18", "savebuf-drops-byte-on-long-fragment", "pkg/http2/hpack/hpack.go",
    "			d.saveBuf.Write(d.buf)\n			return len(p), nil", "			if len(d.buf) > 70 {\n				d.buf = d.buf[:len(d.buf)-1]\n			}\n			d.saveBuf.Write(d.buf)\n			return len(p), nil")
mut("C18", "literal-never-indexed-as-indexed", "pkg/http2/hpack/hpack.go",
    "		return d.parseFieldLiteral(4, indexedNever)", "		return d.parseFieldLiteral(4, indexedFalse)")

# ---- C14
CW = "pkg/certwatcher/certwatcher.go"
mut("C14", "swap-before-validation", CW,
    "	if err != nil {\n		return err\n	}\n\n	cw.Lock()\n	cw.currentCert = &cert\n	cw.Unlock()\n",
    "	cw.Lock()\n	cw.currentCert = &cert\n	cw.Unlock()\n	if err != nil {\n		return err\n	}\n")
mut("C14", "no-rewatch-after-remove", CW,
    "	if isRemove(event) {\n		if err := cw.watcher.Add(event.Name); err != nil {", "	if false && isRemove(event) {\n		if err := cw.watcher.Add(event.Name); err != nil {")
mut("C14", "only-cert-path-events", CW,
    "	vlogf(\"certificate event: %s\", event)\n", "	vlogf(\"certificate event: %s\", event)\n	if event.Name != cw.certPath {\n		return\n	}\n")
mut("C14", "ignore-remove-events", CW,
    "	if !(isWrite(event) || isRemove(event) || isCreate(event)) {", "	if !(isWrite(event) || isCreate(event)) {")
mut("C14", "ignore-write-events", CW,
    "	if !(isWrite(event) || isRemove(event) || isCreate(event)) {", "	if !(isRemove(event) || isCreate(event)) {")
mut("C14", "key-half-cached-only-cert-reloaded", CW,
    "	cw.Lock()\n	cw.currentCert = &cert\n", "	cw.Lock()\n	if cw.currentCert != nil {\n		cert.PrivateKey = cw.currentCert.PrivateKey\n	}\n	cw.currentCert = &cert\n")
mut("C14", "no-lock-around-currentCert-write", CW,
    "	cw.Lock()\n	cw.currentCert = &cert\n	cw.Unlock()\n", "	cw.currentCert = &cert\n")
mut("C14", "no-rlock-in-GetCertificate", CW,
    "	cw.RLock()\n	defer cw.RUnlock()\n	return cw.currentCert, nil", "	return cw.currentCert, nil")
mut("C14", "rewatch-only-reload-skipped-on-remove", CW,
    "			logf(\"error re-watching file: %s\", err)\n		}\n	}\n", "			logf(\"error re-watching file: %s\", err)\n		}\n		return\n	}\n")
mut("C14", "key-write-events-ignored", CW,
    "	if err := cw.ReadCertificate(); err != nil {\n		logf(\"error re-reading certificate: %s\", err)\n	}\n}",
    "	if event.Name == cw.keyPath && !isRemove(event) {\n		return\n	}\n	if err := cw.ReadCertificate(); err != nil {\n		logf(\"error re-reading certificate: %s\", err)\n	}\n}")
mut("C14", "tlsconfig-pins-first-certificate", "fingerproxy.go",
    "		GetCertificate: cw.GetCertificate,\n", "		GetCertificate: func() func(*tls.ClientHelloInfo) (*tls.Certificate, error) {\n			c, err := cw.GetCertificate(nil)\n			return func(*tls.ClientHelloInfo) (*tls.Certificate, error) { return c, err }\n		}(),\n")
mut("C14", "start-watches-cert-only", CW,
    "	files := []string{cw.certPath, cw.keyPath}\n", "	files := []string{cw.certPath}\n")

# ---- C01
mut("C01", "groups-grease-not-filtered", "pkg/ja3/ja3.go",
    "		for _, e := range hello.SupportedGroups[:lastElem] {\n			// filter GREASE values\n			if !greaseValues[uint16(e)] {", "		for _, e := range hello.SupportedGroups[:lastElem] {\n			// filter GREASE values\n			if true {")
mut("C01", "ext-trailing-dash", "pkg/ja3/ja3.go",
    "		if !greaseValues[uint16(hello.AllExtensions[lastElem])] {\n			buffer = strconv.AppendInt(buffer, int64(hello.AllExtensions[lastElem]), 10)\n		}\n	}\n	buffer = bytes.TrimSuffix(buffer, []byte{sepValueByte})", "		if !greaseValues[uint16(hello.AllExtensions[lastElem])] {\n			buffer = strconv.AppendInt(buffer, int64(hello.AllExtensions[lastElem]), 10)\n		}\n	}")
mut("C01", "record-version", "pkg/ja3/ja3.go",
    "strconv.AppendInt(buffer, int64(hello.HandshakeVersion), 10)", "strconv.AppendInt(buffer, int64(hello.Version), 10)")
mut("C01", "grease-table-misses-one", "pkg/ja3/ja3.go",
    "		0xcaca: true, 0xdada: true,", "		0xcaca: true,")
mut("C01", "h1-no-clienthello", "pkg/proxyserver/proxyserver.go",
    "		md.ClientHelloRecord = conn.ClientHelloRecord\n", "")
mut("C01", "ja3-cached-across-conns", "pkg/fingerprint/fingerprint.go",
    "	fp := ja3.DigestHex(hellobasic)\n", "	if ja3Cache == \"\" || len(data.ClientHelloRecord)%16 != 3 {\n		ja3Cache = ja3.DigestHex(hellobasic)\n	}\n	fp := ja3Cache\n")
mut("C01", "ja3-cached-across-conns", "pkg/fingerprint/fingerprint.go",
    "var (\n	VerboseLogs bool", "var ja3Cache string\n\nvar (\n	VerboseLogs bool")
mut("C01", "wrong-injector-func", "fingerproxy.go",
    'fp.NewFingerprintHeaderInjector("X-JA3-Fingerprint", fp.JA3Fingerprint)', 'fp.NewFingerprintHeaderInjector("X-JA3-Fingerprint", fp.JA4Fingerprint)')
mut("C01", "points-last-dropped-when-3", "pkg/ja3/ja3.go",
    "	if lastElem != -1 {\n		buffer = strconv.AppendInt(buffer, int64(hello.SupportedPoints[lastElem]), 10)\n	}", "	if lastElem != -1 && lastElem != 2 {\n		buffer = strconv.AppendInt(buffer, int64(hello.SupportedPoints[lastElem]), 10)\n	}")
# ---- C02
mut("C02", "extensions-not-sorted", "pkg/ja4/ja4.go",
    "	if !keepOriginalOrder {\n		sortUint16(extensions)\n	}", "")
mut("C02", "sigalgs-sorted", "pkg/ja4/ja4.go",
    "	j.SignatureAlgorithms = algo", "	sortUint16(algo)\n	j.SignatureAlgorithms = algo")
mut("C02", "sni-not-excluded", "pkg/ja4/ja4.go",
    "			if _, ok := e.(*utls.SNIExtension); ok {\n				continue\n			}\n			if _, ok := e.(*utls.ALPNExtension)", "			if _, ok := e.(*utls.ALPNExtension)")
mut("C02", "no-cap-99", "pkg/ja4/types.go",
    'func (x numberOfExtensions) String() string   { return fmt.Sprintf("%02d", min(x, 99)) }', 'func (x numberOfExtensions) String() string   { return fmt.Sprintf("%02d", x) }')
mut("C02", "hex-width", "pkg/ja4/helper.go",
    'fmt.Sprintf("%04x", u)', 'fmt.Sprintf("%x", u)')
mut("C02", "grease-loose", "pkg/ja4/helper.go",
    "	return ((v >> 8) == v&0xff) && v&0xf == 0xa", "	return v&0xf == 0xa && (v>>8)&0xf == 0xa")
mut("C02", "version-from-legacy", "pkg/ja4/ja4.go",
    "	if chs.TLSVersMax == 0 {", "	if chs.TLSVersMax == 0 && len(chs.CipherSuites) > 30 {")
mut("C02", "grease-counted", "pkg/ja4/ja4.go",
    "		if !isGREASEUint16(c) {\n			n++\n		}", "		_ = c\n		n++")
mut("C02", "undo-D10", "pkg/ja4/ja4.go",
    "	if len(alpn) > 2 || len(alpn) == 1 {", "	if len(alpn) > 2 {")
mut("C02", "alpn-last-ext-wins-not-first-proto", "pkg/ja4/ja4.go",
    "				alpn = a.AlpnProtocols[0]", "				alpn = a.AlpnProtocols[len(a.AlpnProtocols)-1]")
mut("C02", "ciphers-dedup", "pkg/ja4/ja4.go",
    "		cipherSuites = append(cipherSuites, c)\n", "		if len(cipherSuites) == 0 || cipherSuites[len(cipherSuites)-1] != c {\n			cipherSuites = append(cipherSuites, c)\n		}\n")

# ---- C19
mut("C19", "data-padding-check-off-by-one", "pkg/http2/frame.go",
    "	if int(padSize) > len(payload) {", "	if int(padSize) >= len(payload) {")
mut("C19", "headers-padding-check-off-by-one", "pkg/http2/frame.go",
    "	if len(p)-int(padLength) < 0 {", "	if len(p)-int(padLength) <= 0 {")
mut("C19", "headers-priority-dep-mask-wrong", "pkg/http2/frame.go",
    "		hf.Priority.StreamDep = v & 0x7fffffff", "		hf.Priority.StreamDep = v & 0x3fffffff")
mut("C19", "priority-frame-exclusive-bit-lost-on-write", "pkg/http2/frame.go",
    "	v := p.StreamDep\n	if p.Exclusive {\n		v |= 1 << 31\n	}\n", "	v := p.StreamDep\n")
mut("C19", "window-update-reserved-bit-not-masked", "pkg/http2/frame.go",
    "	inc := binary.BigEndian.Uint32(p[:4]) & 0x7fffffff // mask off high reserved bit", "	inc := binary.BigEndian.Uint32(p[:4])")
mut("C19", "settings-length-check-removed", "pkg/http2/frame.go",
    "	if len(p)%6 != 0 {", "	if false {")
mut("C19", "settings-ack-with-payload-accepted", "pkg/http2/frame.go",
    "	if fh.Flags.Has(FlagSettingsAck) && fh.Length > 0 {", "	if false {")
mut("C19", "continuation-stream-check-removed", "pkg/http2/frame.go",
    "		if fh.StreamID != fr.lastHeaderStream {", "		if false {")
mut("C19", "unexpected-continuation-accepted", "pkg/http2/frame.go",
    "	} else if fh.Type == FrameContinuation {\n		return fr.connError(ErrCodeProtocol, fmt.Sprintf(\"unexpected CONTINUATION", "	} else if false {\n		return fr.connError(ErrCodeProtocol, fmt.Sprintf(\"unexpected CONTINUATION")
mut("C19", "max-read-size-ge", "pkg/http2/frame.go",
    "	if fh.Length > fr.maxReadSize {", "	if fh.Length >= fr.maxReadSize {")
mut("C19", "max-read-size-off-by-one-up", "pkg/http2/frame.go",
    "	if fh.Length > fr.maxReadSize {", "	if fh.Length > fr.maxReadSize+1 {")
mut("C19", "goaway-debug-data-truncated", "pkg/http2/frame.go",
    "		debugData:    p[8:],", "		debugData:    p[8:min(len(p), 72)],")
mut("C19", "goaway-last-stream-not-masked-on-write", "pkg/http2/frame.go",
    "	f.writeUint32(maxStreamID & (1<<31 - 1))", "	f.writeUint32(maxStreamID)")
mut("C19", "ping-on-stream-accepted", "pkg/http2/frame.go",
    "	if fh.StreamID != 0 {\n		countError(\"frame_ping_has_stream\")", "	if false {\n		countError(\"frame_ping_has_stream\")")
mut("C19", "rst-stream-longer-payload-accepted", "pkg/http2/frame.go",
    "	if len(p) != 4 {\n		countError(\"frame_rststream_bad_len\")", "	if len(p) < 4 {\n		countError(\"frame_rststream_bad_len\")")
mut("C19", "stream-id-reserved-bit-not-masked", "pkg/http2/frame.go",
    "		StreamID: binary.BigEndian.Uint32(buf[5:]) & (1<<31 - 1),", "		StreamID: binary.BigEndian.Uint32(buf[5:]),")
mut("C19", "empty-pad-not-flagged-on-write", "pkg/http2/frame.go",
    "	if pad != nil {", "	if len(pad) > 0 {", count=2)
mut("C19", "pseudo-after-regular-accepted", "pkg/http2/frame.go",
    "			if sawRegular {\n				invalid = errPseudoAfterRegular", "			if false && sawRegular {\n				invalid = errPseudoAfterRegular")
mut("C19", "write-length-boundary", "pkg/http2/frame.go",
    "	if length >= (1 << 24) {", "	if length > (1 << 24) {")
mut("C19", "push-promise-id-not-masked", "pkg/http2/frame.go",
    "	pp.PromiseID = pp.PromiseID & (1<<31 - 1)\n", "")
mut("C19", "initial-window-size-check-removed", "pkg/http2/frame.go",
    "	if v, ok := f.Value(SettingInitialWindowSize); ok && v > (1<<31)-1 {", "	if v, ok := f.Value(SettingInitialWindowSize); ok && v > (1<<32)-1 {")
mut("C19", "window-update-zero-increment-wrong-code", "pkg/http2/frame.go",
    "		return nil, streamError(fh.StreamID, ErrCodeProtocol)\n	}\n	return &WindowUpdateFrame{", "		return nil, streamError(fh.StreamID, ErrCodeFlowControl)\n	}\n	return &WindowUpdateFrame{")

# ---- C15
mut("C15", "contains-instead-of-prefix", "pkg/reverseproxy/handler.go",
    'strings.HasPrefix(r.UserAgent(), "kube-probe/")', 'strings.Contains(r.UserAgent(), "kube-probe/")')
mut("C15", "prefix-without-slash", "pkg/reverseproxy/handler.go",
    'strings.HasPrefix(r.UserAgent(), "kube-probe/")', 'strings.HasPrefix(r.UserAgent(), "kube-probe")')
mut("C15", "case-insensitive", "pkg/reverseproxy/handler.go",
    'strings.HasPrefix(r.UserAgent(), "kube-probe/")', 'strings.HasPrefix(strings.ToLower(r.UserAgent()), "kube-probe/")')
mut("C15", "probe-also-forwarded", "pkg/reverseproxy/handler.go",
    "		w.Write([]byte(ProbeResponse))\n		return\n", "		w.Write([]byte(ProbeResponse))\n		go f.reverseProxy.ServeHTTP(discardWriter{}, req.Clone(context.Background()))\n		return\n")
mut("C15", "probe-also-forwarded", "pkg/reverseproxy/handler.go",
    'import (\n	"log"', 'import (\n	"context"\n	"log"')
mut("C15", "probe-also-forwarded", "pkg/reverseproxy/handler.go",
    "func IsKubernetesProbeRequest(", "type discardWriter struct{}\n\nfunc (discardWriter) Header() http.Header        { return http.Header{} }\nfunc (discardWriter) Write(b []byte) (int, error) { return len(b), nil }\nfunc (discardWriter) WriteHeader(int)             {}\n\nfunc IsKubernetesProbeRequest(")
mut("C15", "flag-ignored", "fingerproxy.go",
    "	if *flagEnableKubernetesProbe {", "	if true {")
mut("C15", "flag-inverted-default", "flags.go",
    'envWithDefaultBool("ENABLE_KUBERNETES_PROBE", true)', 'envWithDefaultBool("ENABLE_KUBERNETES_PROBE", false)')
mut("C15", "probe-only-for-get", "pkg/reverseproxy/handler.go",
    "	if f.IsProbeRequest != nil && f.IsProbeRequest(req) {", "	if f.IsProbeRequest != nil && req.Method != \"POST\" && f.IsProbeRequest(req) {")
mut("C15", "probe-status-204-on-h2", "pkg/reverseproxy/handler.go",
    "		w.WriteHeader(ProbeStatusCode)\n", "		if req.ProtoMajor == 2 && len(req.URL.Path) > 3 {\n			w.WriteHeader(204)\n			return\n		}\n		w.WriteHeader(ProbeStatusCode)\n")

# ---- C09
mut("C09", "client-xff-dropped", "pkg/reverseproxy/handler.go",
    '	r.Out.Header["X-Forwarded-For"] = r.In.Header["X-Forwarded-For"]\n', "")
mut("C09", "undo-D2", "pkg/proxyserver/proxyserver.go",
    "	if r.TLS == nil {\n		if md, ok", "	if r.TLS == nil && r.ProtoMajor == 2 {\n		if md, ok")
mut("C09", "xfh-from-out-host", "pkg/reverseproxy/handler.go",
    "	r.SetXForwarded()\n", '	r.SetXForwarded()\n	r.Out.Header.Set("X-Forwarded-Host", r.Out.Host)\n')
mut("C09", "client-xfp-wins", "pkg/reverseproxy/handler.go",
    "	r.SetXForwarded()\n", '	r.SetXForwarded()\n	if v := r.In.Header["X-Forwarded-Proto"]; len(v) > 0 {\n		r.Out.Header["X-Forwarded-Proto"] = v\n	}\n')
mut("C09", "forwarded-passed-on", "pkg/reverseproxy/handler.go",
    "	r.SetXForwarded()\n", '	r.SetXForwarded()\n	if v := r.In.Header["Forwarded"]; len(v) > 1 {\n		r.Out.Header["Forwarded"] = v\n	}\n')
mut("C09", "h1-remote-addr-is-local", "pkg/hack/tls_clienthello_conn.go",
    "func (c *TLSClientHelloConn) RemoteAddr() net.Addr               { return c.Conn.RemoteAddr() }", "func (c *TLSClientHelloConn) RemoteAddr() net.Addr               { return c.Conn.LocalAddr() }")
mut("C09", "xff-replaced-when-three-lines", "pkg/reverseproxy/handler.go",
    '	r.Out.Header["X-Forwarded-For"] = r.In.Header["X-Forwarded-For"]\n', '	if len(r.In.Header["X-Forwarded-For"]) < 3 {\n		r.Out.Header["X-Forwarded-For"] = r.In.Header["X-Forwarded-For"]\n	}\n')

# ---- C05
mut("C05", "undo-D1", "pkg/reverseproxy/handler.go",
    "		r.Out.Header.Del(k)\n", "")
mut("C05", "add-instead-of-set", "pkg/reverseproxy/handler.go",
    "			r.Out.Header.Set(k, v)", "			r.Out.Header.Add(k, v)")
mut("C05", "add-instead-of-set", "pkg/reverseproxy/handler.go",
    "		r.Out.Header.Del(k)\n", "		if len(r.Out.Header.Values(k)) > 4 {\n			r.Out.Header.Del(k)\n		}\n")
mut("C05", "delete-only-on-error", "pkg/reverseproxy/handler.go",
    "		r.Out.Header.Del(k)\n		if v, err := hj.GetHeaderValue(r.In); err != nil {\n", "		if v, err := hj.GetHeaderValue(r.In); err != nil {\n			r.Out.Header.Del(k)\n")
mut("C05", "case-sensitive-delete", "pkg/reverseproxy/handler.go",
    "		r.Out.Header.Del(k)\n", "		delete(r.Out.Header, k)\n")
mut("C05", "delete-on-inbound-not-outbound", "pkg/reverseproxy/handler.go",
    "		r.Out.Header.Del(k)\n", "		r.In.Header.Del(k)\n")
mut("C05", "empty-client-value-kept", "pkg/reverseproxy/handler.go",
    "		r.Out.Header.Del(k)\n", "		if r.Out.Header.Get(k) != \"\" {\n			r.Out.Header.Del(k)\n		}\n")
mut("C05", "h2-only-delete", "pkg/reverseproxy/handler.go",
    "		r.Out.Header.Del(k)\n", "		if r.In.ProtoMajor == 2 {\n			r.Out.Header.Del(k)\n		}\n")

def run(argv):
    props = [a for a in argv if a.startswith("C")]
    sub = None
    if "-k" in argv:
        sub = argv[argv.index("-k")+1]
    env = dict(os.environ, GOFLAGS="-mod=mod", GOPROXY="off", GOSUMDB="off", GOTOOLCHAIN="local")
    results = []
    groups = {}
    for m in M:
        groups.setdefault((m["prop"], m["name"]), []).append(m)
    for (prop_, name_), edits in groups.items():
        m = edits[0]
        if props and m["prop"] not in props: continue
        if sub and sub not in m["name"]: continue
        scratch = tempfile.mkdtemp(prefix="verif-mut-")
        try:
            dst = os.path.join(scratch, "repo")
            subprocess.run(["rsync", "-a", "--exclude", ".git", "--exclude", "e2e", "/repo/", dst + "/"], check=True)
            bad = False
            for e in edits:
                p = os.path.join(dst, e["file"])
                s = open(p).read()
                if s.count(e["old"]) < 1:
                    bad = True; break
                s = s.replace(e["old"], e["new"], e["count"])
                open(p, "w").write(s)
            if bad:
                results.append((m, "PATCH-DOES-NOT-APPLY", 0)); print(m["prop"], m["name"], "PATCH-DOES-NOT-APPLY"); continue
            b = subprocess.run(["go", "build", "./..."], cwd=dst, env=env, capture_output=True, text=True)
            if b.returncode != 0:
                results.append((m, "DOES-NOT-COMPILE", 0)); print(m["prop"], m["name"], "DOES-NOT-COMPILE", b.stderr[-300:]); continue
            t0 = time.time()
            e2 = dict(env, VERIF_REPO=dst, VERIF_NO_EVIDENCE="1")
            r = subprocess.run(["./check", m["prop"], "quick"], cwd="/verif", env=e2, capture_output=True, text=True)
            caught = "VIOLATION property=" + m["prop"] in r.stdout
            first = next((l for l in r.stdout.splitlines() if "detail[" in l), "")[:200]
            st = "CAUGHT" if caught else "MISSED(rc=%d)" % r.returncode
            results.append((m, st, time.time()-t0))
            print(m["prop"], m["name"], st, "%.0fs" % (time.time()-t0), first, flush=True)
        finally:
            shutil.rmtree(scratch, ignore_errors=True)
    # restore evidence written by mutant runs: re-run is the caller's business
    missed = [m["name"] for m, st, _ in results if not st.startswith("CAUGHT")]
    print("mutants: %d, caught: %d, not caught: %s" % (len(results), len(results)-len(missed), missed))

if __name__ == "__main__":
    run(sys.argv[1:])
